"""Table of claimed properties -> MANIFEST.json (bin/mkmanifest)."""

HOOK_COMMITS = ["612012a"]

COMMON_NOTE = ("Trusted: Lean 4.33 kernel; axioms limited to propext/Classical.choice/Quot.sound (audited with #print axioms on every run); "
               "the go/factx translator and the correspondence harness/generators/canonicalisers; Go's encoding/json, strconv, unicode/utf8 as executable "
               "references; Lean's compiler for the driver. Machine code (native SIMD blobs, JIT output) and the Go runtime are modelled, not verified: "
               "tied to the model by correspondence only.")

CLAIMS = {
    "C07": {
        "text": "Theorems over the REGENERATED error-excerpt arithmetic (calcBounds, AST description) prove for all sizes and positions that formatting an "
                "error cannot slice out of range (decoder) / is safe up to size+16 with a kernel-checked unsafe witness beyond (AST), and that the nesting "
                "budgets are finite; crash/hang/no-progress freedom of the real entry points is validated by the correspondence harness in sub-processes.",
        "note": COMMON_NOTE + " Goroutine stack exhaustion in Go-recursive traversals is outside what a Lean model exhibits; observed only by the deep-nesting runs.",
        "technique": "Lean 4 proof on source-translated functions (factx) + differential/crash correspondence",
    },
    "C18": {
        "text": "The option wiring (Config.Froze statements, option bit tables, setter masks, stock configs) is regenerated from source on every run and "
                "kernel-decided against the documented by-name table: complete, exact, injective, for all 2^17 configs at the wiring level; per-switch "
                "observable effects are stated as model relations and checked metamorphically against the real entry points.",
        "note": COMMON_NOTE,
        "technique": "Lean 4 proof (decide over regenerated finite tables) + metamorphic correspondence",
    },
    "C20": {
        "text": "Quote/unquote/HTML-escape/UTF-8 are modelled as total Lean functions with theorems for all byte strings; the native routines are tied to the "
                "model exhaustively on short inputs and by structured random inputs over every SIMD residue, in both instruction-set modes.",
        "note": COMMON_NOTE,
        "technique": "Lean 4 proof (induction over byte lists, exhaustive byte tables) + differential correspondence",
    },
}

CLAIMS["C19"] = {
    "text": "Exact big-number models of literal->float64/float32 rounding, integer range checks and shortest round-trip formatting with kernel-checked "
            "theorems (correct rounding as a relation in N with uniqueness, sign of zero, overflow iff, integer exactness iff, round trips) for all literals "
            "and values; the native Eisel-Lemire/Schubfach code and the JIT range checks are tied to the model and to strconv/encoding/json/math-big by "
            "correspondence over hard-case generators, in all four environment configurations.",
    "note": COMMON_NOTE + " fmt_shortest is partial (monotonicity of rounding not proved) and fmt_total (17/9 digits suffice) is a named assumption.",
    "technique": "Lean 4 proof (exact arithmetic, induction) + differential correspondence vs strconv/math-big",
}
CLAIMS["C10"] = {
    "text": "The tables sonic hands to the Go runtime are modelled and proved: pc-value varint tables round-trip through a model of the runtime's decoder for "
            "every well-formed table (with kernel-checked witnesses where the encoder loses information), stack-map bitmaps are exact for every builder "
            "program, and the frame layouts/arg pointer maps/stack-growth request regenerated from the two JIT assemblers are decided disjoint, in bounds and "
            "covering. GC scanning of live generated frames, preemption, stack copying and write barriers are NOT modelled: only exercised (GC-stress streams).",
    "note": COMMON_NOTE + " Partial by nature: no x86 or Go-runtime semantics; the runtime decoder is modelled for go1.23/amd64 and cross-checked against the real runtime.step via linkname.",
    "technique": "Lean 4 proof (round-trip induction; decide over regenerated frame facts) + correspondence with the real loader/runtime; GC stress as exploration",
}

NOT_CLAIMED = {}
