"""Table of claimed properties -> MANIFEST.json (bin/mkmanifest)."""

HOOK_COMMITS = ["612012a", "52c5ec9", "f8ba99f", "be6dc21"]

COMMON_NOTE = ("Trusted: Lean 4.33 kernel; axioms limited to propext/Classical.choice/Quot.sound (audited with #print axioms on every run); "
               "the go/factx translator and the correspondence harness/generators/canonicalisers; Go's encoding/json, strconv, unicode/utf8 as executable "
               "references; Lean's compiler for the driver. Machine code (native SIMD blobs, JIT output) and the Go runtime are modelled, not verified: "
               "tied to the model by correspondence only.")

CLAIMS = {
    "C07": {
        "text": "Theorems over the REGENERATED error-excerpt arithmetic (calcBounds, AST description) prove for all sizes and positions that formatting an "
                "error cannot slice out of range (decoder) / is safe up to size+16 with a kernel-checked unsafe witness beyond (AST), and that the nesting "
                "budgets are finite; crash/hang/no-progress freedom of the real entry points is validated by the correspondence harness in sub-processes.",
        "note": COMMON_NOTE + " Goroutine stack exhaustion in Go-recursive traversals is outside what a Lean model exhibits; observed only by the deep-nesting runs.",
        "technique": "Lean 4 proof on source-translated functions (factx) + differential/crash correspondence",
    },
    "C18": {
        "text": "The option wiring (Config.Froze statements, option bit tables, setter masks, stock configs) is regenerated from source on every run and "
                "kernel-decided against the documented by-name table: complete, exact, injective, for all 2^17 configs at the wiring level; per-switch "
                "observable effects are stated as model relations and checked metamorphically against the real entry points.",
        "note": COMMON_NOTE,
        "technique": "Lean 4 proof (decide over regenerated finite tables) + metamorphic correspondence",
    },
    "C20": {
        "text": "Quote/unquote/HTML-escape/UTF-8 are modelled as total Lean functions with theorems for all byte strings; the native routines are tied to the "
                "model exhaustively on short inputs and by structured random inputs over every SIMD residue, in both instruction-set modes.",
        "note": COMMON_NOTE,
        "technique": "Lean 4 proof (induction over byte lists, exhaustive byte tables) + differential correspondence",
    },
}

CLAIMS["C19"] = {
    "text": "Exact big-number models of literal->float64/float32 rounding, integer range checks and shortest round-trip formatting with kernel-checked "
            "theorems (correct rounding as a relation in N with uniqueness, sign of zero, overflow iff, integer exactness iff, round trips) for all literals "
            "and values; the native Eisel-Lemire/Schubfach code and the JIT range checks are tied to the model and to strconv/encoding/json/math-big by "
            "correspondence over hard-case generators, in all four environment configurations.",
    "note": COMMON_NOTE + " All C19 theorems are at full strength (fmt_shortest, fmt_total, notation included); the native Eisel-Lemire/Schubfach code is modelled by the exact specification, not verified.",
    "technique": "Lean 4 proof (exact arithmetic, induction) + differential correspondence vs strconv/math-big",
}
CLAIMS["C10"] = {
    "text": "The tables sonic hands to the Go runtime are modelled and proved: pc-value varint tables round-trip through a model of the runtime's decoder for "
            "every well-formed table (with kernel-checked witnesses where the encoder loses information), stack-map bitmaps are exact for every builder "
            "program, and the frame layouts/arg pointer maps/stack-growth request regenerated from the two JIT assemblers are decided disjoint, in bounds and "
            "covering. GC scanning of live generated frames, preemption, stack copying and write barriers are NOT modelled: only exercised (GC-stress streams).",
    "note": COMMON_NOTE + " Partial by nature: no x86 or Go-runtime semantics; the runtime decoder is modelled for go1.23/amd64 and cross-checked against the real runtime.step via linkname.",
    "technique": "Lean 4 proof (round-trip induction; decide over regenerated frame facts) + correspondence with the real loader/runtime; GC stress as exploration",
}

CLAIMS["C05"] = {
    "text": "Block-wise scanners parametric in the block widths are modelled over a partial memory (unmapped bytes fault); no_fault and content_only are proved "
            "for every placement, trailing content, alignment and width for the string/space/number/special-byte scanners, page-granular versions for the "
            "intentionally over-reading container skipper, and kernel-checked counter-witnesses where the C over-reads (leading-zero check, 4-byte literal "
            "compare). The assembled machine code is validated by hostile placement: every entry point on the heap, ending at a PROT_NONE page, and followed "
            "by plausible continuations, in both SIMD modes.",
    "note": COMMON_NOTE + " Partial by nature: Lean says nothing about what the machine code loads; the guard page observes it. The vector UTF-8 lookup algorithm is assumed sound (checked per case by the driver), advance_string_validate is not modelled.",
    "technique": "Lean 4 proof (memory-indexed scanner models, any block width) + guard-page placement correspondence",
}
CLAIMS["C06"] = {
    "text": "A heap-of-buffers model with owner tags (pool/caller/internal) of the encoder's copy-out/hand-over/pool logic, EncodeInto, indent, ast marshal and "
            "the decoder's copy rules, with an ownership invariant proved for every history, every sync.Pool choice, every growslice rounding and every native "
            "meeting the stated contract: returned bytes stable, no write outside capacity, output independent of capacity/prior contents/pool state, decoded "
            "values never alias the input. Histories are replayed on the real code with re-hashing of earlier results, guard pages behind capacities and scribbling.",
    "note": COMMON_NOTE + " Interleavings inside a call are not modelled (histories are sequences of whole calls; concurrent bursts only observe).",
    "technique": "Lean 4 proof (invariant by induction over operation histories) + history correspondence with guard pages",
}
CLAIMS["C13"] = {
    "text": "width_irrelevant theorems: for all block-width lists the scanners equal their scalar twin (space skipping, special-byte search, string end with "
            "escape carry, bracket counting, number skipping accept/length), so AVX2 and SSE builds are the same function at model level, with kernel-checked "
            "witnesses for the two places where they are not (uninitialised byte, error position of doubly malformed numbers); every op stream runs under both "
            "SONIC_MODE settings and must be bit-identical.",
    "note": COMMON_NOTE + " The mask bit tricks (odd-backslash carry, prefix xor) are specified by the carry automaton, not proved against the SIMD intrinsics.",
    "technique": "Lean 4 proof (block-width irrelevance by induction) + differential runs AVX2 vs SSE",
}
CLAIMS["C17"] = {
    "text": "Reader scripts (data, empty reads, data+EOF, errors), the stream decoder state machine and the stream encoder's write loop are modelled; chunking irrelevance, truncation-is-error, reader-error-after-values, progress and encoder delivery/first-failure are proved for all scripts about the repaired model, and a parametric Patched model (any subset of the five committed decoder repairs) is what the driver runs, so each repair is pinned by its own theorem/witness (negations on the pre-fix model are kernel-checked and replayed from the corpus). Real decoder/encoder run on the same scripted readers/writers next to encoding/json.",
    "note": COMMON_NOTE + " Native skip framing and sonic's number rule are tied by correspondence only; decodeAll = strict parse loop is tied by the specstd-vs-encoding/json firewall, not proved.",
    "technique": "Lean 4 proof (state-machine refinement to value-by-value decoding, generic in the inner decoder) + scripted reader/writer correspondence",
}

CLAIMS["C02"] = {
    "text": "Two byte-level inductive grammars (Strict = RFC 8259 as encoding/json.Valid, Structural = sonic's lenient string bodies) and a transliteration of the "
            "native validating state machine (frame stack, 4096 budget regenerated, number/string/literal scanners, trailing-space wrappers) with soundness, "
            "completeness, depth and totality theorems for ALL byte strings and budgets; every consuming API is run on grammar-generated documents with a length "
            "sweep over SIMD residues and single-edit malformations, judged by the two grammars and cross-checked with encoding/json.Valid.",
    "note": COMMON_NOTE + " The interface{}/struct decoders are judged by the grammars only; Get with a path is judged on the located value.",
    "technique": "Lean 4 proof (grammar <-> recogniser soundness/completeness by induction) + differential correspondence over every consuming API",
}
CLAIMS["C08"] = {
    "text": "Open-addressing program map and the RCU program cache are modelled (arbitrary hash function, arbitrary number of threads, executions = arbitrary "
            "schedules): invariant preserved by add/rehash, get-after-add, RCU invariant, linearizability of Get/Compute, one compile per publication, pool "
            "exclusivity - proved for every schedule. The atomicity the model assumes is re-read from pcache.go on every run; the real map/cache are driven with "
            "fabricated colliding keys through a verif hook and raced under -race; first-use races of fresh types are compared with sequential results.",
    "note": COMMON_NOTE + " Data races below the model's atomic steps and the Go memory model itself are only observed by -race runs (partial).",
    "technique": "Lean 4 proof (interleaving transition system invariants, any schedule) + hook-driven and -race correspondence",
}
CLAIMS["C09"] = {
    "text": "Lookup order independence for any insertion order/capacity/rehash count, the loader's result mapping, and the type-keyed cache as a history machine are "
            "modelled and proved, with kernel-checked negation witnesses where the faithful model is history dependent (cache keyed by type while the program depends on "
            "addressability) and the partial theorem under the forced hypothesis; the same probe set is executed in fresh processes after different preludes "
            "(permuted order, Pretouch variants and options, thousands of filler types, same-named types, recursive types) and must be identical and equal to encoding/json.",
    "note": COMMON_NOTE + " After the loader and cache-key repairs load_maps_back and history_independence hold at full strength on the current model; the pre-fix models are kept as labelled regression witnesses; source-shape ties watch the three code sites.",
    "technique": "Lean 4 proof (order independence by induction; history machine) + fresh-process history correspondence",
}
CLAIMS["C14"] = {
    "text": "A byte-level searcher (get_by_path control flow, fast bracket/quote skipper) and an ordered-tree locate spec with full-strength theorems for all valid "
            "documents and paths: the fast skipper agrees with the grammar, search = locate, raw slice parses to the located subtree, failure classes, option "
            "irrelevance, views agree, Preorder = flattening. Real Get/GetWithOptions/Node APIs (8 option sets, both SIMD modes) are compared with a first-occurrence "
            "token walker over encoding/json.",
    "note": COMMON_NOTE + " match_key's piecewise unescape loop, the lazy Go loader behind Node.Get/Index and float accessors are tied by correspondence only.",
    "technique": "Lean 4 proof (skipper/grammar agreement, search = locate by induction) + differential correspondence",
}
CLAIMS["C15"] = {
    "text": "ast.Node's hidden representations (raw, lazy, loaded with soft deletion, hash index) are modelled op by op and proved to refine a plain ordered tree for "
            "every finite operation sequence under an explicit safeStep guard; for each excluded point the negation of the full statement is kernel-checked on a "
            "minimal sequence and replayed on the real node (known findings). Real nodes are driven with generated operation sequences and compared with the tree spec.",
    "note": COMMON_NOTE + " After the four committed repairs the refinement excludes only Len() on a raw or lazily loaded node (documented laziness, listed as a known finding); chunk layer: At/Set/Push/Pop proved, MoveOne not; StrHash assumed collision-free in the model.",
    "technique": "Lean 4 proof (refinement by induction over operation sequences, negation witnesses) + operation-sequence correspondence",
}
CLAIMS["C16"] = {
    "text": "Per-method access-discipline facts (atomic calls, lock calls, plain field accesses, in order) are regenerated from ast/*.go on every run; thread programs are "
            "derived from them and, over an interleaving model with happens-before tracking, no torn read / no data race / agreement with sequential are proved for all "
            "disciplined systems and schedules; the regenerated programs of the documented read operations are decided disciplined. Shared nodes are read by many "
            "goroutines under -race and compared with single-threaded results.",
    "note": COMMON_NOTE + " Lazy nodes and children are argued as instances of the one-node protocol; memory model below atomics/mutexes not modelled (partial).",
    "technique": "Lean 4 proof (interleaving model, discipline => race freedom) over source-regenerated access facts + -race correspondence",
}

CLAIMS["C01"] = {
    "text": "Two models of Unmarshal over a universe of Go types (scalars of every width, pointers, slices, arrays, structs with tags/,string, maps with every key kind, "
            "interface{}, json.Number, RawMessage, []byte): Bind.decode = parse-then-bind written after encoding/json, Stream.decode = single-pass type-directed decoding "
            "with structural skipping as sonic's JIT does it; stream_eq_bind proves them equal (value and error kind) on every document the strict parser accepts, for "
            "every option set and type, plus field-lookup, duplicate-key, integer-exactness (iff), null and array theorems. The JIT decoder's own program is modelled too: "
            "compile (transliterated from jitdec/compiler.go; disassembly byte-identical to the real compiler on every generated type through a verif hook) and an abstract "
            "machine exec with exec(compile T) = Stream.decode on every strictly valid document for a sub-universe, value-stack balance and the depth error. Generated "
            "(type, document, config) cases are run through sonic, encoding/json and the models.",
    "note": COMMON_NOTE + " Library (method-carrying/recursive) types and embedded structs are outside the decode models and judged by encoding/json alone; float values come from the exact Num model (C19); "
            "the decoder-IR theorem covers bool/ints/floats/strings/pointers/slices/arrays/structs (maps, interface{}, ,string fields are in the machine only) and the accepting direction on malformed input.",
    "technique": "Lean 4 proof (single-pass decoder = parse-then-bind specification; compiler correctness of the decoder IR) + disassembly tie + three-voice differential correspondence",
}
CLAIMS["C11"] = {
    "text": "The alternative decoder is the parse-then-bind architecture and the default one the streaming architecture of the C01 models, so decoders_agree_on_valid and "
            "both_reject_malformed are corollaries of stream_eq_bind and the grammar theorems; the same (type, document, option) streams run under the default decoder, "
            "SONIC_USE_OPTDEC and SONIC_USE_OPTDEC+SONIC_USE_FASTMAP and must agree pairwise on valid documents and all reject malformed ones.",
    "note": COMMON_NOTE,
    "technique": "Lean 4 proof (architecture equivalence as corollary of stream_eq_bind) + differential runs across the three decoder configurations",
}
CLAIMS["C03"] = {
    "text": "Enc.encode is a specification of Marshal written after encoding/json (field resolution, omitempty/omitzero/,string, map key rendering and sorting, callbacks, base64, interface re-dispatch, all nine switches) with theorems on field order, omitempty, sorted keys as a permutation, and that sonic's and encoding/json's escape spellings denote the same bytes for every byte string; the real compiler's program is tied to a Lean compile/exec model proved equal to the specification on a large sub-universe (see C12). sonic's and encoding/json's outputs on generated (type, value) cases are compared token-wise in Lean (string literals after unquoting, numbers byte-equal) and against the model.",
    "note": COMMON_NOTE + " Outside the compiler-correctness theorem: callback library types, embedded fields, bool/float map keys (tied by correspondence).",
    "technique": "Lean 4 proof (properties of the encoding specification) + three-voice differential correspondence with token comparison decided in Lean",
}
CLAIMS["C04"] = {
    "text": "For every option set, type and value: a successful Enc.encode yields exactly one value the strict parser accepts with no trailing bytes (encode_wellformed, "
            "encode_is_one_value); unrepresentable values are errors, never bytes; callback/RawMessage text enters only through the strict parser; round trip proved for a "
            "sub-universe. Real Marshal output is validated, decoded back with sonic and encoding/json and compared bit for bit, over all encoder option sets.",
    "note": COMMON_NOTE + " roundtrip is partial (floats, maps, []byte, interface{}, option-bearing fields missing).",
    "technique": "Lean 4 proof (well-formedness of the encoding specification by induction) + round-trip correspondence over option sets",
}
CLAIMS["C12"] = {
    "text": "The encoder's intermediate representation is modelled: compile (transliterated from compiler.go, disassembly byte-identical to the real compiler on every generated type through a verif hook) and exec (transliterated from the interpreter) with a compiler-correctness theorem exec(compile T) = Enc.encode on a sub-universe that includes interface{}, integer-keyed and string-keyed maps, omitempty/omitzero/,string, EncOnlyOmitNull and the recursive named types, plus stack balance, too-deep-is-error and inline-depth irrelevance; both real back ends consume that same program; a regenerated-fact theorem states that the x86 assembler and the interpreter handle the same opcodes, test the same option bits and call corresponding helper pairs, and the Go fallbacks the interpreter uses are proved equal to the specification's formatting. Every C03/C04 stream runs under the JIT and SONIC_ENCODER_USE_VM and must be byte-identical or both fail.",
    "note": COMMON_NOTE + " The x86 instruction sequences themselves are tied by differential runs only; callback library types and bool/float map keys are in the machine but outside the theorem.",
    "technique": "Lean 4 proof (fallback routines = specification) + differential runs JIT vs VM",
}

NOT_CLAIMED = {}


# ---- wave 4 additions to the level texts (appended so that the per-property entries above stay as written)
def _add(k, s):
    CLAIMS[k]["text"] = CLAIMS[k]["text"].rstrip() + " " + s


_add("C02", "Wave 3: the native skip/validate stack machine is also given as a fuel-free transition system with the invariant "
            "fsm_config_iff (a configuration empties its stack iff the rest of the input is a text of the continuation its stack denotes), "
            "the shared recursive-descent parser is proved to accept exactly the Strict grammar, and the generic (interface{}) decoder's "
            "state x token table is re-read from generic_regabi_amd64.go on every run and proved to accept exactly the token grammar; "
            "whitespace-rich documents run in history pairs under both decoder configurations.")
_add("C03", "Wave 4: Model/EncStd.lean is a second, separately written byte-level specification transcribed from encoding/json's own rules; "
            "it must equal the REAL encoding/json byte for byte on every case (a difference is a tie failure of the specification), and "
            "encode_eq_std_partial relates it to the sonic encoder model on a stated sub-universe, with kernel-checked witnesses for each "
            "recorded deviation.")
_add("C11", "Wave 5: Model/BindDom.lean is a structurally different two-phase model of the alternative decoder (eager DOM, then binding); "
            "optdec_eq_bind is proved at full strength for the repaired decoder, the recorded deviations of the decoder as it is are "
            "kernel-checked witnesses of the switchable Quirks, and each optdec worker is held against ITS model while the JIT worker is held "
            "against Bind.")
_add("C10", "Wave 3: every raw allocation site (mallocgc / Mallocgc in Go and call_go(_F_mallocgc) in the assemblers) and every "
            "NoEscape(&local) site is a regenerated fact; theorems require un-zeroed allocations to be exactly the listed pointer-free ones and "
            "NoEscape of a local only under the Indirect() guard; a null-arena stream (dirtied heap, forced GC, alternative decoder's fast-map "
            "arena) and a stack-move stream (interpreter encoder, recursion through pointer-shaped wrappers) exercise the same.")
_add("C13", "Wave 4: the two dispatch tables of internal/native/dispatch_amd64.go are re-read on every run and dispatch_tables_wired "
            "decides that every slot is filled from its own package with the symbol of its own name and that both tables have the same slots; "
            "per-slot case counts are in the evidence.")
_add("C18", "Wave 3: a large-document stream (documents scaled across the internal buffer regimes, both decoder configurations, stream "
            "decoder = Unmarshal) checks that an option's effect does not depend on document size.")
_add("C05", "Wave 4: the Go-side scanners that use unsafe loads (ast parser/loader entry points, utf8) are placed flush against a guard "
            "page both behind AND in front of the input.")
