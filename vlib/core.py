"""Shared machinery of the checks: building the Lean project and the Go harness against the
current /repo tree, running case streams through the real code (worker) and the Lean model
(driver), judging, known-finding matching, shrinking, evidence.

Stdlib only.  See DESIGN.md section 2.
"""
import fcntl
import hashlib
import json
import os
import re
import shutil
import subprocess
import sys
import time

VERIF = os.path.dirname(os.path.dirname(os.path.abspath(__file__)))
REPO = os.environ.get("VERIF_REPO", "/repo")
LEAN = os.path.join(VERIF, "lean")
HARNESS = os.path.join(VERIF, "go", "harness")
FACTX = os.path.join(VERIF, "go", "factx")
CACHE = os.path.join(VERIF, ".cache")
EVID = os.path.join(VERIF, "evidence")
REPLAYS = os.path.join(EVID, "replays")
ALLOWED_AXIOMS = {"propext", "Classical.choice", "Quot.sound"}
FORBIDDEN = re.compile(r"\b(sorry|admit|native_decide|bv_decide|implemented_by|unsafe)\b|^\s*axiom\s|maxHeartbeats\s+0\b", re.M)

GOENV = dict(os.environ, GOFLAGS="-mod=mod", GOPROXY="off", GOSUMDB="off", GOTOOLCHAIN="local",
             CGO_ENABLED=os.environ.get("CGO_ENABLED", "1"))


def log(*a):
    print(*a, file=sys.stderr, flush=True)


class Lock:
    def __init__(self, name):
        os.makedirs(CACHE, exist_ok=True)
        self.path = os.path.join(CACHE, name + ".lock")

    def __enter__(self):
        self.f = open(self.path, "w")
        fcntl.flock(self.f, fcntl.LOCK_EX)
        return self

    def __exit__(self, *a):
        fcntl.flock(self.f, fcntl.LOCK_UN)
        self.f.close()


class RunDir:
    """scratch directory /verif/.cache/run-<pid>, removed on exit"""

    def __init__(self):
        self.path = os.path.join(CACHE, "run-%d" % os.getpid())

    def __enter__(self):
        shutil.rmtree(self.path, ignore_errors=True)
        os.makedirs(self.path)
        return self.path

    def __exit__(self, *a):
        shutil.rmtree(self.path, ignore_errors=True)


# ----------------------------------------------------------------------------- Lean side

def strip_comments(src):
    # remove /- ... -/ (nested not expected in our files beyond one level) and -- comments
    out = []
    i = 0
    depth = 0
    n = len(src)
    while i < n:
        if src.startswith("/-", i):
            depth += 1
            i += 2
        elif depth and src.startswith("-/", i):
            depth -= 1
            i += 2
        elif depth:
            i += 1
        elif src.startswith("--", i):
            j = src.find("\n", i)
            i = n if j < 0 else j
        else:
            out.append(src[i])
            i += 1
    return "".join(out)


def lean_sources():
    res = []
    for root, _, files in os.walk(os.path.join(LEAN, "SonicSpec")):
        for f in files:
            if f.endswith(".lean"):
                res.append(os.path.join(root, f))
    res.append(os.path.join(LEAN, "Main.lean"))
    return res


def forbidden_words():
    """grep gate: sorry/admit/axiom/native_decide/... outside comments"""
    hits = []
    for p in lean_sources():
        src = strip_comments(open(p).read())
        # string literals may legitimately contain words; drop them
        src = re.sub(r'"(\\.|[^"\\])*"', '""', src)
        for m in FORBIDDEN.finditer(src):
            hits.append("%s: %s" % (os.path.relpath(p, LEAN), m.group(0).strip()))
    return hits


def theorems_in(module):
    path = os.path.join(LEAN, *module.split(".")) + ".lean"
    src = strip_comments(open(path).read())
    ns = []
    names = []
    for line in src.split("\n"):
        m = re.match(r"\s*namespace\s+(\S+)", line)
        if m:
            ns.append(m.group(1))
            continue
        m = re.match(r"\s*end\s+(\S+)", line)
        if m and ns and ns[-1].split(".")[-1] == m.group(1).split(".")[-1]:
            ns.pop()
            continue
        m = re.match(r"\s*(?:@\[[^\]]*\]\s*)?(?:private\s+|protected\s+)?theorem\s+(\S+)", line)
        if m:
            names.append(".".join(ns + [m.group(1)]))
    return names


def lake_build(targets, timeout=3000):
    """build the given modules (and the driver); returns (ok, log_text)"""
    with Lock("lake"):
        p = subprocess.run(["lake", "build"] + list(targets), cwd=LEAN, stdout=subprocess.PIPE,
                           stderr=subprocess.STDOUT, text=True, timeout=timeout)
    return p.returncode == 0, p.stdout


def failing_theorems(build_log):
    """names of declarations lake reported errors in (best effort, from 'error:' lines)"""
    names = set()
    for m in re.finditer(r"error: ([^\n]*)", build_log):
        names.add(m.group(1)[:200])
    return sorted(names)


def axiom_audit(module, rundir):
    """#print axioms on every theorem of a Props module; returns (per-theorem dict, problems)"""
    thms = theorems_in(module)
    src = "import %s\n" % module + "".join("#print axioms %s\n" % t for t in thms)
    path = os.path.join(rundir, "Audit_%s.lean" % module.split(".")[-1])
    open(path, "w").write(src)
    p = subprocess.run(["lake", "env", "lean", path], cwd=LEAN, stdout=subprocess.PIPE,
                       stderr=subprocess.STDOUT, text=True, timeout=1200)
    out = p.stdout
    per = {}
    problems = []
    # messages look like: 'X' depends on axioms: [a, b]   or   'X' does not depend on any axioms
    for m in re.finditer(r"'([^']+)' (does not depend on any axioms|depends on axioms: \[([^\]]*)\])", out, re.S):
        name = m.group(1)
        axs = [] if m.group(3) is None else [a.strip() for a in m.group(3).replace("\n", " ").split(",") if a.strip()]
        per[name] = axs
        bad = [a for a in axs if a not in ALLOWED_AXIOMS]
        if bad:
            problems.append("%s depends on %s" % (name, bad))
    for t in thms:
        if t not in per:
            problems.append("no axiom report for %s" % t)
    if p.returncode != 0:
        problems.append("audit file did not check: " + out[-400:])
    return per, problems


def leanchecker(module):
    p = subprocess.run(["lake", "env", "leanchecker", module], cwd=LEAN, stdout=subprocess.PIPE,
                       stderr=subprocess.STDOUT, text=True, timeout=3000)
    return p.returncode == 0, p.stdout[-2000:]


DRV = os.path.join(LEAN, ".lake", "build", "bin", "drv")


# ----------------------------------------------------------------------------- Go side

def build_harness(rundir, race=False, tags=()):
    """build the harness against the current repository tree (core.REPO); returns (binary or None, log).
    go.mod/go.sum are regenerated in the run directory on every build (replace -> REPO, sums from REPO)."""
    out = os.path.join(rundir, "vh-race" if race else "vh")
    sums = set()
    for f in (os.path.join(REPO, "go.sum"), os.path.join(REPO, "loader", "go.sum")):
        if os.path.exists(f):
            sums.update(l for l in open(f).read().split("\n") if l.strip())
    mod = open(os.path.join(HARNESS, "go.mod")).read().replace("=> /repo/loader", "=> %s/loader" % REPO).replace("=> /repo\n", "=> %s\n" % REPO)
    modfile = os.path.join(rundir, "harness.mod")
    open(modfile, "w").write(mod)
    open(os.path.join(rundir, "harness.sum"), "w").write("\n".join(sorted(sums)) + "\n")
    cmd = ["go", "build", "-modfile=" + modfile, "-tags", " ".join(["verif"] + list(tags))] + (["-race"] if race else []) + ["-o", out, "."]
    p = subprocess.run(cmd, cwd=HARNESS, env=GOENV, stdout=subprocess.PIPE, stderr=subprocess.STDOUT,
                       text=True, timeout=1200)
    if p.returncode != 0:
        return None, p.stdout
    return out, p.stdout


# (directory under go/, generated file, "stdout" = prints the file | "file" = takes the output path as 2nd argument)
CORE_GENERATED = ["Consts.lean", "Opts.lean", "Bounds.lean", "Layout.lean"]
LAST_FACTX_FAILED = set()   # generated files whose extraction failed in the last run_factx of this process
EXTRA_EXTRACTORS = [("factx_frames", "Frames.lean", "stdout"), ("factx_access", "Access.lean", "file"), ("factx_x86", "X86.lean", "stdout"),
                    ("factx_dispatch", "Dispatch.lean", "stdout")]


def build_factx(rundir):
    out = os.path.join(rundir, "factx")
    p = subprocess.run(["go", "build", "-o", out, "."], cwd=FACTX, env=GOENV, stdout=subprocess.PIPE,
                       stderr=subprocess.STDOUT, text=True, timeout=600)
    if p.returncode != 0:
        return None, p.stdout
    return out, p.stdout


def run_factx(rundir):
    """regenerate lean/SonicSpec/Generated/*.lean from the current /repo; (ok, log)"""
    rundir = os.path.abspath(rundir)
    binp, lg = build_factx(rundir)
    if not binp:
        return False, "factx build failed:\n" + lg
    gen = os.path.join(LEAN, "SonicSpec", "Generated")
    tmp = os.path.join(rundir, "gen")
    os.makedirs(tmp, exist_ok=True)
    p = subprocess.run([binp, REPO, tmp], stdout=subprocess.PIPE, stderr=subprocess.STDOUT, text=True, timeout=300)
    ok = p.returncode == 0
    logs = [p.stdout]
    failed = set()
    if not ok:
        failed.update(CORE_GENERATED)
    # stand-alone extractors (one generated file each, printed to stdout)
    for d, outname, style in EXTRA_EXTRACTORS:
        src = os.path.join(VERIF, "go", d)
        if not os.path.isdir(src):
            continue
        xb = os.path.join(rundir, d)
        b = subprocess.run(["go", "build", "-o", xb, "."], cwd=src, env=GOENV, stdout=subprocess.PIPE, stderr=subprocess.STDOUT, text=True, timeout=600)
        if b.returncode != 0:
            failed.add(outname)
            logs.append("%s build failed:\n%s" % (d, b.stdout))
            continue
        if style == "file":
            r = subprocess.run([xb, REPO, os.path.join(tmp, outname)], stdout=subprocess.PIPE, stderr=subprocess.STDOUT, text=True, timeout=300)
            if r.returncode != 0:
                failed.add(outname)
                logs.append("%s: %s" % (d, r.stdout[-1500:]))
                if os.path.exists(os.path.join(tmp, outname)):
                    os.remove(os.path.join(tmp, outname))
            continue
        r = subprocess.run([xb, REPO], stdout=subprocess.PIPE, stderr=subprocess.PIPE, text=True, timeout=300)
        if r.returncode != 0:
            failed.add(outname)
            logs.append("%s: %s" % (d, r.stderr[-1500:]))
        elif r.stdout.strip():
            open(os.path.join(tmp, outname), "w").write(r.stdout)
    with Lock("lake"):
        os.makedirs(gen, exist_ok=True)
        new = {f: open(os.path.join(tmp, f)).read() for f in os.listdir(tmp) if f.endswith(".lean")}
        # write only what changed so that lake does not rebuild for nothing
        for f in os.listdir(gen):
            if f.endswith(".lean") and f not in new:
                os.remove(os.path.join(gen, f))
        for f, s in new.items():
            path = os.path.join(gen, f)
            if not os.path.exists(path) or open(path).read() != s:
                open(path, "w").write(s)
    LAST_FACTX_FAILED.clear()
    LAST_FACTX_FAILED.update(failed)
    return ok and not failed, "\n".join(logs)


def gen_cases(vh, name, seed, n, tier):
    p = subprocess.run([vh, "gen", name, str(seed), str(n), tier], stdout=subprocess.PIPE, stderr=subprocess.PIPE,
                       text=True, timeout=1200)
    if p.returncode != 0:
        raise RuntimeError("generator %s failed: %s" % (name, p.stderr[-500:]))
    return [l for l in p.stdout.split("\n") if l]


def _run_lines(cmd, lines, env, per_case_timeout, crash_tag):
    """feed lines to a line-protocol process; on crash/hang mark the offending case and resume"""
    results = [None] * len(lines)
    i = 0
    crashes = []
    while i < len(lines):
        chunk = lines[i:]
        inp = ("\n".join(chunk) + "\n").encode()
        budget = max(60.0, per_case_timeout * len(chunk))
        try:
            p = subprocess.run(cmd, input=inp, stdout=subprocess.PIPE, stderr=subprocess.PIPE, env=env, timeout=budget)
            out = p.stdout.decode("utf-8", "replace").split("\n")
            err = p.stderr.decode("utf-8", "replace")
            hung = False
        except subprocess.TimeoutExpired as e:
            out = (e.stdout or b"").decode("utf-8", "replace").split("\n")
            err = "timeout"
            hung = True
        if out and out[-1] == "":
            out.pop()
        # a partially written last line cannot be trusted when the process died
        done = len(out)
        if done > len(chunk):
            done = len(chunk)
        for k in range(done):
            results[i + k] = out[k]
        i += done
        if i < len(lines) and done < len(chunk):
            # process died (or hung) on case i
            first = ""
            for l in err.split("\n"):
                if l.strip():
                    first = l.strip()[:160]
                    break
            tag = "HANG" if hung else crash_tag
            results[i] = "sonic=%s\tcrash=%s" % (tag, first.replace("\t", " "))
            crashes.append((i, tag, first))
            i += 1
    return results, crashes


def run_worker(vh, lines, env=None, per_case_timeout=0.05):
    e = dict(os.environ)
    e.setdefault("GOMEMLIMIT", "6GiB")
    if env:
        e.update(env)
    return _run_lines([vh, "run"], lines, e, per_case_timeout, "CRASH")


def run_model(lines, per_case_timeout=0.05):
    res, crashes = _run_lines([DRV], lines, dict(os.environ), per_case_timeout, "MODELCRASH")
    return res, crashes


def fields(line):
    d = {}
    if line is None:
        return d
    for part in line.split("\t"):
        k, _, v = part.partition("=")
        d[k] = v
    return d


# ----------------------------------------------------------------------------- findings

def load_known():
    p = os.path.join(VERIF, "known_findings.json")
    if not os.path.exists(p):
        return []
    return json.load(open(p)).get("findings", [])


def write_replay(prop, payload):
    os.makedirs(REPLAYS, exist_ok=True)
    h = hashlib.sha1(json.dumps(payload, sort_keys=True).encode()).hexdigest()[:12]
    path = os.path.join(REPLAYS, "%s-%s.json" % (prop, h))
    json.dump(payload, open(path, "w"), indent=1)
    return path


def write_evidence(prop, ev):
    os.makedirs(EVID, exist_ok=True)
    tmp = os.path.join(EVID, ".%s.json.tmp%d" % (prop, os.getpid()))
    json.dump(ev, open(tmp, "w"), indent=1)
    os.replace(tmp, os.path.join(EVID, "%s.json" % prop))
