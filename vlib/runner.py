"""Generic check runner: proof obligations + regenerated facts + correspondence for one property."""
import collections
import hashlib
import json
import os
import re
import sys
import time

from . import core
from .core import log


class Stream:
    def __init__(self, name, gen, n, envs=None, timeout=0.05, use_model=True, race=False):
        self.name = name          # label in the evidence
        self.gen = gen            # generator name of the harness (vh gen <gen>)
        self.n = n
        self.envs = envs or {"default": {}}   # worker configurations: label -> environment
        self.timeout = timeout    # per case, seconds (budget = max(60, timeout*n))
        self.use_model = use_model
        self.race = race


class Spec:
    """per-property plug-in; subclasses override"""
    prop = "C00"
    lean_modules = []
    needs_factx = False
    level = "proof"
    trusted_base = []
    assumptions = []
    rule = ""

    def streams(self, tier, seed):
        return []

    def corpus(self):
        p = os.path.join(core.VERIF, "corpus", self.prop)
        lines = []
        if os.path.isdir(p):
            for f in sorted(os.listdir(p)):
                if f.endswith(".case"):
                    lines += [l for l in open(os.path.join(p, f)).read().split("\n") if l and not l.startswith("#")]
        return lines

    def model_line(self, case, sonic):
        """the line given to the Lean driver for this case.  Default: the case itself.  A relational
        check appends what the implementation returned (sonic = fields of one worker's result), so the
        model decides whether that output satisfies the specification relation."""
        return "\t".join(case)

    def judge(self, case, sonic, model):
        """case: list of fields of the protocol line; sonic: {env: fields}; model: {env: fields}
        (the driver's answer to model_line(case, sonic[env])).
        returns list of (kind, detail) for behaviour that contradicts the property"""
        return []

    def model_ref_disagree(self, case, sonic, model):
        """True when the model contradicts the executable reference on this case (my bug, no verdict)"""
        return False

    def nontrivial(self, case, sonic, model):
        return True

    def matchers(self):
        return {}

    def shrink_fields(self, case):
        """indexes of hex byte-string fields of the case that may be reduced"""
        return [i for i, f in enumerate(case) if i > 0 and len(f) >= 4 and re.fullmatch(r"(?:[0-9a-f]{2})+", f)]

    def pregen(self, rundir):
        """write property-specific regenerated Lean files (lean/SonicSpec/Generated/*.lean) from the
        current tree before the Lean build; returns (ok, log).  Default: nothing to do."""
        return True, ""

    def shrink_candidates(self, case):
        """structure-aware smaller variants of a failing case (list of case-field lists), tried before
        the generic byte-level reduction of hex fields.  Default: none."""
        return []

    def generated_files(self):
        """the regenerated Lean files this property's theorems and driver ops depend on"""
        return list(core.CORE_GENERATED) + list(getattr(self, "extra_generated", []))

    def harness_tags(self):
        """extra build tags enabling hook-dependent harness files (the hook files must exist in the tree)"""
        return []

    def extra(self, ctx):
        """additional obligations beyond Lean + streams (e.g. fact comparisons); returns list of problems"""
        return []


def _hexbytes(s):
    return bytes.fromhex(s) if s != "-" else b""


def _tohex(b):
    return b.hex() if b else "-"


def locate_errors(build_log):
    """map lake error lines to (file, line); returns list of (relpath, line, msg)"""
    res = []
    for m in re.finditer(r"error: ([^\s:]+\.lean):(\d+):(\d+): ([^\n]*)", build_log):
        res.append((m.group(1), int(m.group(2)), m.group(4)[:160]))
    return res


def enclosing_decl(relpath, line):
    path = relpath if os.path.isabs(relpath) else os.path.join(core.LEAN, relpath)
    try:
        src = open(path).read().split("\n")
    except OSError:
        return "?"
    for k in range(min(line, len(src)) - 1, -1, -1):
        m = re.match(r"\s*(?:@\[[^\]]*\]\s*)?(?:private\s+|protected\s+)?(theorem|lemma|def|example|instance|abbrev)\s+(\S+)?", src[k])
        if m:
            return "%s %s" % (m.group(1), m.group(2) or "")
    return "?"


class Run:
    def __init__(self, spec, tier, seed, replay=None):
        self.spec = spec
        self.tier = tier
        self.seed = seed
        self.replay = replay
        self.t0 = time.time()
        self.violations = []      # (kind, replay payload, has_input)
        self.known_hits = collections.Counter()
        self.known_what = {}
        self.cov = collections.OrderedDict()
        self.problems = []        # broken proof obligations / ties
        self.samples = []
        self.evaluations = 0
        self.distinct = set()
        self.model_ref = 0
        self.model_ref_samples = []
        self.hist = collections.Counter()
        self.per_stream = {}
        self.seen_small = set()
        self.tie_breaks = collections.Counter()
        self.tie_samples = []

    # ---------------------------------------------------------------- correspondence
    def eval_lines(self, vh, lines, envs, timeout, use_model=True):
        sonic_by_env = {}
        crashes = []
        for label, env in envs.items():
            res, cr = core.run_worker(vh, lines, env, timeout)
            sonic_by_env[label] = res
            crashes += [(label,) + c for c in cr]
        model_by_env = {label: [None] * len(lines) for label in envs}
        mcr = []
        if use_model and self.model_ok:
            uniq = {}
            order = []
            want = {}
            for label in envs:
                for i, line in enumerate(lines):
                    ml = self.spec.model_line(line.split("\t"), core.fields(sonic_by_env[label][i]))
                    if ml is None:
                        continue
                    if ml not in uniq:
                        uniq[ml] = len(order)
                        order.append(ml)
                    want[(label, i)] = uniq[ml]
            if order:
                mres, mcr = core.run_model(order, max(timeout, 0.05))
                for (label, i), k in want.items():
                    model_by_env[label][i] = mres[k]
        return sonic_by_env, model_by_env, crashes, mcr

    def judge_lines(self, lines, sonic_by_env, model_by_env):
        out = []
        for i, line in enumerate(lines):
            case = line.split("\t")
            sonic = {k: core.fields(v[i]) for k, v in sonic_by_env.items()}
            model = {}
            for k, v in model_by_env.items():
                f = core.fields(v[i])
                if f.get("sonic") == "MODELCRASH":
                    f = {}
                model[k] = f
            try:
                if self.spec.model_ref_disagree(case, sonic, model):
                    out.append((i, "MODELREF", "", sonic, model))
                    continue
                discs = self.spec.judge(case, sonic, model)
            except Exception as e:  # a judge bug must not pass silently
                discs = [("judge-exception", repr(e)[:200])]
            for kind, detail in discs:
                out.append((i, kind, detail, sonic, model))
        return out

    def still_fails(self, vh, stream, cand_lines, kind):
        sb, mres, _, _ = self.eval_lines(vh, cand_lines, stream.envs, max(stream.timeout, 0.2), stream.use_model)
        j = self.judge_lines(cand_lines, sb, mres)
        bad = {}
        for (i, k, d, s, m) in j:
            if k == kind and i not in bad:
                bad[i] = (d, s, m)
        return bad

    def shrink(self, vh, stream, line, kind, budget_s=25):
        t_end = time.time() + budget_s
        cur = line
        improved = True
        while improved and time.time() < t_end:
            improved = False
            case = cur.split("\t")
            cl = ["\t".join(c) for c in self.spec.shrink_candidates(case)][:600]
            if cl:
                bad = self.still_fails(vh, stream, cl, kind)
                if bad:
                    cur = cl[min(bad.keys(), key=lambda i: len(cl[i]))]
                    improved = True
                    continue
            for fi in self.spec.shrink_fields(case):
                b = _hexbytes(case[fi])
                n = len(b)
                if n == 0:
                    continue
                cands = []
                seen = set()
                step = n
                while step >= 1:
                    for off in range(0, n, step):
                        nb = b[:off] + b[off + step:]
                        if nb not in seen and len(nb) < n:
                            seen.add(nb)
                            cands.append(nb)
                    if len(cands) > 400:
                        break
                    step //= 2
                cl = []
                for nb in cands:
                    c2 = list(case)
                    c2[fi] = _tohex(nb)
                    cl.append("\t".join(c2))
                if not cl:
                    continue
                bad = self.still_fails(vh, stream, cl, kind)
                if bad:
                    best = min(bad.keys(), key=lambda i: len(cl[i]))
                    cur = cl[best]
                    improved = True
                    break
        return cur

    def handle_discrepancies(self, vh, stream, lines, discs):
        spec = self.spec
        known = [k for k in core.load_known() if k.get("property") == spec.prop and k.get("status") == "known"]
        matchers = spec.matchers()
        processed = 0
        seen_sig = set()
        for (i, kind, detail, sonic, model) in discs:
            if kind == "MODELREF":
                self.model_ref += 1
                if len(self.model_ref_samples) < 5:
                    self.model_ref_samples.append({"case": lines[i][:300], "model": model, "sonic": sonic})
                continue
            case = lines[i].split("\t")
            d = {"kind": kind, "detail": detail, "case": case, "sonic": sonic, "model": model, "stream": stream.name}
            if kind.startswith("tie:"):
                # implementation and model differ on this case, but the property itself was not seen to
                # fail on it: the correspondence is broken, reported without a failing input
                self.tie_breaks[kind] += 1
                if len(self.tie_samples) < 5:
                    self.tie_samples.append({"kind": kind, "detail": detail[:600], "case_line": lines[i][:2000], "stream": stream.name})
                continue
            hit = None
            for k in known:
                f = matchers.get(k.get("matcher"))
                if f and f(d, k.get("params", {})):
                    hit = k
                    break
            if hit:
                self.known_hits[hit["id"]] += 1
                self.known_what[hit["id"]] = hit.get("what", "")
                continue
            sig = (kind, case[0])
            if processed >= 6 or (sig in seen_sig and processed >= 3):
                # enough distinct replays; still a violation, counted
                self.cov["unprocessed_discrepancies"] = self.cov.get("unprocessed_discrepancies", 0) + 1
                continue
            seen_sig.add(sig)
            processed += 1
            small = lines[i]
            if len(small) < 200000:
                try:
                    small = self.shrink(vh, stream, lines[i], kind)
                except Exception as e:
                    log("shrink failed:", repr(e))
            # re-evaluate the minimised case to record what each voice says
            sb, mres, _, _ = self.eval_lines(vh, [small], stream.envs, max(stream.timeout, 0.5), stream.use_model)
            j = self.judge_lines([small], sb, mres)
            d2 = None
            for (_, k2, det2, s2, m2) in j:
                if k2 == kind:
                    d2 = {"kind": k2, "detail": det2, "case": small.split("\t"), "sonic": s2, "model": m2, "stream": stream.name}
                    break
            if d2 is None:
                d2 = d
                small = lines[i]
            hit = None
            for k in known:
                f = matchers.get(k.get("matcher"))
                if f and f(d2, k.get("params", {})):
                    hit = k
                    break
            if hit:
                self.known_hits[hit["id"]] += 1
                self.known_what[hit["id"]] = hit.get("what", "")
                continue
            payload = {"property": spec.prop, "kind": kind, "detail": d2["detail"], "case_line": small,
                       "original_case_line": lines[i] if len(lines[i]) < 20000 else lines[i][:20000] + "...",
                       "stream": stream.name, "envs": stream.envs, "sonic": d2["sonic"], "model": d2["model"],
                       "seed": self.seed, "tier": self.tier,
                       "how_to_replay": "bin/check %s --replay <this file>" % spec.prop}
            if (kind, small) in self.seen_small:
                continue
            self.seen_small.add((kind, small))
            self.violations.append((kind, payload, True))

    def run_stream(self, vh, stream, lines):
        spec = self.spec
        st = {"cases": len(lines), "envs": list(stream.envs.keys())}
        t = time.time()
        sb, mres, crashes, mcr = self.eval_lines(vh, lines, stream.envs, stream.timeout, stream.use_model)
        discs = self.judge_lines(lines, sb, mres)
        nontriv = 0
        for i, line in enumerate(lines):
            case = line.split("\t")
            sonic = {k: core.fields(v[i]) for k, v in sb.items()}
            model = {k: core.fields(v[i]) for k, v in mres.items()}
            self.evaluations += 1
            self.hist[case[0]] += 1
            try:
                nt = spec.nontrivial(case, sonic, model)
            except Exception:
                nt = False
            if nt:
                h = hashlib.sha1(line.encode()).digest()[:10]
                if h not in self.distinct:
                    self.distinct.add(h)
                    nontriv += 1
            if len(self.samples) < 6 and (i % max(1, len(lines) // 3) == 0):
                self.samples.append({"stream": stream.name, "case": line[:400], "sonic": {k: v[i][:300] if v[i] else None for k, v in sb.items()},
                                     "model": {k: (v[i] or "")[:300] for k, v in mres.items()}})
        st["model_crashes"] = len(mcr)
        st["worker_crashes"] = len(crashes)
        st["discrepancies"] = len([d for d in discs if d[1] != "MODELREF"])
        st["wall_s"] = round(time.time() - t, 2)
        st["distinct_nontrivial"] = nontriv
        self.per_stream[stream.name] = st
        if mcr:
            self.cov["model_crashes"] = self.cov.get("model_crashes", 0) + len(mcr)
        self.handle_discrepancies(vh, stream, lines, discs)

    # ---------------------------------------------------------------- main
    def go(self):
        spec = self.spec
        with core.RunDir() as rd:
            self.rundir = rd
            obligations = 0
            discharged = 0
            thm_names = []
            # 1. regenerated facts
            if spec.needs_factx:
                ok, lg = core.run_factx(rd)
                needed = set(spec.generated_files())
                bad = sorted(core.LAST_FACTX_FAILED & needed)
                self.cov["factx_ok"] = not bad
                if core.LAST_FACTX_FAILED - needed:
                    self.cov["factx_failed_elsewhere"] = sorted(core.LAST_FACTX_FAILED - needed)
                if bad:
                    self.problems.append({"what": "fact extraction failed (source shape not recognised) for %s" % bad, "log": lg[-1500:]})
            try:
                r = spec.pregen(rd)
                pok, plog = (True, "") if r is None else r
            except Exception as e:
                pok, plog = False, repr(e)
            if not pok:
                self.problems.append({"what": "property-specific fact extraction failed (source shape not recognised)", "log": (plog or "")[-1500:]})
            # 2. proof obligations
            words = core.forbidden_words()
            if words:
                self.problems.append({"what": "forbidden words in Lean sources", "hits": words[:20]})
            ok, lg = core.lake_build(list(spec.lean_modules) + ["drv"])
            self.model_ok = os.path.exists(core.DRV)
            failing = set()
            if not ok:
                errs = locate_errors(lg)
                for (f, ln, msg) in errs:
                    failing.add((f, enclosing_decl(f, ln), msg))
                self.problems.append({"what": "lake build failed: proof obligation or regenerated fact no longer checks",
                                      "failing": [list(x) for x in sorted(failing)][:20], "log_tail": lg[-1500:]})
                # the driver may still be buildable on its own
                ok2, _ = core.lake_build(["drv"])
                self.model_ok = ok2 and os.path.exists(core.DRV)
            axioms = {}
            for mod in spec.lean_modules:
                names = core.theorems_in(mod)
                thm_names += names
                obligations += len(names)
                if ok:
                    per, probs = core.axiom_audit(mod, rd)
                    axioms.update(per)
                    for p in probs:
                        self.problems.append({"what": "axiom audit", "detail": p})
                    discharged += len([n for n in names if n in per and all(a in core.ALLOWED_AXIOMS for a in per[n])])
            if self.tier == "thorough" and ok:
                for mod in spec.lean_modules:
                    cok, clog = core.leanchecker(mod)
                    self.cov.setdefault("leanchecker", {})[mod] = cok
                    if not cok:
                        self.problems.append({"what": "leanchecker rejected " + mod, "log": clog[-800:]})
            # 3. extra obligations
            ctx = {"rundir": rd, "run": self}
            for p in spec.extra(ctx):
                self.problems.append(p)
            # 4. harness + correspondence
            htags = list(spec.harness_tags())
            vh, hlog = core.build_harness(rd, tags=htags)
            if not vh and htags:
                self.problems.append({"what": "harness with hook tags %s does not build against the current tree (hook-dependent correspondence broken)" % htags, "log": hlog[-1500:]})
                htags = []
                vh, hlog = core.build_harness(rd)
            if not vh:
                self.problems.append({"what": "harness does not build against the current tree (correspondence broken)", "log": hlog[-1500:]})
            else:
                if self.replay:
                    payload = json.load(open(self.replay))
                    line = payload.get("case_line")
                    if line:
                        st = Stream("replay", None, 1, envs=payload.get("envs") or {"default": {}}, timeout=5.0)
                        self.run_stream(vh, st, [line])
                else:
                    streams = spec.streams(self.tier, self.seed)
                    corpus = spec.corpus()
                    vh_race = None
                    for k, st in enumerate(streams):
                        use = vh
                        if st.race:
                            if vh_race is None:
                                vh_race, rlog = core.build_harness(rd, race=True, tags=htags)
                                if not vh_race:
                                    self.problems.append({"what": "race build of the harness failed", "log": rlog[-800:]})
                                    continue
                            use = vh_race
                        try:
                            lines = core.gen_cases(vh, st.gen, self.seed + k * 7919, st.n, self.tier) if st.gen else []
                        except Exception as e:
                            self.problems.append({"what": "generator %s failed (correspondence stream %s did not run)" % (st.gen, st.name), "log": repr(e)[-800:]})
                            continue
                        if k == 0 and corpus:
                            lines = corpus + lines
                        if lines:
                            self.run_stream(use, st, lines)
            if self.tie_breaks:
                self.problems.append({"what": "correspondence between model and implementation no longer checks (no case seen on which the property itself fails)",
                                      "correspondence": dict(self.tie_breaks), "samples": self.tie_samples})
            # 5. verdict
            wall = time.time() - self.t0
            out_lines = []
            for kid, cnt in sorted(self.known_hits.items()):
                out_lines.append("KNOWN-FINDING: property=%s %s: %s (%d cases this run)" % (spec.prop, kid, self.known_what.get(kid, ""), cnt))
            exit_code = 0
            vio_count = 0
            for (kind, payload, has_input) in self.violations:
                path = core.write_replay(spec.prop, payload)
                out_lines.append("VIOLATION property=%s replay=%s" % (spec.prop, path))
                vio_count += 1
                exit_code = 1
            if self.problems:
                # tie / proof broken: if a failing input was found above it is already reported; else say so
                payload = {"property": spec.prop, "broken": self.problems, "seed": self.seed, "tier": self.tier,
                           "note": "a proof obligation, regenerated fact or the correspondence build no longer checks on the current tree"}
                path = core.write_replay(spec.prop, payload)
                if not self.violations:
                    out_lines.append("VIOLATION property=%s replay=%s no-failing-input-found" % (spec.prop, path))
                    vio_count += 1
                else:
                    out_lines.append("NOTE property=%s broken obligations recorded in %s" % (spec.prop, path))
                exit_code = 1
            cov = collections.OrderedDict()
            cov["obligations"] = obligations
            cov["discharged"] = discharged
            cov["checker_cmd"] = "lake build %s && #print axioms audit%s" % (" ".join(spec.lean_modules), " && leanchecker" if self.tier == "thorough" else "")
            cov["trusted_base"] = ["Lean 4.33.0 kernel", "axioms: propext, Classical.choice, Quot.sound (audited per theorem)",
                                   "correspondence harness + generators + canonicalisers (go/harness, vlib)",
                                   "Lean compiler for the executable driver"] + list(spec.trusted_base)
            cov["theorems"] = thm_names
            cov["axioms_used"] = sorted({a for v in axioms.values() for a in v})
            cov["evaluations"] = self.evaluations
            cov["distinct_nontrivial"] = len(self.distinct)
            cov["rule"] = spec.rule
            cov["samples"] = self.samples
            cov["traces_validated_against_impl"] = self.evaluations
            cov["model_reference_disagreements"] = self.model_ref
            if self.model_ref_samples:
                cov["model_reference_disagreement_samples"] = self.model_ref_samples
            cov["op_histogram"] = dict(self.hist)
            cov["streams"] = self.per_stream
            cov["masked_by_known_findings"] = dict(self.known_hits)
            cov["broken_obligations"] = len(self.problems)
            cov.update(self.cov)
            ev = {"property_id": spec.prop, "tier": self.tier, "seed": self.seed, "level": spec.level,
                  "coverage": cov, "assumptions": list(spec.assumptions), "wall_s": round(wall, 2), "violations": vio_count}
            core.write_evidence(spec.prop, ev)
            for l in out_lines:
                print(l)
            print("%s tier=%s seed=%d obligations=%d/%d cases=%d distinct_nontrivial=%d model_ref_disagreements=%d known=%d violations=%d wall=%.1fs"
                  % (spec.prop, self.tier, self.seed, discharged, obligations, self.evaluations, len(self.distinct), self.model_ref,
                     sum(self.known_hits.values()), vio_count, wall))
            sys.stdout.flush()
            return exit_code
