"""C14 - AST search and read-only views return exactly the addressed value.

Three voices per case: sonic (every entry point, every SearchOptions combination), the
first-occurrence reference walk over encoding/json (`ref=`), and the Lean model (`model=` the
byte-level searcher, `spec=` locate on the tree, `node=`/`nodelast=` the documented Node API
variants used only by the known-finding matchers)."""
import re

from ..runner import Spec, Stream

FIELDS_MODEL = ("t", "oc", "c", "s", "n", "i", "b", "it", "f", "cf", "un")
FIELDS_REF = ("t", "oc", "c", "s", "n", "i", "b", "it", "f", "cf", "un")
WS = b" \t\r\n"


def parse_rec(r):
    if r is None:
        return {"_": "none"}
    if r.startswith("ok;"):
        d = {"_": "ok"}
        for kv in r.split(";")[1:]:
            k, _, v = kv.partition("=")
            d[k] = v
        return d
    return {"_": r}


def raw_trim(h):
    if not h or h == "*":
        return h
    try:
        return bytes.fromhex(h).rstrip(WS).hex()
    except ValueError:
        return h


def apis_of(s):
    """[(names, record)] for one worker answer"""
    out = []
    if "sonic" in s:
        out.append((["G"], s["sonic"]))
    for k, v in s.items():
        if k.startswith("alt") and k[3:].isdigit():
            names, _, rec = v.partition("@")
            out.append((names.split("&"), rec))
    return out


def is_node_api(name):
    return "N" in name


def path_elems(p):
    return [] if p == "-" else p.split("/")


def lone_surrogate_in_key(doc):
    """the JSON text has an object key whose literal contains a \\uD800-\\uDFFF escape that is not
    part of a high+low pair"""
    i, n = 0, len(doc)
    while i < n:
        if doc[i] != 0x22:
            i += 1
            continue
        j = i + 1
        while j < n and doc[j] != 0x22:
            j += 2 if doc[j] == 0x5C else 1
        body = doc[i + 1:j]
        k = j + 1
        while k < n and doc[k] in WS:
            k += 1
        if k < n and doc[k] == 0x3A:
            units = [(m.start(), int(m.group(1), 16)) for m in re.finditer(rb"\\u([0-9a-fA-F]{4})", re.sub(rb"\\\\", b"__", body))]
            idx = 0
            while idx < len(units):
                pos, u = units[idx]
                if 0xD800 <= u < 0xDC00:
                    if idx + 1 < len(units) and units[idx + 1][0] == pos + 6 and 0xDC00 <= units[idx + 1][1] < 0xE000:
                        idx += 2
                        continue
                    return True
                if 0xDC00 <= u < 0xE000:
                    return True
                idx += 1
        i = j + 1
    return False


class C14(Spec):
    prop = "C14"
    lean_modules = ["SonicSpec.Props.C14"]
    needs_factx = True      # Gen.maxRecurse (types.MAX_RECURSE) is the bound of the Preorder model
    rule = ("valid documents built as trees and spelled adversarially (escaped and duplicated keys, containers and strings "
            "full of brackets/quotes/backslashes as skipped siblings, white space runs, >16 and >256 members, sibling lengths "
            "swept across 16/32/64-byte blocks) x paths (existing, missing, wrong kind, out of range, negative) x 8 SearchOptions "
            "x 13 entry points; sequences of lookups (hit, miss, hit again, last, after LoadAll/Interface/iteration/Len) on ONE root "
            "node of 6 kinds for objects/arrays of 3/16/17/40.. members; Preorder on valid and mutated documents, on documents with "
            "> MAX_RECURSE sibling empty containers at depth <= 5, at the nesting boundary, and with a skipping visitor. A get case is non-trivial when the path is not empty "
            "(a search step ran); a pre case when the document has a container or an escape")
    trusted_base = ["native get_by_path/skip_one_fast/skip_one machine code and the Go lazy loader are modelled "
                    "(Model/Search.lean), tied by correspondence only",
                    "encoding/json token walker (first occurrence) as executable reference"]
    assumptions = ["Preorder is bounded by types.MAX_RECURSE nested containers (documented error beyond; the model has the same bound, "
                   "re-read from the source, and the judge requires the depth error exactly when the real depth exceeds it)",
                   "documents are valid JSON and valid UTF-8 (the property quantifies over valid documents); "
                   "paths for sonic.Get* use indexes >= 0 (documented precondition: a negative index panics)",
                   "Raw() is compared as the value it denotes and byte-for-byte up to trailing white space"]

    @staticmethod
    def _consts_word():
        """MAX_RECURSE*100 + _DEFAULT_NODE_CAP as re-read from the source by factx (Generated/Consts.lean)"""
        import os
        from .. import core
        vals = {"maxRecurse": 4096, "astDefaultNodeCap": 16}
        try:
            src = open(os.path.join(core.LEAN, "SonicSpec", "Generated", "Consts.lean")).read()
            for k in list(vals):
                m = re.search(r"def %s : Int := (\d+)" % k, src)
                if m:
                    vals[k] = int(m.group(1))
        except OSError:
            pass
        return vals["maxRecurse"] * 100 + min(vals["astDefaultNodeCap"], 99)

    def streams(self, tier, seed):
        envs = {"default": {}, "noavx2": {"SONIC_MODE": "noavx2"}}
        q = tier == "quick"
        return [
            Stream("seq", "c14.seq", 300 if q else 20000, envs=envs, timeout=0.2),
            Stream("wide", "c14.wide", 0, envs=envs, timeout=2.0),         # fixed set: > MAX_RECURSE siblings, depth boundary
            Stream("wideviews", "c14.wideviews", self._consts_word(), envs={"default": {}}, timeout=5.0),  # fixed set by tier
            Stream("get", "c14.get", 450 if q else 25000, envs=envs, timeout=0.2),
            Stream("sweep", "c14.sweep", 0, envs=envs, timeout=0.2),       # size fixed by the tier
            Stream("dup", "c14.dup", 120 if q else 6000, envs=envs, timeout=0.2),
            Stream("surrogate", "c14.surr", 80 if q else 3000, envs=envs, timeout=0.2),
            Stream("preorder", "c14.pre", 800 if q else 40000, envs=envs, timeout=0.2),
        ]

    # ------------------------------------------------------------------ get
    def _expected(self, s):
        ref = s.get("ref")
        if ref is None or ref == "invalid" or s.get("u8") != "1":
            return None
        return parse_rec(ref)

    def _judge_get(self, case, sonic, model):
        out = []
        path = path_elems(case[3])
        neg = any(e.startswith("i:-") for e in path)
        for env, s in sonic.items():
            if s.get("sonic") in ("PANIC", "CRASH", "HANG"):
                out.append(("crash", "%s: %s" % (env, s)))
                continue
            exp = self._expected(s)
            if exp is None:
                continue
            m = model.get(env) or {}
            mrec = parse_rec(m.get("model")) if "model" in m else None
            mnode = m.get("node")
            if mnode == "=":
                mnode = m.get("spec")
            mlast = m.get("nodelast")
            if mlast == "=":
                mlast = m.get("spec")
            surr = case[2] != "-" and lone_surrogate_in_key(bytes.fromhex(case[2]))
            found = {}
            for names, rec in apis_of(s):
                r = parse_rec(rec)
                st = r["_"]
                kind = None
                if st == "panic:other" or st == "none":
                    kind = "crash"
                elif exp["_"] != "ok":
                    if st == "ok":
                        kind = "phantom-value"
                    elif st == "panic:path" and not (neg and all(not is_node_api(a) for a in names)):
                        kind = "crash"
                    elif mrec is not None:
                        # the error class is not part of the property: tie to the model only.  (Not checked
                        # where a listed finding changes the class: lone surrogate keys, duplicate keys of
                        # a loaded object.)
                        for a in names:
                            want = []
                            if not is_node_api(a):
                                want = [{"nf": "nf", "err:syntax": "err:syntax", "err:path": "panic:path"}.get(mrec["_"])]
                            elif surr:
                                want = []
                            elif a in ("NR", "NGI") and mnode is not None:
                                want = [parse_rec(mnode)["_"]]
                            elif a in ("NL", "NI", "NRC") and mnode is not None:
                                want = [parse_rec(mnode)["_"], parse_rec(mlast)["_"]]
                            want = [w for w in want if w]
                            if want and "ok" not in want and st not in want:
                                found.setdefault("tie:error-class", []).append("%s:%s(model %s)" % (a, st, "|".join(want)))
                else:
                    if st != "ok":
                        kind = "missing-value"
                    else:
                        badf = [f for f in FIELDS_REF if r.get(f) != exp.get(f)]
                        if r.get("x") != "ok":
                            badf.append("x:" + str(r.get("x")))
                        if badf:
                            kind = "wrong-view"
                        elif raw_trim(r.get("raw")) != raw_trim(exp.get("raw")):
                            if all(a in ("G", "GS", "GC", "NR", "NGI") or re.fullmatch(r"W\d", a) for a in names):
                                found.setdefault("tie:raw-slice", []).append("%s raw=%s ref=%s" % ("&".join(names), r.get("raw"), exp.get("raw")))
                        if badf:
                            found.setdefault(kind, []).append("%s fields=%s" % ("&".join(names), ",".join(badf)))
                            kind = None
                if kind:
                    found.setdefault(kind, []).append("%s:%s" % ("&".join(names), rec[:200]))
            for kind, det in found.items():
                out.append((kind, "%s: %s | ref=%s" % (env, "; ".join(det)[:1500], (s.get("ref") or "")[:300])))
        return out

    def _mr_get(self, case, sonic, model):
        for env, s in sonic.items():
            exp = self._expected(s)
            m = model.get(env) or {}
            if exp is None or "model" not in m:
                continue
            if m["model"] == "invalid":
                return True     # reference accepts, strict grammar of the model does not
            if m.get("opt") != "same":
                return True
            mrec = parse_rec(m["model"])
            srec = parse_rec(m.get("spec"))
            if m.get("kwf") == "0":
                # a key literal `unescape` cannot decode (lone surrogate): the searcher model is faithful to
                # match_key and may report a syntax error where the specification finds the value
                # (theorem search_lone_surrogate_witness); only the specification is held against the reference
                if (srec["_"] == "ok") != (exp["_"] == "ok"):
                    return True
                if exp["_"] == "ok" and any(srec.get(f) != exp.get(f) for f in FIELDS_MODEL):
                    return True
                if mrec["_"] == "ok" and (exp["_"] != "ok" or any(mrec.get(f) != exp.get(f) for f in FIELDS_MODEL)):
                    return True
                continue
            if (mrec["_"] == "ok") != (exp["_"] == "ok") or (srec["_"] == "ok") != (exp["_"] == "ok"):
                return True
            if mrec["_"] != srec["_"]:
                return True
            if exp["_"] == "ok":
                if any(mrec.get(f) != exp.get(f) or srec.get(f) != exp.get(f) for f in FIELDS_MODEL):
                    return True
                if mrec.get("raw") != exp.get("raw"):
                    return True
        return False

    # ------------------------------------------------------------------ pre
    def _judge_pre(self, case, sonic, model):
        out = []
        for env, s in sonic.items():
            sv = s.get("sonic")
            if sv in ("PANIC", "CRASH", "HANG") or (sv or "").startswith("panic"):
                out.append(("crash", "%s: %s" % (env, str(s)[:300])))
                continue
            ref = s.get("ref")
            if ref is None or ref == "invalid" or s.get("u8") != "1":
                continue
            m = model.get(env) or {}
            too_deep = m.get("model") == "depth"      # real nesting depth > MAX_RECURSE (theorem preorder_depth_error_iff)
            if sv == "depth":
                if not too_deep:
                    out.append(("preorder-depth-error-on-shallow", "%s: real depth %s, ref=%s" % (env, m.get("depth"), ref[:200])))
                continue
            if too_deep:
                # documented bound: the traversal must stop with the depth error, not deliver events
                out.append(("preorder-no-depth-error", "%s: real depth %s, sonic=%s" % (env, m.get("depth"), (sv or "")[:100])))
                continue
            if sv == "err":
                if s.get("frange") == "1":
                    continue    # a number outside float64: encoding/json into interface{} fails too
                out.append(("preorder-error-on-valid", "%s: ref=%s" % (env, ref[:300])))
                continue
            if sv != ref:
                out.append(("preorder-events", "%s: sonic=%s ref=%s" % (env, (sv or "")[:400], ref[:400])))
            elif s.get("numck") != "ok" and s.get("frange") != "1":
                out.append(("preorder-number-value", "%s: %s" % (env, s.get("numck"))))
            elif s.get("onlynum") != "same" and s.get("frange") != "1":
                out.append(("preorder-onlynumber", "%s: %s" % (env, (s.get("onlynum") or "")[:300])))
            # the same traversal with a visitor that answers VisitOPSkip for every nested container
            sk, rsk = s.get("skip"), s.get("refskip")
            if sk is not None and rsk not in (None, "invalid") and sk != rsk:
                out.append(("preorder-skip-events", "%s: skip=%s ref=%s" % (env, sk[:300], rsk[:300])))
        return out

    def _mr_pre(self, case, sonic, model):
        for env, s in sonic.items():
            m = model.get(env) or {}
            if "model" not in m or s.get("u8") != "1" or "ref" not in s:
                continue
            ref = s["ref"]
            if (m.get("valid") == "1") != (ref != "invalid"):
                return True
            if ref == "invalid":
                continue
            if m["model"] == "depth":
                # the model claims the real depth exceeds the bound: check it on the reference's events
                d = mx = 0
                for e in ref[3:].split(","):
                    if e in ("[", "{"):
                        d += 1
                        mx = max(mx, d)
                    elif e in ("]", "}"):
                        d -= 1
                if mx <= 4096 or str(mx) != m.get("depth"):
                    return True
                continue
            if m["model"] != ref:
                return True
            if s.get("refskip") not in (None, "invalid") and m.get("mskip") != s.get("refskip"):
                return True
        return False

    # ------------------------------------------------------------------ sequences of lookups on one node
    @staticmethod
    def _seq_ok(a):
        return a.startswith("ok:")

    def _judge_seq(self, case, sonic, model):
        out = []
        for env, s in sonic.items():
            if s.get("sonic") in ("PANIC", "CRASH", "HANG"):
                out.append(("crash", "%s: %s" % (env, str(s)[:300])))
                continue
            ref = s.get("ref")
            if ref is None or ref == "invalid" or s.get("u8") != "1":
                continue
            want = ref.split("|")
            steps = case[2].split(";")
            for root, ans in [("NR", s.get("sonic"))] + [(k[3:], v) for k, v in s.items() if k.startswith("alt")]:
                got = (ans or "").split("|")
                bad = []
                idxobj = []
                node = ((model.get(env) or {}).get("node") or "").split("|")
                if len(got) != len(want):
                    bad.append("answers=%s" % (ans or "")[:200])
                else:
                    for i, (g, w) in enumerate(zip(got, want)):
                        if w == "-":
                            continue
                        if g.startswith("panic"):
                            bad.append("step %d %s: %s" % (i, steps[i][:60], g))
                        elif not self._seq_ok(w) and self._seq_ok(g) and "i:" in steps[i] and i < len(node) and node[i] == g:
                            # Node.Index on an object (documented, listed finding): exactly the i-th pair's value
                            idxobj.append("step %d %s: %s" % (i, steps[i][:60], g[:80]))
                        elif self._seq_ok(w) != self._seq_ok(g) or (self._seq_ok(w) and g != w):
                            bad.append("step %d %s: got %s want %s" % (i, steps[i][:60], g[:80], w[:80]))
                if not bad and root == "NR" and (model.get(env) or {}).get("lnode"):
                    ln = (model.get(env) or {})["lnode"].split("|")
                    if len(ln) == len(got) and any(self._seq_ok(a) != self._seq_ok(b) or (self._seq_ok(a) and a != b) for a, b in zip(got, ln)):
                        out.append(("tie:lazy-loader", "%s: sonic=%s model=%s" % (env, (ans or "")[:200], "|".join(ln)[:200])))
                if bad:
                    out.append(("lookup-depends-on-history", "%s root=%s: %s | steps=%s" % (env, root, "; ".join(bad)[:600], case[2][:400])))
                elif idxobj:
                    out.append(("seq-index-on-object", "%s root=%s: %s" % (env, root, "; ".join(idxobj)[:400])))
        return out

    def _mr_seq(self, case, sonic, model):
        for env, s in sonic.items():
            m = model.get(env) or {}
            ref = s.get("ref")
            if "model" not in m or ref is None or s.get("u8") != "1":
                continue
            if m["model"] != "invalid" and m.get("lnode") != m.get("node"):
                return True     # lazy-loader model vs the Node API specification (theorem node_getbypath_eq_locate)
            if (m["model"] == "invalid") != (ref == "invalid"):
                return True
            if ref != "invalid" and (m["model"] != ref or m.get("spec") != ref):
                return True
        return False

    # ------------------------------------------------------------------ plug-in interface
    @staticmethod
    def _as_get(case):
        # c14wide <mask> <ckind> <child> <n> <path>  ->  the shape of a get case (document not on the line)
        return ["get", case[1], "-", case[5]]

    def judge(self, case, sonic, model):
        if case[0] == "c14wide":
            return self._judge_get(self._as_get(case), sonic, model)
        if case[0] == "get":
            return self._judge_get(case, sonic, model)
        if case[0] == "pre":
            return self._judge_pre(case, sonic, model)
        if case[0] == "c14seq":
            return self._judge_seq(case, sonic, model)
        return []

    def model_ref_disagree(self, case, sonic, model):
        if case[0] == "c14wide":
            return self._mr_get(self._as_get(case), sonic, model)
        if case[0] == "get":
            return self._mr_get(case, sonic, model)
        if case[0] == "pre":
            return self._mr_pre(case, sonic, model)
        if case[0] == "c14seq":
            return self._mr_seq(case, sonic, model)
        return False

    def nontrivial(self, case, sonic, model):
        if case[0] == "c14wide":
            return int(case[4]) >= 2
        if case[0] == "get":
            return case[3] != "-"
        if case[0] == "pre" and case[1] != "-":
            b = bytes.fromhex(case[1])
            return any(c in b for c in b"[{\\")
        if case[0] == "c14seq":
            return sum(1 for st in case[2].split(";") if st[:1] in ("g", "c")) >= 2
        return False

    def shrink_fields(self, case):
        if case[0] == "c14wide":
            return []
        if case[0] == "c14seq":
            return [1] if case[1] != "-" else []
        return [2] if case[0] == "get" and len(case) > 2 and case[2] != "-" else ([1] if case[0] == "pre" and case[1] != "-" else [])

    # ------------------------------------------------------------------ known findings
    def matchers(self):
        def recs_of_kind(d):
            """records of the offending entry points, from the worker answers"""
            res = []
            for env, s in d["sonic"].items():
                exp = self._expected(s)
                if exp is None:
                    continue
                for names, rec in apis_of(s):
                    r = parse_rec(rec)
                    if d["kind"] == "phantom-value" and exp["_"] != "ok" and r["_"] == "ok":
                        res.append((env, names, r))
                    elif d["kind"] == "wrong-view" and exp["_"] == "ok" and r["_"] == "ok" and \
                            (any(r.get(f) != exp.get(f) for f in FIELDS_REF) or r.get("x") != "ok"):
                        res.append((env, names, r))
                    elif d["kind"] == "missing-value" and exp["_"] == "ok" and r["_"] != "ok":
                        res.append((env, names, r))
            return res

        def same_value(r, mrec):
            return mrec["_"] == "ok" and all(r.get(f) == mrec.get(f) for f in FIELDS_MODEL) and r.get("x") == "ok"

        def node_index_on_object(d, params):
            # Node.Index(i) on an object returns the value of its i-th pair (documented), where the
            # property's reference (and sonic.Get) finds nothing
            if d["kind"] == "seq-index-on-object" and d["case"][0] == "c14seq":
                return True     # the judge raises this kind only when the answer equals the model of Index-on-object
            if d["kind"] != "phantom-value" or d["case"][0] != "get":
                return False
            if not any(e.startswith("i:") for e in path_elems(d["case"][3])):
                return False
            bad = recs_of_kind(d)
            if not bad:
                return False
            for env, names, r in bad:
                m = d["model"].get(env) or {}
                if parse_rec(m.get("spec"))["_"] != "err:syntax" or m.get("node") in (None, "="):
                    return False
                if not all(is_node_api(a) for a in names) or not same_value(r, parse_rec(m["node"])):
                    return False
            return True

        def dup_key_last_after_load(d, params):
            # an object with more than 16 pairs that has been loaded completely answers Get(k) through
            # its hash index, which keeps the LAST occurrence of a duplicated key.  The offending entry
            # points must all be Node lookups and must return exactly what the model of that behaviour
            # (`nodelast`: last occurrence for objects above the index threshold) returns - the value, or
            # its failure class when the path continues below the wrong member.
            if d["kind"] not in ("wrong-view", "missing-value", "phantom-value") or d["case"][0] != "get":
                return False
            if not any(e.startswith("k:") for e in path_elems(d["case"][3])):
                return False
            bad = recs_of_kind(d)
            if not bad:
                return False
            for env, names, r in bad:
                m = d["model"].get(env) or {}
                if m.get("nodelast") in (None, "=") or m.get("nodelast") == m.get("node"):
                    return False
                last = parse_rec(m["nodelast"])
                if not all(is_node_api(a) for a in names):
                    return False
                if last["_"] == "ok":
                    if not same_value(r, last):
                        return False
                elif r["_"] != last["_"]:
                    return False
            return True

        def lone_surrogate_key(d, params):
            # sonic.Get*/Searcher fail with a syntax error when an object key on the way contains a lone
            # surrogate escape (match_key's unescape rejects it; encoding/json reads U+FFFD)
            if d["kind"] != "missing-value" or d["case"][0] != "get" or d["case"][2] == "-":
                return False
            if not lone_surrogate_in_key(bytes.fromhex(d["case"][2])):
                return False
            bad = recs_of_kind(d)
            if not bad:
                return False
            for env, names, r in bad:
                m = d["model"].get(env) or {}
                if m.get("kwf") != "0" or r["_"] != "err:syntax":
                    return False
                if not all(not is_node_api(a) or re.fullmatch(r"W\dN\d+", a) for a in names):
                    return False
                # the searcher model (native match_key loop) predicts the error for the pure searcher entry points
                if any(not is_node_api(a) for a in names) and m.get("model") != "err:syntax":
                    return False
            return True

        return {"node_index_on_object": node_index_on_object,
                "dup_key_last_after_load": dup_key_last_after_load,
                "lone_surrogate_key": lone_surrogate_key}


SPEC = C14()
