"""C01: Unmarshal agrees with encoding/json (error-or-not and deep equality of the destination)."""
import os
import re
import struct

from .. import core
from ..runner import Spec, Stream

CONFIG_FIELDS = ["EscapeHTML", "SortMapKeys", "CompactMarshaler", "NoQuoteTextMarshaler", "NoNullSliceOrMap", "UseInt64",
                 "UseNumber", "UseUnicodeErrors", "DisallowUnknownFields", "CopyString", "ValidateString",
                 "NoValidateJSONMarshaler", "NoValidateJSONSkip", "NoEncoderNewline", "EncodeNullForInfOrNan", "CaseSensitive"]


def bit(name):
    return 1 << CONFIG_FIELDS.index(name)


FLOAT_RE = re.compile(r"\((f64|f32) [0-9a-f]+\)")
ANY_I64_RE = re.compile(r"\(any i64 \(i (-?\d+)\)\)")


def hexbytes(s):
    return bytes.fromhex(s) if s != "-" else b""


def mask_floats(v):
    """float bit patterns are C19's subject (literal `-0`, float32 double rounding): not compared here"""
    return FLOAT_RE.sub(lambda m: "(%s *)" % m.group(1), v or "")


def int64_as_float(v):
    """UseInt64 has no counterpart in encoding/json: an int64 inside an interface{} is compared with the
    float64 the reference produced (correctly rounded conversion)"""
    def f(m):
        return "(any f64 (f64 %s))" % struct.pack(">d", float(int(m.group(1)))).hex()
    return ANY_I64_RE.sub(f, v or "")


def string_spans_bad(doc):
    """True when some string literal holds a raw control character, or the document is not UTF-8:
    the inputs the property excludes for configurations that do not validate strings"""
    try:
        doc.decode("utf-8")
    except UnicodeDecodeError:
        return True
    ins = False
    i = 0
    n = len(doc)
    while i < n:
        c = doc[i]
        if ins:
            if c == 0x5C:
                i += 2
                continue
            if c == 0x22:
                ins = False
            elif c < 0x20:
                return True
        elif c == 0x22:
            ins = True
        i += 1
    return False


def tags_of(case):
    return set(case[4].split(",")) if len(case) > 4 else set()


class BindSpec(Spec):
    """shared by C01 and C11: the case format `bind <cfgbits> <T> <doc hex> <tags>`"""
    lean_modules = []
    needs_factx = True

    def model_line(self, case, sonic):
        if case[0] != "bind":
            return "\t".join(case)
        return "\t".join(list(case[:5]))

    def shrink_fields(self, case):
        return [3] if case[0] == "bind" and len(case) > 3 and case[3] != "-" else []

    def shrink_candidates(self, case):
        """structure-aware: fewer struct fields / simpler types are tried by dropping `(f ...)` groups"""
        if case[0] != "bind":
            return []
        t = case[2]
        out = []
        # drop one top-level-or-nested field group at a time (balanced parentheses starting with "(f ")
        i = 0
        while True:
            i = t.find("(f ", i)
            if i < 0:
                break
            depth = 0
            j = i
            while j < len(t):
                if t[j] == "(":
                    depth += 1
                elif t[j] == ")":
                    depth -= 1
                    if depth == 0:
                        break
                j += 1
            cand = (t[:i].rstrip() + t[j + 1:]).replace("  ", " ")
            c2 = list(case)
            c2[2] = cand
            out.append(c2)
            i += 3
            if len(out) > 40:
                break
        return out


DEFPTR_ENVS = {"default": {}, "optdec": {"SONIC_USE_OPTDEC": "1"}}


class C01(BindSpec):
    prop = "C01"
    lean_modules = ["SonicSpec.Props.C01", "SonicSpec.Props.C01Dir"]
    rule = ("value-directed documents for generated destination types (random value marshalled by encoding/json, then mutated: "
            "kinds, key case incl. non-ASCII folds, duplicate keys, nulls, out-of-range / non-integer numbers, unknown fields, "
            "escapes, whitespace runs over 16/32/64-byte boundaries) plus a damaged stream, under ConfigStd / ConfigDefault "
            "(+UseNumber, +UseInt64, +DisallowUnknownFields, +CaseSensitive); non-trivial = the document reaches a container "
            "of the destination type or carries at least one mutation tag; dir-*: the REAL JIT-decoder compiler's program text for "
            "generated types (hook, op dirdis) against the model compiler's (Model/DirCompile.lean), exact text equality, non-trivial "
            "when the program has >= 2 instructions; Unmarshal against the model machine's exec (compile T) (op dirun)")
    trusted_base = ["encoding/json (go1.23.5) as executable reference; strconv.ParseFloat as the float oracle of the model",
                    "the generated decoders' machine code and the native skip/unquote routines are tied by correspondence only",
                    "decoder IR: the x86 assembler's meaning of an instruction is tied to Model/DirExec.lean only by the differential run (op dirun); "
                    "the leaves (native scanners, field lookup) are the specification's (Model/DirExec.lean header)"]
    assumptions = ["float bit patterns are not compared here (C19); configurations that do not validate strings are judged "
                   "only on documents whose string literals are free of raw control characters and ill-formed UTF-8 (as the property says)",
                   "CaseSensitive / UseInt64 have no counterpart in encoding/json: CaseSensitive is judged against the model "
                   "(tie only), UseInt64 after converting int64 in interface{} to the float64 of the reference"]

    def harness_tags(self):
        ok = os.path.exists(os.path.join(core.REPO, "verifhook", "decoder.go")) and \
            os.path.exists(os.path.join(core.REPO, "internal", "decoder", "jitdec", "verif_hook.go"))
        return ["hook_dir"] if ok else []

    def streams(self, tier, seed):
        if tier == "quick":
            return [Stream("valid", "bind.valid", 2000, timeout=0.05), Stream("malformed", "bind.malformed", 1000, timeout=0.05),
                    Stream("anydest", "bind.any", 400, timeout=0.05),
                    Stream("utf8bulk", "bind.utf8bulk", 24, timeout=0.5),
                    Stream("b64esc", "bind.b64esc", 400, timeout=0.05)] + self.dir_streams(True)
        return [Stream("valid", "bind.valid", 90000, timeout=0.02), Stream("malformed", "bind.malformed", 40000, timeout=0.02),
                Stream("anydest", "bind.any", 15000, timeout=0.02),
                Stream("utf8bulk", "bind.utf8bulk", 600, timeout=0.5),
                Stream("b64esc", "bind.b64esc", 15000, timeout=0.02)] + self.dir_streams(False)

    # ---- decoder IR (work package `dir`): disassembly tie + behaviour against the model machine
    def dir_streams(self, q):
        return [Stream("dir-edge", "dir.edge", 1, timeout=90.0 if q else 300.0),
                Stream("dir-types", "dir.types", 250 if q else 30000, timeout=0.1),
                Stream("dir-cutoff", "dir.cutoff", 80 if q else 4000, timeout=0.5),
                Stream("dir-sub", "dir.sub", 80 if q else 6000, timeout=0.1),
                Stream("dir-run", "dir.run", 400 if q else 40000, timeout=0.1),
                Stream("defptr", "bind.defptr", 200 if q else 6000, envs=DEFPTR_ENVS, timeout=0.05)]

    def judge_dir(self, case, sonic, model):
        out = []
        for env, s in sonic.items():
            m = model.get(env) or {}
            mm = m.get("model")
            so = s.get("sonic", "")
            if so in ("PANIC", "CRASH", "HANG"):
                out.append(("crash", "%s: %s" % (env, {k: v[:200] for k, v in s.items()})))
                continue
            if mm is None or mm.startswith("unsupported") or so in ("", "unsupported"):
                continue
            if case[0] == "dirdis":
                if mm == "panic" and so.startswith("err"):
                    continue
                if mm != "ok" or so != "ok":
                    out.append(("tie:dir-disassembly", "%s: compiler outcome sonic=%s model=%s" % (env, so[:80], mm)))
                elif s.get("dis") != m.get("dis"):
                    a = hexbytes(s.get("dis", "-")).decode("utf-8", "replace").split("\n")
                    b = hexbytes(m.get("dis", "-")).decode("utf-8", "replace").split("\n")
                    k = next((i for i, (x, y) in enumerate(zip(a, b)) if x != y), min(len(a), len(b)))
                    out.append(("tie:dir-disassembly", "%s: line %d real=%r model=%r (%d vs %d lines)"
                                % (env, k, a[k] if k < len(a) else None, b[k] if k < len(b) else None, len(a), len(b))))
            elif case[0] == "dirun":
                # the model machine against the real one, judged where the real decoder and encoding/json agree (where they
                # differ the `bind` streams judge the property itself, with its known findings)
                if "ref" not in s:
                    continue
                s_ok, r_ok, m_ok = so == "ok", s["ref"] == "ok", mm == "ok"
                if s_ok != r_ok or (s_ok and mask_floats(s.get("val")) != mask_floats(s.get("rval"))):
                    continue
                if m_ok != s_ok or (m_ok and mask_floats(m.get("val")) != mask_floats(s.get("val"))):
                    out.append(("tie:dir-exec", "%s cfg=%s sonic=%s %s model=%s %s" % (env, case[1], so, s.get("val", "")[:300], mm, m.get("val", "")[:300])))
        return out

    # ------------------------------------------------------------ verdict
    def expected(self, cfg, s, m):
        """(authority, ok, value) the implementation is held against; authority None = no verdict.
        CaseSensitive has no counterpart in encoding/json: when the model (which knows the switch) and the
        reference agree on a case, case folding plays no role in it and the reference is the authority as
        usual; when they differ the model is the authority and a difference is a broken tie, not a verdict."""
        ref = ("ref", s["ref"] == "ok", s.get("rval", "")) if "ref" in s else (None, None, None)
        if cfg & bit("CaseSensitive"):
            if m.get("model") in (None, "unsupported"):
                return None, None, None
            mo = ("model", m["model"] == "ok", m.get("val", ""))
            if ref[0] and ref[1] == mo[1] and (not mo[1] or ref[2] == mo[2]):
                return ref
            return mo
        return ref

    def judge(self, case, sonic, model):
        out = []
        if case[0] in ("dirdis", "dirun"):
            return self.judge_dir(case, sonic, model)
        if case[0] != "bind":
            return out
        cfg = int(case[1])
        doc = hexbytes(case[3])
        for env, s in sonic.items():
            st = s.get("sonic")
            if st in ("PANIC", "CRASH", "HANG"):
                out.append(("crash", "%s: %s" % (env, {k: v[:200] for k, v in s.items()})))
                continue
            if st in (None, "unsupported"):
                continue
            if not (cfg & bit("ValidateString")) and string_spans_bad(doc):
                continue    # outside the domain the property states for this configuration
            m = model.get(env) or {}
            auth, exp_ok, exp_val = self.expected(cfg, s, m)
            if auth is None:
                continue
            s_ok = st == "ok"
            sval = s.get("val", "")
            if cfg & bit("UseInt64") and auth == "ref":
                sval = int64_as_float(sval)
            found = None
            if s_ok and exp_ok:
                if sval != exp_val:
                    found = ("value-differs", "%s cfg=%d sonic=%s %s=%s" % (env, cfg, sval[:300], auth, exp_val[:300]))
            elif s_ok and not exp_ok:
                # documented leniency: values that are skipped (unknown fields, elements beyond a fixed array,
                # objects bound to a struct without fields) are checked for structure only.  Decided by the
                # single-pass model, which is strict on everything that is stored.
                lenient = m.get("stream") == "ok" and mask_floats(m.get("sval", "")) == mask_floats(s.get("val", "")) \
                    and (s.get("ref") == "syntax" or m.get("model") == "syntax")
                if m.get("model") == "unsupported" and s.get("ref") == "syntax" and m.get("struct") == "1":
                    lenient = True      # no model for this type: the skipped-value leniency cannot be decided
                if not lenient:
                    found = ("accepts-what-reference-rejects", "%s cfg=%d sonic=ok val=%s %s=%s" % (env, cfg, sval[:300], auth, s.get("ref") if auth == "ref" else m.get("model")))
            elif not s_ok and exp_ok:
                found = ("rejects-what-reference-accepts", "%s cfg=%d sonic=%s %s=ok val=%s" % (env, cfg, st, auth, exp_val[:300]))
            if found is None:
                continue
            if auth == "model":
                # the property does not speak about CaseSensitive: at most a broken tie, and not even that when
                # one of the listed deviations explains the difference
                d = {"kind": found[0], "detail": found[1], "case": case, "sonic": sonic, "model": model}
                if any(f(d, {}) for f in MATCHERS.values()):
                    continue
                found = ("tie:CaseSensitive-lookup:" + found[0], found[1])
            out.append(found)
        return out

    def model_ref_disagree(self, case, sonic, model):
        if case[0] == "dirun":
            # inside the sub-universe of exec_compile_eq_stream_partial the model machine and the single-pass specification
            # accept the same documents with the same value (the theorem says so)
            return any(m and m.get("sub") == "1" and m.get("stream") == "ne" for m in model.values())
        if case[0] != "bind":
            return False
        cfg = int(case[1])
        if cfg & bit("CaseSensitive"):
            return False
        for env, s in sonic.items():
            m = model.get(env) or {}
            if m.get("model") in (None, "unsupported") or "ref" not in s:
                continue
            if (m["model"] == "ok") != (s["ref"] == "ok"):
                return True
            if m["model"] == "ok":
                mv, rv = m.get("val", ""), s.get("rval", "")
                if cfg & bit("UseInt64"):
                    # `-0` stays an int64 0 under UseInt64 where the reference has float64 -0.0
                    mv, rv = mask_floats(int64_as_float(mv)), mask_floats(rv)
                if mv != rv:
                    return True
            # the two models must agree with each other on every document that parses (stream_eq_bind)
            if m["model"] != "syntax" and m.get("stream") not in (None, "unsupported"):
                if (m["model"] == "ok") != (m["stream"] == "ok"):
                    return True
                if m["model"] == "ok" and m.get("val") != m.get("sval"):
                    return True
        return False

    def nontrivial(self, case, sonic, model):
        if case[0] == "dirdis":
            try:
                return any(int((s or {}).get("n", "0")) >= 2 for s in sonic.values())
            except ValueError:
                return False
        if case[0] == "dirun":
            return "(" in case[2]
        if case[0] != "bind":
            return False
        t = tags_of(case)
        muts = [x for x in t if not x.startswith("cfg:") and x not in ("plain",)]
        return bool(muts) or "(" in case[2]

    def extra(self, ctx):
        """regenerated facts of the decoder-IR model: the hook is in the tree; the compiler's cut-off constants are the model's"""
        problems = []
        ctx["run"].cov["dir_hook_present"] = bool(self.harness_tags())
        try:
            src = open(os.path.join(core.REPO, "internal", "decoder", "jitdec", "compiler.go")).read()
            for name, want in (("_MAX_ILBUF", 100000), ("_MAX_FIELDS", 50)):
                m = re.search(r"\b%s\s*=\s*(\d+)" % name, src)
                if not m or int(m.group(1)) != want:
                    problems.append({"what": "jitdec/compiler.go %s is %s, Model/Dir.lean says %d (the compile model no longer speaks about the code)"
                                             % (name, m.group(1) if m else "missing", want)})
        except OSError as e:
            problems.append({"what": "cannot read internal/decoder/jitdec/compiler.go: %r" % (e,)})
        return problems

    # ------------------------------------------------------------ known findings
    def matchers(self):
        return MATCHERS


def _doc(d):
    try:
        return hexbytes(d["case"][3])
    except Exception:
        return b""


def _cfg(d):
    try:
        return int(d["case"][1])
    except Exception:
        return 0


def _typ(d):
    return d["case"][2] if len(d["case"]) > 2 else ""


def _tagbytes(d):
    """json names given by tags in the type expression (hex atoms), concatenated"""
    out = b""
    for h in re.findall(r"\(f \S+ ([0-9a-f]+) ", _typ(d)):
        try:
            out += bytes.fromhex(h) + b"\x00"
        except ValueError:
            pass
    return out


def _envs(d):
    """the environments a discrepancy is about: C01 details start with `<env> `, C11 kinds end in `:a/b`"""
    k = d["kind"]
    if ":" in k and "/" in k.rsplit(":", 1)[1]:
        return k.rsplit(":", 1)[1].split("/")
    if ":" in k and k.rsplit(":", 1)[1] in d["sonic"]:
        return [k.rsplit(":", 1)[1]]
    return [d["detail"].split(" ", 1)[0]]


def _side(d, env):
    return d["sonic"].get(env) or {}


def _is_jit(env):
    return env in ("default", "jit")


LONG_S = "\u017f".encode()       # ſ
MICRO, MU_SMALL, MU_CAP = "\u00b5".encode(), "\u03bc".encode(), "\u039c".encode()


def m_case_fold(d, params):
    """DESIGN §8 #3: case-insensitive fallback by strings.ToLower instead of simple folding.  ToLower and
    folding disagree, inside the generated alphabet, exactly on ſ ~ s/S and on µ ~ μ/Μ."""
    if _cfg(d) & bit("CaseSensitive"):
        return False
    both = _doc(d) + b"\x00" + _tagbytes(d)
    has_s = LONG_S in both
    has_mu = MICRO in both and (MU_SMALL in both or MU_CAP in both)
    if not (has_s or has_mu):
        return False
    k = d["kind"].split(":")[0]
    return k in ("value-differs", "rejects-what-reference-accepts", "accepts-what-reference-rejects", "error-or-not-differs")


def m_raw_lenient(d, params):
    """DESIGN §8 #13: a json.RawMessage destination accepts a value whose string literals carry invalid
    escapes (stored, hence outside the skipped-value leniency); without ValidateString any escape passes,
    with it `\\uXXXX` with non-hex digits and `\\U`, `\\x` still do"""
    if "raw" not in _typ(d):
        return False
    if not d["kind"].startswith("accepts-what-reference-rejects"):
        return False
    for e in _envs(d):
        s, m = _side(d, e), (d["model"].get(e) or {})
        if s.get("sonic") == "ok" and s.get("ref") == "syntax" and m.get("struct") == "1" and b"\\" in _doc(d) and "(raw " in s.get("val", ""):
            return True
    return False


RAW_RE = re.compile(r"\(raw [0-9a-f-]+\)")


def m_raw_utf8_replaced(d, params):
    """DESIGN §8 #13 (second half): ConfigStd replaces ill-formed UTF-8 in the whole document before
    decoding, so the bytes kept by a RawMessage differ from the source text"""
    if not (_cfg(d) & bit("ValidateString")) or "raw" not in _typ(d) or not d["kind"].startswith("value-differs"):
        return False
    try:
        _doc(d).decode("utf-8")
        return False
    except UnicodeDecodeError:
        pass
    for e in _envs(d):
        s = _side(d, e)
        got = RAW_RE.sub("(raw *)", mask_floats(s.get("val", "")))
        if got == RAW_RE.sub("(raw *)", mask_floats(s.get("rval", ""))):
            return True
        # under CaseSensitive the authority is the model (encoding/json has no such switch): same rule against its value
        mv = (d["model"].get(e) or {}).get("val")
        if (_cfg(d) & bit("CaseSensitive")) and mv is not None and got == RAW_RE.sub("(raw *)", mask_floats(mv)):
            return True
    return False


def _has_empty_struct(t):
    """a struct type none of whose fields is visible to JSON: `(st)` or only `json:"-"` fields"""
    if "(st)" in t:
        return True
    return re.search(r"\(st( \(f \S+ 2d [^()]*(\([^()]*\))?\))+\)", t) is not None


def _model_flag(d, key):
    for m in d["model"].values():
        if m and key in m:
            return m[key]
    return None


def m_skip_empty_unknown(d, params):
    """new: with DisallowUnknownFields the JIT reports `unknown field` after skipping the object bound to a
    struct without fields whenever a `:` follows later in the document (_asm_OP_skip_empty computes the
    length of the skipped span as end+start instead of end-start and searches past it)"""
    if not (_cfg(d) & bit("DisallowUnknownFields")) or not (_has_empty_struct(_typ(d)) or _model_flag(d, "emptyst") == "1"):
        return False
    if d["kind"].split(":")[0] not in ("rejects-what-reference-accepts", "error-or-not-differs"):
        return False
    if b"{" not in _doc(d):
        return False
    for e in _envs(d):
        s = _side(d, e)
        if _is_jit(e) and s.get("sonic") == "unknown_field" and s.get("ref") in ("ok", "mismatch", "other"):
            return True
    return False


INTKEY_RE = re.compile(r"\(map (i8|i16|i32|i64|int|u8|u16|u32|u64|uint|uptr) ")
ODD_INT_KEY_RE = re.compile(rb'"(\+[0-9]|-?0[0-9]|[^"]*\\)[^"]*"\s*:')


def m_int_map_key_spelling(d, params):
    """new: the JIT reads the key of an integer-keyed map as a JSON number literal (no `+`, no leading
    zero) and does not decode escapes in it; encoding/json (and optdec) apply strconv.ParseInt/ParseUint to
    the unquoted key"""
    if not INTKEY_RE.search(_typ(d)) or not ODD_INT_KEY_RE.search(_doc(d)):
        return False
    if d["kind"].split(":")[0] not in ("rejects-what-reference-accepts", "error-or-not-differs"):
        return False
    for e in _envs(d):
        s = _side(d, e)
        if _is_jit(e) and s.get("sonic") in ("mismatch", "syntax") and s.get("ref") == "ok":
            return True
    return False


def m_map_dup_key_merge(d, params):
    """new: a duplicate key of a JSON object bound to a map is decoded INTO the element already stored
    (null keeps it, an object is merged) where encoding/json decodes into a fresh zero value; both decoders"""
    if "(map " not in _typ(d) or not d["kind"].startswith("value-differs") or "/" in d["kind"]:
        return False
    t = tags_of(d["case"])
    return "dup_key" in t or bool(params.get("any_tag"))


TRAILING_COMMA_RE = re.compile(rb",\s*\]")


def m_array_trailing_comma(d, params):
    """new: after the last element of a fixed-size array the JIT hands the rest to `_OP_array_skip`, which
    accepts `]` right after the comma: `[1,]` into [1]int is accepted"""
    if "(arr " not in _typ(d) or not TRAILING_COMMA_RE.search(_doc(d)):
        return False
    k = d["kind"].split(":")[0]
    if k not in ("accepts-what-reference-rejects", "accepts-malformed", "error-or-not-differs"):
        return False
    for e in _envs(d):
        s = _side(d, e)
        if _is_jit(e) and s.get("sonic") == "ok":
            return True
    return False


PTRPTR_UNM_RE = re.compile(r"\(ptr \(ptr (\(ptr )*(raw|\(lib (MV|TV)\))")


def m_null_ptrptr_unmarshaler(d, params):
    """new: `null` into a pointer to a pointer to a type whose pointer implements (Text)Unmarshaler
    (**json.RawMessage, **T): jitdec compilePtr returns from inside its dereference loop without pinning
    the `is_null` jump, the decoder reports a syntax error where encoding/json sets the pointer to nil"""
    if not PTRPTR_UNM_RE.search(_typ(d)) or b"null" not in _doc(d):
        return False
    if d["kind"].split(":")[0] not in ("rejects-what-reference-accepts", "error-or-not-differs"):
        return False
    for e in _envs(d):
        s = _side(d, e)
        if _is_jit(e) and s.get("sonic") == "syntax" and s.get("ref") in ("ok", "mismatch"):
            return True
    return False


STRING_OPT_RE = re.compile(r"\(f \S+ ([0-9a-f]*2c737472696e67[0-9a-f]*) (\(ptr )?(num|f32|f64|i8|i16|i32|i64|int|u8|u16|u32|u64|uint|uptr)\)")
JSON_NUM_RE = re.compile(rb"-?(0|[1-9][0-9]*)(\.[0-9]+)?([eE][+-]?[0-9]+)?")
NUMLIKE_STR_RE = re.compile(rb'"([-0-9][^"\\]*)"')


def m_string_opt_number_content(d, params):
    """new (encoding/json quirk): a numeric or json.Number field with `,string` whose string content starts
    like a number but is not a JSON number ("1,", "1.", "01", "1e"): encoding/json hands it to strconv
    (json.Number: stored unvalidated, decode.go:968) and accepts what strconv accepts; sonic reports an error"""
    if not STRING_OPT_RE.search(_typ(d)):
        return False
    if d["kind"].split(":")[0] not in ("rejects-what-reference-accepts",):
        return False
    odd = [t for t in NUMLIKE_STR_RE.findall(_doc(d)) if not JSON_NUM_RE.fullmatch(t)]
    if not odd:
        return False
    for e in _envs(d):
        s = _side(d, e)
        if s.get("sonic") != "ok" and s.get("ref") == "ok":
            return True
    return False


STR_LIT_RE = re.compile(rb'"(?:[^"\\]|\\.)*"')
B64_TEXT_RE = re.compile(r"[A-Za-z0-9+/=]*\Z")


def _bad_padding(doc):
    """some string literal of the document is, once unquoted and stripped of line breaks (which
    encoding/base64 skips), base64 text with a wrong length or misplaced padding"""
    import json as _json
    for lit in STR_LIT_RE.findall(doc):
        try:
            t = _json.loads(lit.decode("utf-8", "replace"))
        except ValueError:
            continue
        t = t.replace("\r", "").replace("\n", "")
        if not t or not B64_TEXT_RE.match(t):
            continue
        if len(t) % 4 != 0 or ("=" in t.rstrip("=")) or len(t) - len(t.rstrip("=")) > 2:
            return True
    return False


def m_base64_padding(d, params):
    """new: base64 text with a wrong length or misplaced padding ("AQ=", "ioaL5A=") into []byte is decoded
    by the JIT's native decoder where encoding/json reports base64.CorruptInputError"""
    t = _typ(d)
    if not ("bytes" in t or "(sl u8)" in t) or not _bad_padding(_doc(d)):
        return False
    if d["kind"].split(":")[0] not in ("accepts-what-reference-rejects", "error-or-not-differs"):
        return False
    for e in _envs(d):
        s = _side(d, e)
        if _is_jit(e) and s.get("sonic") == "ok" and s.get("ref") not in (None, "ok"):
            return True
    return False


def m_optdec_base64_panic(d, params):
    """new: the same texts make optdec PANIC (`slice bounds out of range` in rt.DecodeBase64: the buffer is
    sized by base64x.DecodedLen of a length that is not a multiple of 4)"""
    t = _typ(d)
    if d["kind"] != "crash" or not ("bytes" in t or "(sl u8)" in t or "any" in t) or not _bad_padding(_doc(d)):
        return False
    for e, s in d["sonic"].items():
        if s.get("sonic") == "PANIC":
            if _is_jit(e) or "slice bounds out of range" not in s.get("panic", ""):
                return False
    return True


U32KEY_RE = re.compile(r"\(map (u32) ")
BIGKEY_RE = re.compile(rb'"([0-9]{10,})"\s*:')


def m_u32_map_key_wraps(d, params):
    """new: a key above 2^32-1 for a map[uint32]T is stored modulo 2^32 by the JIT (no range check after
    the 64-bit parse); encoding/json reports a type error and stores nothing"""
    if not U32KEY_RE.search(_typ(d)):
        return False
    if not any(int(k) > 0xFFFFFFFF for k in BIGKEY_RE.findall(_doc(d))):
        return False
    if d["kind"].split(":")[0] not in ("accepts-what-reference-rejects", "error-or-not-differs", "value-differs"):
        return False
    for e in _envs(d):
        s = _side(d, e)
        if _is_jit(e) and s.get("sonic") == "ok":
            return True
    return False


def m_unterminated_mod32(d, params):
    """DESIGN §8 #11 (C02/C05/C13): a document ending inside a string literal whose body is a positive
    multiple of 32 bytes long is accepted where strings are not validated"""
    if _cfg(d) & bit("ValidateString"):
        return False
    if d["kind"].split(":")[0] not in ("accepts-what-reference-rejects", "accepts-malformed"):
        return False
    doc = _doc(d)
    i = doc.rfind(b'"')
    if i < 0:
        return False
    body = doc[i + 1:]
    return len(body) > 0 and len(body) % 32 == 0 and b"\\" not in body


# ---------------------------------------------------------------- optdec-only differences (C11, DESIGN §8 #22)

def _pair(d):
    """(jit side, optdec side) of a pairwise C11 discrepancy, or None"""
    es = _envs(d)
    if len(es) != 2 or not _is_jit(es[0]) or _is_jit(es[1]):
        return None
    return _side(d, es[0]), _side(d, es[1])


def m_optdec_null_in_slice(d, params):
    """§8 #22: `null` elements of slices and maps with scalar element types ([]int, []uint8, map[string]string)
    are type errors in optdec (encoding/json, jitdec: no-op)"""
    p = _pair(d)
    t = _typ(d)
    if not p or not d["kind"].startswith("error-or-not-differs") or b"null" not in _doc(d) or not ("(sl " in t or "bytes" in t or "(map " in t):
        return False
    return p[0].get("sonic") == "ok" and p[1].get("sonic") == "mismatch"


def m_optdec_neg_zero_unsigned(d, params):
    """§8 #22: `-0` is accepted into unsigned destinations by optdec (encoding/json, jitdec: type error)"""
    p = _pair(d)
    if not p or not d["kind"].startswith("error-or-not-differs") or not re.search(rb"-0(?![0-9.eE])", _doc(d)):
        return False
    # re-probed on HEAD: only elements of a slice whose element kind is uint8 (optdec's byte-slice path) accept it
    if not re.search(r"\(sl u8\)|\bbytes\b", _typ(d)):
        return False
    return p[0].get("sonic") == "mismatch" and p[1].get("sonic") == "ok"


BIG_EXP_RE = re.compile(rb"[0-9][eE][+-]?[0-9]{3,}|[0-9]{310,}")


def m_optdec_eager_number(d, params):
    """§8 #22: optdec's DOM converts every number literal eagerly, so a literal outside the float64 range is
    a syntax error even where it is kept as text (json.Number, json.RawMessage) or skipped"""
    p = _pair(d)
    if not p or not d["kind"].startswith("error-or-not-differs") or not BIG_EXP_RE.search(_doc(d)):
        return False
    return p[1].get("sonic") == "syntax" and p[0].get("sonic") != "syntax"


def m_optdec_raw_trailing_space(d, params):
    """new: a top-level json.RawMessage decoded by optdec keeps the white space that follows the value"""
    p = _pair(d)
    if not p or not d["kind"].startswith("value-differs") or "raw" not in _typ(d):
        return False
    a, b = p[0].get("val", ""), p[1].get("val", "")
    ra, rb_ = re.findall(r"\(raw ([0-9a-f]+)\)", a), re.findall(r"\(raw ([0-9a-f]+)\)", b)
    if len(ra) != len(rb_) or RAW_RE.sub("(raw *)", a) != RAW_RE.sub("(raw *)", b):
        return False
    return all(y.startswith(x) and bytes.fromhex(y[len(x):]).strip(b" \t\r\n") == b"" for x, y in zip(ra, rb_))


def m_optdec_embedded_ptr_null(d, params):
    """§8 #22: an embedded *Inner is not allocated by optdec when its only key has the value null"""
    p = _pair(d)
    if not p or "EmbOuter" not in _typ(d) or b"null" not in _doc(d) or not d["kind"].startswith("value-differs"):
        return False
    return True


PLUSNUM_STR_RE = re.compile(rb'"([-+0-9][^"\\]*)"')


def m_optdec_string_opt_content(d, params):
    """new: optdec hands the content of a `,string` numeric / json.Number field to a more tolerant parser
    than jitdec ("+1" is accepted); encoding/json refuses a content that does not start with a digit or `-`"""
    p = _pair(d)
    if not p or not d["kind"].startswith("error-or-not-differs") or not STRING_OPT_RE.search(_typ(d)):
        return False
    odd = [t for t in PLUSNUM_STR_RE.findall(_doc(d)) if not JSON_NUM_RE.fullmatch(t)]
    return bool(odd) and p[0].get("sonic") != "ok" and p[1].get("sonic") == "ok"


def m_optdec_null_text_unmarshaler(d, params):
    """new: JSON null for a non-pointer value whose pointer implements encoding.TextUnmarshaler resets the value
    to zero in optdec (encoding/json, jitdec: no effect); visible when a duplicate key gives null after a value"""
    p = _pair(d)
    if not p or "(lib TV)" not in _typ(d) or b"null" not in _doc(d) or not d["kind"].startswith("value-differs"):
        return False
    return p[0].get("val") == p[0].get("rval") and p[1].get("val") != p[1].get("rval")


FLOAT_ATOM_RE = re.compile(r"\((f64|f32) ([0-9a-f]+)\)")


def _value_pairs(d):
    """the pairs of value dumps a value discrepancy is about: (sonic, reference) for C01, (jit, optdec) for C11"""
    p = _pair(d)
    if p:
        return [(p[0].get("val", ""), p[1].get("val", ""))]
    out = []
    for e in _envs(d):
        s = _side(d, e)
        v = s.get("val", "")
        if _cfg(d) & bit("UseInt64"):
            v = int64_as_float(v)
        other = s.get("rval", "")
        if _cfg(d) & bit("CaseSensitive"):
            m = d["model"].get(e) or {}
            if m.get("model") == "ok" and m.get("val") != other:
                other = m.get("val", "")       # the judge held sonic against the model on this case
        out.append((v, other))
    return out


def _float_diffs(a, b):
    """None when the dumps differ outside float atoms, else the list of differing (width, x, y)"""
    if mask_floats(a) != mask_floats(b):
        return None
    fa, fb = FLOAT_ATOM_RE.findall(a), FLOAT_ATOM_RE.findall(b)
    return [(x[0], int(x[1], 16), int(y[1], 16)) for x, y in zip(fa, fb) if x != y]


def m_c19_neg_zero(d, params):
    """C19-neg-zero-literal seen through Unmarshal: the literal `-0` gives +0.0 (encoding/json: -0.0); the
    values differ in nothing but signs of float zeros and the document holds the literal `-0`"""
    if not d["kind"].startswith("value-differs") or _model_flag(d, "negz") != "1":
        return False
    for a, b in _value_pairs(d):
        df = _float_diffs(a, b)
        if not df:
            return False
        for w, x, y in df:
            sign = 1 << (63 if w == "f64" else 31)
            if not ({x, y} == {0, sign}):
                return False
    return True


def m_c19_f32_double_rounding(d, params):
    """C19-f32-double-rounding seen through Unmarshal: float32 destinations are rounded twice; some literal of the
    document is one on which that matters (driver flag f32dr), the values differ by one float32 ulp only, or
    only one side reports the overflow"""
    if _model_flag(d, "f32dr") != "1" or "f32" not in _typ(d):
        return False
    k = d["kind"].split(":")[0]
    if k == "value-differs":
        for a, b in _value_pairs(d):
            df = _float_diffs(a, b)
            if not df or any(w != "f32" or abs(x - y) != 1 for w, x, y in df):
                return False
        return True
    if k in ("rejects-what-reference-accepts", "accepts-what-reference-rejects", "error-or-not-differs"):
        return True
    return False


KEY_RE = re.compile(rb'"((?:[^"\\\\]|\\\\.)*)"\s*:')


def m_fastmap_dup_key_null(d, params):
    """new: SONIC_USE_FASTMAP=1 only: inside an interface{} a duplicate object key whose later value is `null`
    keeps the earlier value (`{"a":1,"a":null}` gives a:1; encoding/json, jitdec and optdec without fastmap: nil)"""
    if not d["kind"].startswith("value-differs") or "optdec_fastmap" not in d["kind"]:
        return False
    if "any" not in _typ(d) or b"null" not in _doc(d):
        return False
    doc = _doc(d)
    keys = KEY_RE.findall(doc)
    dups = {k for k in keys if keys.count(k) > 1} if len(keys) < 5000 else set()
    # some duplicated key is given the value null somewhere
    if not any(re.search(rb'"' + re.escape(k) + rb'"\s*:\s*null', doc) for k in dups):
        return False
    so = d["sonic"]
    j, o, f = (so.get("jit") or {}), (so.get("optdec") or {}), (so.get("optdec_fastmap") or {})
    return j.get("val") == o.get("val") and f.get("val") != o.get("val") and f.get("sonic") == "ok"


DEFPTR_FIELD_RE = re.compile(r"\(f \S+ \S+ \(lib (DirRef|DirRefT)\)\)")
DEFPTR_KINDS = ("value-differs", "accepts-what-reference-rejects", "rejects-what-reference-accepts")


def m_field_defined_ptr(d, params):
    """a struct FIELD whose type is a defined pointer type (`type DirRef *MV`, `type DirRefT *TV`; the defined type has no
    methods, the element's pointer type has UnmarshalJSON / UnmarshalText): internal/resolver/resolver.go:168 rebuilds the
    field type with reflect.PtrTo, so both decoders call the element's method where encoding/json decodes field by field.
    Narrow: the destination type has such a field; nothing else is looked at."""
    if not d["kind"].startswith(DEFPTR_KINDS):
        return False
    return bool(DEFPTR_FIELD_RE.search(_typ(d)))


def _sx(t):
    """type expression -> nested lists"""
    toks = t.replace("(", " ( ").replace(")", " ) ").split()
    pos = [0]

    def rd():
        if pos[0] >= len(toks):
            return ""
        x = toks[pos[0]]
        pos[0] += 1
        if x != "(":
            return x
        out = []
        while pos[0] < len(toks) and toks[pos[0]] != ")":
            out.append(rd())
        pos[0] += 1
        return out
    return rd()


def _defptr_elem_depth(t, sp=0, field=False):
    """largest static value-stack depth (`sp` of compileOne: +1 per slice / array / struct level, +2 per map) at which a defined
    pointer type is met as something other than a struct field; -1 = nowhere"""
    if not isinstance(t, list) or not t:
        return -1
    h = t[0]
    if h == "lib":
        return sp if (len(t) > 1 and t[1] in ("DirRef", "DirRefT") and not field) else -1
    if h == "ptr":
        return _defptr_elem_depth(t[1], sp, field)
    if h == "sl":
        return _defptr_elem_depth(t[1], sp + 1)
    if h == "arr":
        return _defptr_elem_depth(t[2], sp + 1) if len(t) > 2 else -1
    if h == "map":
        return _defptr_elem_depth(t[2], sp + 2) if len(t) > 2 else -1
    if h == "st":
        return max([-1] + [_defptr_elem_depth(f[3], sp + 1, True) for f in t[1:] if isinstance(f, list) and len(f) > 3])
    return -1


def m_c09_namedptr_deferred(d, params):
    """C09-jitdec-namedptr-inline-depth seen through typed Unmarshal: the JIT decodes the element of a defined pointer type in
    place (like encoding/json) above MaxInlineDepth (3) and through `_OP_recurse` -> the element's own program -> its
    UnmarshalJSON / UnmarshalText at or below it.  JIT environment only; the destination has a defined pointer type that is
    not a struct field at static depth >= 3."""
    if not d["kind"].startswith(DEFPTR_KINDS):
        return False
    if not all(_is_jit(e) for e in _envs(d)):
        return False
    try:
        return _defptr_elem_depth(_sx(_typ(d))) >= 3
    except Exception:
        return False


MATCHERS = {
    "field_defined_pointer_type_calls_elem_unmarshaler": m_field_defined_ptr,
    "c09_jitdec_namedptr_deferred": m_c09_namedptr_deferred,
    "fastmap_dup_key_null_keeps_value": m_fastmap_dup_key_null,
    "c19_neg_zero_literal": m_c19_neg_zero,
    "c19_f32_double_rounding": m_c19_f32_double_rounding,
    "optdec_null_resets_text_unmarshaler": m_optdec_null_text_unmarshaler,
    "optdec_string_opt_number_content": m_optdec_string_opt_content,
    "optdec_null_in_slice": m_optdec_null_in_slice,
    "optdec_neg_zero_unsigned": m_optdec_neg_zero_unsigned,
    "optdec_eager_number_range": m_optdec_eager_number,
    "optdec_rawmessage_trailing_space": m_optdec_raw_trailing_space,
    "optdec_embedded_ptr_null": m_optdec_embedded_ptr_null,
    "jit_null_into_ptrptr_unmarshaler": m_null_ptrptr_unmarshaler,
    "string_opt_number_content": m_string_opt_number_content,
    "jit_base64_bad_padding_accepted": m_base64_padding,
    "optdec_base64_bad_padding_panic": m_optdec_base64_panic,
    "jit_u32_map_key_wraps": m_u32_map_key_wraps,
    "unterminated_string_mod32": m_unterminated_mod32,
    "case_fold_tolower": m_case_fold,
    "rawmessage_invalid_escape": m_raw_lenient,
    "rawmessage_utf8_replaced": m_raw_utf8_replaced,
    "jit_skip_empty_disallow_unknown": m_skip_empty_unknown,
    "jit_int_map_key_spelling": m_int_map_key_spelling,
    "map_dup_key_merges_element": m_map_dup_key_merge,
    "jit_fixed_array_trailing_comma": m_array_trailing_comma,
}

SPEC = C01()
