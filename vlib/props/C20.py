"""C20 - quote / unquote / HTML escape / UTF-8 routines match their definitions.

Three voices per case: sonic (the real routine, `sonic=`), the executable reference the property names
(encoding/json, unicode/utf8: `ref=`), and the Lean model (`model=`, plus the relations the model decides on
the implementation's own output: `lit=` is a JSON string literal, `rt=` it decodes back to the input).

Verdicts (see WORKPACKAGE_GUIDE.md):
  * a discrepancy is reported only when the property statement fails on the case:
      quote / mstr : the output is not a literal that decodes back            (model relation, reference agrees)
      unq / ustr   : accepted/rejected or decoded bytes differ                (model, reference where applicable)
      html         : differs from encoding/json.HTMLEscape or loses the prefix (reference, model agrees)
      utf8v/utf8c  : differs from unicode/utf8                                 (reference, model agrees)
      mstr / ustr  : the routine reached through Marshal/Unmarshal differs from the routine called directly
  * differences the property does not speak about (which of two legal escape forms, the native error
    kind) are ties: `tie:<name>`.
  * model != reference: my model is wrong, no verdict (model_ref_disagree).
"""
import os

from ..runner import Spec, Stream

ENVS = {"default": {}, "noavx2": {"SONIC_MODE": "noavx2"}}
BAD = ("PANIC", "CRASH", "HANG")


def _st(v):
    """'ok:<hex>' / 'err:<KIND>' / 'err' -> ('ok', hex) or ('err', kind)"""
    if v is None:
        return (None, None)
    if v.startswith("ok:"):
        return ("ok", v[3:])
    if v.startswith("err"):
        return ("err", v[4:] if len(v) > 3 else "")
    return (v, None)


class C20(Spec):
    prop = "C20"
    lean_modules = ["SonicSpec.Props.C20"]
    rule = ("a case is non-trivial when its input makes the routine leave the plain-copy path: a byte that is "
            "escaped/replaced (control, quote, backslash, <>&, E2 80 A8/A9, ill-formed UTF-8), a backslash escape, "
            "a multi-byte sequence, or a length of at least one vector block (16 bytes); inputs: all single bytes, "
            "all (thorough) / edge + stride-sampled (quick) byte pairs, every length 0..300, special pieces at every "
            "offset of two 32-byte blocks, all \\u quads on surrogate boundaries, malformed escapes (separate stream), "
            "long inputs that make the destination grow, each under SONIC_MODE default and noavx2")
    trusted_base = ["native quote/unquote/html_escape/validate_utf8 machine code (avx2 and sse builds) is modelled "
                    "(Model/Str*.lean, transliterated from native/*.c), tied by correspondence only",
                    "encoding/json and unicode/utf8 (Go 1.23.5) as executable reference"]
    assumptions = ["positions reported by native unquote (*ep) are not observable through unquote.String and are not modelled",
                   "the double-unquote mode and the no-replace mode are reached only through Unmarshal (`,string` fields, "
                   "decoder.UseUnicodeErrors); the double-quote mode only through Marshal of `,string` fields"]

    def streams(self, tier, seed):
        q = tier == "quick"
        n = 600 if q else 30000
        return [
            Stream("quote", "c20.quote", n * 2, envs=ENVS),
            Stream("unquote-valid", "c20.unq", n, envs=ENVS),
            Stream("unquote-malformed", "c20.unqbad", n, envs=ENVS),
            Stream("html", "c20.html", n, envs=ENVS),
            Stream("utf8", "c20.utf8", n, envs=ENVS),
            Stream("marshal", "c20.marshal", n, envs=ENVS),
            Stream("unmarshal", "c20.unmarshal", n, envs=ENVS),
        ]

    # ------------------------------------------------------------------ model line
    def model_line(self, case, sonic):
        op = case[0]
        s = sonic.get("sonic", "")
        if op in ("quote", "mstr") and s and s not in BAD and not s.startswith(("err", "badframe", "unsupported")):
            return "\t".join(case + [s])
        return "\t".join(case)

    # ------------------------------------------------------------------ verdicts
    def model_ref_disagree(self, case, sonic, model):
        op = case[0]
        for env, s in sonic.items():
            m = model.get(env) or {}
            if "model" not in m or m["model"] == "unsupported":
                continue
            ref = s.get("ref")
            if ref is None:
                continue
            if op in ("html", "utf8c", "utf8v"):
                if m["model"] != ref:
                    return True
                if m.get("loop", "1") != "1" or m.get("chunk", "1") != "1":
                    return True   # the restartable loop of the model disagrees with its own closed form
            elif op in ("quote", "mstr"):
                if m.get("loop", "1") != "1":
                    return True
                if "rt" in m and s.get("sonic") not in BAD:
                    # both decide "the output is a literal that decodes back"
                    ok_model = m.get("lit") == "1" and m.get("rt") == "1"
                    if ok_model != (ref == "1"):
                        return True
            elif op == "unq":
                if ref == "na":
                    continue
                mk, mv = _st(m["model"])
                rk, rv = _st(ref)
                if mk != rk:
                    return True
                if mk == "ok" and self._fix(mv) != rv:
                    return True
            elif op == "ustr":
                if not self._ustr_ref_applies(case):
                    continue
                mk, mv = _st(m["model"])
                rk, rv = _st(ref)
                if mk != rk:
                    return True
                if mk == "ok" and self._fix(mv) != rv:
                    return True
        return False

    @staticmethod
    def _fix(hexs):
        """byte-wise U+FFFD replacement as unicode/utf8 decodes (Go's rule: one replacement per ill-formed byte)"""
        b = bytes.fromhex(hexs) if hexs != "-" else b""
        out = bytearray()
        i = 0
        n = len(b)
        while i < n:
            c = b[i]
            l = 0
            if c < 0x80:
                l = 1
            elif 0xC2 <= c <= 0xDF:
                if i + 1 < n and 0x80 <= b[i + 1] <= 0xBF:
                    l = 2
            elif 0xE0 <= c <= 0xEF:
                if i + 2 < n and 0x80 <= b[i + 2] <= 0xBF:
                    lo, hi = 0x80, 0xBF
                    if c == 0xE0:
                        lo = 0xA0
                    if c == 0xED:
                        hi = 0x9F
                    if lo <= b[i + 1] <= hi:
                        l = 3
            elif 0xF0 <= c <= 0xF4:
                if i + 3 < n and 0x80 <= b[i + 2] <= 0xBF and 0x80 <= b[i + 3] <= 0xBF:
                    lo, hi = 0x80, 0xBF
                    if c == 0xF0:
                        lo = 0x90
                    if c == 0xF4:
                        hi = 0x8F
                    if lo <= b[i + 1] <= hi:
                        l = 4
            if l == 0:
                out += b"\xef\xbf\xbd"
                i += 1
            else:
                out += b[i:i + l]
                i += l
        return out.hex() if out else "-"

    @staticmethod
    def _ustr_ref_applies(case):
        """encoding/json is comparable on this Unmarshal case: not the `,string` form (sonic's double unquote is
        laxer than two std passes - C01's business), not the no-replace mode (std always replaces), and for the
        default configuration only when the body has no control character (std rejects, sonic copies)"""
        shape, cfg, body = case[1], case[2], case[3]
        if shape == "fs" or cfg == "u":
            return False
        if cfg == "s":
            return True
        b = bytes.fromhex(body) if body != "-" else b""
        return not any(c < 0x20 for c in b)

    def judge(self, case, sonic, model):
        out = []
        op = case[0]
        for env, s in sonic.items():
            sv = s.get("sonic")
            if sv in BAD:
                out.append(("crash", "%s: %s" % (env, s)))
                continue
            if sv == "unsupported" or sv is None:
                continue
            m = model.get(env) or {}
            mv = m.get("model")
            if mv is None or mv == "unsupported":
                continue
            ref = s.get("ref")
            if op == "quote":
                if "rt" in m and not (m.get("lit") == "1" and m.get("rt") == "1"):
                    out.append(("quote-not-roundtrip", "%s: Quote output %s is not a literal decoding to the input (lit=%s rt=%s ref=%s)"
                                % (env, sv[:200], m.get("lit"), m.get("rt"), ref)))
                elif sv != mv:
                    out.append(("tie:quote-escape-form", "%s: sonic=%s model=%s" % (env, sv[:200], mv[:200])))
            elif op == "mstr":
                if sv.startswith(("err", "badframe")):
                    out.append(("marshal-failed", "%s: %s" % (env, sv[:200])))
                    continue
                if s.get("direct") is not None and s["direct"] != sv:
                    out.append(("marshal-differs-from-direct", "%s: Marshal gives %s, the routines called directly give %s"
                                % (env, sv[:200], s["direct"][:200])))
                elif "rt" in m and not (m.get("lit") == "1" and m.get("rt") == "1"):
                    out.append(("marshal-not-roundtrip", "%s: %s lit=%s rt=%s ref=%s" % (env, sv[:200], m.get("lit"), m.get("rt"), ref)))
                elif sv != mv:
                    out.append(("tie:marshal-literal", "%s: sonic=%s model=%s" % (env, sv[:200], mv[:200])))
            elif op == "unq":
                sk, sb = _st(sv)
                mk, mb = _st(mv)
                if s.get("into") == "0":
                    out.append(("unquote-intobytes-differs", "%s: IntoBytes and String disagree" % env))
                if sk != mk or (sk == "ok" and sb != mb):
                    out.append(("unquote-differs", "%s: sonic=%s model=%s ref=%s" % (env, sv[:200], mv[:200], (ref or "")[:200])))
                elif sk == "err" and sb != mb:
                    out.append(("tie:unquote-error-kind", "%s: sonic=%s model=%s" % (env, sv, mv)))
            elif op == "ustr":
                sk, sb = _st(sv)
                mk, mb = _st(mv)
                d = s.get("direct")
                if d not in (None, "na"):
                    dk, db = _st(d)
                    if dk != sk or (sk == "ok" and db != sb):
                        out.append(("unmarshal-differs-from-direct", "%s: Unmarshal gives %s, unquote.String gives %s" % (env, sv[:200], d[:200])))
                        continue
                same_as_model = (sk == mk and (sk != "ok" or sb == mb))
                if case[1] != "fs":
                    if not same_as_model:
                        out.append(("unmarshal-string-differs", "%s: sonic=%s model=%s ref=%s" % (env, sv[:200], mv[:200], (ref or "")[:200])))
                    continue
                # `,string` form: the specification is unquoting twice (what encoding/json does); the one-pass
                # routine (model=) is sonic's implementation of it
                tk, tb = _st(m.get("two"))
                if sk == tk and (sk != "ok" or sb == tb):
                    continue                      # behaves as the definition says
                rk, rb = _st(ref)
                std_is_two = case[2] != "u" and rk == tk and (tk != "ok" or self._fix(tb) == rb)
                if std_is_two:
                    out.append(("double-unquote-differs-from-encoding-json",
                                "%s: sonic=%s, unquoting twice and encoding/json give %s (one-pass model: %s)" % (env, sv[:200], (ref or "")[:200], mv[:200])))
                elif not same_as_model:
                    out.append(("unmarshal-string-differs", "%s: sonic=%s model=%s two-pass=%s ref=%s"
                                % (env, sv[:200], mv[:200], (m.get("two") or "")[:200], (ref or "")[:200])))
            elif op in ("html", "utf8c", "utf8v"):
                if sv != mv:
                    out.append((op + "-differs", "%s: sonic=%s model=ref=%s" % (env, sv[:200], mv[:200])))
        # the SIMD level must not change anything (also C13; here only as a side condition of "at every alignment")
        vals = {env: s.get("sonic") for env, s in sonic.items()}
        if len(set(vals.values())) > 1 and not out:
            out.append(("differs-between-simd-levels", str({k: (v or "")[:120] for k, v in vals.items()})))
        dbg = os.environ.get("C20_DEBUG")
        if dbg and out:
            with open(dbg, "a") as f:
                for k, d in out:
                    f.write("%s\t%s\t%s\n" % (k, "\t".join(case)[:300], d[:300]))
        return out

    # ------------------------------------------------------------------ coverage rule
    def nontrivial(self, case, sonic, model):
        op = case[0]
        h = case[-1]
        if h == "-":
            return False
        b = bytes.fromhex(h)
        if len(b) >= 16:
            return True
        if op in ("unq", "ustr"):
            return any(c == 92 or c >= 128 for c in b)
        if op == "html":
            return any(c in (60, 62, 38, 0xE2) for c in b)
        if op in ("utf8v", "utf8c"):
            return any(c >= 128 for c in b)
        return any(c < 32 or c in (34, 92, 60, 62, 38) or c >= 128 for c in b)

    # ------------------------------------------------------------------ known findings
    def matchers(self):
        def html_long_prefix(d, params):
            """encoder.HTMLEscape(dst, src) panics in rt.GrowSlice when len(dst) > len(src)*3/2 + 64 and the spare
            capacity is below len(src)+64 (internal/encoder/alg/spec.go:131-133 computes the new capacity from
            len(src) alone).  Narrow: only this op, only a panic with this message, only in that region."""
            case = d["case"]
            if d["kind"] != "crash" or case[0] != "html":
                return False
            spare = int(case[1])
            dl = 0 if case[2] == "-" else len(case[2]) // 2
            sl = 0 if case[3] == "-" else len(case[3]) // 2
            if not (spare < sl + 64 and dl > sl * 3 // 2 + 64):
                return False
            for env, s in d["sonic"].items():
                if s.get("sonic") == "PANIC" and "newCap is smaller than old length" not in s.get("panic", ""):
                    return False
            return True
        def dbl_ignores_unicode_errors(d, params):
            """`,string` field + decoder.UseUnicodeErrors: a lone surrogate escape is replaced by U+FFFD instead of
            being rejected (escape_string_twice, assembler_regabi_amd64.go:820-823: XORL after BTQ clears the carry,
            so F_UNICODE_REPLACE is always set).  Narrow: only that shape and option, only when sonic returns
            exactly what the routine gives with replacement switched on, and the model (no replacement) rejects."""
            case = d["case"]
            if d["kind"] != "unmarshal-string-differs" or case[0] != "ustr" or case[1] != "fs" or case[2] != "u":
                return False
            for env, s in d["sonic"].items():
                m = (d["model"].get(env) or {})
                if not (m.get("model") == "err" and m.get("alt", "").startswith("ok:") and s.get("sonic") == m.get("alt")):
                    return False
            return True

        def dbl_one_pass(d, params):
            """`,string` field: sonic unquotes the doubly quoted body in one pass (native unquote with
            F_DOUBLE_UNQUOTE); on bodies that are not what Marshal produces (a backslash or quote written as
            \\u005c / \\u0022, a lone high surrogate followed by a malformed \\u escape) the result differs from
            unquoting twice, which is what encoding/json does.  Narrow: only that shape, only when sonic returns
            exactly what the one-pass model returns."""
            case = d["case"]
            if d["kind"] != "double-unquote-differs-from-encoding-json" or case[0] != "ustr" or case[1] != "fs":
                return False
            for env, s in d["sonic"].items():
                m = (d["model"].get(env) or {})
                mv = m.get("model", "")
                sv = s.get("sonic", "")
                if mv.startswith("ok:"):
                    if sv != mv:
                        return False
                elif not (mv == "err" and sv.startswith("err")):
                    return False
            return True
        return {"html_escape_long_prefix_growslice_panic": html_long_prefix,
                "double_unquote_ignores_unicode_errors": dbl_ignores_unicode_errors,
                "double_unquote_one_pass": dbl_one_pass}

    def shrink_fields(self, case):
        # the hex payload is the last field; for html/utf8c also the destination prefix
        idx = [len(case) - 1]
        if case[0] in ("html", "utf8c") and len(case) >= 4:
            idx.append(len(case) - 2)
        return [i for i in idx if case[i] != "-" and len(case[i]) >= 4]


SPEC = C20()
