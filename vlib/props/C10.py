import hashlib
import os
import subprocess

from .. import core
from ..runner import Spec, Stream

HOOK = os.path.join("loader", "verif_hook.go")
FRAMES = os.path.join(core.LEAN, "SonicSpec", "Generated", "Frames.lean")
FACTX_FRAMES = os.path.join(core.VERIF, "go", "factx_frames")


class C10(Spec):
    prop = "C10"
    needs_factx = True
    extra_generated = ["Frames.lean"]
    lean_modules = ["SonicSpec.Props.C10", "SonicSpec.Props.C10Layout", "SonicSpec.Props.C10Code"]
    level = "proof"
    rule = ("pc-value tables: GetPcspTable-shaped and random well-formed tables (varint length boundaries 127/128, 16383/16384, "
            "2^21, 2^28; int32 extremes and wrap) plus a separate stream of tables that leave the precondition (repeated value, "
            "repeated pc, first value -1, nothing emitted, descending pcs); builder programs of every length 0..33 and random "
            "AddField/AddFields mixes; non-trivial = at least two entries written or a multi-byte varint or a table outside the "
            "precondition / at least one bit / a callback that saw generated frames in its traceback")
    trusted_base = [
        "go/factx_frames (go/ast + go/constant, stdlib only; fails on any unrecognised shape) prints what the two assemblers, "
        "pools.go, vars/stack.go, dispatch_amd64.go and the *_subr.go files say",
        "Model/Loader.lean transliterates loader/pcdata.go, loader/internal/rt/stackmap.go, loader/loader_latest.go:buildLoadFunc and "
        "the Go 1.23 runtime's pcvalue/step/readvarint; tied by correspondence to the real MarshalBinary / StackMapBuilder / "
        "buildLoadFunc and to the REAL runtime.step, runtime.pcdatavalue2, FuncForPC.FileLine (linknamed, not copied)",
        "internal/abi.StackNosplitBase = 800 (go1.23) is a stated constant of Props/C10.lean, not regenerated",
    ]
    assumptions = [
        "PARTIAL. Proved: the tables sonic hands to the Go runtime are what they should be - every pc-value table that satisfies the "
        "stated precondition is read back by the runtime's own algorithm at every pc; StackMapBuilder records exactly the given "
        "bits; the regenerated argument bitmaps equal the pointer-ness of the _Decoder/Encoder signatures; frame slots are aligned, "
        "in bounds and disjoint; argument sizes match arities; the stack pre-growth covers decoder + generic decoder + native frames.",
        "NOT MODELLED (no x86 model, no runtime model): GC scanning of a live generated frame, asynchronous preemption, stack copying "
        "(adjustment of pointers inside generated frames), and write-barrier placement for every pointer store the assemblers emit. "
        "Nothing is proved about them.",
        "NOT MODELLED: which local slots hold pointers. localPtrs is empty in all three frames, so the collector never looks at "
        "_VAR_* slots; that every pointer held there is also reachable from an argument word or the heap is an assumption.",
        "GetPcspTable is modelled on an abstract instruction stream (size + effect on SP). Proved for every body and every instruction "
        "size: for the shape SUBQ $n,SP; body; ADDQ $n,SP; RET; tail the runtime reads back the SP displacement of each region; "
        "regenerated facts show the three assemblers emit that shape with n = the frame size given to Load and write SP nowhere else. "
        "NOT MODELLED: instruction encodings and sizes (golang-asm), and that the out-of-line tail is entered only from the body.",
        "Static tie (regenerated): every mallocgc call sonic's Go code makes or its assemblers emit either passes needzero=true or is "
        "listed in the hand-written expectation table of Props/C10Code.lean as an allocation of a pointer-free type; rt.NoEscape(&local) "
        "occurs only under `if vt.Indirect()`. That a listed type really is pointer-free, and that zeroed memory is then written "
        "consistently, is NOT proved. The nullarena / vmrecurse streams search for failing inputs (dirty heap + null elements under "
        "the optdec fast-map arena; stack move during a Marshaler call-out under the VM encoder).",
        "The gcslot stream is a FAILING-INPUT SEARCH aimed at single pointer slots (the vk argument word, _Stack.ep, callback receivers, "
        "the encoder's buffer and state stack): finalizer and poisoned-reuse probes inside callbacks, results compared with a quiet run. "
        "It finds the two seeded defects with a replay; a clean run is still not a proof.",
        "The gcstress streams only EXERCISE these assumptions (exploration, not proof): Marshal/Unmarshal workloads whose "
        "Marshaler/Unmarshaler/TextMarshaler/TextUnmarshaler callbacks call runtime.GC, debug.Stack, runtime.Callers + "
        "CallersFrames + FuncForPC, and recurse to force stack copies, under GOGC=1 and SONIC_SYNC_GC=1, with results compared "
        "against a quiet run of the same sonic and re-checked after further collections. A clean run is no guarantee.",
        "The decoder of the Go runtime is modelled for go1.23 (amd64, PCQuantum 1); the pcvalue cache is not modelled.",
    ]

    # regenerated facts: go/factx_frames is run by core.run_factx (EXTRA_EXTRACTORS) -> Generated/Frames.lean
    def harness_tags(self):
        return ["hook_loader"] if os.path.exists(os.path.join(core.REPO, HOOK)) else []

    def extra(self, ctx):
        if not self.harness_tags():
            return [{"what": "hook %s is not present in the tree under test: the StackMapBuilder / buildLoadFunc "
                             "correspondence cannot run" % HOOK}]
        return []

    # ------------------------------------------------------------------ streams
    def streams(self, tier, seed):
        q = tier == "quick"
        gc_envs = {"default": {}, "gogc1": {"GOGC": "1"}}
        st = [
            Stream("pcdata", "c10.pcdata", 1500 if q else 100000),
            Stream("pcdata-outside-precondition", "c10.pcdata.bad", 800 if q else 50000),
            Stream("pcline-real-runtime", "c10.pcline", 120 if q else 2000, timeout=0.5),
            Stream("loadone-real-runtime", "c10.loadone", 40 if q else 600, timeout=0.5),
        ]
        if self.harness_tags():
            st.append(Stream("stackmap+loadtabs", "c10.stackmap", 400 if q else 30000))
        # failing-input search aimed at the pointer slots the stack maps / layout theorems speak about
        st.append(Stream("gcslot(pointer-slot search)", "c10.gcslot", 8 if q else 120, envs=gc_envs, timeout=30.0, use_model=False))
        # memory handed to the runtime as pointer-typed must be zeroed / fully written (optdec fast-map arena)
        st.append(Stream("nullarena(un-zeroed pointer memory)", "c10.nullarena", 10 if q else 200,
                         envs={"optdec-fastmap": {"SONIC_USE_OPTDEC": "1", "SONIC_USE_FASTMAP": "1"}, "default": {}},
                         timeout=30.0, use_model=False))
        # no address of a local may survive in heap state across a stack move (VM encoder state stack)
        st.append(Stream("vmrecurse(stack move during call-out)", "c10.vmrecurse", 6 if q else 120,
                         envs={"vm": {"SONIC_ENCODER_USE_VM": "1"}, "default": {}}, timeout=30.0, use_model=False))
        st.append(Stream("gcstress(exploration)", "c10.gcstress", 12 if q else 200, envs=gc_envs, timeout=20.0, use_model=False))
        st.append(Stream("gcstress-syncgc(exploration)", "c10.gcstress.sync", 2 if q else 10,
                         envs={"syncgc": {"SONIC_SYNC_GC": "1"}}, timeout=180.0, use_model=False))
        return st

    def model_line(self, case, sonic):
        if case[0] in ("gcstress", "gcslot", "nullarena", "vmrecurse"):
            return None
        return "\t".join(case)

    # ------------------------------------------------------------------ verdicts
    def model_ref_disagree(self, case, sonic, model):
        # reference = the Go runtime's own step, run on the real bytes; only meaningful when the
        # model produced the same bytes
        if case[0] != "pcdata":
            return False
        for env, s in sonic.items():
            m = model.get(env) or {}
            if "model" in m and s.get("sonic") == m["model"] and s.get("sonic") != "PANIC":
                if "rtdec" in s and s["rtdec"] != m.get("dec"):
                    return True
        return False

    def judge(self, case, sonic, model):
        out = []
        op = case[0]
        for env, s in sonic.items():
            sv = s.get("sonic")
            if sv in ("CRASH", "HANG", "PANIC") and not (op in ("pcdata", "pcline", "loadtabs") and sv == "PANIC"):
                kind = "crash" if op not in ("gcstress", "gcslot", "nullarena", "vmrecurse") else "runtime-crash-in-generated-code"
                out.append((kind, "%s: %s" % (env, s)))
                continue
            if sv == "unsupported" or sv is None:
                continue
            if op == "gcstress":
                if sv != "ok":
                    out.append(("value-corrupted-under-gc", "%s: %s" % (env, s)))
                continue
            if op == "nullarena":
                if sv != "ok":
                    out.append(("unzeroed-pointer-memory-visible", "%s: %s" % (env, s)))
                continue
            if op == "vmrecurse":
                if sv != "ok":
                    out.append(("stale-stack-address-in-heap-state", "%s: %s" % (env, s)))
                continue
            if op == "gcslot":
                if sv != "ok":
                    out.append(("pointer-slot-not-traced", "%s: %s" % (env, s)))
                continue
            m = model.get(env) or {}
            if "model" not in m or m["model"] == "unsupported":
                continue
            if op == "pcdata":
                rt = s.get("rtdec", "").replace("o", "n")
                if m.get("wf") == "1" and sv != "PANIC" and rt != m.get("at"):
                    # a table of the shape sonic generates, yet the runtime's own reader finds something else
                    out.append(("pcvalue-wrong", "%s: bytes=%s runtime=%s table=%s" % (env, sv, s.get("rtdec"), m.get("at"))))
                elif sv != m["model"]:
                    out.append(("tie:pcdata-marshal", "%s: sonic=%s model=%s" % (env, sv, m["model"])))
                elif m.get("asc") == "1" and sv != "PANIC" and rt != m.get("ate"):
                    out.append(("tie:pcdata-skip-rule", "%s: runtime=%s emitted=%s" % (env, s.get("rtdec"), m.get("ate"))))
            elif op == "pcline":
                if sv != m["model"]:
                    out.append(("tie:loaded-table-as-the-runtime-reads-it", "%s: runtime=%s model=%s" % (env, sv, m["model"])))
            elif op == "loadone":
                if sv != m["model"]:
                    out.append(("loadone-pcdata-wrong", "%s: runtime=%s model=%s" % (env, sv, m["model"])))
            elif op == "stackmap":
                if s.get("bits") != m.get("bits") or s.get("n") != m.get("n"):
                    out.append(("stackmap-bits-wrong", "%s: sonic=%s/%s fields=%s/%s" % (env, s.get("bits"), s.get("n"), m.get("bits"), m.get("n"))))
                elif sv != m["model"]:
                    out.append(("tie:stackmap-bytes", "%s: sonic=%s model=%s" % (env, sv, m["model"])))
            elif op == "loadtabs":
                if sv != m["model"]:
                    out.append(("tie:buildLoadFunc-tables", "%s: sonic=%s model=%s" % (env, sv, m["model"])))
        return out

    def nontrivial(self, case, sonic, model):
        op = case[0]
        if op == "pcdata":
            for m in model.values():
                mm = m.get("model", "")
                return m.get("wf") == "0" or len(mm) > 6
            return False
        if op in ("pcline", "loadtabs"):
            return case[1] != "-"
        if op == "loadone":
            return True
        if op == "stackmap":
            return case[1] != "-"
        if op == "nullarena":
            return any(s.get("sonic") == "ok" and int(s.get("elems", "0") or 0) > 0 for s in sonic.values())
        if op == "vmrecurse":
            return any(s.get("sonic") == "ok" and int(s.get("burns", "0") or 0) > 0 for s in sonic.values())
        if op == "gcslot":
            for s in sonic.values():
                if s.get("sonic") == "ok" and int(s.get("calls", "0") or 0) > 0 and "note" not in s:
                    return True
            return False
        if op == "gcstress":
            for s in sonic.values():
                if s.get("sonic") == "ok" and (int(s.get("jitframes", "0") or 0) > 0 or int(s.get("bytes", "0") or 0) > 100):
                    return True
        return False

    def shrink_fields(self, case):
        return []


SPEC = C10()
