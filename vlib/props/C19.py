"""C19 - numbers convert exactly in both directions.

Three voices per case: the Lean model (exact arithmetic; `model=`), the executable reference
(encoding/json `ref=`, strconv `ref2=`) and sonic through several routes:
  sonic= ConfigStd.Unmarshal/Marshal   def= ConfigDefault   ast= sonic.Get(...).Float64/StrictInt64/Number
  astcast= Node.Int64 (documented cast; judged on in-range integer literals only)
  nest= `[lit]` into []T (ConfigStd)   fld= `{"a":lit}` into struct{A T} (ConfigDefault)
in the worker configurations default / SONIC_USE_OPTDEC=1 / SONIC_ENCODER_USE_VM=1 / SONIC_MODE=noavx2.
"""
from ..runner import Spec, Stream

ENVS = {
    "default": {},
    "optdec": {"SONIC_USE_OPTDEC": "1"},
    "vm": {"SONIC_ENCODER_USE_VM": "1"},
    "noavx2": {"SONIC_MODE": "noavx2"},
}
DEC_ENVS = dict(ENVS)
ENC_ENVS = dict(ENVS)

FLOAT_KINDS = ("f64", "f32", "any")
UINT_KINDS = ("u8", "u16", "u32", "u64", "uint")
INT_KINDS = ("i8", "i16", "i32", "i64", "int")
ROUTES = ("sonic", "def", "ast", "nest", "fld")


def _first(d):
    for v in d.values():
        if v:
            return v
    return {}


def _model(model):
    for v in model.values():
        if v and "model" in v:
            return v
    return {}


def _is_err(r):
    return r.startswith("err:")


def _f64_of_int(n):
    import struct
    try:
        return struct.pack(">d", float(n)).hex()
    except OverflowError:
        return None


def f64_is_f32_midpoint(bits_hex):
    """the float64 with these bits lies exactly half way between two adjacent float32 values
    (or between the largest float32 and 2^128)"""
    b = int(bits_hex, 16) & ((1 << 63) - 1)
    e = b >> 52
    m = b & ((1 << 52) - 1)
    if e == 0x7FF or b == 0:
        return False
    if e == 0:
        q, x = m, -1074
    else:
        q, x = m | (1 << 52), e - 1075
    # value = q * 2^x ; float32 ulp exponent for this magnitude
    top = q.bit_length() - 1 + x           # floor(log2 value)
    ulp = max(top - 23, -149)
    # value / 2^ulp must be k + 1/2
    sh = x - (ulp - 1)                      # value / 2^(ulp-1) = q * 2^sh must be an odd integer
    if sh >= 0:
        return ((q << sh) & 1) == 1
    if q & ((1 << -sh) - 1):
        return False
    return ((q >> -sh) & 1) == 1


def _parse_detail(detail):
    d = {}
    for part in detail.split(" "):
        k, _, v = part.partition("=")
        d[k] = v
    return d


class C19(Spec):
    prop = "C19"
    lean_modules = ["SonicSpec.Props.C19"]
    rule = ("number literals built to be hard (exact halfway and near-halfway points between adjacent float64/float32 "
            "values, 17-30 and >19 and >800 digit mantissas, exponent extremes, subnormals, signed zeros, boundaries "
            "+-2 of every integer width, integer values spelled with fraction/exponent) into every destination kind and "
            "through five routes; float bit patterns (all exponents, powers of two/ten neighbours, thresholds, random, "
            "float32 slices) and integers for formatting.  A decode case is non-trivial when the literal is well-formed "
            "and longer than 3 bytes; a float formatting case when the value is not zero; an integer when |n| >= 10")
    trusted_base = ["native number parsing / printing machine code (atof_eisel_lemire, atof_native, vnumber, vsigned, "
                    "vunsigned, f64toa, f32toa, i64toa/u64toa) and the JIT range checks are modelled by the exact "
                    "specification (Model/Num.lean, Model/NumFmt.lean) and tied by correspondence only",
                    "strconv.ParseFloat/ParseInt/ParseUint/AppendFloat and encoding/json as executable reference"]
    assumptions = [
                   "ast.Node.Int64 is a documented cast (converts through float64): judged only on integer literals in range; "
                   "Node.StrictInt64 is the route judged strictly"]

    def streams(self, tier, seed):
        if tier == "quick":
            return [Stream("decode", "c19.dec", 5200, envs=DEC_ENVS),
                    Stream("encode", "c19.enc", 4500, envs=ENC_ENVS)]
        return [Stream("atof", "c19.atof", 400000, envs=DEC_ENVS),
                Stream("bad", "c19.bad", 60000, envs=DEC_ENVS),
                Stream("ftoa", "c19.ftoa", 500000, envs=ENC_ENVS),
                Stream("itoa", "c19.itoa", 100000, envs=ENC_ENVS)]

    # ------------------------------------------------------------------ model vs reference
    def model_ref_disagree(self, case, sonic, model):
        s = _first(sonic)
        m = _model(model)
        if not m or "ref" not in s:
            return False
        M, R, R2 = m["model"], s.get("ref", ""), s.get("ref2", "na")
        if m.get("gram") == "MISMATCH":
            return True   # parseDec and the shared strict JSON model (Json.scanNumber) disagree on the grammar
        if M in ("unsupported",):
            return False
        op = case[0]
        if op in ("ftoa", "itoa"):
            if M == "none":
                return True
            if M.startswith("err:"):
                return not R.startswith("err:")
            if M != R:
                return True
            if op == "itoa" and R2 != M:
                return True
            return False
        kind = case[1]
        RB = s.get("refbig", "na")
        if RB != "na" and M != "err:syntax":
            # more than 800 digits before the decimal point: Go's strconv loses the position of the
            # point on its slow path (decimal.set); the executable reference there is math/big
            if kind == "any_useint64" and M.startswith("ok:i:"):
                return False
            return (M if not _is_err(M) else "err") != (RB if not _is_err(RB) else "err")
        # malformed <-> syntax error of encoding/json
        if (M == "err:syntax") != (R == "err:syntax"):
            return True
        if M == "err:syntax":
            return False
        if kind == "any_useint64":
            # encoding/json has no UseInt64: its float64 must be the float64 of the model's answer
            if M.startswith("ok:i:"):
                if case[2] == "2d30":
                    return R != "ok:f:8000000000000000"
                return R != "ok:f:" + str(_f64_of_int(int(M[5:])))
            return (M if not _is_err(M) else "err") != (R if not _is_err(R) else "err")
        if _is_err(M) != _is_err(R):
            return True
        if not _is_err(M) and M != R:
            return True
        if R2 != "na":
            if _is_err(M) != _is_err(R2):
                return True
            if not _is_err(M) and M != R2:
                return True
            if M == "err:range" and kind in FLOAT_KINDS + INT_KINDS and R2 != "err:range":
                return True
        return False

    # ------------------------------------------------------------------ verdict
    def judge(self, case, sonic, model):
        out = []
        m = _model(model)
        op = case[0]
        for env, s in sonic.items():
            if s.get("sonic") in ("PANIC", "CRASH", "HANG"):
                out.append(("crash", "env=%s route=sonic got=%s want=- %s" % (env, s.get("sonic"), s.get("panic", s.get("crash", "")))))
                continue
            if not m or "model" not in m:
                continue
            M = m["model"]
            if M in ("unsupported", "none"):
                continue
            if op == "atof":
                if M == "err:syntax":
                    continue  # not a number literal: C19 does not speak (C02 does)
                for route in ROUTES:
                    got = s.get(route)
                    if got is None or got == "na":
                        continue
                    if _is_err(M):
                        if not _is_err(got):
                            out.append(("atof-accept", "env=%s route=%s got=%s want=%s" % (env, route, got, M)))
                    elif _is_err(got):
                        out.append(("atof-reject", "env=%s route=%s got=%s want=%s" % (env, route, got, M)))
                    elif got != M:
                        out.append(("atof-value", "env=%s route=%s got=%s want=%s" % (env, route, got, M)))
                cast = s.get("astcast")
                if cast and not _is_err(M) and cast != M:
                    out.append(("atof-value", "env=%s route=astcast got=%s want=%s" % (env, cast, M)))
            else:
                for route in ("sonic", "def"):
                    got = s.get(route)
                    if got is None:
                        continue
                    if _is_err(M):
                        if not _is_err(got):
                            out.append(("%s-accept" % op, "env=%s route=%s got=%s want=%s" % (env, route, got, M)))
                    elif got != M:
                        out.append(("%s-text" % op, "env=%s route=%s got=%s want=%s" % (env, route, got, M)))
        return out

    def nontrivial(self, case, sonic, model):
        m = _model(model)
        if case[0] == "atof":
            return bool(m) and m.get("model") != "err:syntax" and len(case[2]) > 6
        if case[0] == "ftoa":
            return int(case[2], 16) & ((1 << (63 if case[1] == "f64" else 31)) - 1) != 0
        if case[0] == "itoa":
            return len(case[2].lstrip("-")) >= 2
        return False

    def shrink_fields(self, case):
        # a literal is not shrunk byte-wise: removing digits changes the class of the case
        return []

    # ------------------------------------------------------------------ known findings (narrow)
    def matchers(self):
        def neg_zero_literal_to_float(d, params):
            # literal is exactly `-0` (integer literal, zero, minus sign); destination float64 / float32 /
            # interface{}; the implementation stored +0 instead of -0
            if d["kind"] != "atof-value" or d["case"][0] != "atof" or d["case"][1] not in FLOAT_KINDS:
                return False
            if d["case"][2] != "2d30":
                return False
            m = _model(d["model"])
            if m.get("cls") != "izn":
                return False
            det = _parse_detail(d["detail"])
            if det.get("route") not in ("sonic", "def", "nest", "fld"):
                return False
            want, got = det.get("want", ""), det.get("got", "")
            pos = {"f64": "ok:0000000000000000", "f32": "ok:00000000", "any": "ok:f:0000000000000000"}[d["case"][1]]
            neg = {"f64": "ok:8000000000000000", "f32": "ok:80000000", "any": "ok:f:8000000000000000"}[d["case"][1]]
            return want == neg and got == pos

        def f32_double_rounding(d, params):
            # destination float32; the float64 nearest to the literal lies exactly on a float32 halfway
            # point and the implementation's answer is what rounding twice (literal -> float64 -> float32) gives
            if d["kind"] not in ("atof-value", "atof-reject") or d["case"][0] != "atof" or d["case"][1] != "f32":
                return False
            m = _model(d["model"])
            via, f64 = m.get("via64", ""), m.get("f64", "")
            if not f64.startswith("ok:") or not f64_is_f32_midpoint(f64[3:]):
                return False
            det = _parse_detail(d["detail"])
            if det.get("route") not in ("sonic", "def", "nest", "fld"):
                return False
            got = det.get("got", "")
            if via == m.get("model"):
                return False
            if _is_err(via):
                return via == "err:range" and _is_err(got)
            return got == via

        def vm_encoder_neg_zero(d, params):
            # SONIC_ENCODER_USE_VM=1 only: negative zero printed as `0`
            if d["kind"] != "ftoa-text" or d["case"][0] != "ftoa":
                return False
            if (d["case"][1], d["case"][2]) not in (("f64", "8000000000000000"), ("f32", "80000000")):
                return False
            det = _parse_detail(d["detail"])
            return det.get("env") == "vm" and det.get("got") == "ok:30" and det.get("want") == "ok:2d30"

        def optdec_neg_zero_into_unsigned(d, params):
            # SONIC_USE_OPTDEC=1 only: the literal `-0` is stored as 0 into an unsigned destination
            if d["kind"] != "atof-accept" or d["case"][0] != "atof" or d["case"][1] not in UINT_KINDS:
                return False
            if d["case"][2] != "2d30":
                return False
            det = _parse_detail(d["detail"])
            return det.get("env") == "optdec" and det.get("got") == "ok:0"

        def optdec_number_beyond_float64(d, params):
            # SONIC_USE_OPTDEC=1 only: json.Number destination, literal whose magnitude overflows float64 is rejected
            if d["kind"] != "atof-reject" or d["case"][0] != "atof" or d["case"][1] not in ("num", "any_usenumber"):
                return False
            m = _model(d["model"])
            det = _parse_detail(d["detail"])
            return det.get("env") == "optdec" and m.get("f64") == "err:range" and _is_err(det.get("got", ""))

        def optdec_f32_above_max_below_overflow(d, params):
            # SONIC_USE_OPTDEC=1 only: float32 destination, the float64 of the literal is above MaxFloat32
            # but the literal still rounds to MaxFloat32 (e.g. `3.4028235e38`, the text Marshal prints
            # for MaxFloat32): rejected by `ret > math.MaxFloat32` (optdec/functor.go:198)
            if d["kind"] != "atof-reject" or d["case"][0] != "atof" or d["case"][1] != "f32":
                return False
            m = _model(d["model"])
            det = _parse_detail(d["detail"])
            if det.get("env") != "optdec" or m.get("model") not in ("ok:7f7fffff", "ok:ff7fffff"):
                return False
            f64 = m.get("f64", "")
            return f64.startswith("ok:") and (int(f64[3:], 16) & ((1 << 63) - 1)) > 0x47EFFFFFE0000000

        def int_part_over_800_digits(d, params):
            # more than 800 digits before the decimal point and the literal takes the slow (big decimal)
            # path: the position of the decimal point is lost, exactly as in Go's strconv decimal.set
            # (so sonic = strconv there, both off by a power of ten); math/big agrees with the model
            if d["kind"] not in ("atof-value", "atof-accept", "atof-reject") or d["case"][0] != "atof":
                return False
            if d["case"][1] not in ("f64", "f32", "any", "any_useint64"):
                return False
            lit = bytes.fromhex(d["case"][2]).lstrip(b"-")
            n = 0
            while n < len(lit) and 48 <= lit[n] <= 57:
                n += 1
            if n <= 800:
                return False
            s = _first(d["sonic"])
            m = _model(d["model"])
            rb, r2, M = s.get("refbig", "na"), s.get("ref2", "na"), m.get("model", "")
            if rb == "na" or r2 == "na":
                return False
            same = lambda a, b: (a if not _is_err(a) else "err") == (b if not _is_err(b) else "err")
            if not same(rb, M):
                return False           # math/big = model
            if d["case"][1] == "f32":
                # float32 goes through the float64 conversion: strconv's float64 must be wrong on this literal
                r64, rb64 = s.get("ref64", "na"), s.get("refbig64", "na")
                return r64 != "na" and rb64 != "na" and not same(r64, rb64)
            if same(r2, rb):
                return False           # strconv itself must be wrong on this literal
            det = _parse_detail(d["detail"])
            return same(det.get("got", ""), r2)

        return {
            "optdec_f32_above_max_below_overflow": optdec_f32_above_max_below_overflow,
            "int_part_over_800_digits": int_part_over_800_digits,
            "neg_zero_literal_to_float": neg_zero_literal_to_float,
            "f32_double_rounding": f32_double_rounding,
            "vm_encoder_neg_zero": vm_encoder_neg_zero,
            "optdec_neg_zero_into_unsigned": optdec_neg_zero_into_unsigned,
            "optdec_number_beyond_float64": optdec_number_beyond_float64,
        }


SPEC = C19()
