"""C11: the alternative decoder (SONIC_USE_OPTDEC, with or without SONIC_USE_FASTMAP) is observably
equivalent to the default one on valid documents, and all reject structurally malformed ones."""
from ..runner import Stream
from .C01 import BindSpec, bit, hexbytes, string_spans_bad, tags_of, mask_floats, MATCHERS

ENVS = {"jit": {}, "optdec": {"SONIC_USE_OPTDEC": "1"},
        "optdec_fastmap": {"SONIC_USE_OPTDEC": "1", "SONIC_USE_FASTMAP": "1"}}


class C11(BindSpec):
    prop = "C11"
    lean_modules = ["SonicSpec.Props.C11"]
    rule = ("the C01 case streams (value-directed documents with mutations, damaged documents) run by three workers: default "
            "decoder, SONIC_USE_OPTDEC=1, SONIC_USE_OPTDEC=1 SONIC_USE_FASTMAP=1; compared pairwise on documents that the strict "
            "grammar accepts, rejection demanded from all three on documents the structural grammar refuses; non-trivial = "
            "the destination type has a container or the case carries a mutation tag")
    trusted_base = ["the strict/structural JSON grammars of the Lean model decide `valid` / `structurally malformed`",
                    "both decoders' machine code (JIT output, native parser of optdec) is tied by correspondence only"]
    assumptions = ["documents that are structurally well-formed but not valid JSON (bad escapes, control characters in literals) are "
                   "outside the statement: neither agreement nor rejection is demanded",
                   "documents must be UTF-8 to count as valid"]

    def streams(self, tier, seed):
        if tier == "quick":
            return [Stream("valid", "bind.valid", 1200, envs=ENVS, timeout=0.05),
                    Stream("malformed", "bind.malformed", 500, envs=ENVS, timeout=0.05),
                    Stream("anydest", "bind.any", 400, envs=ENVS, timeout=0.05),
                    Stream("utf8bulk", "bind.utf8bulk", 18, envs=ENVS, timeout=0.5),
                    Stream("b64esc", "bind.b64esc", 400, envs=ENVS, timeout=0.05)]
        return [Stream("valid", "bind.valid", 40000, envs=ENVS, timeout=0.02),
                Stream("malformed", "bind.malformed", 20000, envs=ENVS, timeout=0.02),
                Stream("anydest", "bind.any", 8000, envs=ENVS, timeout=0.02),
                Stream("utf8bulk", "bind.utf8bulk", 300, envs=ENVS, timeout=0.5),
                Stream("b64esc", "bind.b64esc", 8000, envs=ENVS, timeout=0.02)]

    def judge(self, case, sonic, model):
        out = []
        if case[0] != "bind":
            return out
        cfg = int(case[1])
        doc = hexbytes(case[3])
        for env, s in sonic.items():
            if s.get("sonic") in ("PANIC", "CRASH", "HANG"):
                out.append(("crash", "%s: %s" % (env, s)))
        if out:
            return out
        m = None
        for env in sonic:
            m = model.get(env) or {}
            break
        if not m or "model" not in m:
            return out
        envs = [e for e in sonic if sonic[e].get("sonic") not in (None, "unsupported")]
        if m.get("struct") == "0":
            # structurally malformed: every implementation must reject
            for e in envs:
                if sonic[e]["sonic"] == "ok":
                    out.append(("accepts-malformed:" + e, "%s cfg=%d accepted a structurally malformed document val=%s" % (e, cfg, sonic[e].get("val", "")[:200])))
            return out
        ref = sonic[envs[0]].get("ref") if envs else None
        valid = (m["model"] != "syntax") if m["model"] != "unsupported" else (ref is not None and ref != "syntax")
        if m["model"] == "unsupported" and m.get("stream") == "syntax":
            valid = False
        if not valid or string_spans_bad(doc):
            return out
        pair_found = []
        for i in range(len(envs)):
            for j in range(i + 1, len(envs)):
                a, b = sonic[envs[i]], sonic[envs[j]]
                aok, bok = a["sonic"] == "ok", b["sonic"] == "ok"
                if aok != bok:
                    out.append(("error-or-not-differs:%s/%s" % (envs[i], envs[j]), "cfg=%d %s=%s %s=%s val=%s" % (cfg, envs[i], a["sonic"], envs[j], b["sonic"], (a if aok else b).get("val", "")[:300])))
                elif aok and a.get("val") != b.get("val"):
                    out.append(("value-differs:%s/%s" % (envs[i], envs[j]), "cfg=%d %s=%s %s=%s" % (cfg, envs[i], a.get("val", "")[:300], envs[j], b.get("val", "")[:300])))
        # each implementation against ITS model: jitdec against Bind/Stream (C01 does that with a verdict), the
        # optdec workers against the two-phase model with the recorded quirks on (`omodel`).  A difference that no
        # listed finding explains breaks the tie that lets `optdec_eq_bind` speak about the running code.
        if m["model"] in ("unsupported",) or m.get("omodel") in (None, "unsupported") or (m.get("tripledup") == "1"):
            return out
        jit = sonic.get("jit") or {}
        if jit.get("sonic") is None or (jit["sonic"] == "ok") != (m["model"] == "ok") or (m["model"] == "ok" and jit.get("val") != m.get("val")):
            return out      # the case is not one the models describe (C01 reports it)
        for e in envs:
            if e == "jit":
                continue
            s = sonic[e]
            mk, vk = ("fmodel", "fval") if e == "optdec_fastmap" and "fmodel" in m else ("omodel", "oval")
            if m.get(mk) in (None, "unsupported"):
                continue
            o_ok, s_ok = m[mk] == "ok", s["sonic"] == "ok"
            kind = None
            if o_ok != s_ok:
                kind = "error-or-not-differs:%s~model" % e
            elif s_ok and s.get("val") != m.get(vk):
                kind = "value-differs:%s~model" % e
            if kind is None:
                continue
            detail = "%s cfg=%d sonic=%s val=%s %s=%s %s=%s" % (e, cfg, s["sonic"], s.get("val", "")[:250], mk, m[mk], vk, m.get(vk, "")[:250])
            # explained by a listed finding (seen either as this difference or as the jit/<env> difference)?
            cands = [{"kind": kind, "detail": detail, "case": case, "sonic": sonic, "model": model}]
            for k2 in ("error-or-not-differs:jit/%s" % e, "value-differs:jit/%s" % e):
                cands.append({"kind": k2, "detail": detail, "case": case, "sonic": sonic, "model": model})
            if any(f(d, {}) for d in cands for f in MATCHERS.values()):
                continue
            out.append(("tie:optdec-two-phase-model:" + kind, detail))
        return out

    def model_ref_disagree(self, case, sonic, model):
        return False

    def nontrivial(self, case, sonic, model):
        if case[0] != "bind":
            return False
        t = tags_of(case)
        return any(not x.startswith("cfg:") and x != "plain" for x in t) or "(" in case[2]

    def matchers(self):
        return MATCHERS


SPEC = C11()
