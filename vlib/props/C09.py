import os
import re

from .. import core
from ..runner import Spec, Stream


def _names(s):
    return [x for x in (s or "").split(",") if x]


def _bad(fields):
    """[(prelude, what)] from the worker's bad= field; what = diff:<probes> | crash:<where>"""
    res = []
    for e in (fields.get("bad") or "").split(";;"):
        if "@@" in e:
            p, _, w = e.partition("@@")
            res.append((p, w))
    return res


class C09(Spec):
    prop = "C09"
    needs_factx = True   # the driver reads Gen.pcacheInitCapacity
    lean_modules = ["SonicSpec.Props.C09"]
    rule = ("phist: a fixed probe set (Marshal/Unmarshal of plain, deeply nested, recursive, same-named (two packages, two function-local "
            "types), equal-hash reflect.StructOf and pointer-receiver-marshaler types) executed in a FRESH PROCESS after a prelude (permuted first use, Pretouch/PretouchMany with inline/recursion depths, "
            "thousands of filler types forcing rehash) and compared with a fresh process without prelude and with encoding/json "
            "(non-trivial: prelude is not `none`); group ops: for struct types with ,string/omitempty/renamed fields over named basic kinds with "
            "value-/pointer-receiver (Text)Marshalers/Unmarshalers every operation (Marshal by value / by pointer / inside interface, slice, "
            "map; Unmarshal; Pretouch) alone and after other operations on the SAME type, also under the VM encoder + alternative decoder; the decoder-relevant families also with the alternative decoder (SONIC_USE_OPTDEC=1, baseline of the same configuration); order: one key set inserted in different orders / capacities on the real _ProgramMap vs the model")
    trusted_base = ["the compiler and the generated code are not modelled here: that programs compiled with different inline/recursion "
                    "depths behave alike is tied by the hist correspondence only",
                    "os/exec fresh-process isolation of the harness"]
    assumptions = ["EncOnlyOmitNull (a semantic compile option) is not part of the preludes"]

    def harness_tags(self):
        import os
        from .. import core
        ok = os.path.exists(os.path.join(core.REPO, "verifhook", "cache.go")) and os.path.exists(os.path.join(core.REPO, "internal", "caching", "verif_hook.go"))
        return ["hook_conc"] if ok else []

    def streams(self, tier, seed):
        q = tier == "quick"
        return [
            Stream("hist", "c09.hist", 1, timeout=20.0, use_model=False),
            Stream("hist-optdec", "c09.histopt", 1, envs={"optdec": {"SONIC_USE_OPTDEC": "1"}}, timeout=20.0, use_model=False),
            Stream("hist-vm-optdec", "c09.histops", 1, envs={"vm-optdec": {"SONIC_USE_OPTDEC": "1", "SONIC_ENCODER_USE_VM": "1"}},
                   timeout=20.0, use_model=False),
            Stream("order", "c09.order", 150 if q else 3000, timeout=0.2),
        ]

    def extra(self, ctx):
        """source shapes the model of Model/ConcLoad.lean follows, re-read from the current tree.  A shape that
        went back to the pre-fix model (or that is not recognised) is a broken tie: the theorems about the
        current model no longer speak about the code.  The behavioural phist streams remain the failing-input search."""
        facts = {}
        probs = []

        def strip(src):
            src = re.sub(r"/\*.*?\*/", "", src, flags=re.S)
            return re.sub(r"//[^\n]*", "", src)

        def body(src, header_re):
            m = re.search(header_re + r".*?\n}\n", src, flags=re.S)
            return m.group(0) if m else ""

        def tie(kind, what):
            probs.append({"what": "tie:%s - %s" % (kind, what)})

        try:
            # (a) loader.Load: offsets remembered by position before the sort, out[i] built from them
            ld = strip(open(os.path.join(core.REPO, "loader", "loader_latest.go")).read())
            b = body(ld, r"func Load\(")
            by_pos = (re.search(r"(\w+)\[i\]\s*=\s*f\.EntryOff", b) and re.search(r"for i, \w+ := range (\w+)", b)
                      and b.find("EntryOff") < b.find("makeModuledata(") and not re.search(r"\.Name\s*==", b))
            if by_pos:
                facts["loader.Load"] = "by position (Model/ConcLoad.loadWith)"
            elif re.search(r"\.Name\s*==", b):
                facts["loader.Load"] = "by NAME (pre-fix model PreFix.load applies)"
                tie("loader.Load-matches-by-name", "loader.Load maps results back by f.Name again; distinct types that print identically "
                    "share one codec (witness: Props.C09.PreFix.load_same_name_shares_entry)")
            else:
                facts["loader.Load"] = "unrecognised"
                tie("loader.Load-shape", "result mapping of loader.Load has a shape the model does not know")
            # (b) encoder cache selected by pv in all three entry points
            vc = strip(open(os.path.join(core.REPO, "internal", "encoder", "vars", "cache.go")).read())
            cf = body(vc, r"func cacheFor\(")
            sel = bool(cf) and re.search(r"if pv\s*{\s*return programCachePV", cf) is not None
            bad = []
            for fn in ("FindOrCompile", "GetProgram", "ComputeProgram"):
                fb = body(vc, r"func %s\(" % fn)
                if not fb or "cacheFor(pv)" not in fb or re.search(r"\bprogramCache(PV)?\.", fb):
                    bad.append(fn)
            if sel and not bad:
                facts["encoder cache"] = "selected by pv (key = (type, pv); Model/ConcLoad.serve)"
            else:
                facts["encoder cache"] = "NOT selected by pv in %s" % (bad or ["cacheFor"])
                tie("encoder-cache-not-keyed-by-pv", "vars.%s no longer select the program cache by pointer-value-ness; the program of a type "
                    "depends on the first use again (witness: Props.C09.PreFix.history_independence_fails)" % "/".join(bad or ["cacheFor"]))
            # (c) pretouch pipelines: parallel slices indexed by position
            for label, rel, fn in (("jitdec.pretouchRec", ("internal", "decoder", "jitdec", "decoder.go"), "pretouchRec"),
                                   ("encoder.pretouchRecX86", ("internal", "encoder", "pools_amd64.go"), "pretouchRecX86")):
                src = strip(open(os.path.join(core.REPO, *rel)).read())
                fb = body(src, r"func %s\(" % fn)
                loop = re.search(r"for _, p := range pendings\s*{\s*entries = append\(entries, p\)\s*items = append\(items, p\.item\)\s*}", fb)
                use = re.search(r"loaded := \w+\.LoadMany\(items\)\s*for i, p := range entries\s*{[^}]*?loaded\[i\]", fb, flags=re.S)
                if loop and use and not re.search(r"\[p\.item\.FuncName\]|FuncName\]", fb):
                    facts[label] = "parallel slices entries/items, loaded[i] registered for entries[i] (Model/ConcLoad.pretouchBatch)"
                else:
                    facts[label] = "NOT positional"
                    tie("pretouch-batch-not-positional", "%s no longer pairs entries[i] with loaded[i]; same-named types of one batch can get one "
                        "codec (witness: Props.C09.PreFix.pretouch_batch_same_name_wrong_code)" % label)
            # (d) optdec: one compiler per pretouched type; namedPtr rule before the depth/width test (Model/ConcOptdec.lean)
            od = strip(open(os.path.join(core.REPO, "internal", "decoder", "optdec", "decoder.go")).read())
            pt, pr = body(od, r"func pretouchType\("), body(od, r"func pretouchRec\(")
            if "newCompiler()" in pt and "newCompiler()" not in pr:
                facts["optdec.pretouchType"] = "a new compiler per type (Model/ConcOptdec.pretouchType)"
            else:
                facts["optdec.pretouchType"] = "compiler NOT allocated per type"
                tie("optdec-pretouch-shares-compiler", "optdec pretouchRec/pretouchType no longer build one compiler per type; `counts` leaks between "
                    "the members of a round (witness: Props.C09.Shared.pretouch_round_depends_on_members)")
            cs = body(strip(open(os.path.join(core.REPO, "internal", "decoder", "optdec", "compile_struct.go")).read()), r"func \(c \*compiler\) compileStruct\(")
            i_np, i_depth = cs.find("if c.namedPtr"), cs.find("c.opts.MaxInlineDepth")
            if 0 <= i_np < i_depth:
                facts["optdec.compileStruct"] = "namedPtr rule before the depth/width test (compileAux order=true)"
            else:
                facts["optdec.compileStruct"] = "namedPtr rule NOT first"
                tie("optdec-namedptr-rule-after-depth-test", "optdec compileStruct tests depth/width before the defined-pointer rule "
                    "(witness: Props.C09.optdec_namedptr_depth_test_first_depends_on_inline_depth)")
            # (e) the []FieldMeta returned by resolver.ResolveStruct is the process-wide cached slice (fieldCache): outside
            # internal/resolver nothing may store through it, and pointers into it are limited to the expectation table
            allowed_ptrs = {"internal/encoder/compiler.go": {"p.VField(ir.OP_is_zero, &fvs[i])"}}
            users, stores, newptrs = [], [], []
            for root, dirs, files in os.walk(core.REPO):
                rel = os.path.relpath(root, core.REPO)
                dirs[:] = [d for d in dirs if not d.startswith(".") and d not in ("testdata", "external_jsonlib_test", "fuzz", "generic_test", "issue_test")]
                if rel.startswith(os.path.join("internal", "resolver")):
                    continue
                for fn in files:
                    if not fn.endswith(".go") or fn.endswith("_test.go"):
                        continue
                    path = os.path.join(root, fn)
                    try:
                        raw = open(path).read()
                    except OSError:
                        continue
                    if "ResolveStruct(" not in raw:
                        continue
                    src = strip(raw)
                    relp = os.path.relpath(path, core.REPO)
                    vs = set(re.findall(r"(\w+)\s*:?=\s*resolver\.ResolveStruct\(", src))
                    if not vs:
                        continue
                    users.append(relp)
                    alt = "|".join(sorted(re.escape(v) for v in vs))
                    aliases = set(re.findall(r"(\w+)\s*:?=\s*&(?:%s)\[" % alt, src))
                    targets = alt + ("|" + "|".join(sorted(re.escape(a) for a in aliases)) if aliases else "")
                    st = re.compile(r"^\s*\*?(?:(?:%s)\[[^\]]*\](?:\.\w+)*|(?:%s)(?:\.\w+)+)\s*(?:=|[-+*/%%|&^]=|&\^=|<<=|>>=|\+\+|--)(?!=)"
                                    % (alt, "|".join(sorted(re.escape(a) for a in aliases)) or "\x00"))
                    for ln in src.split("\n"):
                        if st.search(ln):
                            stores.append("%s: %s" % (relp, ln.strip()[:120]))
                        if re.search(r"&(?:%s)\[" % alt, ln) and ln.strip() not in allowed_ptrs.get(relp, ()):
                            newptrs.append("%s: %s" % (relp, ln.strip()[:120]))
            facts["ResolveStruct users"] = sorted(users)
            if stores:
                tie("store-into-shared-field-metadata", "a store through the slice returned by resolver.ResolveStruct (the process-wide fieldCache entry) "
                    "outside internal/resolver: later compiles of the same type by the encoder and both decoders read the modified metadata: " + "; ".join(stores[:4]))
            if newptrs:
                tie("new-pointer-into-shared-field-metadata", "a pointer into the slice returned by resolver.ResolveStruct that is not in the expectation "
                    "table (allowed: read-only p.VField(ir.OP_is_zero, &fvs[i])): " + "; ".join(newptrs[:4]))
            if not stores and not newptrs:
                facts["shared field metadata"] = "no store through / no unexpected pointer into ResolveStruct's result outside internal/resolver"
        except OSError as e:
            tie("source-unreadable", str(e))
        ctx["run"].cov["source_facts"] = facts
        return probs

    def model_line(self, case, sonic):
        return "\t".join(case) if case[0] == "pmap" else None

    def model_ref_disagree(self, case, sonic, model):
        if case[0] != "pmap":
            return False
        for env, s in sonic.items():
            m = model.get(env) or {}
            if "gets" in m and s.get("ref") not in (None, "-") and m["gets"] != s["ref"]:
                return True
        return False

    def judge(self, case, sonic, model):
        out = []
        for env, s in sonic.items():
            v = s.get("sonic")
            m = model.get(env) or {}
            if case[0] == "pmap":
                if v in ("PANIC", "CRASH", "HANG"):
                    out.append(("crash", "%s: %s" % (env, str(s)[:300])))
                elif "model" in m and m["model"] != "unsupported" and v != m["model"]:
                    gets = ";".join(t for t in v.split(";") if t.startswith("G")) or "-"
                    if gets != m.get("gets"):
                        out.append(("lookup-depends-on-order", "%s: sonic=%s model=%s" % (env, gets[:200], m.get("gets", "")[:200])))
                    else:
                        out.append(("tie:pmap-table-layout", "%s: sonic=%s model=%s" % (env, v[:200], m["model"][:200])))
            elif case[0] == "phist":
                if v in ("PANIC", "HANG", "CRASH", "BASECRASH"):
                    out.append(("crash", "%s: %s" % (env, str(s)[:300])))
                elif v != s.get("base"):
                    bad = _bad(s)
                    kind = "crash-after-prelude" if any(w.startswith("crash:") for _, w in bad) else "history-dependent"
                    out.append((kind, "%s: probes `%s`: %s || %s || single replay line: phist<TAB>%s<TAB>%s<TAB>%s"
                                % (env, case[2], "; ".join("after `%s`: %s" % b for b in bad)[:500], s.get("detail", "")[:300],
                                   bad[0][0] if bad else "?", case[2], case[3] if len(case) > 3 else "-")))
                elif v != s.get("ref"):
                    # same in every history but not what encoding/json prints: not this property's subject, except that it shows
                    # a wrong codec.  Left out: the pointer-receiver-marshaler probes (C03) and, for the JIT decoder, the
                    # defined-pointer probes (fresh-process face of C09-jitdec-namedptr-inline-depth)
                    names = [n for n in _names(s.get("diffref")) if not n.startswith("ptrrecv.")
                             and not (env == "default" and n.startswith("nref.ref"))]
                    if names or not s.get("diffref"):
                        out.append(("tie:hist-probe-vs-encoding/json", "%s: probes %s" % (env, ",".join(names) or "?")))
        return out

    def shrink_fields(self, case):
        return []   # no byte-string fields: numbers and scripts must not be cut as hex

    def nontrivial(self, case, sonic, model):
        if case[0] == "phist":
            return any(p != "none" for p in case[1].split("|"))
        if case[0] == "pmap":
            for s in sonic.values():
                toks = s.get("sonic", "").split(";")
                if len({t.split(".")[1] for t in toks if t[:1] in "AR" and "." in t}) > 1:
                    return True
        return False

    # ---- known findings (narrow: tag put on the case by the generator + what exactly differed)
    def matchers(self):
        def family_ok(d, tag, probes_prefix, prelude_ok, what_ok):
            case = d["case"]
            if case[0] != "phist" or len(case) < 4 or tag not in case[3].split(","):
                return False
            if d["kind"] not in ("crash-after-prelude", "history-dependent"):
                return False
            if not case[2].startswith(probes_prefix):
                return False
            seen = False
            for s in d["sonic"].values():
                if s.get("sonic") == s.get("base"):
                    continue
                bad = _bad(s)
                if not bad:
                    return False
                for pre, what in bad:
                    seen = True
                    if not prelude_ok(pre) or not what_ok(what):
                        return False
            return seen

        def same_name(d, params):
            # both same-named types in one PretouchMany batch; only the same-named probes are affected
            return family_ok(d, "same_name_two_pkgs", "samename",
                             lambda pre: "ptm:same" in pre or "sameout" in pre,
                             lambda w: ("probe samename." in w) if w.startswith("crash:") else
                             (w.startswith("diff:") and all(n.startswith("samename.") for n in _names(w[5:]))))

        def ptr_recv(d, params):
            # a pointer-receiver-marshaler probe after an earlier use / pretouch of the same type family
            return family_ok(d, "ptr_recv_marshaler_leaf", "ptrrecv.",
                             lambda pre: "ptrrecv" in pre,
                             lambda w: w.startswith("diff:") and all(n.startswith("ptrrecv.") for n in _names(w[5:])))

        def named_ptr(d, params):
            # JIT decoder only (worker configuration `default`): elements of a defined pointer type below the inline bound,
            # after a Pretouch that changed the inline depth; only the nref.ref* probes may differ
            if any(env != "default" and s.get("sonic") != s.get("base") for env, s in d["sonic"].items()):
                return False
            if d.get("stream") not in ("hist", "replay"):
                return False
            return family_ok(d, "named_ptr_unmarshaler_elem", "nref",
                             lambda pre: re.search(r"(pt|ptm):nptrr?:i\d", pre) is not None,
                             lambda w: w.startswith("diff:") and all(n.startswith("nref.ref") for n in _names(w[5:])))

        return {"hist_same_name_batch": same_name, "hist_ptr_recv_first_use": ptr_recv, "hist_jitdec_namedptr_inline_depth": named_ptr}


SPEC = C09()
