"""C07 - no crash, hang or panic; every error value usable.

Streams (go/harness/gen_robust.go, ops_robust.go): every public entry point on random / mutated /
truncated / deeply nested / huge inputs and on cyclic / deep / non-encodable Go values; every
returned error is formatted under recover.  The Lean side (Model/Robust.lean + regenerated
Generated/Bounds.lean) answers the excerpt arithmetic, which is compared with the text the real
formatters print (behavioural cross-check of the translator) - a difference there is a broken tie,
not a violation.  Violations are only what the property statement names: panic, fatal crash, hang,
success without progress, an error whose formatting panics, an unbounded message, a position
outside the input."""
from ..runner import Spec, Stream

WS = b" \t\r\n"

OPTDEC = {"SONIC_USE_OPTDEC": "1"}
OPTDEC_FM = {"SONIC_USE_OPTDEC": "1", "SONIC_USE_FASTMAP": "1"}
VM = {"SONIC_ENCODER_USE_VM": "1"}
NOAVX2 = {"SONIC_MODE": "noavx2"}


def _int(s, k, d=None):
    try:
        return int(s.get(k, ""))
    except ValueError:
        return d


def _tohex(b):
    return b.hex() if b else "-"


def _unhex(h):
    return b"" if h == "-" else bytes.fromhex(h)


def big_doc(kind, n):
    """python twin of rbBigDoc (go/harness/ops_robust.go)"""
    r = {"str": b'"' + b"a" * n + b'"', "str_open": b'"' + b"a" * n, "str_esc": b'"' + "é\\n".encode() * (n // 8) + b'"',
         "str_badesc": b'"' + b"a" * n + b'\\q"', "str_utf8": b'"' + b"\xff" * n + b'"', "digits": b"9" * n, "frac": b"0." + b"0" * n + b"1",
         "exp": b"1e" + b"9" * n, "minus": b"-" * n, "blanks": b" " * n + b"1", "blanks_only": b"\n" * n, "key": b'{"' + b"k" * n + b'":1}',
         "wide_arr": b"[" + b"1," * (n // 2) + b"1]", "wide_arr_open": b"[" + b"1," * (n // 2),
         "wide_obj_dup": b"{" + b'"a":1,' * (n // 6) + b'"a":2}', "colons": b":" * n, "commas": b"[" + b"," * n, "closers": b"]" * n,
         "nul": b"\0" * n, "b64": b'"' + b"QUJD" * (n // 4) + b'="'}
    if kind == "wide_obj":
        return b"{" + b",".join(b'"k%d":0' % i for i in range(n // 8)) + b"}"
    return r.get(kind)


def case_doc(case, cap=None):
    """bytes of the document of a case; with cap, repetition counts are capped (enough to classify its shape)"""
    if case[0] == "crash":
        return _unhex(case[2])
    if case[0] == "big":
        n = int(case[3])
        return big_doc(case[2], min(n, cap) if cap else n)
    if case[0] == "deep":
        d = int(case[3])
        if cap:
            d = min(d, cap)
        return _unhex(case[2]) * d + _unhex(case[4]) * 1 + _unhex(case[5]) * d
    return None


def scan_prefix(doc):
    """strict scanner for a whitespace-separated sequence of JSON values cut off anywhere.
    Returns None when an invalid byte is met before the end of input, else the state at the end:
    'between' (nothing pending), 'open' (inside an unclosed container, between tokens), 'string', 'number', 'literal'."""
    i, n = 0, len(doc)
    stack = []          # 'a' array, 'o' object
    expect = "value"    # value | value_or_close | key_or_close | key | colon | comma_or_close
    top = lambda: stack[-1] if stack else None

    def after_value():
        return "comma_or_close" if stack else "value"
    while True:
        while i < n and doc[i] in b" \t\r\n":
            i += 1
        if i >= n:
            return "open" if stack or expect not in ("value",) else "between"
        c = doc[i]
        if expect in ("value", "value_or_close", "key", "key_or_close"):
            if c == 0x22:
                i += 1
                while True:
                    if i >= n:
                        return "string"
                    b = doc[i]
                    if b == 0x22:
                        i += 1
                        break
                    if b < 0x20:
                        return None
                    if b == 0x5C:
                        if i + 1 >= n:
                            return "string"
                        e = doc[i + 1]
                        if e in b'"\\/bfnrt':
                            i += 2
                        elif e == 0x75:
                            hx = doc[i + 2:i + 6]
                            if any(h not in b"0123456789abcdefABCDEF" for h in hx):
                                return None
                            if len(hx) < 4:
                                return "string"
                            i += 6
                        else:
                            return None
                    else:
                        i += 1
                expect = "colon" if expect in ("key", "key_or_close") else after_value()
                continue
            if expect in ("key", "key_or_close"):
                if c == 0x7D and expect == "key_or_close":
                    stack.pop()
                    i += 1
                    expect = after_value()
                    continue
                return None
            if c == 0x5B:
                stack.append("a")
                i += 1
                expect = "value_or_close"
                continue
            if c == 0x7B:
                stack.append("o")
                i += 1
                expect = "key_or_close"
                continue
            if c == 0x5D and expect == "value_or_close":
                stack.pop()
                i += 1
                expect = after_value()
                continue
            matched = False
            for lit in (b"true", b"false", b"null"):
                if c == lit[0]:
                    seg = doc[i:i + len(lit)]
                    if seg == lit:
                        i += len(lit)
                        expect = after_value()
                        matched = True
                    elif lit.startswith(seg) and i + len(seg) == n:
                        return "literal"
                    else:
                        return None
                    break
            if matched:
                continue
            if c == 0x2D or 0x30 <= c <= 0x39:
                j = i
                if doc[j] == 0x2D:
                    j += 1
                    if j >= n:
                        return "number"
                if not (0x30 <= doc[j] <= 0x39):
                    return None
                if doc[j] == 0x30:
                    j += 1
                else:
                    while j < n and 0x30 <= doc[j] <= 0x39:
                        j += 1
                if j < n and doc[j] == 0x2E:
                    j += 1
                    if j >= n:
                        return "number"
                    if not (0x30 <= doc[j] <= 0x39):
                        return None
                    while j < n and 0x30 <= doc[j] <= 0x39:
                        j += 1
                if j < n and doc[j] in b"eE":
                    j += 1
                    if j < n and doc[j] in b"+-":
                        j += 1
                    if j >= n:
                        return "number"
                    if not (0x30 <= doc[j] <= 0x39):
                        return None
                    while j < n and 0x30 <= doc[j] <= 0x39:
                        j += 1
                i = j
                expect = after_value()
                continue
            return None
        if expect == "colon":
            if c != 0x3A:
                return None
            i += 1
            expect = "value"
            continue
        if expect == "comma_or_close":
            if c == 0x2C:
                i += 1
                expect = "key" if top() == "o" else "value"
                continue
            if (c == 0x5D and top() == "a") or (c == 0x7D and top() == "o"):
                stack.pop()
                i += 1
                expect = after_value()
                continue
            return None
        return None


def truncated(doc):
    """the document is blank or a JSON text cut off before its end (no invalid byte anywhere)"""
    st = scan_prefix(doc)
    if st is None:
        return False
    if st == "between":
        return doc.strip(WS) == b""   # complete values only: not truncated, unless blank
    return True


def structurally_open(doc):
    """what the non-validating native skippers see: quotes (with backslash escapes), bracket depth, 4/5-byte literals.
    True when the input is blank, ends inside a string, or ends with an unclosed bracket (no stray closer before)."""
    depth, i, n, seen = 0, 0, len(doc), False
    while i < n:
        c = doc[i]
        if c == 0x22:
            seen = True
            i += 1
            while True:
                if i >= n:
                    return True
                if doc[i] == 0x5C:
                    i += 2
                    if i > n:
                        return True
                    continue
                if doc[i] == 0x22:
                    i += 1
                    break
                i += 1
            continue
        if c in b"tn":          # the skipper takes 4 bytes for true/null and 5 for false without looking at them
            seen = True
            i += 4
            continue
        if c == 0x66:
            seen = True
            i += 5
            continue
        if c in b"[{":
            depth += 1
            seen = True
        elif c in b"]}":
            depth -= 1
            if depth < 0:
                return False
        elif c not in WS:
            seen = True
        i += 1
    return depth > 0 or not seen


def first_stray_closer(doc):
    """index of the first `]`/`}` at bracket depth 0 outside strings, None if there is none"""
    depth, i, n = 0, 0, len(doc)
    while i < n:
        c = doc[i]
        if c == 0x22:
            i += 1
            while i < n and doc[i] != 0x22:
                i += 2 if doc[i] == 0x5C else 1
            i += 1
            continue
        if c in b"[{":
            depth += 1
        elif c in b"]}":
            if depth == 0:
                return i
            depth -= 1
        i += 1
    return None


def parse_perr(s):
    out = []
    for r in (s.get("perr") or "").split(";"):
        p = r.split(":")
        if len(p) >= 4:
            try:
                out.append((int(p[0]), int(p[1]), p[2], p[3]))
            except ValueError:
                pass
    return out


class C07(Spec):
    prop = "C07"
    lean_modules = ["SonicSpec.Props.C07", "SonicSpec.Props.C10Layout"]
    needs_factx = True
    rule = ("entry points x {random bytes, grammar documents with one or two edits, every prefix, value streams with stray closers, "
            "10^3..10^7-deep nestings closed/unclosed, 64 KiB..1 MiB scalars and wide containers}; encoder on cyclic, 0..10^6-deep, "
            "non-encodable and large values; hand-made error values on a (size,pos) grid.  A case is non-trivial when an error value "
            "was returned and formatted, or the status is not plain ok, or the input is >= 1000 levels deep / >= 64 KiB, or (fmterr) "
            "the position lies within 48 of either end of the source or outside it")
    trusted_base = ["go/factx translator (Go source -> Generated/Bounds.lean, Generated/Consts.lean)",
                    "hand transliteration of the slice/index/Repeat expressions around calcBounds (Model/Robust.lean), cross-checked "
                    "against the real formatters on a (size,pos) grid and on every decoder error met",
                    "encoder state stack: compiled programs bracket save/drop (assumption `bracketed`); machine-code depth budgets and "
                    "goroutine stack exhaustion are exhibited only by the deep-nesting streams"]
    assumptions = ["a panicking user callback (Marshaler/Unmarshaler/Visitor) and documented argument panics (negative path index) are outside the property",
                   "'bounded message' is judged as len(message) <= 4*len(input)+1024 (the out-of-range branch of calcBounds echoes the whole source, %q may quadruple it)",
                   "'position inside the input' is judged as 0 <= pos <= len(input) (len itself = end of input)",
                   "a hang is a case that does not answer within its deadline (60 s; 1 MiB inputs 300 s; deep cases and encoder values 600 s - normal answers take milliseconds to a few seconds)"]

    def streams(self, tier, seed):
        # `timeout` only sizes the runner's overall budget; hangs are detected inside the worker (60 s, deep cases 600 s)
        if tier == "quick":
            return [
                Stream("fmterr-grid", "c07.fmt", 1000, timeout=0.05),
                Stream("bytes", "c07.bytes", 400, envs={"default": {}, "optdec": OPTDEC}, timeout=1),
                Stream("deep", "c07.deep", 0, timeout=60),
                Stream("big", "c07.big", 0, timeout=10),
                Stream("marshal", "c07.mar", 0, envs={"default": {}, "vm": VM}, timeout=10, use_model=False),
                Stream("types", "c07.types", 0, timeout=10, use_model=False),
            ]
        return [
            Stream("fmterr-grid", "c07.fmt", 60000, timeout=0.05),
            Stream("bytes", "c07.bytes", 15000, envs={"default": {}, "optdec": OPTDEC, "optdec+fastmap": OPTDEC_FM, "noavx2": NOAVX2}, timeout=1),
            Stream("deep", "c07.deep", 0, timeout=100),
            Stream("deep-unmarshal-alt", "c07.deepum", 0, envs={"optdec": OPTDEC, "noavx2": NOAVX2}, timeout=100),
            Stream("big", "c07.big", 0, timeout=60),
            Stream("big-alt", "c07.bigq", 0, envs={"optdec": OPTDEC, "noavx2": NOAVX2}, timeout=60),
            Stream("marshal", "c07.mar", 0, envs={"default": {}, "vm": VM}, timeout=60, use_model=False),
            Stream("types", "c07.types", 0, envs={"default": {}, "optdec": OPTDEC}, timeout=60, use_model=False),
        ]

    def extra(self, ctx):
        self._run = ctx["run"]   # judge() adds measured histograms to the evidence
        return []

    # ------------------------------------------------------------------ model side
    def model_line(self, case, sonic):
        if case[0] == "fmterr":
            return "\t".join(case)
        if sonic.get("bkind") == "dec" and "bsize" in sonic and "bpos" in sonic:
            return "bounds\t%s\t%s" % (sonic["bsize"], sonic["bpos"])
        return None

    # ------------------------------------------------------------------ verdict
    def judge(self, case, sonic, model):
        out = []
        for env, s in sonic.items():
            st = s.get("sonic")
            m = model.get(env) or {}
            if st == "PANIC":
                if case[0] == "fmterr":
                    pass  # a hand-made error value: compared with the model below
                else:
                    out.append(("panic", "%s: %s" % (env, s.get("panic", ""))))
                    continue
            elif st == "CRASH":
                out.append(("crash", "%s: %s" % (env, s.get("crash", ""))))
                continue
            elif st == "HANG":
                out.append(("hang", "%s: %s" % (env, s.get("limit", s.get("crash", "")))))
                continue
            elif st == "noprogress":
                out.append(("noprogress", "%s: Decode returned nil 3 times at input offset %s" % (env, s.get("stuckat"))))
                continue
            elif st is None or st == "unsupported":
                out.append(("tie:harness-op", "%s: %s" % (env, s)))
                continue
            if case[0] == "fmterr":
                out += self._judge_fmterr(env, case, s, m)
                continue
            L = _int(s, "len", 0)
            if "fmtpanic" in s:
                out.append(("error-format-panic", "%s: %s" % (env, s["fmtpanic"])))
            bad = [r for r in parse_perr(s) if r[0] < 0 or r[0] > L]
            run = getattr(self, "_run", None)
            if bad and run is not None:
                # measured distribution of how far outside the reported positions lie (evidence only)
                h = run.cov.setdefault("position_excess_histogram", {})
                for r in bad:
                    k = str(r[0] - (r[1] if r[1] > L else L)) if r[0] > L else str(r[0])
                    h[k] = h.get(k, 0) + 1
            if bad:
                out.append(("pos-outside-input", "%s: input of %d bytes, reported %s" % (env, L, ", ".join(
                    "%d (%s%s)" % (r[0], r[3], ", eof" if r[2] == "e" else "") for r in bad[:6]))))
            elif "maxpos" in s and (_int(s, "minpos") < 0 or _int(s, "maxpos") > L):
                out.append(("pos-outside-input", "%s: positions %s..%s for an input of %d bytes" % (env, s.get("minpos"), s.get("maxpos"), L)))
            if "skst" in s and _int(s, "skst") < 0:
                e = _int(s, "skend")
                if e < 0 or e > L:
                    out.append(("pos-outside-input", "%s: Skip reports error position %d for an input of %d bytes" % (env, e, L)))
            if "uvstr" in s and case[0] in ("crash", "deep", "big"):
                # the decoders' only *json.UnsupportedValueError is the shared "Value nesting too deep" value: an empty or
                # unprintable Str means the error header was read from the wrong place
                raw = _unhex(s["uvstr"]) if s["uvstr"] != "PANIC" else b"\x00"
                if not raw or any(c < 0x20 or c > 0x7e for c in raw):
                    out.append(("malformed-error-value", "%s: *json.UnsupportedValueError with Str=%r" % (env, raw)))
            if _int(s, "errlen", 0) > 4 * L + 1024 + 2 * _int(s, "tlen", 0):
                out.append(("unbounded-message", "%s: message of %s bytes for an input of %d bytes (%s)" % (env, s.get("errlen"), L, s.get("et"))))
            if s.get("bkind") == "dec":
                if s.get("bparse") == "fail":
                    out.append(("tie:description-shape", "%s: Description() is not '...\\n\\n\\t<excerpt>\\n\\t<dots>^<dots>\\n'" % env))
                elif m.get("model") == "ok":
                    p, x, q, y = (_int(m, k) for k in ("p", "x", "q", "y"))
                    offs = s.get("boffs", "")
                    offs = [] if offs in ("", "none") else [int(o) for o in offs.split(",")]
                    if not (q - p == _int(s, "belen") and x == _int(s, "bx") and y == _int(s, "by") and p in offs):
                        out.append(("tie:calcBounds-translation", "%s: real excerpt len=%s dots=%s/%s at %s, translated calcBounds(%s,%s)=(%d,%d,%d,%d)"
                                    % (env, s.get("belen"), s.get("bx"), s.get("by"), s.get("boffs"), s.get("bsize"), s.get("bpos"), p, x, q, y)))
        return out

    def _judge_fmterr(self, env, case, s, m):
        if not m or "model" not in m:
            return []
        st, mm = s.get("sonic"), m.get("model")
        if mm == "PANIC" or st == "PANIC":
            if mm != st:
                return [("tie:formatter-index-model", "%s: real=%s model=%s on hand-made %s error size=%s pos=%s" % (env, st, mm, case[1], case[2], case[3]))]
            return []
        if mm == "nosrc" or st == "nosrc":
            return [] if mm == st else [("tie:formatter-index-model", "%s: real=%s model=%s" % (env, st, mm))]
        if s.get("bparse") == "fail":
            return [("tie:description-shape", "%s: description text has an unexpected shape" % env)]
        p, x, q, y = (_int(m, k) for k in ("p", "x", "q", "y"))
        offs = s.get("boffs", "")
        offs = [] if offs in ("", "none") else [int(o) for o in offs.split(",")]
        if not (q - p == _int(s, "belen") and x == _int(s, "bx") and y == _int(s, "by") and p in offs):
            return [("tie:calcBounds-translation", "%s: %s size=%s pos=%s real excerpt len=%s dots=%s/%s at %s, model (%d,%d,%d,%d)"
                     % (env, case[1], case[2], case[3], s.get("belen"), s.get("bx"), s.get("by"), s.get("boffs"), p, x, q, y))]
        return []

    def nontrivial(self, case, sonic, model):
        if case[0] == "fmterr":
            size, pos = int(case[2]), int(case[3])
            return pos < 48 or pos > size - 48
        if case[0] == "deep":
            return int(case[3]) >= 1000
        if case[0] == "big":
            return True
        if case[0] == "rtype":
            return case[2] in ("selfptr", "mutptr", "selfholder", "selfslice", "selfmap") or int(case[3]) >= 100
        for s in sonic.values():
            if s.get("sonic") != "ok" or _int(s, "nerr", 0) > 0:
                return True
        return False

    # ------------------------------------------------------------------ shrinking
    def shrink_fields(self, case):
        if case[0] == "crash":
            return [2] if case[2] != "-" and len(case[2]) >= 4 else []
        return []

    def shrink_candidates(self, case):
        c = []
        if case[0] == "deep":
            d = int(case[3])
            for nd in (d // 2, d * 3 // 4, d * 9 // 10, d - 1):
                if 0 < nd < d:
                    c.append(case[:3] + [str(nd)] + case[4:])
        elif case[0] == "big":
            n = int(case[3])
            for nn in (n // 2, n - 1):
                if 0 < nn < n:
                    c.append(case[:3] + [str(nn)])
        elif case[0] == "rtype":
            n = int(case[3])
            for nn in (n // 2, n - 1):
                if 0 < nn < n:
                    c.append(case[:3] + [str(nn)])
        elif case[0] == "rmar":
            n = int(case[2])
            for nn in (n // 2, n - 1):
                if 0 <= nn < n and case[1] != "nonenc":
                    c.append([case[0], case[1], str(nn), case[3]])
        return c

    # ------------------------------------------------------------------ known findings
    def matchers(self):
        def bad_envs(d, pred):
            """every environment that shows a discrepancy of this kind satisfies pred, and at least one does"""
            hit = False
            for env, s in d["sonic"].items():
                r = pred(env, s)
                if r is None:
                    continue
                if not r:
                    return False
                hit = True
            return hit

        def offending(s):
            L = _int(s, "len", 0)
            return L, [r for r in parse_perr(s) if r[0] < 0 or r[0] > L]

        def truncated_input_pos_past_end(d, params):
            # the input is blank or cut off before its end (no invalid byte anywhere); the error source is the input
            # itself; every outside position p has -min_below <= p < 0 or len < p <= len+max_excess
            if d["kind"] != "pos-outside-input":
                return False
            doc = case_doc(d["case"], cap=64)
            if doc is None or not (truncated(doc) or structurally_open(doc)):
                return False
            mx, mn = int(params.get("max_excess", 0)), int(params.get("min_below", 0))

            def pred(env, s):
                L = _int(s, "len", 0)
                if "skst" in s:
                    if _int(s, "skst") >= 0 or 0 <= _int(s, "skend") <= L:
                        return None
                    return L < _int(s, "skend") <= L + mx
                L, bad = offending(s)
                if not bad:
                    return None
                return all((r[1] in (-1, L)) and ((-mn <= r[0] < 0) or (L < r[0] <= L + mx)) for r in bad)
            return bad_envs(d, pred)

        def utf8_repaired_source_pos(d, params):
            # string validation replaced ill-formed UTF-8 before decoding: the error carries the repaired (longer) copy as
            # its source and the position refers to that copy (within it, or past its end by at most max_excess)
            if d["kind"] != "pos-outside-input" or d["case"][0] not in ("crash", "big"):
                return False
            api = d["case"][1]
            if not (api.endswith(":std") or api in ("streamstd", "validstd") or api.startswith("dec_opts")):
                return False
            doc = case_doc(d["case"], cap=64)
            try:
                doc.decode("utf-8")
                return False
            except UnicodeDecodeError:
                pass
            mx = int(params.get("max_excess", 0))

            def pred(env, s):
                L, bad = offending(s)
                if not bad:
                    return None
                return all(r[1] > L and 0 <= r[0] <= r[1] + mx for r in bad)
            return bad_envs(d, pred)

        def parsing_error_code_negative_index(d, params):
            # Error() of a returned decoder SyntaxError panics in types.ParsingError.Message: the code is negative as int
            # (>= 2^63 as uint), the table has table_len entries
            if d["kind"] != "error-format-panic":
                return False
            import re
            rx = re.compile(r"errors\.SyntaxError\.(Error|Description): runtime error: index out of range \[(\d+)\] with length %d$" % int(params.get("table_len", 0)))

            def pred(env, s):
                if "fmtpanic" not in s:
                    return None
                m = rx.search(s["fmtpanic"])
                return bool(m) and (1 << 63) <= int(m.group(2)) < (1 << 64)
            return d["case"][1].split(":")[0] in ("um", "ums", "dec_opts", "dec_multi", "stream1", "stream7", "streamall", "streamstd") and bad_envs(d, pred)

        def node_unmarshal_empty(d, params):
            if d["kind"] != "panic" or d["case"][0] != "crash" or d["case"][1] != "node_unmarshal" or d["case"][2] != "-":
                return False
            return bad_envs(d, lambda env, s: ("index out of range [0] with length 0" in s.get("panic", "")) if s.get("sonic") == "PANIC" else None)

        def optdec_unterminated_string_panic(d, params):
            # SONIC_USE_OPTDEC only: a Decoder positioned on a string that is not terminated before the end of input
            # reports success and leaves Pos() past the end; the next Decode slices [pos:len]
            if d["kind"] != "panic" or d["case"][1] != "dec_multi":
                return False
            doc = case_doc(d["case"], cap=64)
            if doc is None or scan_prefix(doc) != "string" and b'"' not in doc:
                return False
            import re
            rx = re.compile(r"slice bounds out of range \[(\d+):(\d+)\]")

            def pred(env, s):
                if s.get("sonic") != "PANIC":
                    return None
                m = rx.search(s.get("panic", ""))
                return env.startswith("optdec") and bool(m) and int(m.group(2)) == len(doc) and int(m.group(1)) > len(doc)
            return bad_envs(d, pred)

        def ast_deep_recursion_stack_overflow(d, params):
            if d["kind"] != "crash" or d["case"][0] != "deep":
                return False
            api, depth = d["case"][1], int(d["case"][3])
            unit = _unhex(d["case"][2])
            levels = depth * max(1, sum(1 for c in unit if c in b"[{"))
            need = params.get("min_levels", {}).get(api)
            if need is None or levels < int(need):
                return False
            return bad_envs(d, lambda env, s: ("stack" in s.get("crash", "")) if s.get("sonic") == "CRASH" else None)

        def stream_stray_closer_noprogress(d, params):
            # the stream holds a `]` or `}` at nesting depth 0 and Decode is stuck there (InputOffset is only
            # accurate to within the current read chunk, hence the slack)
            if d["kind"] != "noprogress" or not d["case"][1].startswith("stream"):
                return False
            doc = case_doc(d["case"])
            if doc is None:
                return False
            c = first_stray_closer(doc)
            slack = int(params.get("offset_slack", 0))

            def pred(env, s):
                if s.get("sonic") != "noprogress":
                    return None
                at = _int(s, "stuckat", -1)
                if not 0 <= at <= len(doc):
                    return False
                # what More() looks at: the next non-blank byte at the reported offset is a closer ...
                if doc[at:].lstrip(WS)[:1] in (b"]", b"}"):
                    return True
                # ... or (InputOffset is only accurate to within the current read chunk) the first depth-0 closer lies
                # at most offset_slack bytes ahead
                return c is not None and c - slack <= at <= c + 1
            return bad_envs(d, pred)

        def optdec_validate_rawmessage_panic(d, params):
            # SONIC_USE_OPTDEC only, string validation on, ill-formed UTF-8 plus a backslash escape in the document:
            # the repaired copy is corrupted and Node.AsRaw gives up with panic("should always be valid json here")
            if d["kind"] != "panic" or d["case"][0] != "crash":
                return False
            api = d["case"][1]
            if not (api.endswith(":std") or api == "streamstd" or api.startswith("dec_opts")):
                return False
            doc = case_doc(d["case"])
            try:
                doc.decode("utf-8")
                return False
            except UnicodeDecodeError:
                pass
            if b"\\" not in doc:
                return False
            return bad_envs(d, lambda env, s: (env.startswith("optdec") and "should always be valid json here" in s.get("panic", "")) if s.get("sonic") == "PANIC" else None)

        def ast_unset_pop_get_nil_deref(d, params):
            # object with more than min_members members (hash index present): Unset(last key); Pop(); Get(last key)
            if d["kind"] != "panic" or d["case"][1] != "raw_unsetpop":
                return False
            doc = case_doc(d["case"])
            try:
                import json
                pairs = json.loads(doc.decode("utf-8"), object_pairs_hook=lambda p: p)
            except Exception:
                return False
            if not isinstance(pairs, list) or len(pairs) <= int(params.get("min_members", 1 << 30)) or not all(isinstance(x, tuple) for x in pairs):
                return False
            return bad_envs(d, lambda env, s: ("nil pointer dereference" in s.get("panic", "")) if s.get("sonic") == "PANIC" else None)

        def optdec_base64_single_pad_panic(d, params):
            # SONIC_USE_OPTDEC only: a base64 string of length 3 (mod 4) ending in one `=` decodes to one byte more than
            # DecodedLen allocated (rt.DecodeBase64), `ret[:n]` panics
            if d["kind"] != "panic" or d["case"][0] != "crash":
                return False
            import re
            doc = case_doc(d["case"])
            if not any(len(m.group(1)) % 4 == 3 for m in re.finditer(rb'"([A-Za-z0-9+/]*=)"', doc)):
                return False
            rx = re.compile(r"slice bounds out of range \[:(\d+)\] with capacity (\d+)")

            def pred(env, s):
                if s.get("sonic") != "PANIC":
                    return None
                m = rx.search(s.get("panic", ""))
                return env.startswith("optdec") and bool(m) and int(m.group(1)) == int(m.group(2)) + 1
            return bad_envs(d, pred)

        def stream_buffered_after_error_panic(d, params):
            # StreamDecoder.Buffered() after a failed Decode: setErr dropped the buffer but kept scanp -> buf[scanp:] on nil
            if d["kind"] != "panic" or d["case"][1] != "streambuf":
                return False
            import re
            rx = re.compile(r"slice bounds out of range \[(\d+):0\]$")
            return bad_envs(d, lambda env, s: bool(rx.search(s.get("panic", ""))) if s.get("sonic") == "PANIC" else None)

        def decoder_depth_error_wrong_header(d, params):
            # jitdec stack_error loads &stackOverflow (the address of the variable) instead of the pointer it holds
            if d["kind"] != "malformed-error-value":
                return False
            api = d["case"][1]
            if not (api.startswith("um") or api.startswith("dec_") or api.startswith("stream") or api == "node_unmarshal"):
                return False
            return bad_envs(d, lambda env, s: (not env.startswith("optdec") and s.get("uvstr") == "-" and s.get("et") == "*json.UnsupportedValueError")
                            if "uvstr" in s and s.get("uvstr") != _tohex(b"Value nesting too deep") else None)

        def selfref_pointer_type_compile_hang(d, params):
            # decoder compile of `type P *P` (or A *B / B *A) never ends: compilePtr dereferences "all the way down"
            # (the alternative decoder stops at 4096 levels but throws the limit: `panic(*stackOverflow)`, a struct value, which
            # its rescue() re-panics)
            if d["kind"] not in ("hang", "crash", "panic") or d["case"][0] != "rtype":
                return False
            if d["case"][2] not in ("selfptr", "mutptr", "selfholder", "selfslice", "selfmap") or d["case"][1] not in ("unmnull", "unm1", "unmobj", "pre", "predec"):
                return False

            def pred(env, s):
                if s.get("sonic") in ("HANG", "CRASH") and d["kind"] in ("hang", "crash"):
                    return not env.startswith("optdec")
                if s.get("sonic") == "PANIC" and d["kind"] == "panic":
                    return env.startswith("optdec") and "Value nesting too deep" in s.get("panic", "")
                return None
            return bad_envs(d, pred)

        def type_nesting_too_deep_panic(d, params):
            # compile-time budget: Program.tag panics with a string, rescue() re-panics everything that is not an error
            if d["kind"] != "panic" or d["case"][0] != "rtype" or int(d["case"][3]) < int(params.get("min_depth", 1 << 30)):
                return False
            # (the alternative decoder throws its own limit as a struct value: `{... Value nesting too deep}`)
            return bad_envs(d, lambda env, s: (s.get("panic") == "type nesting too deep" or
                                               (env.startswith("optdec") and "Value nesting too deep}" in s.get("panic", "")))
                            if s.get("sonic") == "PANIC" else None)

        return {"truncated_input_pos_past_end": truncated_input_pos_past_end,
                "stream_buffered_after_error_panic": stream_buffered_after_error_panic,
                "decoder_depth_error_wrong_header": decoder_depth_error_wrong_header,
                "selfref_pointer_type_compile_hang": selfref_pointer_type_compile_hang,
                "type_nesting_too_deep_panic": type_nesting_too_deep_panic,
                "optdec_base64_single_pad_panic": optdec_base64_single_pad_panic,
                "ast_unset_pop_get_nil_deref": ast_unset_pop_get_nil_deref,
                "utf8_repaired_source_pos": utf8_repaired_source_pos,
                "parsing_error_code_negative_index": parsing_error_code_negative_index,
                "node_unmarshal_empty": node_unmarshal_empty,
                "optdec_unterminated_string_panic": optdec_unterminated_string_panic,
                "ast_deep_recursion_stack_overflow": ast_deep_recursion_stack_overflow,
                "stream_stray_closer_noprogress": stream_stray_closer_noprogress,
                "optdec_validate_rawmessage_panic": optdec_validate_rawmessage_panic}


SPEC = C07()
