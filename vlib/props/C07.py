from ..runner import Spec, Stream


class C07(Spec):
    prop = "C07"
    lean_modules = ["SonicSpec.Props.C07"]
    needs_factx = True
    rule = "(correspondence streams are added by the C07 work package)"
    trusted_base = ["go/factx translator (Go source -> Generated/Bounds.lean, Generated/Consts.lean)"]


SPEC = C07()
