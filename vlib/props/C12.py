"""C12 - the interpreting encoder (SONIC_ENCODER_USE_VM) is observably equivalent to the JIT encoder.

The SAME case streams (values of C03/C04, std-shaped and random option words) run in two worker
processes, one per back end; the judge requires byte-identical output or an error on both sides.
Where map order is free (SortMapKeys off) the generator forces the switch on for values holding a
map with more than one entry, because Go randomises map iteration per process."""
import os
import re

from .. import core
from ..runner import Spec, Stream
from . import _enc

ENVS = {"jit": {}, "vm": {"SONIC_ENCODER_USE_VM": "1"}}


class C12(Spec):
    prop = "C12"
    lean_modules = ["SonicSpec.Props.C12"]
    extra_generated = ["X86.lean"]   # go/factx_x86: per opcode what the JIT and the VM call / test (backends_dispatch_same_helpers)
    needs_factx = True   # Model/Ir.lean reads MaxStack / MAX_ILBUF / MAX_FIELDS / DefaultMaxInlineDepth from Generated/Consts
    rule = ("the C03/C04 value generators under ConfigStd, the default word and a random option word, each case run by a JIT worker "
            "and by a SONIC_ENCODER_USE_VM=1 worker; non-trivial when the type has a constructor, the value is a float or a string "
            "needing an escape, or either side reports an error; ir-*: the REAL compiler's program text for generated types "
            "(hook, op irdis) against the model compiler's, exact text equality, and Marshal under both back ends against "
            "the model's exec (compile T) v; non-trivial when the program has >= 2 instructions")
    trusted_base = ["both back ends are machine code / Go code outside the model; tied by differential runs only",
                    "spec_compat.go (the fallbacks used off amd64/arm64) is transliterated in Model/EncCompat.lean; on this platform it is not compiled in",
                    "encoder IR: the x86 assembler's meaning of an instruction is tied to the interpreter's only by the differential run; "
                    "leaf formatters and the post-passes of encoder.go encodeFinish are the specification's (Model/IrExec.lean header)"]

    def harness_tags(self):
        ok = os.path.exists(os.path.join(core.REPO, "verifhook", "encoder.go")) and \
            os.path.exists(os.path.join(core.REPO, "internal", "encoder", "verif_hook.go"))
        return ["hook_ir"] if ok else []

    def streams(self, tier, seed):
        q = tier == "quick"

        def S(name, gen, n, timeout=0.05):
            return Stream(name, gen, n, envs=ENVS, timeout=timeout, use_model=False)
        return [
            S("universe", "enc.be.universe", 350 if q else 25000),
            S("structs-tags", "enc.be.tags", 200 if q else 15000),
            S("maps-keys", "enc.be.maps", 40 if q else 1500, 0.3),
            S("strings", "enc.be.strings", 200 if q else 15000),
            S("floats", "enc.be.floats", 300 if q else 40000),
            S("callbacks", "enc.be.callbacks", 150 if q else 8000),
            S("error-paths", "enc.be.errors", 60 if q else 2500, 0.3),
        ] + self.ir_streams(q)

    # ---- encoder IR (work package `ir`): disassembly tie + behaviour against the model's exec
    def ir_streams(self, q):
        def M(name, gen, n, timeout=0.1):
            return Stream(name, gen, n, envs=ENVS, timeout=timeout, use_model=True)
        return [
            M("ir-edge", "ir.edge", 1, 60.0),
            M("ir-types", "ir.types", 500 if q else 30000),
            M("ir-cutoff", "ir.cutoff", 120 if q else 4000, 0.5),
            M("ir-mar", "ir.mar", 500 if q else 40000),
            M("ir-deep", "ir.deep", 100 if q else 6000, 0.3),
        ]

    def model_line(self, case, sonic):
        if case[0] == "mar":
            return "\t".join(["irmar"] + case[1:4] + ["out=" + (sonic.get("out") or "~")])
        return "\t".join(case)

    def judge_ir(self, case, sonic, model):
        out = []
        for env in ("jit", "vm"):
            s = sonic.get(env) or {}
            m = model.get(env) or {}
            mm = m.get("model")
            if mm is None or mm.startswith("unsupported") or s.get("sonic") in (None, "unsupported"):
                continue
            if case[0] == "irdis":
                so = s.get("sonic", "")
                if mm == "panic" and so.startswith("err"):
                    continue
                if mm != "ok" or so != "ok":
                    out.append(("tie:ir-disassembly", "%s: compiler outcome sonic=%s model=%s" % (env, so[:80], mm)))
                elif s.get("dis") != m.get("dis"):
                    a = _enc.unhex(s.get("dis", "-")).decode("utf-8", "replace").split("\n")
                    b = _enc.unhex(m.get("dis", "-")).decode("utf-8", "replace").split("\n")
                    k = next((i for i, (x, y) in enumerate(zip(a, b)) if x != y), min(len(a), len(b)))
                    out.append(("tie:ir-disassembly", "%s: line %d real=%r model=%r (%d vs %d lines)"
                                % (env, k, a[k] if k < len(a) else None, b[k] if k < len(b) else None, len(a), len(b))))
            elif case[0] == "mar":
                so = s.get("sonic")
                if mm == "ok":
                    if so != "ok" or m.get("so") != "eq":
                        out.append(("tie:ir-exec", "%s: sonic=%s out=%s model=%s" % (env, so, s.get("out", "")[:300], m.get("mout", "")[:300])))
                elif mm.startswith("err:"):
                    if so == "ok":
                        out.append(("tie:ir-exec", "%s: sonic=ok out=%s model=%s" % (env, s.get("out", "")[:300], mm)))
        return out

    def model_ref_disagree(self, case, sonic, model):
        """inside the sub-universe of exec_compile_eq_encode_partial the model's machine and the model's specification
        must agree (the theorem says so): a `spec=ne` there means the driver no longer runs what was proved"""
        for m in model.values():
            if m and m.get("sub") == "1" and m.get("spec") == "ne":
                return True
        return False

    def judge(self, case, sonic, model):
        j = sonic.get("jit") or {}
        v = sonic.get("vm") or {}
        out = []
        for env, s in (("jit", j), ("vm", v)):
            if s.get("sonic") in ("PANIC", "CRASH", "HANG"):
                out.append(("crash", "%s: %s" % (env, str(s)[:300])))
        if out:
            return out
        jo, vo = j.get("sonic") == "ok", v.get("sonic") == "ok"
        if jo != vo:
            return [("backends-differ-errorness", "jit=%s vm=%s" % (j.get("sonic"), v.get("sonic")))]
        if jo and (j.get("out") != v.get("out") or j.get("same") != v.get("same") or j.get("valid") != v.get("valid")):
            return [("backends-differ", "jit=%s vm=%s" % (j.get("out", "")[:600], v.get("out", "")[:600]))]
        if case[0] == "irdis" or any(model.values()):
            return self.judge_ir(case, sonic, model)
        return []

    def nontrivial(self, case, sonic, model):
        j = sonic.get("jit") or {}
        if case[0] == "irdis":
            try:
                return int(j.get("n", "0")) >= 2
            except ValueError:
                return False
        if case[0] != "mar":
            return True
        return "(" in case[2] or "(f" in case[3] or "(s " in case[3] or j.get("sonic") != "ok"

    def shrink_candidates(self, case):
        return _enc.shrink_candidates(case) if case[0] == "mar" else []

    def shrink_fields(self, case):
        return []

    def extra(self, ctx):
        """regenerated fact: rt.SafeSet (the table spec_compat.go's Quote consults) is what Compat.safeSet says"""
        problems = []
        ctx["run"].cov["ir_hook_present"] = bool(self.harness_tags())
        path = os.path.join(core.REPO, "internal", "rt", "table.go")
        try:
            src = open(path).read()
            body = src[src.index("var SafeSet"):]
            body = body[:body.index("\n}")]
            ents = re.findall(r"'(\\?.|\\u[0-9a-fA-F]{4})':\s*(true|false)", body)
            table = {}
            for k, v in ents:
                ch = {"\\\\": "\\", "\\'": "'"}.get(k, k)
                if ch.startswith("\\u"):
                    ch = chr(int(ch[2:], 16))
                table[ord(ch)] = v == "true"
            for c in range(128):
                want = (32 <= c < 128) and c not in (34, 92)
                if table.get(c, False) != want:
                    problems.append({"what": "rt.SafeSet[%d] is %s in the source, Compat.safeSet says %s (Props/C12 quote_compat_eq_spec no longer speaks about the code)"
                                             % (c, table.get(c, False), want)})
                    break
        except Exception as e:
            problems.append({"what": "cannot read rt.SafeSet from internal/rt/table.go (source shape not recognised): %r" % (e,)})
        return problems

    def matchers(self):
        return MATCHERS


_NEGZERO = re.compile(rb'(?<![0-9.eE+\-A-Za-z])-0(?![0-9.eE])')


def m_vm_negzero(d, params):
    """DESIGN 8 #21: the interpreter prints `0` for -0.0 (alg/spec.go F64toa/F32toa: `if v == 0 { return append(buf, '0') }`),
    the JIT prints `-0`; the two outputs are equal once `-0` tokens are read as `0`"""
    if d["kind"] != "backends-differ":
        return False
    if "neg_zero" not in _enc.features(d["case"]):
        return False
    j = d["sonic"].get("jit") or {}
    v = d["sonic"].get("vm") or {}
    try:
        a = _NEGZERO.sub(b"0", _enc.unhex(j.get("out", "-")))
        b = _NEGZERO.sub(b"0", _enc.unhex(v.get("out", "-")))
    except Exception:
        return False
    return a == b and j.get("out") != v.get("out")


_STATES_PER_LEVEL = {"sl": 1, "map": 2, "rec": 2, "arrst": 3}


def m_stack_boundary(d, params):
    """the state stack holds MaxStack (4096) states in the interpreter (vars/stack.go Push: `sp >= _MaxStackSP` before the
    write) but MaxStack-1 in the JIT (x86 save_state: `LEAQ StateSize(CX), R9; CMPQ R9, $StackLimit; JAE too_deep` - the
    comment says JA): a value needing exactly MaxStack states is an error under the JIT and encodes under the VM"""
    if d["kind"] != "backends-differ-errorness" or d["case"][0] != "mardeep":
        return False
    j = d["sonic"].get("jit") or {}
    v = d["sonic"].get("vm") or {}
    try:
        need = int(d["case"][3]) * _STATES_PER_LEVEL[d["case"][2]]
    except (KeyError, ValueError):
        return False
    return need == int(params.get("max_stack", 4096)) and j.get("sonic") == "unsupported_value" and v.get("sonic") == "ok"


MATCHERS = {"vm_prints_zero_for_negative_zero": m_vm_negzero, "state_stack_boundary_off_by_one": m_stack_boundary}

SPEC = C12()
