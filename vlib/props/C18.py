from ..runner import Spec, Stream


class C18(Spec):
    prop = "C18"
    lean_modules = ["SonicSpec.Props.C18"]
    needs_factx = True
    rule = "(correspondence streams are added by the C18 work package)"
    trusted_base = ["go/factx translator (Go source -> Generated/Opts.lean)"]


SPEC = C18()
