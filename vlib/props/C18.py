"""C18 - each option has exactly its documented effect; entry points are equivalent.

Proof side: Props/C18.lean (wiring theorems on the regenerated tables + spec-level effect theorems).
Correspondence (worker environment: default; the Unmarshal side also under SONIC_USE_OPTDEC=1):
  optpair  the same call under Config c and under c with exactly one switch flipped; the Lean driver
           (Driver/Opts.lean, relM / relU) decides whether the two results stand in the relation the
           property names for that switch AND IN NOTHING ELSE; encoding/json is the reference where it
           has the same notion (HTMLEscape, \\ufffd replacement, UseNumber, DisallowUnknownFields);
  entry    every alternative entry point must return what the frozen Config returns;
  froze / setseq   the real option words against `froze` / `applySetter` of the regenerated tables;
  optbig   large documents built by repetition (array lengths straddling optdec's 65536-node buffer, the stream
           decoder's buffer sizes, option.LimitBufferSize), under both decoders: the small document stands in the
           switch's relation, the large result is the small one with the repetition count scaled (decided by the
           driver on run-length dumps), the chunk-fed stream decoder agrees with Unmarshal.
"""
import json
import os
import re

from .. import core
from ..runner import Spec, Stream

NAMES = ["EscapeHTML", "SortMapKeys", "CompactMarshaler", "NoQuoteTextMarshaler", "NoNullSliceOrMap", "UseInt64",
         "UseNumber", "UseUnicodeErrors", "DisallowUnknownFields", "CopyString", "ValidateString",
         "NoValidateJSONMarshaler", "NoValidateJSONSkip", "NoEncoderNewline", "EncodeNullForInfOrNan", "CaseSensitive"]


def _name(case):
    try:
        return NAMES[int(case[1])]
    except (ValueError, IndexError):
        return "?"


def _st(s):
    d = {}
    for m in re.finditer(r"([a-z]+)(\d+)", s or ""):
        d[m.group(1)] = int(m.group(2))
    return d


class C18(Spec):
    prop = "C18"
    lean_modules = ["SonicSpec.Props.C18"]
    needs_factx = True
    rule = ("optpair: one switch flipped against random settings of the other 15 (UseInt64/UseNumber never both), on generated "
            "values (maps nil/empty/filled with string/int/TextMarshaler keys, nil/empty slices, NaN/Inf, strings with HTML "
            "characters, U+2028/9, ill-formed UTF-8, json/Text marshaler leaves returning compact, spaced and ill-formed "
            "text) and generated documents x destinations (interface{}, flat struct with case-variant names, nested struct, "
            "map, slice, string; lone surrogate escapes, raw control characters, ill-formed UTF-8, all number shapes); a case "
            "is non-trivial when the two results (Marshal or stream) differ, or - CopyString / NoValidateJSONSkip - when the "
            "document is valid and decodes; entry: all "
            "alternative entry points vs the frozen Config; froze/setseq: real option words vs the regenerated tables")
    trusted_base = ["go/factx translator (Go source -> Generated/Opts.lean)",
                    "what the generated code does with an option bit is modelled (Model/Opts.lean), tied by the metamorphic correspondence only",
                    "encoding/json (HTMLEscape, invalid-UTF-8 replacement, UseNumber, DisallowUnknownFields) as executable reference"]
    assumptions = ["map iteration order is random in Go: unless SortMapKeys is on on both sides (or is the switch under test) "
                   "generated maps are cut to one entry, so that both outputs are functions of the value",
                   "Config{UseInt64, UseNumber both true}: Unmarshal panics by design (SetOptions); listed, not a relation failure",
                   "omitzero is not known to the Go 1.23.5 encoding/json: no encoding/json reference is used for values (DESIGN 8 #16)",
                   "`,string` fields: the property's reference for EscapeHTML is HTMLEscape of the output without the switch, "
                   "which sonic satisfies; encoding/json's own SetEscapeHTML differs there (DESIGN 8 #15, a C03 matter)"]

    def streams(self, tier, seed):
        # the Unmarshal side also under the alternative decoder (the switches are the same Config bits there)
        optdec = {"optdec": {"SONIC_USE_OPTDEC": "1"}}
        both = {"default": {}, "optdec": {"SONIC_USE_OPTDEC": "1"},
                # the fast-map mode of the alternative decoder has its own pooled boxes for interface{} values
                "optdec_fastmap": {"SONIC_USE_OPTDEC": "1", "SONIC_USE_FASTMAP": "1"}}
        if tier == "quick":
            return [Stream("pair", "c18.pair", 3200, timeout=0.2),
                    Stream("entry", "c18.entry", 1200, timeout=0.2, use_model=False),
                    Stream("words", "c18.words", 1500),
                    Stream("pair-optdec", "c18.pairu", 1600, envs=optdec, timeout=0.2),
                    Stream("entry-optdec", "c18.entryu", 600, envs=optdec, timeout=0.2, use_model=False),
                    Stream("big", "c18.big", 60, envs=both, timeout=3.0)]
        return [Stream("pair", "c18.pair", 800000, timeout=0.2),
                Stream("entry", "c18.entry", 150000, timeout=0.2, use_model=False),
                Stream("words", "c18.words", 20000),
                Stream("pair-optdec", "c18.pairu", 250000, envs=optdec, timeout=0.2),
                Stream("entry-optdec", "c18.entryu", 60000, envs=optdec, timeout=0.2, use_model=False),
                Stream("big", "c18.big", 400, envs=both, timeout=3.0)]

    # ------------------------------------------------------------------ model line
    def _tables(self):
        """the regenerated tables (Generated/Opts.lean, written by factx in this run) in the driver's wire format;
        transported only - `frozeIn` / `applySetterIn` of the Lean model do the computing"""
        if getattr(self, "_tbl", None) is None:
            self._tbl = {}
            try:
                src = open(os.path.join(core.LEAN, "SonicSpec", "Generated", "Opts.lean")).read()
                m = re.search(r"def configFields : List String := \[([^\]]*)\]", src)
                fields = re.findall(r'"([^"]+)"', m.group(1))
                body = src[src.index("def frozeWires"):]
                body = body[:body.index("\n\n")]
                wires = re.findall(r'\("([^"]+)", "([^"]+)", (\d+), "[^"]*"\)', body)
                body = src[src.index("def setters"):]
                body = body[:body.index("\n\n")]
                setters = re.findall(r'\("([^"]+)", "([^"]+)", (true|false), (\d+), (\d+), (\d+), (\d+)\)', body)
                if fields and wires and setters:
                    self._tbl = {"fields": ",".join(fields),
                                 "wires": ";".join("%s:%s:%s" % w for w in wires),
                                 "setters": ";".join("%s:%s:%s:%s:%s:%s:%s" % (r, m_, "1" if tb == "true" else "0", a, b, c, d)
                                                     for (r, m_, tb, a, b, c, d) in setters)}
            except (OSError, ValueError, AttributeError):
                self._tbl = {}
        return self._tbl

    def model_line(self, case, sonic):
        op = case[0]
        if op == "froze":
            t = self._tables()
            return "\t".join(["froze", case[1], t["fields"], t["wires"]]) if t else None
        if op == "setseq":
            t = self._tables()
            return "\t".join(["setseq", case[1], case[2], t["setters"]]) if t else None
        if op == "optbig" and "a" in sonic and "sw" in sonic and "CA" in sonic:
            return "\t".join(["optbig", sonic["sw"], sonic.get("on", "-"), case[3], sonic.get("doc", "-"), sonic["a"], sonic["b"],
                              sonic.get("x", "-"), sonic.get("xdoc", "!"), sonic.get("fields", "-"), sonic.get("ns", "0"), sonic.get("nb", "0"),
                              sonic.get("ca", "-"), sonic.get("cb", "-"), sonic["CA"], sonic.get("CB", "-"), sonic.get("SA", "-"), sonic.get("SB", "-")])
        if op != "optpair" or "a" not in sonic or "sw" not in sonic:
            return None
        if case[3] == "m":
            st = _st(sonic.get("st"))
            return "\t".join(["optpair", sonic["sw"], sonic.get("on", "-"), "m", sonic["a"], sonic["b"], sonic.get("x", "-"),
                              sonic.get("sa", "-"), sonic.get("sb", "-"), sonic.get("tms", "none"),
                              sonic.get("tmk", "none"), str(st.get("nf", 0)), str(st.get("bad", 0))])
        return "\t".join(["optpair", sonic["sw"], sonic.get("on", "-"), "u", case[4], case[5], sonic["a"], sonic["b"], sonic.get("x", "-"),
                          sonic.get("xdoc", "!"), sonic.get("fields", "-")])

    # ------------------------------------------------------------------ reference
    def _ref_verdict(self, case, s):
        """what the executable reference says about the relation: True / False / None (no reference)"""
        name = _name(case)
        a, b = s.get("a"), s.get("b")
        if case[3] == "m":
            if name in ("EscapeHTML", "ValidateString") and "ref" in s:
                return b == s["ref"]
            return None
        if name in ("UseNumber", "DisallowUnknownFields") and "ref" in s and not (int(case[2]) >> 15) & 1:
            # (encoding/json has no CaseSensitive: no reference under it)
            # usable only where encoding/json and sonic agree without the switch (what they differ on is C01's subject)
            if s.get("ref0") != a or not a.startswith("O:"):
                return None
            if name == "DisallowUnknownFields" and not s["ref"].startswith("O:"):
                return b.startswith("E:")
            return b == s["ref"]
        return None

    def model_ref_disagree(self, case, sonic, model):
        if case[0] != "optpair":
            return False
        for env, s in sonic.items():
            m = (model.get(env) or {}).get("model", "")
            rv = self._ref_verdict(case, s) if "a" in s else None
            if rv is None or not m or m.startswith("skip"):
                continue
            if (m == "ok") != rv:
                return True
        return False

    # ------------------------------------------------------------------ verdict
    def judge(self, case, sonic, model):
        out = []
        op = case[0]
        for env, s in sonic.items():
            sv = s.get("sonic")
            if sv in ("PANIC", "CRASH", "HANG"):
                out.append(("crash", "%s: %s" % (env, s)))
                continue
            m = (model.get(env) or {}).get("model")
            if op == "optpair":
                name = s.get("sw") or _name(case)
                if "P:both_number_modes" in (s.get("a"), s.get("b")):
                    out.append(("panic-both-number-modes", "%s: Config with UseInt64 and UseNumber panics in Unmarshal" % env))
                    continue
                if m is None:
                    out.append(("tie:optpair-driver", "%s: no model answer" % env))
                    continue
                if m.startswith("bad"):
                    tag = re.match(r"bad:([A-Z][A-Z-]+):", m)
                    out.append(("switch-%s-%s%s" % (name, case[3], "/" + tag.group(1) if tag else ""), "%s: %s a=%s b=%s x=%s" % (env, m[4:], s.get("a", "")[:400], s.get("b", "")[:400], s.get("x", "")[:200])))
                elif m.startswith("skip"):
                    rv = self._ref_verdict(case, s)
                    if rv is False:
                        out.append(("switch-%s-%s" % (name, case[3]), "%s: reference relation fails (model: %s) a=%s b=%s ref=%s"
                                    % (env, m, s.get("a", "")[:300], s.get("b", "")[:300], s.get("ref", "")[:300])))
            elif op == "optbig":
                name = s.get("sw") or _name(case)
                vals = [s.get(k) for k in ("a", "b", "ca", "cb", "CA", "CB", "SA", "SB")]
                if "P:both_number_modes" in vals:
                    if not all(v == "P:both_number_modes" for v in vals[1::2]):
                        out.append(("big-%s" % name, "%s: the both-number-modes panic depends on the size of the document: %s" % (env, vals)))
                    continue
                if m is None:
                    out.append(("tie:optbig-driver", "%s: no model answer" % env))
                elif m.startswith("bad"):
                    out.append(("big-%s" % name, "%s: %s n=%s bytes=%s small: a=%s b=%s large: A=%s B=%s stream: A=%s B=%s"
                                % (env, m[4:], s.get("nb"), s.get("bytes"), s.get("ca", "")[:300], s.get("cb", "")[:300],
                                   s.get("CA", "")[:300], s.get("CB", "")[:300], s.get("SA", "")[:200], s.get("SB", "")[:200])))
            elif op == "entry":
                if sv == "unsupported":
                    continue
                if sv == "P:both_number_modes":
                    continue
                if s.get("diff", "-") != "-":
                    out.append(("entry-%s" % case[1], "%s: frozen=%s differing=%s" % (env, sv[:300], s.get("diff", "")[:600])))
                if case[1] == "top_v" and "ref" in s and s["ref"] != sv:
                    pass  # validity itself is C02's subject
            elif op in ("froze", "setseq"):
                if m is None or m == "unsupported" or sv == "unsupported":
                    out.append(("tie:option-words", "%s: sonic=%s model=%s" % (env, sv, m)))
                elif op == "froze" and m == "P:both_number_modes" and sv in (m, (model.get(env) or {}).get("resolved")):
                    continue   # both number modes: the documented panic, or (repaired tree) UseNumber taking precedence
                elif sv != m:
                    out.append(("option-word-%s" % op, "%s: sonic=%s model=%s" % (env, sv, m)))
                if op == "froze" and s.get("nfields") not in (None, str(len(NAMES))):
                    out.append(("tie:config-fields", "%s: sonic.Config has %s switches, the check knows %d" % (env, s.get("nfields"), len(NAMES))))
        return out

    def nontrivial(self, case, sonic, model):
        s = next(iter(sonic.values()), {})
        if case[0] == "optpair":
            # the pair shows the switch acting ...
            if s.get("a") != s.get("b") or s.get("sa") != s.get("sb"):
                return True
            # ... or it is one of the two switches whose documented effect is "none on valid data", on valid data
            m = (next(iter(model.values()), {}) or {}).get("model", "")
            return _name(case) in ("CopyString", "NoValidateJSONSkip") and case[3] == "u" and m == "ok" and s.get("a", "").startswith("O:")
        if case[0] == "optbig":
            # the switch acts on the large document (or is one whose effect is "none on valid data") and the document decodes
            return s.get("CA", "").startswith("O:") or s.get("CB", "").startswith("O:")
        if case[0] == "entry":
            return s.get("sonic", "").startswith("O:") or s.get("sonic") in ("0", "1")
        if case[0] == "froze":
            return case[1] != "0"
        return case[0] == "setseq" and case[2] != "-"

    # ------------------------------------------------------------------ known findings
    def matchers(self):
        def both_modes(d, params):
            # Config{UseInt64: true, UseNumber: true}: decoder.SetOptions panics
            # ("can't set OptionUseInt64 and OptionUseNumber both!") in every Unmarshal
            if d["kind"] != "panic-both-number-modes":
                return False
            try:
                cfg = int(d["case"][2]) | (1 << int(d["case"][1]))
            except (ValueError, IndexError):
                return False
            return (cfg >> 5) & 3 == 3 and d["case"][3] == "u"

        def tm_keys(d, params):
            # map keys of a TextMarshaler type: unquoted under NoQuoteTextMarshaler only while SortMapKeys is off
            # (the sorting iterator, internal/encoder/alg/mapiter.go, always hands the key over as a string)
            try:
                cfg = int(d["case"][2])
                desc = bytes.fromhex(d["case"][4]).decode("utf-8", "replace")
            except (ValueError, IndexError):
                return False
            has_tm_key = '"k":"tm"' in desc or '"Ftk":[[' in desc
            if d["kind"] == "switch-NoQuoteTextMarshaler-m/KEYS-STAY-QUOTED":
                return has_tm_key and (cfg >> 1) & 1 == 1
            if d["kind"] == "switch-SortMapKeys-m/KEYS-REQUOTED":
                return has_tm_key and (cfg >> 3) & 1 == 1
            return False
        def optdec_urc(d, params):
            # SONIC_USE_OPTDEC=1: internal/decoder/optdec never reads _F_disable_urc (declared in optdec/decoder.go,
            # used nowhere), so a lone surrogate escape still decodes to U+FFFD under UseUnicodeErrors
            if d["kind"] != "switch-UseUnicodeErrors-u" or not d["detail"].startswith("optdec"):
                return False
            if "lone surrogate escape decoded without error" not in d["detail"]:
                return False
            try:
                doc = bytes.fromhex(d["case"][5]).lower()
                return NAMES[int(d["case"][1])] == "UseUnicodeErrors" and d["case"][3] == "u" and \
                    any((b"\\ud" + t) in doc for t in (b"8", b"9", b"a", b"b", b"c", b"d", b"e", b"f"))
            except (ValueError, IndexError):
                return False
        def entry_neg_zero_sign(d, params):
            # the document is exactly the literal `-0` (plus blanks): native check_leading_zero reads the byte BEHIND the
            # number (C05-leading-zero-overread); '.'/'e'/'E' there sends the literal down the float path (-0.0), anything
            # else down the integer path (+0, C19-neg-zero-literal).  Entry points that copy the frame (stream decoders)
            # and those that do not therefore differ in the SIGN OF A FLOAT ZERO only, depending on heap garbage.
            if not d["kind"].startswith("entry-"):
                return False
            try:
                doc = bytes.fromhex(d["case"][-1])
            except (ValueError, IndexError):
                return False
            if doc.strip(b" \t\r\n") != b"-0":
                return False
            m = re.match(r"^\w+: frozen=O:([0-9a-f]+) differing=[^:]+:O:([0-9a-f]+)$", d["detail"])
            if not m:
                return False
            z, nz = b"f:0000000000000000", b"f:8000000000000000"
            a, b = bytes.fromhex(m.group(1)), bytes.fromhex(m.group(2))
            return a != b and a.replace(nz, z) == b.replace(nz, z)
        return {"both_number_modes_panic": both_modes, "tm_map_keys_quoting_depends_on_sort": tm_keys,
                "optdec_ignores_use_unicode_errors": optdec_urc, "entry_neg_zero_sign": entry_neg_zero_sign}

    # ------------------------------------------------------------------ shrinking
    def shrink_fields(self, case):
        if case[0] == "optpair" and case[3] == "u":
            return [5]
        return []

    def shrink_candidates(self, case):
        """smaller value descriptions: a sub-tree replaced by null, a list element / map entry / struct field dropped;
        big documents: fewer repetitions, the other Config switches off"""
        if case[0] == "optbig":
            out = []
            try:
                n = int(case[6])
            except (ValueError, IndexError):
                return []
            for k in sorted({n // 2, (n * 3) // 4, n - n // 8, n - n // 64, n - 16, n - 1}):
                if 6 <= k < n:
                    out.append(case[:6] + [str(k)])
            if case[2] != "0":
                out.append(case[:2] + ["0"] + case[3:])
            return out
        if case[0] != "optpair" or case[3] != "m":
            return []
        try:
            desc = json.loads(bytes.fromhex(case[4]).decode("utf-8"))
        except (ValueError, UnicodeDecodeError):
            return []
        out = []

        def emit(d):
            c = list(case)
            c[4] = json.dumps(d, separators=(",", ":")).encode().hex()
            out.append(c)

        def walk(node, rebuild):
            # rebuild(x) = whole description with `node` replaced by x
            if isinstance(node, list):
                for i in range(len(node)):
                    emit(rebuild(node[:i] + node[i + 1:]))
                for i, e in enumerate(node):
                    if isinstance(e, (list, dict)):
                        emit(rebuild(e))
                        walk(e, lambda x, i=i: rebuild(node[:i] + [x] + node[i + 1:]))
            elif isinstance(node, dict):
                for k, v in node.items():
                    if k in ("t", "k", "of", "h", "v", "err", "ptr"):
                        continue
                    if node.get("t") in ("s1", "s2"):
                        emit(rebuild({kk: vv for kk, vv in node.items() if kk != k}))
                    if isinstance(v, (list, dict)):
                        if node.get("t") in ("s1", "s2") or k != "e":
                            emit(rebuild(v))
                        walk(v, lambda x, k=k: rebuild(dict(node, **{k: x})))
        if isinstance(desc, (list, dict)):
            walk(desc, lambda x: x)
        out.sort(key=lambda c: len(c[4]))
        return out


SPEC = C18()
