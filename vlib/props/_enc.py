"""Shared by the C03 / C04 / C12 plug-ins (work package `enc`): s-expression reading of the
type/value vocabulary, feature analysis of a case (used by `nontrivial` and by the NARROW
known-finding matchers), structure-aware shrinking candidates."""
import re


def parse_sx(s):
    toks = re.findall(r"\(|\)|[^\s()]+", s)
    pos = 0

    def rec():
        nonlocal pos
        t = toks[pos]
        pos += 1
        if t == "(":
            out = []
            while toks[pos] != ")":
                out.append(rec())
            pos += 1
            return out
        return t
    r = rec()
    if pos != len(toks):
        raise ValueError("trailing tokens")
    return r


def show_sx(x):
    if isinstance(x, list):
        return "(" + " ".join(show_sx(c) for c in x) + ")"
    return x


def unhex(h):
    return b"" if h == "-" else bytes.fromhex(h)


def hexs(b):
    return b.hex() if b else "-"


def head(x):
    return x[0] if isinstance(x, list) and x and isinstance(x[0], str) else None


STRINGABLE = {"bool", "i8", "i16", "i32", "i64", "int", "u8", "u16", "u32", "u64", "uint", "uptr", "f32", "f64", "str", "num"}
STD_KEYS = {"str", "i8", "i16", "i32", "i64", "int", "u8", "u16", "u32", "u64", "uint", "uptr"}


def tag_opts(taghex):
    """(name, set of options) of a json tag given as hex ('-' = no tag)"""
    if taghex == "-":
        return None, set()
    parts = unhex(taghex).split(b",")
    return parts[0], {p.decode("latin1") for p in parts[1:]}


def valid_utf8(b):
    try:
        b.decode("utf-8")
        return True
    except UnicodeDecodeError:
        return False


def walk(t, v, fn, addr=False, path=()):
    """visit every (type, value, addressable) position of a value, following encoding/json's
    addressability rule (pointer targets and slice elements are addressable, map elements and
    interface contents are not, arrays/structs inherit)"""
    fn(t, v, addr, path)
    h = head(t)
    if v == "nil" or v is None:
        return
    if t == "any":
        if head(v) == "any":
            walk(v[1], v[2], fn, False, path + ("any",))
    elif h == "ptr" and head(v) == "ptr":
        walk(t[1], v[1], fn, True, path + ("ptr",))
    elif h == "sl" and head(v) == "sl":
        for e in v[1:]:
            walk(t[1], e, fn, True, path + ("sl",))
    elif h == "arr" and head(v) == "arr":
        for e in v[1:]:
            walk(t[2], e, fn, addr, path + ("arr",))
    elif h == "map" and head(v) == "map":
        for e in v[1:]:
            walk(t[1], e[0], fn, False, path + ("key",))
            walk(t[2], e[1], fn, False, path + ("map",))
    elif h == "st" and head(v) == "st":
        for f, e in zip(t[1:], v[1:]):
            walk(f[3], e, fn, addr, path + (("f", f[2]),))


def types_in(t, out=None):
    out = [] if out is None else out
    out.append(t)
    h = head(t)
    if h in ("sl", "ptr"):
        types_in(t[1], out)
    elif h == "arr":
        types_in(t[2], out)
    elif h == "map":
        types_in(t[1], out)
        types_in(t[2], out)
    elif h == "st":
        for f in t[1:]:
            types_in(f[3], out)
    return out


def value_types(v, out=None):
    """types mentioned inside (any T V) nodes of a value"""
    out = [] if out is None else out
    if isinstance(v, list):
        if head(v) == "any":
            types_in(v[1], out)
            value_types(v[2], out)
        else:
            for c in v[1:] if isinstance(v[0], str) else v:
                value_types(c, out)
    return out


def features(case):
    """set of feature names present in a `mar`-shaped case (fields: op cfg T V ...)"""
    feats = set()
    try:
        t = parse_sx(case[2])
        v = parse_sx(case[3])
    except Exception:
        return {"unparsable"}
    alltypes = types_in(t) + value_types(v)
    for x in alltypes:
        h = head(x)
        if h == "lib":
            feats.add("lib:" + x[1])
        if h == "map":
            k = x[1]
            if k in ("f32", "f64"):
                feats.add("float_map_key")
            elif k == "bool":
                feats.add("bool_map_key")
            elif isinstance(k, str) and k not in STD_KEYS:
                feats.add("odd_map_key")
        if h == "st":
            feats.add("struct")
            for f in x[1:]:
                name, opts = tag_opts(f[2])
                if "omitzero" in opts:
                    feats.add("omitzero")
                if "omitempty" in opts:
                    feats.add("omitempty")
                if "string" in opts:
                    feats.add("string_opt")
        if x in ("f32", "f64"):
            feats.add("float")

    def visit(tt, vv, addr, path):
        h = head(tt)
        if h == "lib" and tt[1] in ("MP", "TP", "LJP"):
            feats.add("ptr_recv_leaf")
            if not addr:
                feats.add("ptr_recv_leaf_nonaddr")
        if head(vv) == "f64" and vv[1] == "8000000000000000":
            feats.add("neg_zero")
        if head(vv) == "f32" and vv[1] == "80000000":
            feats.add("neg_zero")
        if path and isinstance(path[-1], tuple):
            name, opts = tag_opts(path[-1][1])
            inner_t, inner_v = tt, vv
            if head(tt) == "ptr" and head(vv) == "ptr":
                inner_t, inner_v = tt[1], vv[1]
            if "string" in opts and inner_t == "str" and head(inner_v) == "s":
                b = unhex(inner_v[1])
                if (not valid_utf8(b)) or b"\xe2\x80\xa8" in b or b"\xe2\x80\xa9" in b or b"\x08" in b or b"\x0c" in b \
                        or b"<" in b or b">" in b or b"&" in b:
                    feats.add("string_opt_respelled_inner")
            if "omitempty" in opts and head(vv) in ("f64", "f32") and int(vv[1], 16) in (0x8000000000000000, 0x80000000):
                feats.add("omitempty_neg_zero")
        if head(vv) in ("s", "raw", "lib") and len(vv) == 2:
            b = unhex(vv[1])
            if head(vv) == "lib" and b.startswith(b'"hex:'):
                try:
                    b = bytes.fromhex(b[5:-1].decode())
                except ValueError:
                    pass
            if not valid_utf8(b):
                feats.add("invalid_utf8")
                if path and path[-1] == "key":
                    feats.add("invalid_utf8_key")
    try:
        walk(t, v, visit)
    except Exception:
        feats.add("walk_failed")
    return feats


def shrink_candidates(case):
    """smaller variants of (T, V): drop struct fields, slice elements, map entries; replace a
    sub-value by nil where the type allows; unwrap pointers at the top"""
    try:
        t = parse_sx(case[2])
        v = parse_sx(case[3])
    except Exception:
        return []
    out = []

    def emit(nt, nv):
        c = list(case)
        c[2] = show_sx(nt)
        c[3] = show_sx(nv)
        out.append(c)

    def rec(tt, vv, rebuild):
        """rebuild(nt, nv) -> (whole type, whole value)"""
        h = head(tt)
        if vv == "nil":
            return
        if h == "st" and head(vv) == "st":
            n = len(tt) - 1
            for i in range(n):
                nt = tt[:1 + i] + tt[2 + i:]
                nv = vv[:1 + i] + vv[2 + i:]
                emit(*rebuild(nt, nv))
            # hoist a field: the whole value becomes that field
            for i in range(n):
                emit(*rebuild(tt[1 + i][3], vv[1 + i])) if rebuild is top else None
            for i in range(n):
                def rb(nt, nv, i=i):
                    f = list(tt[1 + i])
                    f[3] = nt
                    return rebuild(tt[:1 + i] + [f] + tt[2 + i:], vv[:1 + i] + [nv] + vv[2 + i:])
                rec(tt[1 + i][3], vv[1 + i], rb)
        elif h == "sl" and head(vv) == "sl":
            for i in range(len(vv) - 1):
                emit(*rebuild(tt, vv[:1 + i] + vv[2 + i:]))
            for i in range(len(vv) - 1):
                if rebuild is top:
                    emit(tt[1], vv[1 + i])
            for i in range(min(len(vv) - 1, 4)):
                def rb(nt, nv, i=i):
                    if nt != tt[1]:
                        return rebuild(["sl", nt], ["sl", nv])
                    return rebuild(tt, vv[:1 + i] + [nv] + vv[2 + i:])
                rec(tt[1], vv[1 + i], rb)
        elif h == "map" and head(vv) == "map":
            for i in range(len(vv) - 1):
                emit(*rebuild(tt, vv[:1 + i] + vv[2 + i:]))
            for i in range(min(len(vv) - 1, 4)):
                if rebuild is top:
                    emit(tt[2], vv[1 + i][1])

                def rb(nt, nv, i=i):
                    if nt != tt[2]:
                        return rebuild(["map", tt[1], nt], ["map", [vv[1 + i][0], nv]])
                    return rebuild(tt, vv[:1 + i] + [[vv[1 + i][0], nv]] + vv[2 + i:])
                rec(tt[2], vv[1 + i][1], rb)
        elif h == "ptr" and head(vv) == "ptr":
            if rebuild is top:
                emit(tt[1], vv[1])
            rec(tt[1], vv[1], lambda nt, nv: rebuild(["ptr", nt], ["ptr", nv]))
        elif h == "arr" and head(vv) == "arr":
            if rebuild is top and len(vv) > 1:
                emit(tt[2], vv[1])
        elif tt == "any" and head(vv) == "any":
            if rebuild is top:
                emit(vv[1], vv[2])
            rec(vv[1], vv[2], lambda nt, nv: rebuild("any", ["any", nt, nv]))

    def top(nt, nv):
        return nt, nv
    try:
        rec(t, v, top)
    except Exception:
        pass
    seen = set()
    res = []
    for c in out:
        k = "\t".join(c)
        if k not in seen and len(k) < len("\t".join(case)):
            seen.add(k)
            res.append(c)
    res.sort(key=lambda c: len("\t".join(c)))
    return res
