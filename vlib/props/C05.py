"""C05 - results depend only on the input bytes; nothing outside the input is read.

Lean side: Props/C05.lean (bounds discipline of the block-wise scanners over a partial memory:
no_fault / content_only per routine, the weaker same-page statements for the routines that over-read
on purpose, and the refutation of no_fault / content_only for check_leading_zero).
Run-time side: `place` - every public entry point on the same bytes on the heap, ending at / near a
PROT_NONE page, and followed by a plausible continuation; the three answers must be equal, under both
SIMD levels.  Lean cannot exhibit a fault of the assembled machine code: the claim is
"proof of the algorithm's bounds discipline + run-time validation on the real machine code" (partial).
"""
import re

from ..runner import Spec, Stream

ENVS = {"avx2": {}, "sse": {"SONIC_MODE": "noavx2"}}

# entry points that run the native number parsers (vnumber / vsigned / vunsigned: check_leading_zero)
# (sonic.Unmarshal([]byte) copies the input to the heap first - `string(buf)` in frozenConfig.Unmarshal - so
# `unm_bytes` never sees the placement and is not in this set)
NUMBER_PARSING = {"unm_any", "unm_anystd", "unm_int", "unm_i8", "unm_u64", "unm_f64", "unm_f32", "unm_sl",
                  "unm_ints", "unm_map", "unm_struct", "unm_structstd", "node_iface", "node_load",
                  "ast_loads", "unm_arr2", "unm_starr"}
# entry points whose scan of a string is the non-validating one (advance_string_default / skip_string_fast)
NONVALIDATING_STRING = {"valid", "validstd", "skip", "get", "getf", "getk", "getfk", "geti", "getfi", "getki",
                        "unm_any", "unm_anynum", "unm_str", "unm_raw", "unm_sl", "unm_map", "unm_struct",
                        "unm_bytes", "node_load", "node_iface", "unm_ints", "unm_num"}

_LEADING_ZERO_END = re.compile(rb"(?:^|[^0-9.eE+\-])-?0$")


def doc_of(case):
    return bytes.fromhex(case[2]) if len(case) > 2 and case[2] != "-" else b""


def tail_of(case):
    return bytes.fromhex(case[4]) if len(case) > 4 and case[4] != "-" else b""


def ends_in_leading_zero(doc):
    """the last byte of the input is the leading `0` of a number token"""
    return _LEADING_ZERO_END.search(doc) is not None


def open_string_mod32(doc):
    """the input ends inside a string whose body so far is a positive multiple of 32 bytes"""
    i = 0
    n = len(doc)
    start = -1
    while i < n:
        c = doc[i]
        if start < 0:
            if c == 0x22:
                start = i
        else:
            if c == 0x5C:
                i += 1
            elif c == 0x22:
                start = -1
        i += 1
    if start < 0:
        return False
    body = n - start - 1
    return body > 0 and body % 32 == 0


def short_literal(doc):
    """advance_dword: `*p > src->len + dec - 4` is evaluated in size_t; for a whole input shorter than 4 - dec bytes
    (t/n: dec = 1, f: dec = 0) the bound wraps around and the 4-byte compare reads up to 4 bytes behind the input"""
    for c in doc:
        if c in b"tn":
            return len(doc) <= 2
        if c in b"f":
            return len(doc) <= 3
    return False


def is_fault(v):
    """answer of a placement whose call died on a load of an unmapped byte (recovered by SetPanicOnFault)"""
    return bool(v) and v.startswith("PANIC.runtime_error:_invalid_memory_address")


class C05(Spec):
    prop = "C05"
    lean_modules = ["SonicSpec.Props.C05"]
    rule = ("`place` cases: one public entry point on one byte string in three placements (heap / ending 0..63 bytes before "
            "a PROT_NONE page / followed by a continuation such as `.5`, `\"`, digits, `\\`, `]`), under SONIC_MODE auto and noavx2; "
            "families: structured documents, number literals (incl. trailing `0`, `-0`), string literals with escapes around block "
            "boundaries, raw byte strings for quote/unquote/html/utf8, a length x alignment sweep, and a malformed stream (open strings, "
            "backslash at the end, cut numbers/containers). Non-trivial = non-empty input consumed by the entry point in all placements "
            "(the answer is not `unsupported`)")
    trusted_base = ["the assembled native routines (internal/native/{avx2,sse}) and the JIT output are modelled after native/*.h "
                    "(Model/Mem*.lean) and tied by the hostile-placement correspondence only",
                    "mmap/mprotect placement code of go/harness/ops_mem.go; memory protection is page granular (4096)"]
    assumptions = ["claim level: proof of the algorithm's bounds discipline (Lean, any block width, any placement, any trailing "
                   "content) + run-time validation on the real machine code (guard page); partial by nature - Lean says nothing "
                   "about what the assembled code actually loads",
                   "the block-level mask computations (odd-backslash-run carry trick, prefix-xor in-string mask) are specified by the "
                   "scalar carry automaton; the bit trick itself is not proved",
                   "routines with intentional same-page over-read (skip_container_fast final block) carry the weaker statement: every load "
                   "stays inside a page that holds input bytes and bytes past the end never influence the result",
                   "check_leading_zero as written over-reads one byte: no_fault / content_only are refuted for it in the model "
                   "(known finding C05-leading-zero-overread) and kept as _partial under the hypothesis that excludes it",
                   "the heap placement is a fresh Go-heap object holding the input followed by 64 zero bytes (reproducible); it is the "
                   "reference voice of the triple"]

    def streams(self, tier, seed):
        if tier == "quick":
            return [Stream("place", "c05.place", 1200, envs=ENVS, timeout=0.02),
                    Stream("sweep", "c05.sweep", 1000, envs=ENVS, timeout=0.02),
                    Stream("malformed", "c05.bad", 600, envs=ENVS, timeout=0.02),
                    Stream("goscan", "c05.goscan", 1500, envs=ENVS, timeout=0.02)]
        return [Stream("place", "c05.place", 120000, envs=ENVS, timeout=0.01),
                Stream("sweep", "c05.sweep", 160000, envs=ENVS, timeout=0.01),
                Stream("malformed", "c05.bad", 60000, envs=ENVS, timeout=0.01),
                Stream("goscan", "c05.goscan", 40000, envs=ENVS, timeout=0.01)]

    # ------------------------------------------------------------------ verdict
    def judge(self, case, sonic, model):
        out = []
        if case[0] != "place":
            return out
        for env, s in sonic.items():
            v = s.get("sonic")
            if v in ("unsupported", "badcase", None):
                continue
            if v in ("CRASH", "HANG"):
                first = s.get("crash", "")
                kind = "fault" if ("fault" in first or "SIGSEGV" in first or "SIGBUS" in first) else "crash"
                if v == "HANG":
                    kind = "hang"
                out.append((kind, "%s: %s" % (env, first)))
                continue
            if v == "PANIC":
                # the op itself panicked outside the per-placement recovery
                out.append(("crash", "%s: %s" % (env, s.get("panic", ""))))
                continue
            g = s.get("guard")
            t = s.get("tail")
            # a load of an unmapped byte is recovered as a run-time panic by ops_mem.go (SetPanicOnFault)
            if is_fault(g) and not is_fault(v):
                out.append(("fault", "%s: guard placement faulted (%s); heap=%s" % (env, g, v)))
            elif g != v:
                out.append(("guard-differs", "%s: heap=%s guard=%s" % (env, v, g)))
            if is_fault(t) and not is_fault(v):
                out.append(("fault", "%s: tail placement faulted (%s); heap=%s" % (env, t, v)))
            elif t != v:
                out.append(("tail-differs", "%s: heap=%s tail=%s" % (env, v, t)))
            pre = s.get("pre")
            if pre is not None:
                # (iv) input flush behind an unmapped page: a read in front of the input faults
                if is_fault(pre) and not is_fault(v):
                    out.append(("fault-pre", "%s: pre placement (input behind a PROT_NONE page) faulted (%s); heap=%s" % (env, pre, v)))
                elif pre != v:
                    out.append(("pre-differs", "%s: heap=%s pre=%s" % (env, v, pre)))
            m = model.get(env) or {}
            gf = m.get("gf")
            if gf is not None and (gf == "1") != is_fault(g):
                out.append(("tie:mem-model", "%s: model of check_leading_zero says fault=%s in the guard placement, the code says %s"
                            % (env, gf, g)))
            mv = m.get("model")
            if mv and mv != "unsupported":
                # the model was run on the same three memories (FAULT = load of an unmapped byte); `alt*` = the answers
                # when the uninitialised `ch` of advance_string_default holds a quote (undefined behaviour: both allowed)
                pairs = [("guard", g, m.get("guard"), m.get("altguard")), ("tail", t, m.get("tail"), m.get("alttail")),
                         ("heap", v, mv, m.get("alt"))]      # heap object = input + 64 zero bytes (ops_mem.go memHeapCopy)
                for name, got, want, alt in pairs:
                    if is_fault(got):
                        got = "FAULT"
                    if got not in (want, alt):
                        out.append(("tie:mem-model", "%s %s: sonic=%s model=%s alt=%s" % (env, name, got, want, alt)))
                        break
        # one discrepancy per kind is enough for a case
        seen = set()
        res = []
        for k, d in out:
            if k not in seen:
                seen.add(k)
                res.append((k, d))
        return res

    def model_ref_disagree(self, case, sonic, model):
        # the transcribed vector UTF-8 validator said "valid" where the proved scalar specification says ill-formed:
        # the model (hypothesis VecSound of Props/C13 utf8_width_irrelevant_partial) is wrong, no verdict
        return any((m or {}).get("vecsound") == "0" for m in model.values())

    def model_line(self, case, sonic):
        # the model needs the block widths of the build that answered
        if case[0] not in ("place", "plain"):
            return None
        return "\t".join(list(case) + [sonic.get("mode") or "avx2"])

    def nontrivial(self, case, sonic, model):
        if case[0] != "place" or len(case) < 5 or case[2] == "-":
            return False
        for s in sonic.values():
            if s.get("sonic") in ("unsupported", "badcase", None):
                return False
        return True

    def shrink_fields(self, case):
        # only the document is reduced; the continuation is part of the witness
        return [2] if len(case) > 2 and len(case[2]) >= 4 and case[2] != "-" else []

    # ------------------------------------------------------------------ known findings
    def matchers(self):
        def only_zero_sign_differs(d):
            """every answer of the case is the same value up to the sign of zeroes"""
            vals = set()
            for s in d["sonic"].values():
                for f in ("sonic", "guard", "tail"):
                    x = s.get(f)
                    if x is None:
                        continue
                    m = re.fullmatch(r"ok:((?:[0-9a-f]{2})*)(?:\.negzero\d+)?", x)
                    if not m:
                        return False
                    vals.add(re.sub(rb"-0(?![0-9.eE])", b"0", bytes.fromhex(m.group(1))))
            return len(vals) == 1

        def leading_zero(d, params):
            case = d["case"]
            if case[0] != "place":
                return False
            doc = doc_of(case)
            if not ends_in_leading_zero(doc):
                return False
            if case[1] == "unm_bytes":
                # sonic.Unmarshal([]byte) works on its own heap copy (`string(buf)`): the byte behind THAT copy is whatever
                # the allocator left there, so even the heap answer for `…-0` flips between +0 and -0.0 from call to call
                return (d["kind"] in ("guard-differs", "tail-differs", "pre-differs") and doc.endswith(b"-0")
                        and only_zero_sign_differs(d))
            if case[1] not in NUMBER_PARSING:
                return False
            if d["kind"] == "fault":
                # the byte behind the zero is unmapped: only exactly at the page edge
                return case[3] == "0"
            if d["kind"] in ("guard-differs", "tail-differs", "pre-differs"):
                # the byte behind the zero decides between the early return (+0) and the long path (-0.0):
                # only `-0`, only when a placement shows `.`, `e` or `E` there
                t = tail_of(case)
                return doc.endswith(b"-0") and t[:1] in (b".", b"e", b"E")
            return False

        def open_string(d, params):
            case = d["case"]
            if case[0] != "place" or d["kind"] not in ("guard-differs", "tail-differs", "pre-differs"):
                return False
            return case[1] in NONVALIDATING_STRING and open_string_mod32(doc_of(case))

        def dword(d, params):
            case = d["case"]
            if case[0] != "place" or not short_literal(doc_of(case)):
                return False
            if d["kind"] == "fault":
                return int(case[3]) <= 3
            return d["kind"] in ("guard-differs", "tail-differs", "pre-differs")

        return {"trailing_zero_digit_at_page_edge": leading_zero,
                "literal_in_input_shorter_than_dword": dword,
                "unterminated_string_mod32_placement": open_string}


SPEC = C05()
