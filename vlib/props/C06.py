"""C06 - returned data is caller-owned; buffers and inputs are never aliased or overrun.

Streams (go/harness/ops_own.go, gen_own.go; model: lean/SonicSpec/Driver/Own.lean):
  hist     histories of Marshal/MarshalString/MarshalIndent/EncodeInto/Node.MarshalJSON/Raw/Get/Unmarshal
           with option.LimitBufferSize lowered so outputs fall on both sides of it; every earlier result is
           re-read after every later call (and after bursts of concurrent calls, and after GCs)
  encinto  encoder.EncodeInto into a slice that ends at a PROT_NONE page, dirty prefix and spare part
  htmlesc  encoder.HTMLEscape(dst, src) with a caller-supplied destination
  alias    decode, overwrite the caller's input, re-read every decoded string
"""
from ..runner import Spec, Stream

HTML_UNITS = [(b"<", b"\\u003c"), (b">", b"\\u003e"), (b"&", b"\\u0026"),
              (b"\xe2\x80\xa8", b"\\u2028"), (b"\xe2\x80\xa9", b"\\u2029")]


def _hx(s):
    return b"" if s in ("-", "", None) else bytes.fromhex(s)


def html_escape(b):
    out = bytearray()
    i = 0
    while i < len(b):
        for raw, esc in HTML_UNITS:
            if b.startswith(raw, i):
                out += esc
                i += len(raw)
                break
        else:
            out.append(b[i])
            i += 1
    return bytes(out)


def html_clean(b):
    return html_escape(b) == b


def utf8_valid(b):
    try:
        b.decode("utf-8")
        return True
    except UnicodeDecodeError:
        return False


def only_high_bytes_dropped(prior, got):
    """got == prior with runs of bytes >= 0x80 replaced by the six characters \\ufffd"""
    rep = b"\\ufffd"
    i = j = 0
    while i < len(prior) or j < len(got):
        if i < len(prior) and j < len(got) and prior[i] == got[j]:
            i += 1
            j += 1
        elif got.startswith(rep, j) and i < len(prior) and prior[i] >= 0x80:
            j += len(rep)
            i += 1
            while i < len(prior) and prior[i] >= 0x80 and not got.startswith(rep, j) and (j >= len(got) or got[j] != prior[i]):
                i += 1
        else:
            return False
    return True


OLD_ALIAS = {
    "unmarshal": "unmarshal.def.iface", "unmarshal_t": "unmarshal.def.typed", "unmarshal_std": "unmarshal.std.iface",
    "copystring": "unmarshalstring.cs.iface", "copystring_t": "unmarshalstring.cs.typed",
    "decoder_copystring": "decoder.cs.iface", "decoder_copystring_t": "decoder.cs.typed",
    "unmarshalstring": "unmarshalstring.def.iface", "unmarshalstring_t": "unmarshalstring.def.typed",
    "get": "get.def.node", "getfromstring": "getfromstring.def.node",
}


def alias_api(name):
    f = OLD_ALIAS.get(name, name).split(".")
    return f if len(f) == 3 else [name, "", ""]


def must_copy(name):
    """the property lists exactly Unmarshal([]byte), Get([]byte) and decoding with CopyString"""
    entry, cfg, _ = alias_api(name)
    if entry in ("unmarshal", "get", "getcopy"):
        return True
    if entry in ("unmarshalstring", "decoder"):
        return cfg in ("std", "cs", "csnum")
    return False


class C06(Spec):
    prop = "C06"
    lean_modules = ["SonicSpec.Props.C06"]
    rule = ("hist: non-trivial when an output was handed over (capacity above the lowered limit), an EncodeInto appended "
            "to an earlier result, or a concurrent burst / GC ran between results; encinto: the buffer had to grow or had a "
            "prior content; htmlesc: the source contains a byte the escape rewrites; alias: at least one non-empty decoded string")
    trusted_base = [
        "native.Quote / native.HTMLEscape machine code and the JIT-emitted copy of the quote loop are parameters of the model "
        "(contract NativeOK); tied by the guard-page and history correspondence only",
        "sync.Pool, runtime.growslice, the garbage collector: parameters (pool choice, growth rounding, uncleared memory)",
        "goroutine interleavings inside one call are not modelled (histories are sequences of whole calls); the concurrent "
        "bursts of the hist stream observe them",
    ]
    assumptions = [
        "the caller does not write into memory it handed to a running call, and only overwrites decoder inputs of copying entry points",
    ]

    def streams(self, tier, seed):
        q = tier == "quick"
        vm = {"default": {}, "vm": {"SONIC_ENCODER_USE_VM": "1"}}
        return [
            Stream("hist", "c06.hist", 160 if q else 4000, envs=vm, timeout=0.5),
            Stream("encgrid", "c06.encgrid", 1, envs=vm, timeout=0.1),
            Stream("encinto", "c06.encinto", 900 if q else 30000,
                   envs={"default": {}, "vm": {"SONIC_ENCODER_USE_VM": "1"}, "noavx2": {"SONIC_MODE": "noavx2"}}, timeout=0.1),
            Stream("htmlesc", "c06.htmlesc", 400 if q else 30000, envs={"default": {}, "noavx2": {"SONIC_MODE": "noavx2"}}),
            Stream("alias", "c06.alias", 1500 if q else 60000,
                   envs={"default": {}, "optdec": {"SONIC_USE_OPTDEC": "1"},
                         "fastmap": {"SONIC_USE_OPTDEC": "1", "SONIC_USE_FASTMAP": "1"}}),
        ]

    def model_line(self, case, sonic):
        if case[0] == "encinto":
            return "\t".join(case[:5] + [sonic.get("impl", "jit")])
        return "\t".join(case)

    # ------------------------------------------------------------------ verdicts
    def judge(self, case, sonic, model):
        out = []
        op = case[0]
        for env, s in sonic.items():
            m = model.get(env) or {}
            res = s.get("sonic")
            if res in ("CRASH", "HANG"):
                out.append(("crash", "%s: %s" % (env, s)))
                continue
            if res == "PANIC":
                out.append(("panic", "%s: %s model=%s" % (env, s.get("panic"), m.get("model"))))
                continue
            if res in (None, "unsupported"):
                continue
            if op == "hist":
                if s.get("changed", "-") != "-":
                    out.append(("returned-bytes-changed", "%s: result@call %s" % (env, s["changed"])))
                if s.get("dep", "-") != "-":
                    out.append(("output-depends-on-history", "%s: calls %s" % (env, s["dep"])))
                mm = m.get("model")
                if mm and mm != "unsupported":
                    a, b = res.split(","), mm.split(",")
                    if len(a) == len(b):
                        bad = [i for i in range(len(a)) if b[i] not in ("-", "?") and a[i] != "-" and a[i] != b[i]]
                        if bad:
                            out.append(("tie:hist-output", "%s: call %d sonic=%s model=%s" % (env, bad[0], a[bad[0]], b[bad[0]])))
                    if m.get("stable") == "0":
                        out.append(("tie:model-unstable", "%s: the model's own results changed" % env))
            elif op == "encinto":
                if s.get("pre") == "0":
                    out.append(("wrote-outside-spare-capacity", "%s: bytes before the spare part of the caller's array changed" % env))
                if s.get("over") == "1":
                    out.append(("wrote-outside-spare-capacity", "%s: bytes behind the capacity (%s) of the caller's slice changed" % (env, case[1])))
                    continue
                if s.get("places") == "0":
                    out.append(("output-depends-on-buffer", "%s: heap and page-edge placement of the same slice gave different results" % env))
                ref = s.get("ref")
                if res.startswith("err") or ref == "err":
                    if res.startswith("err") != (ref == "err"):
                        out.append(("output-depends-on-buffer", "%s: error with the caller's buffer %s, plain Marshal %s" % (env, res[:40], ref[:40])))
                    continue
                if res != ref:
                    prior = _hx(case[2])
                    got, want = _hx(res), _hx(ref)
                    if not got.startswith(prior) and got.endswith(want[len(prior):]):
                        out.append(("prefix-not-preserved", "%s: opts=%s prior=%s returned prefix=%s" % (
                            env, case[3], prior.hex(), got[:len(got) - (len(want) - len(prior))].hex())))
                    else:
                        out.append(("output-depends-on-buffer", "%s: cap=%s sonic=%s marshal=%s" % (env, case[1], res[:80], ref[:80])))
                mm = m.get("model")
                if mm and mm not in ("unsupported",) and not mm.startswith("err") and mm != res:
                    out.append(("tie:encinto-output", "%s: sonic=%s model=%s" % (env, res[:80], mm[:80])))
            elif op == "htmlesc":
                if s.get("pre") == "0":
                    out.append(("wrote-outside-spare-capacity", "%s: the destination's prior content changed" % env))
                if res != s.get("ref"):
                    out.append(("output-depends-on-buffer", "%s: sonic=%s std=%s" % (env, res[:80], (s.get("ref") or "")[:80])))
            elif op == "alias":
                if must_copy(case[1]) and s.get("same") == "0":
                    out.append(("decoded-value-aliases-input", "%s: api=%s fields=%s" % (env, case[1], s.get("diff"))))
        return out

    def model_ref_disagree(self, case, sonic, model):
        op = case[0]
        for env, s in sonic.items():
            m = model.get(env) or {}
            mm = m.get("model")
            if not mm or mm in ("unsupported", "MISMATCH"):
                if mm == "MISMATCH":
                    return True
                continue
            if op == "hist":
                ref = s.get("ref")
                if not ref:
                    continue
                a, b = ref.split(","), mm.split(",")
                if len(a) == len(b) and any(x not in ("-",) and y not in ("-", "?") and x != y for x, y in zip(a, b)):
                    return True
            elif op == "encinto":
                ref = s.get("ref")
                if ref == "-" or s.get("over") == "1" or s.get("sonic") in ("CRASH", "PANIC", "HANG"):
                    continue   # no reference was computed: the run stopped at the overrun
                if not ref or ref == "err" or mm.startswith("err"):
                    if ref and (ref == "err") != mm.startswith("err"):
                        return True
                    continue
                if mm != ref:
                    return True
            elif op == "htmlesc":
                ref = s.get("ref")
                if ref and mm != ref:
                    return True
            elif op == "alias":
                if must_copy(case[1]) != (mm == "noalias"):
                    return True
        return False

    def nontrivial(self, case, sonic, model):
        s = next(iter(sonic.values()), {})
        op = case[0]
        if op == "hist":
            return s.get("handed", "0") != "0" or any(c.startswith("E|") and "|a" in c for c in case[4:]) or \
                any(c.startswith("X|") or c == "C" for c in case[4:])
        if op == "encinto":
            return s.get("moved") == "1" or case[2] != "-" or case[4][:1] in "jqkFGTW"
        if op == "htmlesc":
            return not html_clean(_hx(case[3]))
        if op == "alias":
            return s.get("nstr", "0") != "0"
        return False

    def shrink_fields(self, case):
        if case[0] == "encinto":
            return [2]
        if case[0] == "htmlesc":
            return [2, 3]
        if case[0] == "alias":
            return []
        return []

    # ------------------------------------------------------------------ known findings
    def matchers(self):
        def encinto_finish_rewrites_prefix(d, params):
            c = d["case"]
            if d["kind"] != "prefix-not-preserved" or c[0] != "encinto":
                return False
            try:
                opts = int(c[3])
            except ValueError:
                return False
            if opts & 3 == 0:
                return False
            prior = _hx(c[2])
            for env, s in d["sonic"].items():
                res, ref = s.get("sonic"), s.get("ref")
                if not res or not ref or res.startswith("err") or ref == "err" or res in ("CRASH", "PANIC", "HANG"):
                    return False
                if res == ref:
                    continue
                got, want = _hx(res), _hx(ref)
                tail = want[len(prior):]
                if not got.endswith(tail):
                    return False
                head = got[:len(got) - len(tail)]
                # exactly the finishing pass applied to the caller's prefix, nothing else
                cand = prior
                if opts & 1:
                    cand = html_escape(cand)
                if head == cand and head != prior:
                    continue
                if opts & 2 and not utf8_valid(prior) and only_high_bytes_dropped(cand if opts & 1 else prior, head):
                    continue
                return False
            return True

        def aliasing_envs(d):
            """(entry, cfg, dest, {env: set of labels that changed}) of an aliasing discrepancy through a string
            entry point with CopyString; None when it is anything else"""
            c = d["case"]
            if d["kind"] != "decoded-value-aliases-input" or c[0] != "alias":
                return None
            entry, cfg, dest = alias_api(c[1])
            if entry not in ("unmarshalstring", "decoder") or cfg not in ("std", "cs", "csnum"):
                return None   # Unmarshal([]byte) / Get([]byte) aliasing is never a listed finding
            envs = {}
            for env, s in d["sonic"].items():
                if s.get("same") == "0":
                    envs[env] = set(x for x in (s.get("diff") or "").split(",") if x)
            return (entry, cfg, dest, envs) if envs else None

        def optdec_number_ignores_copystring(d, params):
            a = aliasing_envs(d)
            if not a or a[2] != "typed":
                return False
            # only the alternative decoder, and only the json.Number field
            return all(env in ("optdec", "fastmap") and labs == {"n"} for env, labs in a[3].items())

        def copystring_skips_number_in_interface(d, params):
            a = aliasing_envs(d)
            if not a or a[1] != "csnum" or a[2] not in ("iface", "mapiface", "sliface", "wrap"):
                return False
            # only json.Number values inside interface{} (UseNumber); strings and keys must have been copied
            return all(labs == {"N"} for labs in a[3].values())

        def copystring_skips_node_fields(d, params):
            a = aliasing_envs(d)
            if not a or a[2] != "nodes":
                return False
            # only the JIT decoder, and only the ast.Node / *ast.Node fields
            return all(env == "default" and labs and labs <= {"nd", "pn"} for env, labs in a[3].items())

        return {"encinto_finish_rewrites_prefix": encinto_finish_rewrites_prefix,
                "optdec_number_ignores_copystring": optdec_number_ignores_copystring,
                "copystring_skips_number_in_interface": copystring_skips_number_in_interface,
                "copystring_skips_node_fields": copystring_skips_node_fields}


SPEC = C06()
