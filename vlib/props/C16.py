"""C16 - nodes declared concurrently readable really are.

Proof side: Props/C16.lean (interleaving model + access discipline, proved for all schedules and
any number of threads) over the facts that go/factx_access regenerates from ast/*.go on every run
(`pregen`).  Correspondence side: `conc` cases - K goroutines x the documented read operations on
one shared node, every result compared with the single-threaded result; one stream runs in the
`-race` build with GORACE=halt_on_error=1, so a reported data race kills the worker and the case
becomes a discrepancy of kind `data-race` (the detector's report is read back from the run
directory and summarised in the detail).
"""
import hashlib
import os
import re
import subprocess

from .. import core
from ..runner import Spec, Stream


def _sha(line):
    return hashlib.sha1(line.encode()).hexdigest()


class C16(Spec):
    prop = "C16"
    needs_factx = True
    extra_generated = ["Access.lean"]
    lean_modules = ["SonicSpec.Props.C16"]
    rule = ("conc cases: K in {2..32} goroutines, 1-4 documented read operations each (Get/Index/GetByPath/IndexOrGet paths + "
            "typed accessors, Interface, Map, Array, Raw, MarshalJSON), one shared node from NewRawConcurrentRead / "
            "GetWithOptions{ConcurrentRead} (whole document, validated, sub-path) / Load / LoadAll, documents with nested "
            "containers, white space and escapes (44 B median, every 9th 10-60 KB); a case is non-trivial when at least two "
            "goroutines run, at least one of them converts the shared node and the document is a container; results are compared "
            "with the single-threaded run on JSON documents only (on other texts only crash/hang/race/panic are judged)")
    trusted_base = ["go/factx_access (go/ast, ~700 lines): prints the receiver accesses of every ast.Node method in source order",
                    "Go race detector (-race build of the harness) as the observer of data races in the real code",
                    "children: the parent+children object is a Lean state (Model/RWMulti.lean: one one-node instance per node, any tree "
                    "shape and depth, a thread enters a child only through a child-slot read after the parent's release-store); the "
                    "composite theorems project every node to the one-node system and prove that the creation writes happen-before "
                    "every step on a child; that real readers obtain child pointers only through such reads is the regenerated access "
                    "fact (accesses of class c), the parser facts say children are raw nodes with their own mutex, never lazy",
                    "below 'atomic step / critical section' the Go memory model is taken as specified (sync.RWMutex, sync/atomic)"]
    assumptions = ["statements cover texts the node's own parser accepts and texts it rejects (pf); the pinned snapshot's two "
                   "defects are kept as negation theorems on the pinned event lists (regression section)",
                   "PARTIAL: a model cannot exhibit a torn read or a race of the machine; the -race correspondence is the "
                   "validation of the access lists the theorems are about"]

    def __init__(self):
        self._rd = None
        self._racedir = None
        self.variant = "unknown"

    # ------------------------------------------------------------------ regenerated facts
    def pregen(self, rundir):
        self._rd = rundir
        self._racedir = os.path.join(rundir, "race")
        os.makedirs(self._racedir, exist_ok=True)
        # Generated/Access.lean is written by core.run_factx (go/factx_access, EXTRA_EXTRACTORS)
        dst = os.path.join(core.LEAN, "SonicSpec", "Generated", "Access.lean")
        if not os.path.exists(dst):
            raise RuntimeError("Generated/Access.lean is missing: go/factx_access did not recognise the source shape")
        new = open(dst).read()
        self._facts_hash = hashlib.sha1(new.encode()).hexdigest()

    def extra(self, ctx):
        """The tree is classified by the proof side alone: Props.C16.all_documented_reads_disciplined holds only when
        every documented read incl. MarshalJSON is disciplined for both parser outcomes, so the model predicts
        `no race` for every case; any reported race is a violation."""
        if self._rd is None:
            return [{"what": "pregen was not run (runner without the spec.pregen hook)"}]
        self.variant = "disciplined"
        ctx["run"].cov["marshal_variant"] = self.variant
        return []

    # ------------------------------------------------------------------ streams
    def streams(self, tier, seed):
        renv = {"GORACE": "halt_on_error=1 exitcode=66" + ((" log_path=%s/race" % self._racedir) if self._racedir else "")}
        if self._racedir:
            renv["VERIF_RACE_DIR"] = self._racedir
        if tier == "quick":
            n_race, n_plain, n_bad = 60, 200, 8
        else:
            n_race, n_plain, n_bad = 3600, 24000, 300
        return [Stream("race", "c16.conc", n_race, envs={"race": renv}, timeout=1.0, race=True),
                Stream("plain", "c16.conc", n_plain, timeout=0.5),
                Stream("malformed-race", "c16.malformed", n_bad, envs={"race": renv}, timeout=5.0, race=True)]

    def model_line(self, case, sonic):
        if case[0] != "conc" or len(case) < 5:
            return None
        return "\t".join(case[:5] + [self.variant, sonic.get("mraw", "0"), sonic.get("conv", "0"), sonic.get("outs", "") or "-"])

    # ------------------------------------------------------------------ race reports
    def _race_report(self, case):
        """the detector's report for this case, if the worker that ran it left one"""
        if not self._racedir or not os.path.isdir(self._racedir):
            return None
        h = _sha("\t".join(case))
        best, pf = None, "? mraw=? conv=?"
        for f in os.listdir(self._racedir):
            if not f.startswith("case."):
                continue
            try:
                mark = open(os.path.join(self._racedir, f)).read().strip().split(" ")
            except OSError:
                continue
            if not mark or mark[0] != h:
                continue
            rp = os.path.join(self._racedir, "race." + f[5:])
            if os.path.exists(rp):
                best = rp
                if len(mark) > 1 and mark[1].startswith("pf="):
                    pf = " ".join(mark[1:])[3:]
        if not best:
            return None
        try:
            return pf, open(best, errors="replace").read()
        except OSError:
            return None

    @staticmethod
    def summarise(report):
        """`kind:f0<f1<f2 | kind:g0<g1<g2` - the two accesses of the first reported race, innermost sonic frames"""
        m = re.search(r"WARNING: DATA RACE\n(.*?)(?:\n\nGoroutine |\n==================)", report, re.S)
        if not m:
            return "unparsed: " + report[:200].replace("\n", " / ")
        parts = []
        for sec in re.split(r"\n\n", m.group(1)):
            lines = sec.strip().split("\n")
            if not lines or not lines[0]:
                continue
            head = lines[0].lower()
            kind = ("atomic-" if "atomic" in head else "") + ("write" if "write" in head else "read")
            frames = []
            for ln in lines[1:]:
                fm = re.match(r"\s+(\S+)\(\)$", ln)
                if fm:
                    fn = fm.group(1)
                    fn = fn.replace("github.com/bytedance/sonic/", "")
                    if fn.startswith("main.") or fn.startswith("runtime."):
                        continue
                    frames.append(fn)
            parts.append(kind + ":" + "<".join(frames[:4]))
        return " | ".join(parts)

    # ------------------------------------------------------------------ verdict
    def judge(self, case, sonic, model):
        out = []
        for env, s in sonic.items():
            v = s.get("sonic")
            m = model.get(env) or {}
            tag = "%s pf=%s " % (env, s.get("pf", "?"))
            if v == "CRASH":
                rr = self._race_report(case)
                if rr and "DATA RACE" in rr[1]:
                    mk = rr[0]
                    pred = self.variant == "pinned" and re.search(r"mraw=[1-9]", mk) and re.search(r"conv=[1-9]", mk) \
                        and case[1] not in ("load", "loadall")
                    out.append(("data-race", "%s pf=%s model-predicted=%s %s" % (env, mk, "yes" if pred else "no", self.summarise(rr[1]))))
                else:
                    out.append(("crash", tag + str(s.get("crash", ""))[:200]))
            elif v == "HANG":
                out.append(("hang", tag + "a reader never returned (pf=%s)" % s.get("pf", "?")))
            elif v == "PANIC":
                out.append(("panic", tag + (s.get("diff") or s.get("panic") or "")[:300]))
            elif v == "DIFF":
                # Results are compared only on documents that are JSON (reference: encoding/json.Valid).  There every
                # order of conversions gives the same value (raw text and re-serialised tree are compared as values), so
                # ONE single-threaded run is the reference.  On other texts Raw()/TypeSafe() legitimately answer
                # differently before and after a (failed or lenient) conversion - both are single-threaded results -
                # and the harness has no oracle for the set: not reported (crash/hang/race/panic still are).
                if s.get("ref") == "valid":
                    out.append(("differs-from-sequential", tag + s.get("diff", "")[:400]))
            elif v == "ok":
                # texts returned for the shared root must denote the document's value (model = reference here)
                if s.get("ref") == "valid" and m.get("model") == "ok" and m.get("outs_ok") == "0" and s.get("refeq") == "0":
                    out.append(("output-not-equivalent", tag + "a Raw/MarshalJSON text of the shared root does not denote the document"))
        return out

    def model_ref_disagree(self, case, sonic, model):
        for env, s in sonic.items():
            m = model.get(env) or {}
            if "model" not in m or s.get("sonic") in ("CRASH", "HANG", None):
                continue
            if (m["model"] == "invalid_doc") != (s.get("ref") == "invalid") and "ref" in s:
                return True
            if s.get("sonic") in ("ok", "DIFF") and s.get("ref") == "valid" and case[1] != "sub" and "refeq" in s and "outs_ok" in m:
                if m["outs_ok"] != s["refeq"]:
                    return True
        return False

    def nontrivial(self, case, sonic, model):
        if case[0] != "conc" or len(case) < 5:
            return False
        try:
            k = int(case[3])
            doc = bytes.fromhex(case[2]) if case[2] != "-" else b""
        except ValueError:
            return False
        s = next(iter(sonic.values()), {})
        conv = int(s.get("conv", "0") or 0) if s.get("conv", "0").isdigit() else 0
        return k >= 2 and conv >= 1 and doc.lstrip()[:1] in (b"[", b"{")

    # ------------------------------------------------------------------ known findings
    def matchers(self):
        def marshal_raw_unlocked(d, params):
            """race / torn read of Node.MarshalJSON's unlocked fast path on a still-raw shared node vs assign in parseRaw"""
            det = d.get("detail", "")
            if d["kind"] == "data-race":
                parts = [p.strip() for p in det.split(" | ")]
                parts[0] = parts[0].split(" ")[-1]
                if len(parts) != 2:
                    return False
                rd = [p for p in parts if p.startswith("read:ast.(*Node).toString<ast.(*Node).MarshalJSON")]
                wr = [p for p in parts if p.startswith("write:ast.(*Node).assign<ast.(*Node).parseRaw")]
                return len(rd) == 1 and len(wr) == 1
            if d["kind"] == "differs-from-sequential":
                # torn read: MarshalJSON returned bytes that are no JSON text at all
                return re.search(r"op\d+ \S* ?via\d MarshalJSON: concurrent=Marshal:!", det) is not None
            if d["kind"] == "panic":
                return "MarshalJSON" in det and "toString" in det
            return False

        def parse_error_path(d, params):
            """document accepted by the skipper, rejected by the node's parser: parseRaw's error path overwrites
            the node (plain write of t, m := nil) - readers hang on the leaked lock or race on t / m"""
            det = d.get("detail", "")
            if " pf=1 " not in " " + det:
                return False
            if d["kind"] == "hang":
                return True
            if d["kind"] == "data-race":
                # the plain `*self = ...` of parseRaw itself (not assign) against a reader's atomic load / lock helper
                return re.search(r"write:ast\.\(\*Node\)\.parseRaw<", det) is not None
            return False

        return {"marshal_raw_unlocked_race": marshal_raw_unlocked, "parse_error_path_overwrites_node": parse_error_path}

    def shrink_fields(self, case):
        # no byte-level shrinking: cutting the document produces texts the parser rejects (another finding's
        # territory) and every candidate costs a goroutine barrier; the replay carries the whole case line
        return []


SPEC = C16()
