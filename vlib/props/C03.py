"""C03 - Marshal under the std-compatible configuration agrees with encoding/json.

Three voices per case: sonic (ConfigStd-shaped option word), encoding/json (`ref`/`rout` of the
`mar` op), the Lean specification `Enc.encode` (driver `mar`).  The driver is handed both texts
and decides the relation the property states: same tokens in the same order, string literals
compared by what they denote, number literals byte for byte (`Enc.textEq`)."""
import base64
import json
import re

from ..runner import Spec, Stream
from . import _enc


def _ok(f):
    return f.get("sonic") == "ok"


_STD_ERR_CLASS = {"marshaler": ("marshaler",), "unsupported_type": ("unsupported_type",),
                  "unsupported_value": ("unsupported_value", "other")}


class C03(Spec):
    prop = "C03"
    lean_modules = ["SonicSpec.Props.C03"]
    needs_factx = True
    rule = ("generated (type, value) pairs over the whole type universe (scalars, json.Number, []byte, RawMessage, slices, arrays, "
            "pointers, maps of every key kind, interface{}, structs with every tag combination, library types with value/pointer "
            "receiver (Text)Marshalers - also of pointer-shaped kinds: struct{*T}, [1]*T, map, each at every position class and embedded -, recursive types, embedded fields); a case is non-trivial when its type has a constructor "
            "(container, struct, library type) or its value needs an escape, is a float, or is an error-path value")
    trusted_base = ["encoding/json (Go 1.23.5) as executable reference; omitzero (Go 1.24) is judged against the model only",
                    "callback leaf types (MV/MP/TV/TP) are parameters of the model with their Go bodies transcribed by hand"]

    STD = None

    def streams(self, tier, seed):
        q = tier == "quick"
        return [
            Stream("universe", "enc.std.universe", 1200 if q else 40000, timeout=0.05),
            Stream("structs-tags", "enc.std.tags", 700 if q else 25000, timeout=0.05),
            Stream("maps-keys", "enc.std.maps", 200 if q else 3000, timeout=0.2),
            Stream("strings", "enc.std.strings", 1000 if q else 40000, timeout=0.05),
            Stream("floats", "enc.std.floats", 1300 if q else 100000, timeout=0.05),
            Stream("callbacks", "enc.std.callbacks", 450 if q else 15000, timeout=0.05),
            Stream("error-paths", "enc.std.errors", 250 if q else 4000, timeout=0.3),
        ]

    def model_line(self, case, sonic):
        if case[0] != "mar":
            # hand-built values (depth, cycles, kinds, failing callbacks): only the relation of the two texts
            if "out" in sonic and "rout" in sonic:
                return "\t".join(["jcmp", "1", "out=" + sonic["out"], "rout=" + sonic["rout"]])
            return None
        return "\t".join(case[:4] + ["out=" + sonic.get("out", "~"), "rout=" + sonic.get("rout", "~")])

    # ------------------------------------------------------------------ verdicts
    def model_ref_disagree(self, case, sonic, model):
        if case[0] != "mar":
            return False
        s = sonic.get("default") or {}
        m = model.get("default") or {}
        mv = m.get("model", "unsupported")
        if s.get("sonic") in ("PANIC", "CRASH", "HANG", None):
            return False
        # the specification of encoding/json itself (Model/EncStd.lean) against the real encoding/json: every case,
        # omitzero included (neither honours it on this toolchain)
        # the specification writes bytes: its output must be encoding/json's output byte for byte, and its error
        # must be of the class encoding/json reports ("other" = the invalid json.Number text, a plain error in Go)
        sv = m.get("std", "~")
        if sv not in ("~", "unsupported", ""):
            ref = s.get("ref")
            if (sv == "ok") != (ref == "ok"):
                return True
            if sv == "ok" and (m.get("xr") == "ne" or m.get("stdout", "") != s.get("rout", "")):
                return True
            if sv.startswith("err:") and ref not in _STD_ERR_CLASS.get(sv[4:], (ref,)):
                return True
        if mv in ("unsupported", ""):
            return False
        if "omitzero" in _enc.features(case):
            return False          # Go 1.23.5 encoding/json ignores omitzero: the model is the only reference
        r_ok = s.get("ref") == "ok"
        if (mv == "ok") != r_ok:
            return True
        return r_ok and m.get("mr") == "ne"

    def judge(self, case, sonic, model):
        out = []
        s = sonic.get("default") or {}
        m = model.get("default") or {}
        if s.get("sonic") in ("PANIC", "CRASH", "HANG"):
            return [("crash", str(s)[:300])]
        if case[0] != "mar":
            r_ok = s.get("ref") == "ok"
            if _ok(s) != r_ok:
                out.append(("errorness-differs", "sonic=%s encoding/json=%s" % (s.get("sonic"), s.get("ref"))))
            elif r_ok and (m.get("sr") == "ne" or (m.get("sr") in (None, "~") and s.get("same") == "0")):
                out.append(("tokens-differ", "sonic=%s encoding/json=%s" % (s.get("out", "")[:400], s.get("rout", "")[:400])))
            return out
        mv = m.get("model", "unsupported")
        if "omitzero" in _enc.features(case):
            # reference = model only
            if mv == "unsupported":
                return out
            if (mv == "ok") != _ok(s):
                out.append(("errorness-differs-from-model", "sonic=%s model=%s" % (s.get("sonic"), mv)))
            elif mv == "ok" and m.get("so") == "ne":
                out.append(("tokens-differ-from-model", "sonic=%s model=%s" % (s.get("out"), m.get("mout"))))
            return out
        r_ok = s.get("ref") == "ok"
        if _ok(s) != r_ok:
            out.append(("errorness-differs", "sonic=%s encoding/json=%s model=%s" % (s.get("sonic"), s.get("ref"), mv)))
        elif r_ok:
            sr = m.get("sr")
            if sr == "ne" or (sr in (None, "~") and s.get("out") != s.get("rout")):
                out.append(("tokens-differ", "sonic=%s encoding/json=%s model=%s" % (s.get("out"), s.get("rout"), m.get("mout"))))
        return out

    def nontrivial(self, case, sonic, model):
        if case[0] != "mar":
            return False
        return "(" in case[2] or "(f" in case[3] or "(s " in case[3] or (sonic.get("default") or {}).get("ref") != "ok"

    def shrink_candidates(self, case):
        return _enc.shrink_candidates(case) if case[0] == "mar" else []

    def shrink_fields(self, case):
        return []

    # ------------------------------------------------------------------ known findings (narrow)
    def matchers(self):
        return MATCHERS


def _texts(d):
    """(sonic's text, the text it was compared with: encoding/json's, or the model's for omitzero cases)"""
    s = d["sonic"].get("default") or {}
    if d["kind"].endswith("-from-model"):
        return _enc.unhex(s.get("out", "-")), _enc.unhex((d["model"].get("default") or {}).get("mout", "-"))
    return _enc.unhex(s.get("out", "-")), _enc.unhex(s.get("rout", "-"))


def _load(b):
    return json.loads(b.decode("utf-8", "replace"), object_pairs_hook=lambda ps: ("obj", [(k, v) for k, v in ps]), parse_float=lambda t: ("num", t),
                      parse_int=lambda t: ("num", t))


def _same_except(a, b, pred):
    """the two trees are equal except at positions where pred(x, y) holds"""
    if a == b or pred(a, b):
        return True
    if isinstance(a, tuple) and isinstance(b, tuple) and a and b and a[0] == "obj" and b[0] == "obj":
        return len(a[1]) == len(b[1]) and all(ka == kb and _same_except(va, vb, pred) for (ka, va), (kb, vb) in zip(a[1], b[1]))
    if isinstance(a, list) and isinstance(b, list):
        return len(a) == len(b) and all(_same_except(x, y, pred) for x, y in zip(a, b))
    return False


def _ljp_plain_forms(case):
    """{"B":"<base64 of the payload>"} for every LJP payload of the case"""
    forms = set()
    for h in re.findall(r"\(lib ([0-9a-f]+)\)", case[3]):
        try:
            t = bytes.fromhex(h).decode("latin1")
            if t.startswith('"hex:'):
                forms.add(base64.b64encode(bytes.fromhex(t[5:-1])).decode())
        except ValueError:
            pass
    return forms


def m_ptr_recv(d, params):
    """DESIGN 8 #14: the text differs from encoding/json's ONLY at pointer-receiver library leaves (MP / TP / LJP),
    one side showing the method's output and the other the plain struct"""
    if d["kind"] not in ("tokens-differ", "errorness-differs"):
        return False
    f = _enc.features(d["case"])
    if "ptr_recv_leaf" not in f:
        return False
    s = d["sonic"].get("default") or {}
    plain = _ljp_plain_forms(d["case"]) if "lib:LJP" in f else set()

    def is_plain(x):
        if isinstance(x, tuple) and x and x[0] == "obj" and len(x[1]) == 1:
            k, v = x[1][0]
            return (k == "V" and isinstance(v, tuple) and v[0] == "num") or (k == "B" and isinstance(v, str) and v in plain)
        return False

    def pred(x, y):
        for p, q in ((x, y), (y, x)):
            if is_plain(p) and not is_plain(q):
                k, v = p[1][0]
                if k == "B":
                    return True                      # programmable leaf: the other side is whatever the method returned
                n = v[1]
                return q == ("obj", [("mp", ("num", n))]) or q == "tp" + n
        return False
    if d["kind"] == "errorness-differs":
        # only the programmable leaf can turn the dispatch difference into an error (ill-formed method output)
        if "lib:LJP" not in f:
            return False
        okside = s.get("out") if s.get("sonic") == "ok" else s.get("rout") if s.get("ref") == "ok" else None
        if okside is None:
            return False
        try:
            t = _load(_enc.unhex(okside))
        except Exception:
            return False
        found = []

        def scan(x):
            if is_plain(x):
                found.append(x)
            elif isinstance(x, tuple) and x and x[0] == "obj":
                for _, v in x[1]:
                    scan(v)
            elif isinstance(x, list):
                for v in x:
                    scan(v)
        scan(t)
        return bool(found)
    try:
        a, b = _texts(d)
        return _same_except(_load(a), _load(b), pred)
    except Exception:
        return False


def _plain_vs_method(x, y):
    """one side is the plain struct {"V":n}, the other the output of MP.MarshalJSON / TP.MarshalText for the same n"""
    for p, q in ((x, y), (y, x)):
        if isinstance(p, tuple) and p and p[0] == "obj" and len(p[1]) == 1 and p[1][0][0] == "V" \
                and isinstance(p[1][0][1], tuple) and p[1][0][1][0] == "num":
            n = p[1][0][1][1]
            if q == ("obj", [("mp", ("num", n))]) or q == "tp" + n:
                return True
    return False


def m_embedded_ptr(d, params):
    """DESIGN 8 #14, what is left after e042f54: a pointer-receiver (Text)Marshaler field promoted through an EMBEDDED
    POINTER of a struct that is itself not addressable (hand-built cases `marfail emb.mp*`): encoding/json calls the
    method (the pointee is addressable), sonic compiles the field with the outer value's addressability"""
    if d["kind"] != "tokens-differ" or d["case"][0] != "marfail" or not d["case"][2].startswith("emb.mp"):
        return False
    try:
        a, b = _texts(d)
        return _same_except(_load(a), _load(b), _plain_vs_method)
    except Exception:
        return False


def m_extra_map_keys(d, params):
    """DESIGN 8 #15: sonic marshals a map whose key kind encoding/json rejects (float, bool)"""
    if d["kind"] != "errorness-differs":
        return False
    f = _enc.features(d["case"])
    s = d["sonic"].get("default") or {}
    return ("float_map_key" in f or "bool_map_key" in f) and s.get("sonic") == "ok" and s.get("ref") == "unsupported_type"


def _inner_decode(x):
    """decode once more every string that is itself a JSON string literal"""
    if isinstance(x, str):
        if len(x) >= 2 and x[0] == '"' and x[-1] == '"':
            try:
                y = json.loads(x)
                if isinstance(y, str):
                    return ["inner", y]
            except ValueError:
                pass
        return x
    if isinstance(x, list):
        return [_inner_decode(e) for e in x]
    if isinstance(x, tuple):
        return tuple(_inner_decode(e) for e in x)
    return x


def m_string_opt_inner(d, params):
    """DESIGN 8 #15: `,string` on a string: the inner literal is spelled differently (U+2028/9, ill-formed UTF-8,
    \\b, \\f, HTML characters), so the outer literals denote different strings; equal after decoding twice"""
    if d["kind"] not in ("tokens-differ", "tokens-differ-from-model"):
        return False
    if "string_opt_respelled_inner" not in _enc.features(d["case"]):
        return False
    try:
        a, b = _texts(d)
        return _inner_decode(_load(a)) == _inner_decode(_load(b))
    except Exception:
        return False


def _drop_negzero(x):
    if isinstance(x, tuple) and x and x[0] == "obj":
        return ("obj", [(k, _drop_negzero(v)) for k, v in x[1] if v not in (("num", "-0"), "-0")])
    if isinstance(x, list):
        return [_drop_negzero(e) for e in x]
    return x


def m_omitempty_negzero(d, params):
    """omitempty on a float field holding -0.0: encoding/json omits it (isEmptyValue: v.Float() == 0), sonic tests
    the bit pattern (compiler.go compileStructFieldEmpty: OP_is_zero_4/8) and prints "-0"; the texts are equal once
    the `-0` members are dropped"""
    if d["kind"] not in ("tokens-differ", "tokens-differ-from-model"):
        return False
    if "omitempty_neg_zero" not in _enc.features(d["case"]):
        return False
    try:
        a, b = _texts(d)
        return _drop_negzero(_load(a)) == _drop_negzero(_load(b))
    except Exception:
        return False


_STATES_PER_LEVEL = {"sl": 1, "map": 2, "rec": 2, "arrst": 3}


def m_depth(d, params):
    """nesting deeper than the encoder's state stack (vars.MaxStack = 4096 states; one per slice / pointer /
    struct / array level, two per map level): sonic reports 'Value nesting too deep', encoding/json has no limit"""
    if d["kind"] != "errorness-differs" or d["case"][0] != "mardeep":
        return False
    s = d["sonic"].get("default") or {}
    try:
        need = int(d["case"][3]) * _STATES_PER_LEVEL[d["case"][2]]
    except (KeyError, ValueError):
        return False
    return need >= int(params.get("max_stack", 4096)) and s.get("sonic") == "unsupported_value" and s.get("ref") == "ok"


MATCHERS = {
    "ptr_receiver_leaf_dispatch_only": m_ptr_recv,
    "ptr_receiver_leaf_via_embedded_pointer": m_embedded_ptr,
    "non_std_map_key_kind_marshals": m_extra_map_keys,
    "string_opt_inner_literal_respelled": m_string_opt_inner,
    "omitempty_negative_zero_float": m_omitempty_negzero,
    "nesting_deeper_than_max_stack": m_depth,
}

SPEC = C03()
