"""C15 - ast.Node behaves like a plain ordered tree; lazy loading is unobservable.

One case = an initial document and a sequence of operations (one per tab field, see
go/harness/ops_ast.go).  Three transcripts are compared step by step:
  sonic  - the real ast.Node (harness),
  model  - the specification `Tree` (Lean, Model/Ast.lean): the plain ordered tree the property names,
  nodem  - the implementation model `NodeM` (Lean, Model/AstNode.lean).
Verdict: the property is violated iff sonic differs from `model`.  `nodem` never decides anything; it
is used (a) to measure the fidelity of the implementation model (evidence only) and (b) to find the
step at which the real node left the specification when MarshalJSON is only sampled (long sequences).
NodeM models ast/*.go with the four C15 repairs (patches/C15-*.diff).
"""
import re

from ..runner import Spec, Stream

READ_OPS = ("get", "idx", "len", "iter")


def _norm(col):
    return "PANIC" if col.startswith("PANIC") else col


def _cols(step):
    f = step.split("~")
    while len(f) < 3:
        f.append("_")
    f[0] = _norm(f[0])
    return f


def _same(a, b):
    """sonic step a against model step b; '_' = not observed on this step"""
    return all(x == "_" or x == y for x, y in zip(a, b))


def op_name(opfield):
    f = opfield.split(":")
    return f[1] if len(f) > 1 else "?"


# ---------------------------------------------------------------------- document shrinking

class _Lit(str):
    """a number literal kept as written"""


def _parse_doc(hexdoc):
    import json
    text = bytes.fromhex(hexdoc).decode("utf-8")
    return json.loads(text, object_pairs_hook=lambda kv: ("o", list(kv)), parse_float=_Lit, parse_int=_Lit,
                      parse_constant=_Lit)


def _render(v):
    import json
    if isinstance(v, tuple):
        return "{" + ",".join(json.dumps(k, ensure_ascii=False) + ":" + _render(x) for k, x in v[1]) + "}"
    if isinstance(v, list):
        return "[" + ",".join(_render(x) for x in v) + "]"
    if isinstance(v, _Lit):
        return str(v)
    return json.dumps(v, ensure_ascii=False)


def _variants(v):
    """smaller versions of v: one child removed / zeroed / shrunk"""
    if isinstance(v, tuple):
        kv = v[1]
        n = len(kv)
        step = n
        while step >= 1:
            for off in range(0, n, step):
                if step < n or n > 0:
                    yield ("o", kv[:off] + kv[off + step:])
            step //= 2
        for i, (k, x) in enumerate(kv):
            if isinstance(x, (tuple, list)):
                yield ("o", kv[:i] + [(k, _Lit("0"))] + kv[i + 1:])
                for y in _variants(x):
                    yield ("o", kv[:i] + [(k, y)] + kv[i + 1:])
    elif isinstance(v, list):
        n = len(v)
        step = n
        while step >= 1:
            for off in range(0, n, step):
                yield v[:off] + v[off + step:]
            step //= 2
        for i, x in enumerate(v):
            if isinstance(x, (tuple, list)):
                yield v[:i] + [_Lit("0")] + v[i + 1:]
                for y in _variants(x):
                    yield v[:i] + [y] + v[i + 1:]


def doc_candidates(hexdoc, limit=600):
    try:
        v = _parse_doc(hexdoc)
    except Exception:
        return []
    out = []
    seen = set()
    for w in _variants(v):
        t = _render(w).encode("utf-8").hex() or "-"
        if t != hexdoc and t not in seen and len(t) < len(hexdoc):
            seen.add(t)
            out.append(t)
            if len(out) >= limit:
                break
    return out


class C15(Spec):
    prop = "C15"
    lean_modules = ["SonicSpec.Props.C15"]
    rule = ("documents with nested containers (sizes around 16/32/48 and > 256 members, duplicate, empty and "
            "escaped keys) followed by 1..40 (quick) / 1..400 (thorough) operations aimed at the root and at "
            "nodes below it, weighted towards unset-then-index, set-after-partial-load, sort-after-unset, "
            "pop-after-soft-delete, move-across-deleted-slots; a case is non-trivial when at least one "
            "operation changed the document (the specification's MarshalJSON differs before and after it)")
    trusted_base = ["byte-level skipping/parsing of raw text is abstracted in NodeM (a raw text is the tree it denotes); "
                    "it is exercised by the correspondence only",
                    "encoding/json token stream as canonicaliser of MarshalJSON/Raw output"]
    assumptions = ["operands given to Set/SetByIndex/Add are ast.NewRaw nodes of valid JSON",
                   "child nodes are re-addressed from the root for every operation (no *Node is held across a mutation)",
                   "values copied out by iterator Next are not used for further calls (only their key/type is read)"]

    def __init__(self):
        self.fid_steps = 0
        self.fid_bad = 0
        self.fid_samples = []
        self._run = None

    # ------------------------------------------------------------------ streams
    def streams(self, tier, seed):
        if tier == "quick":
            return [Stream("seq", "c15.seq", 2500, timeout=0.05)]
        # ~30 cases/s (sequences up to 400 steps, every `mar` column is a replay of the prefix)
        return [Stream("seq", "c15.seq", 16000, timeout=0.2),
                Stream("seq-noavx2", "c15.seq", 4000, envs={"noavx2": {"SONIC_MODE": "noavx2"}}, timeout=0.2)]

    # constants the implementation model has built in (Model/AstNode.lean: mkObject, Model/AstChunk.lean)
    MODEL_FACTS = {"_DEFAULT_NODE_CAP": ("ast/parser.go", r"_DEFAULT_NODE_CAP\s+int\s*=\s*(\d+)", 16),
                   "_Threshold_Index": ("ast/node.go", r"const\s+_Threshold_Index\s*=\s*(\d+)", 16)}

    def extra(self, ctx):
        """regenerated facts: the two constants NodeM relies on are re-read from the tree on every run"""
        import os
        from .. import core
        self._run = ctx.get("run")
        problems = []
        facts = {}
        for name, (rel, rx, want) in self.MODEL_FACTS.items():
            try:
                src = open(os.path.join(core.REPO, rel)).read()
            except OSError as e:
                problems.append({"what": "fact extraction failed: cannot read %s (%s)" % (rel, e)})
                continue
            m = re.search(rx, src)
            if not m:
                problems.append({"what": "fact extraction failed: %s not found in %s (source shape not recognised)" % (name, rel)})
                continue
            facts[name] = int(m.group(1))
            if facts[name] != want:
                problems.append({"what": "regenerated fact differs from the model: %s = %d in %s, NodeM assumes %d "
                                         "(index threshold / chunk size of Model/AstNode.lean)" % (name, facts[name], rel, want)})
        if self._run is not None:
            self._run.cov["regenerated_facts"] = facts
        return problems

    def shrink_fields(self, case):
        return []          # byte deletion inside hex fields is useless here; see shrink_candidates

    def shrink_candidates(self, case):
        """op-deletion shrinking (largest chunks first), then document shrinking (drop one member, or
        replace one member by 0, anywhere in the document)"""
        head, ops = case[:3], case[3:]
        out = []
        n = len(ops)
        step = n
        seen = set()
        while step >= 1:
            for off in range(0, n, step):
                cand = ops[:off] + ops[off + step:]
                if len(cand) < n and cand:
                    line = "\t".join(head + cand)
                    if line not in seen:
                        seen.add(line)
                        out.append(line)
            step //= 2
        for doc in doc_candidates(case[2]):
            line = "\t".join([case[0], case[1], doc] + ops)
            if line not in seen:
                seen.add(line)
                out.append(line)
        return out

    # ------------------------------------------------------------------ judging
    def _fidelity(self, bad, sample):
        self.fid_steps += 1
        if bad:
            self.fid_bad += 1
            if len(self.fid_samples) < 5:
                self.fid_samples.append(sample)
        if self._run is not None:
            self._run.cov["nodem_steps_compared"] = self.fid_steps
            self._run.cov["nodem_fidelity_mismatches"] = self.fid_bad
            if self.fid_samples:
                self._run.cov["nodem_fidelity_samples"] = self.fid_samples

    @staticmethod
    def classify(op, a, b, c, fl, st):
        """label of a discrepancy: a = sonic step, b = specification step, c = NodeM step.
        NodeM models the code with the four C15 repairs; the only deviation it still has (and the only
        label that can be matched by a known finding) is `Len()` before the node is loaded."""
        if a[0] == "PANIC":
            return "panic"
        if op == "len" and a[0].startswith("n:") and b[0].startswith("n:") and int(a[0][2:]) < int(b[0][2:]) \
                and a[1] == b[1] and a[1].startswith("full:") and a[2] in ("_", b[2]):
            # too small now, right once the node is completely loaded (measured on a replayed copy),
            # document unchanged: Len() counted only what had been parsed
            return "len-partial"
        if _same(a, c):
            return "obs:" + op
        return "obs:" + op + ":unexplained"

    def judge(self, case, sonic, model):
        out = []
        ops = case[3:]
        for env, s in sonic.items():
            m = model.get(env) or {}
            sv = s.get("sonic", "")
            if sv in ("CRASH", "HANG", "PANIC"):
                out.append(("crash", "%s: %s" % (env, s)))
                continue
            mv = m.get("model")
            if mv is None or mv in ("unsupported", "invalid-op"):
                continue
            if mv == "invalid-doc":
                continue    # not a document of the model (generators do not produce these)
            ss = sv.split(";")
            ms = mv.split(";")
            ns = m.get("nodem", "").split(";")
            fls = m.get("fl", "").split(",") if ops else []
            sts = m.get("st", "")
            if not ss[0].startswith("init"):
                out.append(("doc-rejected", "%s: sonic=%s" % (env, sv[:80])))
                continue
            seen_kinds = set()
            explained_so_far = True      # NodeM reproduces everything observed on the real node up to here
            for i in range(len(ss)):
                if i >= len(ms):
                    break
                a, b = _cols(ss[i]), _cols(ms[i])
                c = _cols(ns[i]) if i < len(ns) else ["?", "?", "?"]
                explained_so_far = explained_so_far and _same(a, c)
                if _same(a, b):
                    self._fidelity(not _same(a, c), {"case": "\t".join(case)[:600], "step": i, "sonic": ss[i], "nodem": ns[i] if i < len(ns) else None})
                    continue
                # where did the document of the real node leave the specification's?  MarshalJSON of the real
                # node is only sampled on long sequences; when NodeM accounts for every observation so far, the
                # step at which NodeM's document left the specification's is taken as the origin.
                j = i
                if explained_so_far and i > 0:
                    prev_n, prev_m = _cols(ns[i - 1])[2], _cols(ms[i - 1])[2]
                    if prev_n != prev_m:
                        for k in range(1, i):
                            if _cols(ns[k])[2] != _cols(ms[k])[2]:
                                j = k
                                break
                if j != i:
                    a0, b0, c0 = _cols(ss[j]), _cols(ms[j]), _cols(ns[j])
                    a0 = [x if x != "_" else y for x, y in zip(a0, c0)]     # unobserved columns: NodeM's
                else:
                    a0, b0, c0 = a, b, c
                opn = op_name(ops[j - 1]) if j > 0 else "init"
                fl = fls[j - 1] if 0 < j <= len(fls) else ""
                st = sts[j - 1] if 0 < j <= len(sts) else ""
                kind = self.classify(opn, a0, b0, c0, fl, st) if (j == i or explained_so_far) else "obs:" + opn + ":unexplained"
                if kind not in seen_kinds:
                    seen_kinds.add(kind)
                    out.append((kind, "%s step=%d%s op=%s sonic=%s spec=%s nodem=%s fl=%s st=%s"
                                % (env, j, "" if j == i else " (seen at step %d)" % i, ops[j - 1][:120] if j > 0 else "init",
                                   "~".join(a0), "~".join(b0), "~".join(c0), fl, st)))
                # a read that returned something else but left the document as the specification has it
                # cannot have moved the two apart: keep comparing.  Anything else ends the comparison.
                opi = op_name(ops[i - 1]) if i > 0 else "init"
                if j == i and opi in READ_OPS and a[0] != "PANIC" and (a[2] == "_" or a[2] == b[2]):
                    continue
                break
            if len(ss) < len(ms) and not any(_cols(x)[0] == "PANIC" for x in ss):
                out.append(("short-transcript", "%s: %d of %d steps" % (env, len(ss), len(ms))))
        return out

    def nontrivial(self, case, sonic, model):
        for m in model.values():
            ms = (m.get("model") or "").split(";")
            mars = [_cols(x)[2] for x in ms]
            if any(x != y for x, y in zip(mars, mars[1:])):
                return True
        return False

    # ------------------------------------------------------------------ known findings
    def matchers(self):
        def by_kind(d, params):
            """the discrepancy carries exactly the label of the finding, and the label was given because
            NodeM (the transliteration of the unchanged code) reproduces the step and the flags of the
            step name the mechanism (see classify)"""
            if d["kind"] != params.get("kind"):
                return False
            m = re.search(r" fl=(\S*) st=(\S*)$", d["detail"])
            if not m:
                return False
            fl = m.group(1)
            return all(ch in fl for ch in params.get("flags", ""))
        return {"c15_labelled_step": by_kind}


SPEC = C15()
