"""C13 - the SIMD level (AVX2 vs SSE, SONIC_MODE=noavx2) does not change any result.

Lean side: Props/C13.lean (`width_irrelevant`: the block-wise scanners of Model/Mem*.lean give the same
answer for every list of block widths, and that answer is the scalar twin's).
Run-time side: every case line of this package (`place` in three placements, `plain` incl. number
formatting) is run in two worker processes, SONIC_MODE unset (AVX2 on this CPU) and SONIC_MODE=noavx2
(SSE); every result field must be bit-identical.  The workers print which level is active (`mode=`).
"""
import os
import re

from .. import core
from ..runner import Spec, Stream

ENVS = {"avx2": {}, "sse": {"SONIC_MODE": "noavx2"}}
FIELDS = ("sonic", "guard", "tail", "pre")

_ERRPOS = re.compile(r"(syntax\.\d+)@\d+")


def doc_of(case):
    return bytes.fromhex(case[2]) if len(case) > 2 and case[2] != "-" else b""


def short_literal(doc):
    for c in doc:
        if c in b"tn":
            return len(doc) <= 2
        if c in b"f":
            return len(doc) <= 3
    return False


def number_tokens(doc):
    return re.findall(rb"-?[0-9][0-9.eE+\-]*", doc)


def two_defects(tok):
    """a number token with at least two format defects (every `.` after the first, every exponent letter after the
    first, every sign after the first inside the token counts as one): the vector code reports, per block, the second
    `.` of the block, then the second exponent letter, then the second sign, then clashes with earlier blocks, while
    the scalar code stops at the first defect byte by byte - with two defects the reported positions depend on
    where the block boundaries fall"""
    defects = max(0, tok.count(b".") - 1)
    defects += max(0, len(re.findall(rb"[eE]", tok)) - 1)
    defects += max(0, len(re.findall(rb"[+\-]", tok[1:])) - 1)
    return defects >= 2


# which entry points of the harness reach which slot of the dispatch table (read off the call sites: JIT decoder /
# encoder `native.S_*` immediates, Go stubs `native.X` -> `__X`); slots nothing in the default configuration reaches
# are covered by the static tie (Props/C13Dispatch.lean) only
SLOT_APIS = {
    "S_f64toa": {"ftoa64", "encinto_any", "mar_num"}, "S_f32toa": {"ftoa32"}, "S_i64toa": {"itoa"}, "S_u64toa": {"itoa"},
    "S_lspace": {"unm_any", "unm_struct", "unm_map", "unm_sl", "unm_ints", "unm_arr2", "unm_starr"},
    "S_quote": {"mar_str", "mar_strstd", "encinto_any"}, "__Quote": {"quote"},
    "S_unquote": {"unm_str", "unm_strstd", "unm_struct", "unm_arr1s"}, "__Unquote": {"unquote"},
    "S_value": {"unm_any", "unm_anystd", "unm_anynum", "unm_sl", "unm_map"},
    "__Value": {"ast_loads", "ast_parse", "ast_parseobj", "node_load", "node_loadall", "node_iface"},
    "S_vstring": {"unm_str", "unm_struct", "unm_arr1s"}, "S_vnumber": {"unm_f64", "unm_f32", "unm_starr"},
    "S_vsigned": {"unm_int", "unm_i8", "unm_ints", "unm_arr2"}, "S_vunsigned": {"unm_u64"},
    "S_skip_one": {"unm_struct", "unm_structstd", "unm_raw", "unm_starr"}, "__SkipOne": {"skip", "get", "getk", "geti", "getki"},
    "__SkipOneFast": {"getf", "getfk", "getfi"}, "S_skip_array": {"unm_arr2", "unm_arr1s", "unm_arr0", "unm_starr"},
    "S_skip_number": {"unm_num", "unm_struct"}, "S_get_by_path": {"get", "getk", "geti", "getki"},
    "__GetByPath": {"get", "getf", "getk", "getfk", "geti", "getfi", "getki"}, "__HTMLEscape": {"html", "mar_strstd"},
    "__ValidateOne": {"valid", "validstd", "mar_raw"}, "__ValidateUTF8": {"utf8c"}, "__ValidateUTF8Fast": {"utf8v", "utf8vs"},
    "S_skip_object": set(), "__F64toa": set(), "__F32toa": set(), "__I64toa": set(), "__U64toa": set(), "__ParseWithPadding": set(),
}


class C13(Spec):
    prop = "C13"
    lean_modules = ["SonicSpec.Props.C13", "SonicSpec.Props.C13Dispatch"]
    # static tie: go/factx_dispatch re-reads useAVX2()/useSSE() of internal/native/dispatch_amd64.go into
    # Generated/Dispatch.lean; Props/C13Dispatch.lean `dispatch_tables_wired` is re-checked against it on every run
    # (the extractor is also registered in core.EXTRA_EXTRACTORS so that bin/setup and every full fact run keep the
    # file present; this check runs only its own extractor: ~1 s instead of the ~40 s of a full run_factx)

    def pregen(self, rundir):
        import subprocess
        src = os.path.join(core.VERIF, "go", "factx_dispatch")
        xb = os.path.join(os.path.abspath(rundir), "factx_dispatch")
        b = subprocess.run(["go", "build", "-o", xb, "."], cwd=src, env=core.GOENV, stdout=subprocess.PIPE,
                           stderr=subprocess.STDOUT, text=True, timeout=600)
        if b.returncode != 0:
            return False, "factx_dispatch build failed:\n" + b.stdout
        r = subprocess.run([xb, core.REPO], stdout=subprocess.PIPE, stderr=subprocess.PIPE, text=True, timeout=300)
        if r.returncode != 0 or not r.stdout.strip():
            return False, "factx_dispatch: " + r.stderr[-1500:]
        gen = os.path.join(core.LEAN, "SonicSpec", "Generated")
        path = os.path.join(gen, "Dispatch.lean")
        with core.Lock("lake"):
            os.makedirs(gen, exist_ok=True)
            if not os.path.exists(path) or open(path).read() != r.stdout:
                open(path, "w").write(r.stdout)
        return True, ""

    rule = ("every `place` / `plain` case line of the mem package (documents, numbers, strings, raw byte strings, float/integer "
            "formatting, length x alignment sweep, malformed stream) answered by one worker with SONIC_MODE unset (AVX2) and one with "
            "SONIC_MODE=noavx2 (SSE); non-trivial = both workers answered, report different `mode=` values, and the input is non-empty")
    trusted_base = ["both instruction-set variants are pre-assembled machine code (internal/native/{avx2,sse}); modelled after the one C "
                    "source (Model/Mem*.lean, block widths as a parameter) and tied by running both on the same cases",
                    "this CPU supports AVX2 (the workers print mode=avx2 / mode=sse); on a CPU without AVX2 the comparison is void "
                    "and the check says so"]
    assumptions = ["width_irrelevant is proved for the modelled scanners (space skipping, string-end search with escape carry, "
                   "special-byte search, fast string skip, bracket counting); number skipping only for what holds: do_skip_number reports "
                   "a different *error position* at different block widths (refuted in the model on a witness, known finding "
                   "C13-skipnum-errpos), the accept/reject decision and the accepted length are width independent",
                   "the block-level mask computations are specified by the scalar carry automaton; the bit tricks are not proved",
                   "number formatting (f64toa/f32toa/i64toa) has no SIMD-dependent model here: run-time comparison only"]

    def streams(self, tier, seed):
        if tier == "quick":
            return [Stream("plain", "c13.plain", 2500, envs=ENVS, timeout=0.02),
                    Stream("place", "c05.place", 1000, envs=ENVS, timeout=0.02),
                    Stream("sweep", "c05.sweep", 800, envs=ENVS, timeout=0.02),
                    Stream("malformed", "c05.bad", 600, envs=ENVS, timeout=0.02)]
        return [Stream("plain", "c13.plain", 250000, envs=ENVS, timeout=0.01),
                Stream("place", "c05.place", 100000, envs=ENVS, timeout=0.01),
                Stream("sweep", "c05.sweep", 160000, envs=ENVS, timeout=0.01),
                Stream("malformed", "c05.bad", 60000, envs=ENVS, timeout=0.01)]

    def judge(self, case, sonic, model):
        a = sonic.get("avx2") or {}
        b = sonic.get("sse") or {}
        if a.get("sonic") in ("unsupported", "badcase") and b.get("sonic") == a.get("sonic"):
            return []
        out = []
        diff = [f for f in FIELDS if a.get(f) != b.get(f)]
        if diff:
            f = diff[0]
            out.append(("simd-differs", "%s: avx2=%s sse=%s" % (f, a.get(f), b.get(f))))
        elif a.get("mode") and a.get("mode") == b.get("mode"):
            # nothing was compared: both workers ran the same instruction set
            out.append(("tie:simd-level-not-switched", "both workers report mode=%s" % a.get("mode")))
        # the model is run with the block widths of each build (Widths.avx2 / Widths.sse): each worker must give
        # what the model gives for ITS widths - including the width-dependent error positions of do_skip_number
        for env, s in (("avx2", a), ("sse", b)):
            m = model.get(env) or {}
            mv = m.get("model")
            if not mv or mv == "unsupported" or s.get("sonic") in (None, "CRASH", "HANG", "PANIC"):
                continue
            if case[0] == "plain":
                pairs = [("heap", s.get("sonic"), mv, m.get("alt"))]     # heap object = input + 64 zero bytes
            else:
                pairs = [("guard", s.get("guard"), m.get("guard"), m.get("altguard")),
                         ("tail", s.get("tail"), m.get("tail"), m.get("alttail"))]
            for name, got, want, alt in pairs:
                if got and got.startswith("PANIC.runtime_error:_invalid_memory_address"):
                    got = "FAULT"
                if got not in (want, alt):
                    out.append(("tie:mem-model", "%s %s: sonic=%s model=%s alt=%s" % (env, name, got, want, alt)))
                    break
        return out

    def model_ref_disagree(self, case, sonic, model):
        # the transcribed vector UTF-8 validator said "valid" where the proved scalar specification says ill-formed:
        # the model (hypothesis VecSound of Props/C13 utf8_width_irrelevant_partial) is wrong, no verdict
        return any((m or {}).get("vecsound") == "0" for m in model.values())

    def model_line(self, case, sonic):
        if case[0] not in ("place", "plain"):
            return None
        return "\t".join(list(case) + [sonic.get("mode") or "avx2"])

    def extra(self, ctx):
        # per-slot coverage of the dispatch table by the case streams of this run (counted in `nontrivial`)
        self._slotcov = {k: 0 for k in SLOT_APIS}
        ctx["run"].cov["dispatch_slot_cases"] = self._slotcov
        ctx["run"].cov["dispatch_slots_static_tie_only"] = sorted(k for k, v in SLOT_APIS.items() if not v)
        return []

    def nontrivial(self, case, sonic, model):
        sc = getattr(self, "_slotcov", None)
        if sc is not None and len(case) > 1:
            for k, v in SLOT_APIS.items():
                if case[1] in v:
                    sc[k] += 1
        a = sonic.get("avx2") or {}
        b = sonic.get("sse") or {}
        if len(case) < 3 or case[2] == "-":
            return False
        if a.get("sonic") in (None, "unsupported", "badcase", "CRASH", "HANG"):
            return False
        return a.get("mode") == "avx2" and b.get("mode") == "sse"

    def shrink_fields(self, case):
        return [2] if len(case) > 2 and len(case[2]) >= 4 and case[2] != "-" else []

    def matchers(self):
        def errpos(d, params):
            if d["kind"] != "simd-differs":
                return False
            a = d["sonic"].get("avx2") or {}
            b = d["sonic"].get("sse") or {}
            # identical once the syntax-error position is blanked, in every field
            for f in FIELDS:
                x, y = a.get(f), b.get(f)
                if x is None or y is None:
                    if x != y:
                        return False
                    continue
                if d["case"][1] == "skip":
                    # decoder.Skip: "<code>,<pos>"
                    if x.split(",")[0] != y.split(",")[0] or not x.startswith("-"):
                        return False
                elif _ERRPOS.sub(r"\1@", x) != _ERRPOS.sub(r"\1@", y) or "syntax." not in x:
                    return False
            return any(two_defects(t) for t in number_tokens(doc_of(d["case"])))

        return {"malformed_number_two_defects_error_position": errpos}


SPEC = C13()
