"""C17 - stream decoding independent of chunking; stream encoder delivers Marshal's bytes and write errors.

Voices on a `stream` case: sonic (real StreamDecoder on a scripted reader), ref (encoding/json.Decoder on
the same script), and from the Lean driver, run on the Read results the decoder really received (`eff`):
model (stream.go as shipped), fixed (the repaired decoder the full theorems are about), spec (decodeAll:
value-by-value decoding of the concatenated bytes), spec2 (same, but a number touching the end of a stream
that ends with a reader error is delivered - the property does not decide that case), why (name of the
first place where the shipped model leaves the specification).
"""
from ..runner import Spec, Stream
from .. import core

CRASH = ("PANIC", "CRASH", "HANG")

# known-finding tags (driver `why=`) -> discrepancy kinds they explain
STREAM_TAGS = ("scalar-split", "number-frame-swallow", "truncated-clean-eof", "junk-clean-eof",
               "stray-closer", "error-precedence")


# small repairs of stream.go (patches/C17-*.diff) -> the finding each one removes; a finding marked "fixed" in
# known_findings.json tells the driver to run the shipped model with that repair (Model/IOPatched.lean)
REPAIR_OF = {"C17-stray-closer-noprogress": "a", "C17-truncated-clean-eof": "b", "C17-scalar-split": "c",
             "C17-error-precedence": "d", "C17-number-frame-swallow": "e", "C17-validate-string-advance": "f"}


REPAIR_PATCH = {"a": "patches/C17-stray-closer-noprogress.diff", "b": "patches/C17-truncated-clean-eof.diff",
                "c": "patches/C17-scalar-split.diff", "d": "patches/C17-error-precedence.diff",
                "e": "patches/C17-number-frame-swallow.diff", "f": "patches/C17-validate-string-advance.diff"}
# the kernel-checked statements (Props/C17.lean) that name the defect each repair removes
REPAIR_THEOREM = {"a": "shipped_not_decode_progress / patched_head_repairs_witnesses",
                  "b": "shipped_not_truncated_is_error / patched_head_repairs_witnesses",
                  "c": "shipped_not_chunking_irrelevant / patched_head_repairs_witnesses",
                  "d": "shipped_error_precedence / patched_head_repairs_witnesses",
                  "e": "shipped_number_frame_swallows_values / patched_head_repairs_witnesses",
                  "f": "Repairs.clamp (Model/IOPatched.lean), corpus/C17/wave3.case"}


def repair_flags():
    fl = ""
    for k in core.load_known():
        if k.get("property") == "C17" and k.get("status") == "fixed" and k.get("id") in REPAIR_OF:
            fl += REPAIR_OF[k["id"]]
    return "".join(sorted(set(fl)))


def split_res(s):
    vals, _, term = (s or "").partition("|")
    return ([] if vals in ("", "-") else vals.split(",")), term


class C17(Spec):
    prop = "C17"
    lean_modules = ["SonicSpec.Props.C17"]
    rule = ("value sequences with every separator, truncated/junk tails, cut into Read results (every single cut for "
            "short streams, random k-cuts, one byte per read, empty reads, data together with EOF/error, reader error "
            "at every position, values larger than the 4 KiB buffer); writer failing at every write index. A stream "
            "case is non-trivial unless it is one plain Read followed by EOF of a well-formed stream; a sink case is "
            "non-trivial when the writer script is not empty")
    trusted_base = ["native skip_one_fast (value framing) and the inner one-value decoder are modelled "
                    "(Model/IO.lean, Model/IOJson.lean), tied by correspondence only",
                    "scripted io.Reader/io.Writer of the harness (go/harness/ops_io.go)"]
    assumptions = ["a Reader keeps returning its error once it has returned one (io.Reader convention)",
                   "decoded values are compared after re-marshalling with encoding/json (UseNumber); generated strings "
                   "use only escapes that re-marshal to themselves"]

    def streams(self, tier, seed):
        if tier == "quick":
            return [Stream("chunkings", "c17.stream", 260, timeout=0.02),
                    Stream("big", "c17.big", 25, timeout=0.2),
                    Stream("mutated", "c17.mutated", 500, timeout=0.02),
                    Stream("sink", "c17.sink", 200, timeout=0.02),
                    Stream("sinkopts", "c17.sinkopts", 640, timeout=0.02)]
        return [Stream("chunkings", "c17.stream", 30000, timeout=0.02),
                Stream("big", "c17.big", 1500, timeout=0.2),
                Stream("mutated", "c17.mutated", 60000, timeout=0.02),
                Stream("sink", "c17.sink", 20000, timeout=0.02),
                Stream("sinkopts", "c17.sinkopts", 64000, timeout=0.02)]

    # ------------------------------------------------------------------ model line
    def model_line(self, case, sonic):
        if case[0] == "stream":
            eff = sonic.get("eff")
            if eff is None:
                return "\t".join(case)
            fl = repair_flags()
            head = [case[0], case[1] + (":" + fl if fl else ""), case[2]]
            return "\t".join(head + eff.split(","))
        if case[0] == "sink":
            m = sonic.get("marshal")
            if m is None:
                return None
            return "\t".join(["sink", case[1], case[2], m])
        return None

    # ------------------------------------------------------------------ reference firewall
    @staticmethod
    def undecided(case, spec, other):
        """True when `other` (a values|terminal answer) differs from the specification only in a way the
        property statement does not decide.  All three situations need a stream that ends with a reader error:
        1. a malformed, still unclosed value in front of the reader error: syntax error for a byte-by-byte
           validator (encoding/json), reader error for lexical value framing (the specification);
        2. a string/literal touching the end of the stream: encoding/json recognises its end only at the next
           byte and returns the reader error without it, the specification delivers it;
        3. a trailing run of number characters that is not one number (`00`, `5E+5-`, `65.57.`): the
           specification waits for the run to end (reader error, nothing delivered), a grammar-driven
           decoder delivers the leading number(s) of the run and may then name a syntax error."""
        if case[2] != "err" or spec == other:
            return spec == other
        sv, st = split_res(spec)
        ov, ot = split_res(other)
        if sv == ov and st == "rerr" and ot == "syntax":
            return True
        if st == ot == "rerr" and sv and ov == sv[:-1] and sv[-1][:2] not in ("5b", "7b"):
            return True
        if st == "rerr" and ot in ("rerr", "syntax") and ov[:len(sv)] == sv and len(ov) > len(sv):
            extra = b"".join(bytes.fromhex(x) for x in ov[len(sv):])
            return all(c in b"0123456789+-.eE" for c in extra)
        return False

    @staticmethod
    def in_model(case):
        """streams with ill-formed UTF-8 are not compared with encoding/json (the std-flavoured specification
        keeps string bodies raw, encoding/json replaces the offending bytes); they ARE judged against the
        specification instantiated with sonic's validating one-value decoder (U+FFFD per offending byte)"""
        if case[0] != "stream":
            return True
        try:
            b"".join(bytes.fromhex(x.rstrip("!")) for x in case[3:] if x.rstrip("!") not in ("-", "")).decode("utf-8")
            return True
        except (UnicodeDecodeError, ValueError):
            return False

    @staticmethod
    def canonical_escapes(case):
        """the model keeps string bodies as written; an escape that encoding/json re-marshals differently
        (\\uXXXX, \\/, \\b, \\f - only byte mutations produce them) puts the case outside the comparison of VALUES"""
        if case[0] != "stream":
            return True
        import re
        data = b"".join(bytes.fromhex(x.rstrip("!")) for x in case[3:] if x.rstrip("!") not in ("-", ""))
        return re.search(rb"\\[u/bf]", data) is None

    def model_ref_disagree(self, case, sonic, model):
        for env, s in sonic.items():
            m = model.get(env) or {}
            if case[0] == "stream":
                if "specstd" not in m or "ref" not in s or not self.in_model(case) or not self.canonical_escapes(case):
                    continue
                # the specification instantiated with encoding/json's one-value grammar, against encoding/json
                if m["specstd"] == s["ref"] or self.undecided(case, m["specstd"], s["ref"]):
                    continue
                return True
            elif case[0] == "sink":
                if "fixed" not in m or "ref" not in s:
                    continue
                steps = [] if case[2] == "-" else case[2].split(",")
                if "n" in case[1] or any(x.startswith("p") for x in steps):
                    continue  # encoding/json always writes the newline, and ignores short counts
                if "h" in case[1] or "v" in case[1] or any(x[:1] in "SLM" for x in case[3:]):
                    continue  # options / ill-formed strings on which encoding/json's bytes differ by design
                fd, fe = m["fixed"].split("|")
                rd, re_ = s["ref"].split("|")
                fd, rd = fd.replace("-", ""), rd.replace("-", "")
                fe, re_ = fe.split(","), re_.split(",")
                # encoding/json's Encoder makes its first error sticky: compare up to the first error
                k = next((i for i, e in enumerate(re_) if e != "0"), None)
                if k is None:
                    if (fd, fe) != (rd, re_):
                        return True
                elif fe[:k + 1] != re_[:k + 1] or not fd.startswith(rd):
                    return True
        return False

    # ------------------------------------------------------------------ verdict
    def judge(self, case, sonic, model):
        out = []
        for env, s in sonic.items():
            if s.get("sonic") in CRASH:
                out.append(("crash", "%s: %s" % (env, s)))
                continue
            if s.get("sonic") == "unsupported":
                continue
            m = model.get(env) or {}
            if case[0] == "stream":
                out += self.judge_stream(env, case, s, m)
            elif case[0] == "sink":
                out += self.judge_sink(env, case, s, m)
        return out

    def judge_stream(self, env, case, s, m):
        if "spec" not in m or not self.canonical_escapes(case):
            return []
        S, P, P2 = s["sonic"], m["spec"], m.get("spec2")
        sv, st = split_res(S)
        pv, pt = split_res(P)
        rv, rt = split_res(s.get("ref"))
        why = m.get("why", "?")
        prop_ok = (S == P) or (S == P2) or (S == s.get("ref") and self.undecided(case, P, S))
        if not prop_ok:
            detail = "%s: sonic=%s spec=%s ref=%s model=%s why=%s" % (env, S, P, s.get("ref"), m.get("model"), why)
            lost = [k[3:] for k, v in m.items() if k.startswith("no_") and v == S and S != m.get("model")]
            if lost:
                detail += " | behaves like HEAD WITHOUT repair " + ", ".join(
                    "%s (%s; Lean: %s)" % (x, REPAIR_PATCH.get(x, "?"), REPAIR_THEOREM.get(x, "?")) for x in lost)
            if st == "noprogress":
                return [("noprogress", detail)]
            if sv != pv:
                return [("values-differ", detail)]
            return [("terminal-differs", detail)]
        if S != m.get("model") and S != m.get("fixed"):
            return [("tie:stream-decoder-model", "%s: sonic=%s model=%s fixed=%s" % (env, S, m.get("model"), m.get("fixed")))]
        return []

    def judge_sink(self, env, case, s, m):
        if "model" not in m:
            return []
        S = s["sonic"]
        deliv, errs = S.split("|")
        errs = [] if errs == "-" else errs.split(",")
        toks = s.get("wfail", "-")
        toks = [] if toks == "-" else toks.split(",")
        marsh = s.get("marshal", "-")
        marsh = [] if marsh == "-" else marsh.split(",")
        nl = "" if "n" in case[1] else "0a"
        out = []
        # "returns the Writer's error if any write, including that of the newline, fails"
        for j, (e, t) in enumerate(zip(errs, toks)):
            if t in ("F", "N") and e != "E":
                out.append(("write-error-not-returned", "%s: Encode #%d: a write failed (%s), Encode returned %s; sonic=%s model=%s"
                            % (env, j, t, e, S, m.get("model"))))
                break
            if t == "0" and e != "0":
                out.append(("spurious-write-error", "%s: Encode #%d returned %s although no write failed" % (env, j, e)))
                break
        # "delivers exactly Marshal's bytes (plus a newline unless disabled)"
        if not out and all(t == "0" for t in toks):
            want = "".join(("" if x == "-" else x) + nl for x in marsh) or "-"
            if deliv != want:
                out.append(("delivered-bytes-differ", "%s: delivered=%s want=%s" % (env, deliv[:200], want[:200])))
        if not out and S != m.get("model") and S != m.get("fixed"):
            out.append(("tie:stream-encoder-model", "%s: sonic=%s model=%s fixed=%s" % (env, S[:300], m.get("model", "")[:300], m.get("fixed", "")[:300])))
        return out

    def nontrivial(self, case, sonic, model):
        if case[0] == "stream":
            m = next(iter(model.values()), {}) or {}
            plain = len(case) == 4 and case[2] == "eof" and m.get("spec", "").endswith("|eof")
            return not plain
        if case[0] == "sink":
            return case[2] != "-"
        return False

    # ------------------------------------------------------------------ known findings
    def matchers(self):
        known_tags = set()
        for k in core.load_known():
            if k.get("property") == "C17" and k.get("status") == "known":
                t = (k.get("params") or {}).get("why")
                if t:
                    known_tags.add(t)

        def stream_defect(d, params):
            """the shipped-decoder model reproduces sonic's answer exactly, and the first point where that
            model leaves the specification is the named defect"""
            if d["case"][0] != "stream" or d["kind"] not in params.get("kinds", []):
                return False
            for env, s in d["sonic"].items():
                m = d["model"].get(env) or {}
                if s.get("sonic") in CRASH:
                    return False
                if s.get("sonic") == m.get("spec") or s.get("sonic") == m.get("spec2"):
                    continue
                if s.get("sonic") != m.get("model") or m.get("why") != params.get("why"):
                    return False
            return True

        def newline_error_ignored(d, params):
            """the only failed write of the Encode call was the write of the newline, and the shipped-encoder
            model reproduces sonic's answer"""
            if d["case"][0] != "sink" or d["kind"] != "write-error-not-returned":
                return False
            for env, s in d["sonic"].items():
                m = d["model"].get(env) or {}
                if s.get("sonic") != m.get("model") or "i" in d["case"][1] or "n" in d["case"][1]:
                    return False
                toks = s.get("wfail", "").split(",")
                errs = s.get("sonic", "|").split("|")[1].split(",")
                bad = [(t, e) for t, e in zip(toks, errs) if t in ("F", "N") and e != "E"]
                if not bad or any(t != "N" for t, _ in bad):
                    return False
            return True

        return {"stream_defect": stream_defect, "newline_error_ignored": newline_error_ignored}

    def shrink_fields(self, case):
        if case[0] == "stream":
            return [i for i in range(3, len(case)) if case[i] not in ("-",) and not case[i].endswith("!") and len(case[i]) >= 4]
        return []


SPEC = C17()
