"""C04 - whatever the option set: one well-formed JSON value, which decodes back to the original;
unrepresentable values are errors; invalid Marshaler output is rejected unless validation is off.

Per case (op `rt`): sonic marshals under the option word; the text is checked by encoding/json.Valid
AND by the Lean strict parser (driver `wf=`); it is decoded back by sonic and by encoding/json into a
fresh value of the same type and compared with the original on bit patterns (`rts`, `rtj`; the Lean
`decodeBack` is a third voice on the part of the universe it carries, `rt=`).  The reference for
"decodes back to the original" is encoding/json's own round trip of the same value (`rrt`): where JSON
itself cannot carry the value (dropped fields, interface{} holding an int, RawMessage spacing, ...)
the reference does not reproduce it either and the case is judged on well-formedness only."""
from ..runner import Spec, Stream
from . import _enc

ENC_OPTS = ["SortMapKeys", "EscapeHTML", "CompactMarshaler", "NoQuoteTextMarshaler", "NoNullSliceOrMap",
            "ValidateString", "NoValidateJSONMarshaler", "NoEncoderNewline", "EncodeNullForInfOrNan"]


def opts_of(s):
    try:
        eo = int(s.get("eo", "0"))
    except ValueError:
        eo = 0
    return {n for i, n in enumerate(ENC_OPTS) if eo & (1 << i)}


class C04(Spec):
    prop = "C04"
    lean_modules = ["SonicSpec.Props.C04"]
    needs_factx = True
    rule = ("the C03 value generators, each value under an option word drawn from the 2^9 encoder option sets and under that word "
            "with single switches flipped (pairwise cover; thorough: all 512 words for a small value set); a case is non-trivial when "
            "a switch is on and the type has a constructor, or the value is on an error path")
    trusted_base = ["encoding/json (Go 1.23.5): Valid, Unmarshal, and its own Marshal/Unmarshal round trip as the reference for what JSON can carry",
                    "reflect-based dump of values (floats as bit patterns, maps sorted) for the comparison"]

    def streams(self, tier, seed):
        q = tier == "quick"
        st = [
            Stream("universe", "enc.opt.universe", 300 if q else 12000, timeout=0.05),
            Stream("structs-tags", "enc.opt.tags", 170 if q else 8000, timeout=0.05),
            Stream("maps-keys", "enc.opt.maps", 30 if q else 600, timeout=0.3),
            Stream("strings", "enc.opt.strings", 120 if q else 10000, timeout=0.05),
            Stream("floats", "enc.opt.floats", 150 if q else 20000, timeout=0.05),
            Stream("callbacks", "enc.opt.callbacks", 170 if q else 5000, timeout=0.05),
            Stream("error-paths", "enc.opt.errors", 80 if q else 1500, timeout=0.3),
        ]
        if not q:
            st += [Stream("all-512-universe", "enc.all.universe", 40, timeout=0.05),
                   Stream("all-512-tags", "enc.all.tags", 30, timeout=0.05),
                   Stream("all-512-callbacks", "enc.all.callbacks", 30, timeout=0.05),
                   Stream("all-512-strings", "enc.all.strings", 25, timeout=0.05),
                   Stream("all-512-floats", "enc.all.floats", 25, timeout=0.05),
                   Stream("all-512-errors", "enc.all.errors", 12, timeout=0.3)]
        return st

    def model_line(self, case, sonic):
        if case[0] == "rt":
            return "\t".join(["mar"] + case[1:4] + ["out=" + sonic.get("out", "~"), "rout=" + sonic.get("rout", "~")])
        if "out" in sonic:
            return "\t".join(["jcmp", "1", "out=" + sonic["out"], "rout=" + sonic.get("rout", "~")])
        return None

    # ------------------------------------------------------------------ verdicts
    def model_ref_disagree(self, case, sonic, model):
        s = sonic.get("default") or {}
        m = model.get("default") or {}
        if s.get("sonic") != "ok":
            return False
        # the two strict validators (encoding/json.Valid, Lean parseDoc) on the same text
        if m.get("wf") in ("0", "1") and s.get("valid") in ("0", "1") and m["wf"] != s["valid"]:
            return True
        # decodeBack against encoding/json's decoding of the same text
        if case[0] == "rt" and m.get("rt") in ("eq", "le", "ne") and s.get("rtj") in ("eq", "le", "ne"):
            if "invalid_utf8" in _enc.features(case):
                return False
            return m["rt"] != s["rtj"]
        return False

    def judge(self, case, sonic, model):
        out = []
        s = sonic.get("default") or {}
        m = model.get("default") or {}
        if s.get("sonic") in ("PANIC", "CRASH", "HANG"):
            return [("crash", str(s)[:300])]
        mv = m.get("model", "unsupported")
        ok = s.get("sonic") == "ok"
        if case[0] in ("markind", "marcyc", "marfail"):
            # no JSON representation / cyclic / failing callback: an error, never text
            if ok and s.get("ref") != "ok":
                out.append(("unrepresentable-value-encoded", "%s %s: sonic=ok encoding/json=%s out=%s" % (case[0], case[2], s.get("ref"), s.get("out", "")[:200])))
            # NoQuoteTextMarshaler with the TextMarshaler TP (text `tpN`, not a JSON literal): broken user promise
            tp_noquote = "NoQuoteTextMarshaler" in opts_of(s) and case[2].startswith(("emb.mp", "ikey"))
            if ok and s.get("valid") == "0" and not tp_noquote:
                out.append(("malformed-output", "%s %s out=%s" % (case[0], case[2], s.get("out", "")[:200])))
            return out
        if case[0] == "mardeep":
            if ok and s.get("valid") == "0":
                out.append(("malformed-output", "mardeep %s %s" % (case[2], case[3])))
            return out
        if case[0] != "rt" or not ok:
            return out
        o = opts_of(s)
        # 1. exactly one well-formed value
        if s.get("valid") == "0" or m.get("wf") == "0":
            # NoQuoteTextMarshaler with a TextMarshaler whose text is not a JSON literal: the user's promise is broken,
            # no claim (the model says `unchecked`; for the pointer-receiver TP the dispatch itself is DESIGN 8 #14)
            tp_noquote = "NoQuoteTextMarshaler" in o and "lib:TP" in _enc.features(case)
            if mv != "err:unchecked" and not tp_noquote:
                out.append(("malformed-output", "opts=%s out=%s model=%s" % (sorted(o), s.get("out"), mv)))
            return out
        # 2. values without representation / rejected callback output
        if mv == "err:unsupported_value":
            out.append(("unrepresentable-value-encoded", "opts=%s out=%s" % (sorted(o), s.get("out"))))
            return out
        if mv == "err:marshaler":
            out.append(("invalid-marshaler-output-accepted", "opts=%s out=%s" % (sorted(o), s.get("out"))))
            return out
        # 3. decodes back to the original wherever JSON can carry it (reference: encoding/json's own round trip)
        feats = _enc.features(case)
        if "NoQuoteTextMarshaler" in o and feats & {"lib:TV", "lib:TP", "lib:LT"}:
            return out        # the switch changes the contract of MarshalText (text is taken as an escaped literal)
        if "ptr_recv_leaf" in feats:
            return out        # MP / TP / LJP have no decoding counterpart of their method output (by construction)
        if "omitzero" in feats and "neg_zero" in feats:
            # -0.0 is a zero value for `omitzero` (reflect IsZero: v.Float() == 0), so the member is dropped and the
            # decoder leaves +0.0; the Go 1.23.5 reference ignores omitzero and cannot vouch for this case
            return out
        if "invalid_utf8" in feats:
            # ill-formed UTF-8 cannot come back byte for byte (both libraries write U+FFFD or the raw bytes); what the
            # property still says - containers element-wise, the well-formed strings byte for byte - is judged by
            # reading sonic's text and encoding/json's text with the same decoder and comparing the two values
            # not judged this way: callbacks / RawMessage (their text is stored as is), keys that collide once coerced,
            # NoNullSliceOrMap (nil inside interface{} comes back as an empty container), omitzero (Go 1.23 reference)
            plain = "(lib " not in case[2] + case[3] and "raw" not in case[2] + case[3] and "invalid_utf8_key" not in feats \
                and "NoNullSliceOrMap" not in o and "omitzero" not in feats and "omitempty_neg_zero" not in feats \
                and not (feats & {"float_map_key", "bool_map_key"})
            if plain and s.get("ref") == "ok" and s.get("rtx") in ("ne", "err"):
                out.append(("roundtrip-differs-from-reference-text", "opts=%s rtx=%s out=%s" % (sorted(o), s.get("rtx"), s.get("out", "")[-300:])))
            return out
        if s.get("ref") == "ok" and s.get("rrt") in ("eq", "le") and "invalid_utf8" not in feats:
            allowed = {"eq"}
            if s["rrt"] == "le" or "NoNullSliceOrMap" in o:
                allowed.add("le")
            if s.get("rts") not in allowed:
                out.append(("roundtrip-sonic-decoder", "opts=%s out=%s rts=%s reference=%s" % (sorted(o), s.get("out"), s.get("rts"), s["rrt"])))
            if s.get("rtj") not in allowed:
                out.append(("roundtrip-std-decoder", "opts=%s out=%s rtj=%s reference=%s" % (sorted(o), s.get("out"), s.get("rtj"), s["rrt"])))
        return out

    def nontrivial(self, case, sonic, model):
        s = sonic.get("default") or {}
        if case[0] != "rt":
            return True
        return (s.get("eo", "0") != "0" and "(" in case[2]) or s.get("sonic") != "ok"

    def shrink_candidates(self, case):
        return _enc.shrink_candidates(case) if case[0] == "rt" else []

    def shrink_fields(self, case):
        return []

    def matchers(self):
        return MATCHERS


def m_negzero_sonic_decoder(d, params):
    """DESIGN 8 #17 (C19): sonic's decoder reads the literal -0 as +0.0, so a negative zero does not survive
    Marshal -> sonic.Unmarshal (it does survive Marshal -> encoding/json.Unmarshal)"""
    if d["kind"] != "roundtrip-sonic-decoder":
        return False
    s = d["sonic"].get("default") or {}
    return "neg_zero" in _enc.features(d["case"]) and s.get("rtj") in ("eq", "le")


def m_f32_double_rounding(d, params):
    """DESIGN 8 #17 (C19): float32 destinations are rounded twice by sonic's decoder (literal -> float64 -> float32)"""
    if d["kind"] != "roundtrip-sonic-decoder":
        return False
    s = d["sonic"].get("default") or {}
    return "f32" in d["case"][2] + d["case"][3] and s.get("rtj") in ("eq", "le") and params.get("enabled", True)


def _unterminated_mod32(case):
    import re
    if len(case) < 4:
        return False
    for h in re.findall(r"\((?:lib|raw) ([0-9a-f]+)\)", case[3]):
        try:
            t = bytes.fromhex(h)
        except ValueError:
            continue
        if t.startswith(b'"hex:'):
            try:
                t = bytes.fromhex(t[5:-1].decode())
            except ValueError:
                continue
        i = t.rfind(b'"')
        if i >= 0 and len(t) - i - 1 > 0 and (len(t) - i - 1) % 32 == 0 and b'\\' not in t[i:]:
            return True
    return False


def m_unterminated_string_mod32(d, params):
    """DESIGN 8 #11 (C02): the native validator accepts an unterminated string whose body is a positive multiple of 32
    bytes; Marshaler / RawMessage output is validated with it (alg.Valid) unless CompactMarshaler is on"""
    if d["kind"] not in ("malformed-output", "invalid-marshaler-output-accepted"):
        return False
    s = d["sonic"].get("default") or {}
    return "CompactMarshaler" not in opts_of(s) and _unterminated_mod32(d["case"])


def _payloads(case):
    import re
    res = []
    if len(case) < 4:
        return res
    for h in re.findall(r"\((?:lib|raw) ([0-9a-f]+)\)", case[3]):
        try:
            t = bytes.fromhex(h)
        except ValueError:
            continue
        if t.startswith(b'"hex:'):
            try:
                t = bytes.fromhex(t[5:-1].decode())
            except ValueError:
                continue
        res.append(t)
    return res


def _only_string_content_wrong(t):
    """the text is not JSON, but becomes JSON once the inside of every "..." is emptied: the only defects are
    invalid escapes or raw control characters inside string literals"""
    import json
    import re
    try:
        s = t.decode("latin1")
        json.loads(s)
        return False
    except ValueError:
        pass
    blank = re.sub(r'"(?:\\.|[^"\\])*"', '""', s, flags=re.S)
    try:
        json.loads(blank)
        return True
    except ValueError:
        return False


def m_marshaler_string_content(d, params):
    """alg.Valid (native ValidateOne, flags 0) does not look inside string literals: Marshaler / RawMessage output with
    an invalid escape ("\\q", "\\u00t1") or a raw control character in a string is embedded as is"""
    if d["kind"] not in ("malformed-output", "invalid-marshaler-output-accepted"):
        return False
    s = d["sonic"].get("default") or {}
    return "CompactMarshaler" not in opts_of(s) and any(_only_string_content_wrong(t) for t in _payloads(d["case"]))


MATCHERS = {
    "marshaler_output_string_content_unchecked": m_marshaler_string_content,
    "negative_zero_lost_by_sonic_decoder": m_negzero_sonic_decoder,
    "float32_double_rounding_in_sonic_decoder": m_f32_double_rounding,
    "marshaler_output_unterminated_string_mod32": m_unterminated_string_mod32,
}

SPEC = C04()
