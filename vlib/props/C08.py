import os
import re

from .. import core
from ..runner import Spec, Stream

RACE_ENV = {"race": {"GORACE": "halt_on_error=1 exitcode=66"}}
OPTDEC = {"SONIC_USE_OPTDEC": "1"}
OPT_ENV = {"optdec": OPTDEC}
BOTH_ENV = {"default": {}, "optdec": OPTDEC}
RACE_OPT_ENV = {"race-optdec": dict(OPTDEC, GORACE="halt_on_error=1 exitcode=66")}


def _gets(tokens):
    return ";".join(t for t in tokens.split(";") if t.startswith("G")) or "-"


class C08(Spec):
    prop = "C08"
    needs_factx = True   # the driver reads Gen.pcacheInitCapacity
    lean_modules = ["SonicSpec.Props.C08"]
    rule = ("pmap: scripts of add/get/rehash with chosen hashes on the real _ProgramMap (non-trivial: at least one rehash or a probe "
            "collision); pcrace: goroutines racing Get/Compute on one real ProgramCache, final table judged by the model's invariant "
            "(non-trivial: >= 2 goroutines); rcu: goroutines racing the first use of never-seen reflect.StructOf types through "
            "Marshal/Unmarshal/Pretouch/Get/Valid, compared with the same call alone and encoding/json; pool: goroutines racing Marshal/"
            "MarshalIndent/Unmarshal of recognisable payloads after calls that return pooled buffers through the EscapeHTML/ValidateString "
            "post-passes, error exits and user buffers, every result compared with the same call alone (pool-indent: indenting encoders only, while an indenting stream encoder keeps "
            "failing on a broken writer); fold: concurrent decodes of keys that match only case-insensitively, vs encoding/json; rcu and fold "
            "also run with the alternative decoder (SONIC_USE_OPTDEC=1); race streams run in the -race build")
    trusted_base = ["Go memory model, sync.Mutex, sync/atomic, sync.Pool, the race detector (used as validation, not as proof)",
                    "the interleaving model's atomic steps = one atomic load/store/lock/unlock or a pure computation on private data "
                    "(the accesses to ProgramCache.p are atomic.LoadPointer/StorePointer in pcache.go)",
                    "generated machine code (not instrumented by -race) is modelled, tied by correspondence only"]
    assumptions = ["table capacity < 2^31 buckets (uint32 arithmetic of pcache.go modelled on Nat)",
                   "compute functions are deterministic per key", "a pooled object is Put only by the goroutine that holds it"]

    def harness_tags(self):
        import os
        from .. import core
        ok = os.path.exists(os.path.join(core.REPO, "verifhook", "cache.go")) and os.path.exists(os.path.join(core.REPO, "internal", "caching", "verif_hook.go"))
        return ["hook_conc"] if ok else []

    def streams(self, tier, seed):
        q = tier == "quick"
        return [
            Stream("pmap", "c08.pmap", 250 if q else 4000, timeout=0.5),
            Stream("pcrace", "c08.pcrace", 30 if q else 1500, timeout=5.0),
            Stream("pcrace-big", "c08.pcbig", 1 if q else 6, timeout=120.0),
            Stream("pcrace-race", "c08.pcrace", 20 if q else 300, envs=RACE_ENV, timeout=30.0, race=True),
            Stream("rcu", "c08.rcu", 20 if q else 300, timeout=30.0, use_model=False),
            Stream("rcu-race", "c08.rcu", 5 if q else 80, envs=RACE_ENV, timeout=120.0, use_model=False, race=True),
            Stream("pool", "c08.pool", 6 if q else 200, timeout=30.0, use_model=False),
            Stream("pool-race", "c08.poolsmall", 2 if q else 60, envs=RACE_ENV, timeout=120.0, use_model=False, race=True),
            Stream("pool-indent", "c08.poolindent", 4 if q else 120, timeout=30.0, use_model=False),
            Stream("fold", "c08.fold", 3 if q else 120, envs=BOTH_ENV, timeout=30.0, use_model=False),
            Stream("rcu-optdec", "c08.rcu", 10 if q else 300, envs=OPT_ENV, timeout=30.0, use_model=False),
            Stream("race-optdec", "c08.foldsmall", 1 if q else 40, envs=RACE_OPT_ENV, timeout=120.0, use_model=False, race=True),
            Stream("rcu-race-optdec", "c08.rcu", 2 if q else 60, envs=RACE_OPT_ENV, timeout=120.0, use_model=False, race=True),
        ]

    def extra(self, ctx):
        """source facts the model ASSUMES, re-read from the current tree (the atomicity of the accesses to
        ProgramCache.p, the critical section of Compute, the two constants of the table)"""
        probs = []
        path = os.path.join(core.REPO, "internal", "caching", "pcache.go")
        try:
            src = open(path).read()
        except OSError as e:
            return [{"what": "source fact: cannot read pcache.go", "detail": str(e)}]
        code = re.sub(r"/\*.*?\*/", "", src, flags=re.S)
        code = re.sub(r"//[^\n]*", "", code)
        facts = {}
        m = re.search(r"_LoadFactor\s*=\s*([0-9.]+)", code)
        facts["_LoadFactor"] = m.group(1) if m else None
        m = re.search(r"_InitCapacity\s*=\s*(\d+)", code)
        facts["_InitCapacity"] = m.group(1) if m else None
        if facts["_LoadFactor"] != "0.5":
            probs.append({"what": "source fact changed: _LoadFactor is not 0.5 (Model/ConcPMap.needRehash assumes 1/2)", "found": facts["_LoadFactor"]})
        # the theorems hold for every power-of-two capacity (Inv requires it); the driver takes the value from Generated/Consts
        ic = facts["_InitCapacity"]
        if ic is None or int(ic) <= 0 or int(ic) & (int(ic) - 1):
            probs.append({"what": "source fact changed: _InitCapacity is not a positive power of two (side condition of Inv / mask arithmetic)", "found": ic})

        def body(name):
            m = re.search(r"func \(self \*ProgramCache\) %s\(.*?\n}\n" % name, code, flags=re.S)
            return m.group(0) if m else None
        get, comp = body("Get"), body("Compute")
        if get is None or comp is None:
            probs.append({"what": "source fact: ProgramCache.Get/Compute not found in the expected shape"})
        else:
            for nm, b in (("Get", get), ("Compute", comp)):
                # every mention of self.p must be the operand of an atomic load / store
                bare = re.sub(r"atomic\.(LoadPointer|StorePointer)\(&self\.p", "", b)
                if re.search(r"self\.p\b", bare):
                    probs.append({"what": "source fact changed: %s touches ProgramCache.p without sync/atomic "
                                          "(the model's steps `atomic load` / `atomic store` are no longer what the code does)" % nm})
            facts["get_atomic_load"] = "atomic.LoadPointer(&self.p)" in get
            i_lock = comp.find("self.m.Lock()")
            i_unlock = comp.find("defer self.m.Unlock()")
            i_check = comp.find("self.Get(vt)")
            i_store = comp.find("atomic.StorePointer(&self.p")
            facts["compute_order"] = [i_lock, i_unlock, i_check, i_store]
            if not (0 <= i_lock < i_unlock < i_check < i_store):
                probs.append({"what": "source fact changed: Compute no longer is Lock; defer Unlock; re-check; ...; atomic store "
                                      "(critical section assumed by Model/ConcRCU)", "positions": facts["compute_order"]})
        ctx["run"].cov["source_facts"] = facts
        return probs

    def model_line(self, case, sonic):
        if case[0] == "pcrace":
            t = sonic.get("table")
            if not t:
                return None
            return "\t".join(case[:6] + [t])
        if case[0] == "pmap":
            return "\t".join(case)
        return None

    def model_ref_disagree(self, case, sonic, model):
        if case[0] != "pmap":
            return False
        for env, s in sonic.items():
            m = model.get(env) or {}
            if "gets" in m and s.get("ref") not in (None, "-") and m["gets"] != s["ref"]:
                return True
        return False

    def judge(self, case, sonic, model):
        out = []
        for env, s in sonic.items():
            v = s.get("sonic")
            m = model.get(env) or {}
            if v in ("PANIC", "CRASH", "HANG"):
                out.append(("crash-or-data-race", "%s: %s" % (env, str(s)[:300])))
                continue
            if case[0] == "pmap":
                if "model" not in m or m["model"] == "unsupported":
                    continue
                if v != m["model"]:
                    if _gets(v) != m.get("gets"):
                        out.append(("pmap-lookup-wrong", "%s: sonic=%s model=%s" % (env, _gets(v)[:200], m.get("gets", "")[:200])))
                    else:
                        out.append(("tie:pmap-table-layout", "%s: sonic=%s model=%s" % (env, v[:200], m["model"][:200])))
            elif case[0] == "pcrace":
                if v != "ok":
                    out.append(("pcache-race-wrong-result", "%s: %s maxcompiles=%s" % (env, v, s.get("maxcompiles"))))
                elif m.get("model") not in (None, "ok", "unsupported"):
                    out.append(("pcache-invariant-broken", "%s: %s" % (env, m.get("model"))))
            elif case[0] == "fold":
                if v != "ok":
                    if s.get("seq") not in (None, "ok"):
                        out.append(("tie:fold-vs-encoding/json", "%s: alone: %s" % (env, s.get("seq", "")[:300])))
                    else:
                        out.append(("concurrent-differs-from-alone", "%s: case-insensitive key matching under concurrent decodes: %s" % (env, v[:400])))
            elif case[0] == "pool":
                if v != s.get("seq"):
                    out.append(("concurrent-differs-from-alone", "%s: pooled buffers/stacks: %s" % (env, s.get("bad", "")[:400])))
                elif v != s.get("ref"):
                    out.append(("tie:pool-vs-encoding/json", "%s: %s" % (env, s.get("badref", "")[:400])))
            elif case[0] == "rcu":
                if v == "unsupported":
                    continue
                if v != s.get("seq"):
                    out.append(("concurrent-differs-from-alone", "%s: %s" % (env, s.get("bad", "")[:400])))
                elif v != s.get("ref"):
                    out.append(("tie:rcu-vs-encoding/json", "%s: %s" % (env, s.get("badref", "")[:400])))
        return out

    def shrink_fields(self, case):
        return []   # no byte-string fields: numbers and scripts must not be cut as hex

    def nontrivial(self, case, sonic, model):
        if case[0] == "pmap":
            for s in sonic.values():
                toks = s.get("sonic", "").split(";")
                masks = {t.split(".")[1] for t in toks if t[:1] in "AR" and "." in t}
                if len(masks) > 1:
                    return True
            return False
        if case[0] == "fold":
            return int(case[3]) >= 2
        if case[0] == "pool":
            return int(case[2]) >= 2
        if case[0] in ("pcrace", "rcu"):
            return int(case[2]) >= 2 if case[0] == "pcrace" else int(case[3]) >= 2
        return False


SPEC = C08()
