"""C02 - no structurally malformed JSON accepted, no valid JSON rejected (every consuming API).

Verdict rule, exactly the two bounds of the property (decided by the model; Props/C02.lean proves that the
model's two deciders are the two grammars: `validate_iff_strict`, `validate_iff_structural`):

  * an API returns "accepted" (nil error / true) and the document is not in `Structural`   -> accepts-malformed
  * an API returns "rejected" and the document is in `Strict` with at most 4096 frames     -> rejects-valid

What "accepts" means per API (the reading of the property, documented here once):
  valid / validstr / valid_std            the boolean
  unm_* / node_unm / w_*                  Unmarshal returned nil.  A type-mismatch error ("m") is neither: it says
                                          nothing about syntax (sonic reports it instead of checking the rest).
                                          w_* see the document as a member value `{"r":DOC}`; the model judges that text.
  get / newraw_check                      sonic.Get(doc) with an empty path / ast.NewRaw(doc).Check() returned no error:
                                          they consume the whole input, so bytes after the value make the input malformed
                                          ("non-space bytes after the value" is in the property's list).
  skip                                    decoder.Skip returns the span of ONE value and leaves the rest to the caller:
                                          accepted = a span was returned and only space follows it.
  getp / geti (Get with a path)           a path Get reads the document only up to the end of the located value and, by
                                          design, does not validate the members it steps over (skip_one_fast).  What it
                                          consumes as JSON and hands out is the located value: accepted = a node came back;
                                          the bound is "the returned raw text is one structural value" (model decides) and
                                          "a Strict value inside a well-formed wrapper is found".  Malformations outside the
                                          located value are outside what a path Get consumes; they are counted, not judged.
Everything else the model predicts about an API (its exact accept set, spans, error kinds) is the
correspondence: a difference there that is not already a violation is reported as `tie:...`.
"""
import os
import re

from .. import core
from ..runner import Spec, Stream

# ---------------------------------------------------------------------------------------------------------
# regenerated fact: the decision table of the generic (interface{}) decoder's value state machine, re-read
# from internal/decoder/jitdec/generic_regabi_amd64.go on every run and compared with the table the
# theorems of Props/C02Generic.lean are about (driver op `gentab`).  The reader is a small symbolic walk over
# the Emit/Sjmp/Link lines of `_ValueDecoder.compile`; it fails loudly on any shape it does not know.
HANDLERS = {"scalar": "_decode_V_NULL", "str": "_decode_V_STRING", "lb": "_decode_V_ARRAY", "lc": "_decode_V_OBJECT",
            "colon": "_decode_V_KEY_SEP", "comma": "_decode_V_ELEM_SEP", "rb": "_decode_V_ARRAY_END", "rc": "_decode_V_OBJECT_END"}
SAME_AS_SCALAR = ["_decode_V_TRUE", "_decode_V_FALSE", "_decode_V_DOUBLE", "_decode_V_INTEGER"]


def extract_generic_table(path):
    """re-read the value state machine of the generic decoder from its Go source: {(tok, state): 'setTop:setBelow:push:pop' | '-'}"""
    src = open(path).read()
    m = re.search(r"const \(\s*_S_val = iota \+ 1(.*?)\)", src, re.S)
    names = ["_S_val"] + re.findall(r"(_S_\w+)", m.group(1))
    num = {n: i + 1 for i, n in enumerate(names)}
    masks = {}
    for mm in re.finditer(r"(_S_\w*mask\w*)\s*=\s*(.*)", src):
        masks[mm.group(1)] = {num[x] for x in re.findall(r"1 << (_S_\w+)", mm.group(2))}
    body = src[src.index("func (self *_ValueDecoder) compile()"):]
    ops = []
    for line in body.split("\n"):
        line = line.split("//")[0].strip()
        mm = re.match(r'self\.Link\("([^"]+)"\)', line)
        if mm:
            ops.append(("link", mm.group(1), ""))
            continue
        mm = re.match(r'self\.Sjmp\("(\w+)",\s*"([^"]+)"\)', line)
        if mm:
            ops.append(("sjmp", mm.group(1), mm.group(2)))
            continue
        mm = re.match(r'self\.Rjmp\(', line)
        if mm:
            ops.append(("rjmp", "", ""))
            continue
        mm = re.match(r'self\.Emit\("(\w+)",\s*(.*)\)$', line)
        if mm:
            ops.append(("emit", mm.group(1), mm.group(2)))
    label = {o[1]: i for i, o in enumerate(ops) if o[0] == "link"}
    allst = set(num.values())

    def walk(pos, states, act, push, depth=0):
        res = []
        curmask = None
        pending = None
        steps = 0
        while pos < len(ops) and states and steps < 400:
            steps += 1
            kind, a, b = ops[pos]
            pos += 1
            if kind == "link":
                if a == "_next":
                    res.append((set(states), dict(act)))
                    return res
                continue
            if kind == "rjmp":
                raise ValueError("indirect jump inside a handler")
            if kind == "emit":
                mk = re.search(r"jit\.Imm\((_S_\w*mask\w*)\)", b)
                if mk:
                    curmask = masks[mk.group(1)]
                    continue
                if a == "BTQ":
                    pending = ("bt", curmask) if ("jit.Imm(" not in b and curmask is not None) else ("flag", None)
                    continue
                if a == "CMPQ":
                    mc = re.search(r"jit\.Imm\((_S_\w+)\)", b)
                    if mc:
                        pending = ("cmp", num[mc.group(1)])
                    elif "MAX_RECURSE" in b:
                        pending = ("ovf", None)
                    else:
                        pending = ("other", None)
                    continue
                if a in ("TESTQ", "TESTL"):
                    pending = ("other", None)
                    continue
                mw = re.search(r"jit\.Imm\((_S_\w+)\),\s*jit\.Sib\(_ST,\s*_CX,\s*8,\s*_ST_Vt(\s*-\s*8)?\)", b)
                if a == "MOVQ" and mw:
                    if mw.group(2):
                        act["below"] = num[mw.group(1)]
                    elif push:
                        act["push"] = num[mw.group(1)]
                    else:
                        act["top"] = num[mw.group(1)]
                    continue
                if a == "ADDQ" and re.match(r"jit\.Imm\(1\),\s*_CX$", b):
                    push = True
                    continue
                ms = re.match(r"jit\.Imm\((\d+)\),\s*jit\.Ptr\(_ST,\s*_ST_Sp\)$", b)
                if a == "SUBQ" and ms:
                    act["pop"] = int(ms.group(1))
                    continue
                continue
            # sjmp
            cond, tgt = a, b
            if cond == "JMP":
                if tgt == "_next":
                    res.append((set(states), dict(act)))
                    return res
                pos = label[tgt]
                continue
            if pending and pending[0] == "bt":
                if cond == "JNC":
                    if tgt not in ("_invalid_char", "_vtype_error"):
                        raise ValueError("unexpected JNC target " + tgt)
                    states = states & pending[1]
                elif cond == "JC":
                    res += walk(label[tgt], states & pending[1], dict(act), push, depth + 1)
                    states = states - pending[1]
                else:
                    raise ValueError("unexpected jump after state test: " + cond)
                pending = None
                continue
            if pending and pending[0] == "cmp":
                if cond == "JE":
                    res += walk(label[tgt], states & {pending[1]}, dict(act), push, depth + 1)
                    states = states - {pending[1]}
                elif cond == "JNE":
                    if tgt != "_invalid_char":
                        raise ValueError("unexpected JNE target " + tgt)
                    states = states & {pending[1]}
                else:
                    raise ValueError("unexpected jump after CMPQ state: " + cond)
                pending = None
                continue
            if pending and pending[0] == "ovf":
                if not (cond == "JAE" and tgt == "_stack_overflow"):
                    raise ValueError("overflow check shape")
                act["chk"] = True
                pending = None
                continue
            # flag tests, capacity tests, packed-string tests: both ways do the same to the state stack
            pending = None
        raise ValueError("handler does not reach _next")

    def fmt(act):
        if act.get("push") and not act.get("chk"):
            raise ValueError("push without MAX_RECURSE check")
        return "%d:%d:%d:%d" % (act.get("top", 0), act.get("below", 0), act.get("push", 0), act.get("pop", 0))

    table = {}
    for tok, lab in HANDLERS.items():
        for s in allst:
            table[(tok, s)] = "-"
        for states, act in walk(label[lab], set(allst), {}, False):
            for s in states:
                table[(tok, s)] = fmt(act)
    for lab in SAME_AS_SCALAR:
        t2 = {}
        for s in allst:
            t2[s] = "-"
        for states, act in walk(label[lab], set(allst), {}, False):
            for s in states:
                t2[s] = fmt(act)
        for s in allst:
            if t2[s] != table[("scalar", s)]:
                raise ValueError("%s differs from _decode_V_NULL in state %d" % (lab, s))
    return table



GENERIC_SRC = "internal/decoder/jitdec/generic_regabi_amd64.go"

WS = b" \t\n\r"

# api -> (prefix of the model fields that describe the text the API saw, model field that predicts the API exactly or None)
APIS = {
    "valid": ("", "valid"), "validstr": ("", "valid"), "valid_std": ("", "valid"),
    "unm_any": ("", None), "unm_any_std": ("", None), "unm_struct": ("", None), "unm_struct_std": ("", None),
    "unm_empty": ("", None),
    "unm_raw": ("", "structB"), "unm_raw_std": ("", "valB"),
    "unm_unmarshaler": ("", "structB"), "unm_unmarshaler_std": ("", "valB"),
    "node_unm": ("", "structB"),
    "get": ("", "newraw"), "newraw_check": ("", "newraw"),
    "skip": ("", None),
    # wave 3: further public entry points
    "enc_valid": ("", "valid"), "get_str": ("", "newraw"), "newraw_cr": ("", "newraw"),
    "loads": ("", None), "dec_decode": ("", None), "dec_usenumber": ("", None), "dec_useint64": ("", None),
    "mar_marshaler": ("", "valB"), "mar_raw": ("", "valB"), "mar_marshaler_std": ("", None),
    "w_raw": ("w_", "m_structB"), "w_raw_std": ("w_", "m_valB"), "w_unmarshaler": ("w_", "m_structB"),
    "w_skipped": ("w_", "m_structB"), "w_skipped_std": ("w_", "m_valB"),
}
# scanners without string validation (flags 0): where DESIGN §8 #11 shows
NONVALIDATING = {"valid", "validstr", "valid_std", "unm_any", "unm_raw", "unm_unmarshaler", "node_unm", "get",
                 "newraw_check", "skip", "unm_struct", "unm_empty",
                 "enc_valid", "get_str", "newraw_cr", "dec_decode", "dec_usenumber", "dec_useint64", "loads"}
# entry points that skip one value and never look at what follows it (DESIGN §8 #12)
IGNORE_TRAILING = ("get", "newraw_check", "get_str", "newraw_cr", "loads")
# validate-string scanner applied to the text as it is (no UTF-8 repair first): alg.ValidStrict
RAW_VALIDATE = ("mar_marshaler", "mar_raw")
# decoders that are not the transliterated FSM (generic interface{} decoder, compiled struct decoders, the Go
# parser behind Node.LoadAll): they keep their own frame stacks of MAX_RECURSE = 4096 entries with their own
# bookkeeping, so at nesting depth exactly 4096 acceptance depends on the shape (probed: `[`x4096 is refused by
# the generic decoder and taken by the FSM).  They are held to "nothing refused up to depth 4095"; the FSM
# users are held to the exact frame count the model proves (`validate_complete`: frames <= 4096).
OWN_STACK = {"unm_any", "unm_any_std", "unm_struct", "unm_struct_std", "unm_empty",
             "loads", "dec_decode", "dec_usenumber", "dec_useint64", "mar_marshaler_std"}
DEPTH_ALL = 4095
# entry points that run the generic value state machine on the whole text: held to its exact slot count
GENERIC = {"unm_any", "unm_any_std", "dec_decode", "dec_usenumber", "dec_useint64"}
# destinations of `valid typed`, in the order of c02TDests (go/harness/ops_json.go); two flags each: default, std
TYPED = ["struct", "pstruct", "slice", "array", "map", "mapstruct", "slice2", "slicestruct", "sliceany", "mapany",
         "int", "string", "bool", "float", "any"]
REF_LIMIT = 10000   # encoding/json scanner: maxNestingDepth


def _doc(case):
    return b"" if case[2] == "-" else bytes.fromhex(case[2])


def _utf8(b):
    try:
        b.decode("utf-8")
        return True
    except UnicodeDecodeError:
        return False


def unterminated_top_string(doc):
    """doc = ws* '"' body, body without an unescaped quote and not ending inside an escape; returns len(body) or None"""
    i = 0
    while i < len(doc) and doc[i] in WS:
        i += 1
    if i >= len(doc) or doc[i] != 0x22:
        return None
    body = doc[i + 1:]
    k = 0
    while k < len(body):
        if body[k] == 0x5C:
            if k + 1 >= len(body):
                return None      # dangling backslash: the native scanner reports eof correctly
            k += 2
        elif body[k] == 0x22:
            return None
        else:
            k += 1
    return len(body)


def scalar_tail_empty(body):
    """advance_string_default on `body` (the bytes after the opening quote, up to the end of the input): True when
    the 32-byte rounds find no closing quote and, after the carry step, leave nothing for the scalar loop -
    the situation in which the native code tests an uninitialised `ch` (DESIGN §8 #11)"""
    n = len(body)
    blk = n - n % 32
    if blk == 0:
        return False
    esc = False
    for i in range(blk):
        c = body[i]
        if esc:
            esc = False
        elif c == 0x22:
            return False
        else:
            esc = c == 0x5C
    rem = n - blk
    if esc:
        if rem == 0:
            return False     # reported as eof, correctly
        rem -= 1
    return rem == 0


def shape(doc, closer, case, m):
    """coarse class of a malformed document, part of the discrepancy kind (so that shrinking a replay cannot
    drift from one class of defect into another)"""
    tails = [f[5:] for f in case[3:] if f.startswith("tail=")]
    if tails and tails[0] != "-" and len(doc) < 4:
        return "short-literal"
    seen = doc + closer
    i = 0
    while i < len(seen) and seen[i] in WS:
        i += 1
    if i < len(seen) and seen[i] == 0x22:
        body = seen[i + 1:]
        k = 0
        term = False
        while k < len(body):
            if body[k] == 0x5C:
                k += 2
            elif body[k] == 0x22:
                term = True
                break
            else:
                k += 1
        if not term:
            return "unterminated-string-tail-empty" if scalar_tail_empty(body) else "unterminated-string"
    sk = (m.get("skipU") or m.get("skip") or "").split(":")    # skipU: the first value at any depth
    if sk[0] == "ok" and doc[int(sk[2]):].strip(WS):
        return "trailing-bytes"
    return "other"


class C02(Spec):
    prop = "C02"
    lean_modules = ["SonicSpec.Props.C02", "SonicSpec.Props.C02Fsm", "SonicSpec.Props.C02Generic"]
    rule = ("grammar-generated well-formed documents swept over 64 left paddings and over string/number/space lengths "
            "(every quote, backslash, number end and structural byte on every offset mod 16/32/64); single-edit "
            "malformations (delete/insert/replace one byte, truncate at every prefix; exhaustive for documents <= 96 "
            "bytes in the thorough tier); unterminated strings of every body length 0..200; nesting at 4095/4096/4097 "
            "frames in every container shape and 10^5 deep.  A case is non-trivial when the document has a string or a "
            "container (more than one bare scalar token).")
    trusted_base = ["native machine code of validate_one/skip_one/get_by_path and the JIT decoder are modelled "
                    "(Model/JsonValidate.lean transliterates native/scanning.h), tied by correspondence only",
                    "encoding/json.Valid as executable reference of the Strict grammar"]
    assumptions = ["Unmarshal into interface{} / struct is judged by the two grammars only (its decoder is not the FSM)",
                   "Get with a non-empty path is judged on the located value only (see module docstring)"]

    def streams(self, tier, seed):
        envs = {"default": {}, "noavx2": {"SONIC_MODE": "noavx2"}}
        q = tier == "quick"
        return [
            Stream("valid", "c02.valid", 600 if q else 80000, envs=envs, timeout=0.05),
            Stream("malformed", "c02.malformed", 600 if q else 80000, envs=envs, timeout=0.05),
            Stream("unterminated", "c02.unterminated", 100 if q else 5000, envs=envs, timeout=0.05),
            Stream("junk", "c02.junk", 0, envs=envs, timeout=0.05),
            # history independence: (prev, doc) pairs, also under the alternative decoder (pooled parser state)
            Stream("wsseq", "c02.wsseq", 0, envs={"default": {}, "optdec": {"SONIC_USE_OPTDEC": "1"}}, timeout=0.05),
            Stream("deep", "c02.deep", 0, envs=envs, timeout=20.0),
        ]

    # ------------------------------------------------------------------ verdict
    def model_ref_disagree(self, case, sonic, model):
        if case[0] != "valid":
            return False
        for env, s in sonic.items():
            m = model.get(env) or {}
            if "strict" not in m or "ref" not in s:
                continue
            depth = int(m.get("depth", "0"))
            expect = "1" if (m["strict"] == "1" and depth <= REF_LIMIT) else "0"
            if s["ref"] != expect:
                return True
            if case[1] == "typed":
                continue
            if depth < 3000 and m.get("tree") != m["strict"]:
                return True      # the shared tree parser is a second model of Strict (fuel-bounded for deep input)
            # internal consistency of the model itself (theorems say so; a compiled-model bug would show here)
            if m["strict"] == "1" and m["structural"] != "1":
                return True
            if m["strictB"] == "1" and m["strict"] != "1":
                return True
        return False

    def judge(self, case, sonic, model):
        out = []
        if case[0] != "valid":
            return out
        for env, s in sonic.items():
            if s.get("sonic") in ("PANIC", "CRASH", "HANG"):
                out.append(("crash", "%s: %s" % (env, str(s)[:300])))
                continue
            m = model.get(env) or {}
            if "strict" not in m:
                continue
            self.counts["judged"] = self.counts.get("judged", 0) + 1
            if case[1] == "typed":
                # compiled (JIT) decoders into typed destinations: the two bounds, nothing else.  A refusal only
                # counts when encoding/json takes the same document into the same type (rt flag = 1).
                bits, rt = s.get("sonic", ""), s.get("rt", "")
                if len(bits) != 2 * len(TYPED) or len(rt) != len(TYPED):
                    out.append(("tie:typed-answer", "%s: unexpected answer %s" % (env, str(s)[:200])))
                    continue
                if "1" not in bits and "P" not in bits and not (m["strict"] == "1" and "0" in bits):
                    continue
                for i, a in enumerate(bits):
                    dest = TYPED[i // 2]
                    k = "t_" + dest + ("_std" if i % 2 else "")
                    if a == "P":
                        out.append(("panic:" + k, "%s: %s panicked: %s" % (env, k, s.get("panic_" + k))))
                    elif a == "1" and m["structural"] == "0":
                        out.append(("accepts-malformed:%s:%s" % (k, shape(_doc(case), b"", case, m)),
                                    "%s: Unmarshal into %s accepted a document that is not structurally well-formed" % (env, dest)))
                    elif (a == "0" and m["strict"] == "1" and int(m["depth"]) <= DEPTH_ALL and rt[i // 2] == "1"):
                        out.append(("rejects-valid:" + k, "%s: Unmarshal into %s rejected a Strict document that encoding/json "
                                    "decodes into the same type" % (env, dest)))
                continue
            api_shape = ""
            for api, (pre, exact) in APIS.items():
                a = s.get(api)
                if a is None:
                    continue
                structural = m[pre + "structural"]
                strictB = m[pre + "strictB"]
                if api in OWN_STACK:
                    strictB = "1" if (m["strict"] == "1" and int(m["depth"]) <= DEPTH_ALL) else "0"
                if api in GENERIC and m.get("gframes", "-") != "-":
                    # the generic decoder's own frame count (Props/C02Generic: a value of index k fits iff 1 + k <= 4096)
                    fits = 1 + int(m["gframes"]) <= 4096
                    strictB = "1" if (m["strict"] == "1" and fits) else "0"
                    if a == "1" and m["strict"] == "1" and not fits:
                        out.append(("tie:generic-frames:" + api, "%s: %s accepted a document that needs %s+1 slots" % (env, api, m["gframes"])))
                # typed destination: when encoding/json refuses the same document for the same type with a type
                # error, a refusal by sonic is about types too, whatever kind it reports (seen: a bool field whose
                # mismatching value is shorter than 4 bytes before the end gives "eof" instead of a mismatch)
                if api in ("unm_struct", "unm_struct_std") and s.get("ref_struct") != "1":
                    strictB = "0"
                if api == "unm_empty" and s.get("ref_empty") != "1":
                    strictB = "0"
                bad = None
                if a == "P":
                    bad = ("panic", "%s: %s panicked: %s" % (env, api, s.get("panic_" + api)))
                elif a == "1" and structural == "0":
                    bad = ("accepts-malformed", "%s: %s accepted a document that is not structurally well-formed" % (env, api))
                    api_shape = ":" + shape(_doc(case), b"", case, m)
                elif a == "0" and strictB == "1":
                    bad = ("rejects-valid", "%s: %s rejected (%s) a document of the Strict grammar within the nesting limit"
                           % (env, api, s.get("e_" + api, "false")))
                if bad:
                    out.append((bad[0] + ":" + api + (api_shape if bad[0] == "accepts-malformed" else ""), bad[1]))
                    continue
                # correspondence with the transliterated FSM (not a statement of the property)
                if exact and a in ("0", "1"):
                    want = m[exact]      # w_* : the decoder hands DOC to skip_one with a fresh machine
                    if exact.endswith("valB") and api not in RAW_VALIDATE and not _utf8(_doc(case)):
                        # validate-string configurations first replace ill-formed UTF-8 in the whole document
                        # (jitdec/decoder.go:55); lengths change and with them the block geometry of
                        # advance_string_validate.  The property-level verdict above does not depend on that.
                        want = "-"
                    if want != "-" and a != want:
                        out.append(("tie:fsm-model:" + api, "%s: %s=%s, model %s=%s" % (env, api, a, exact, want)))
            # decoder.Skip: span and error kind against the model of skip_one
            if "skip" in s and "skip" in m:
                ms = m["skip"].split(":")
                if "skip_end" in s and int(s["skip_end"]) > len(_doc(case)):
                    out.append(("accepts-malformed:skip:" + shape(_doc(case), b"", case, m),
                                "%s: decoder.Skip reports a value ending at %s in an input of %d bytes"
                                % (env, s["skip_end"], len(_doc(case)))))
                elif "skip_end" in s:
                    if ms[0] != "ok" or ms[2] != s["skip_end"] or ms[1] != s.get("skip_start"):
                        if not any(k.split(":")[1:2] == ["skip"] for k, _ in out):
                            out.append(("tie:skip-span", "%s: skip=[%s,%s) model=%s" % (env, s.get("skip_start"), s["skip_end"], m["skip"])))
                else:
                    if ms[0] == "ok":
                        out.append(("tie:skip-span", "%s: skip failed (%s) model=%s" % (env, s.get("e_skip"), m["skip"])))
                    elif ms[1] != s.get("e_skip") and len(_doc(case)) >= 4:
                        # (inputs shorter than 4 bytes: advance_dword's bound check wraps and compares bytes behind
                        #  the input, the kind is then "syntax" where the model says "eof"; see finding C02-short-literal)
                        out.append(("tie:skip-kind", "%s: skip error %s model=%s" % (env, s.get("e_skip"), m["skip"])))
            # Get with a path: the located value
            for g, raw in (("getp", "v_getp_raw"), ("geti", "v_geti_raw")):
                if s.get(g) == "1":
                    if m.get(raw) == "0":
                        out.append(("accepts-malformed:" + g + ":" + shape(_doc(case), b"}" if g == "getp" else b"]", case, m),
                                    "%s: %s returned a node whose raw text is not one structural value" % (env, g)))
                    elif m["structural"] == "0":
                        self.counts["get_path_outside_located_value"] = self.counts.get("get_path_outside_located_value", 0) + 1
                elif s.get(g) == "0" and m["strictB"] == "1":
                    out.append(("rejects-valid:" + g, "%s: %s failed (%s) on a Strict value inside a well-formed wrapper" % (env, g, s.get("e_" + g))))
            # captured bytes of RawMessage / Unmarshaler
            if s.get("rawcap") == "0" and m["strict"] == "1":
                out.append(("tie:captured-bytes", "%s: a capturing API kept other bytes than the value" % env))
            # the second consumer of node_unm
            if s.get("node_load") == "0" and m["strict"] == "1" and int(m["depth"]) <= DEPTH_ALL:
                out.append(("rejects-valid:node_load", "%s: Node.LoadAll/Check failed (%s) after Unmarshal into *ast.Node"
                            % (env, s.get("e_node_load"))))
        return out

    counts = {}

    def model_line(self, case, sonic):
        extra = []
        for k in ("getp_raw", "geti_raw"):
            if k in sonic:
                extra.append("%s=%s" % (k, sonic[k]))
        return "\t".join(list(case) + extra)

    def nontrivial(self, case, sonic, model):
        if case[0] != "valid":
            return False
        d = _doc(case)
        return any(c in d for c in b'"[{')

    def shrink_fields(self, case):
        return [2] if len(case) > 2 and case[2] != "-" else []

    def extra(self, ctx):
        run = ctx["run"]
        run.cov["c02_counts"] = self.counts
        problems = []
        try:
            want = extract_generic_table(os.path.join(core.REPO, GENERIC_SRC))
            res, _ = core.run_model(["gentab"], 5.0)
            got = {}
            for ent in (core.fields(res[0]).get("model") or "").split():
                tok, st, rest = ent.split(":", 2)
                got[(tok, int(st))] = rest
            diff = sorted("%s/state %d: source %s, model %s" % (k[0], k[1], want.get(k), got.get(k))
                          for k in set(want) | set(got) if want.get(k) != got.get(k))
            run.cov["generic_table_entries"] = len(want)
            if diff:
                problems.append({"what": "regenerated fact: the generic decoder's (token, state) table in %s no longer is the table "
                                         "Props/C02Generic.lean is about" % GENERIC_SRC, "differences": diff[:20]})
        except Exception as e:
            problems.append({"what": "regenerated fact: cannot re-read the generic decoder's state machine from %s" % GENERIC_SRC,
                             "error": repr(e)[:300]})
        return problems

    # ------------------------------------------------------------------ known findings
    def matchers(self):
        def parts(d):
            k = d["kind"].split(":")
            return k[0], (k[1] if len(k) > 1 else ""), (k[2] if len(k) > 2 else "")

        def unterminated_tail_empty(d, params):
            # an unterminated string that runs to the end of the input the native scanner was given, scanned
            # without string validation, such that advance_string_default's scalar loop has nothing left to read
            what, api, shp = parts(d)
            return (what == "accepts-malformed" and shp == "unterminated-string-tail-empty"
                    and (api in NONVALIDATING or api in ("getp", "geti")))

        def trailing_ignored(d, params):
            # the first value is well-formed (the model of skip_one accepts it) and something non-space follows it
            what, api, shp = parts(d)
            return what == "accepts-malformed" and api in IGNORE_TRAILING and shp == "trailing-bytes"

        def short_literal(d, params):
            # the whole input is shorter than the literal it starts (n, nu, t, tr, f, fa, fal after optional space,
            # fewer than 4 bytes in all) and the case put the missing letters right behind the input in memory
            what, api, shp = parts(d)
            if what == "panic":
                doc = _doc(d["case"])
                tails = [f[5:] for f in d["case"][3:] if f.startswith("tail=")]
                if len(doc) >= 4 or not tails or tails[0] == "-":
                    return False
            elif not (what == "accepts-malformed" and shp == "short-literal"):
                return False
            if api not in ("valid", "validstr", "valid_std", "get", "newraw_check", "skip", "enc_valid", "get_str", "newraw_cr",
                           "loads", "mar_marshaler", "mar_raw"):
                return False
            doc = _doc(d["case"])
            tails = [f[5:] for f in d["case"][3:] if f.startswith("tail=")]
            word = doc.lstrip(WS) + bytes.fromhex(tails[0])
            return any(word.startswith(l) and len(doc.lstrip(WS)) < len(l) for l in (b"null", b"true", b"false"))

        def fixed_array_comma_close(d, params):
            # destination [2]int (directly, or as field "i" of the struct destinations): exactly two numbers, a comma,
            # blanks, `]` - and the document is well-formed once that comma is taken out
            import re
            import json as _json
            what, api, shp = parts(d)
            if what != "accepts-malformed":
                return False
            doc = _doc(d["case"])
            ws = rb"[ \t\r\n]*"
            arr = rb"\[" + ws + rb"-?[0-9]+" + ws + rb"," + ws + rb"-?[0-9]+" + ws + rb"(,)" + ws + rb"\]"
            if api in ("t_array", "t_array_std"):
                mm = re.fullmatch(ws + arr + ws, doc)
            elif api in ("t_struct", "t_struct_std", "t_pstruct", "t_pstruct_std"):
                mm = re.search(rb'"i"' + ws + rb":" + ws + arr, doc)
            else:
                return False
            if mm is None:
                return False
            fixed = doc[:mm.start(1)] + doc[mm.end(1):]
            try:
                _json.loads(fixed.decode("utf-8"))
            except Exception:
                return False
            return True

        return {"fixed_array_full_then_comma_close": fixed_array_comma_close,
                "unterminated_string_scalar_tail_empty": unterminated_tail_empty,
                "raw_node_ignores_trailing_bytes": trailing_ignored,
                "short_literal_completed_behind_input": short_literal}


SPEC = C02()
