module factx_dispatch

go 1.18
