package main

// Second part of factx_frames (wave 2): facts about the EMITTING code of the three assemblers
// (which instructions write SP, in which order) and the layout of the encoder's state stack
// against the displacements the x86 assembler addresses it with.
//
// Shapes relied on:
//
//	func (self *T) compile() { self.stageA(); self.stageB(); … }   or compile() starting with self.Emit(...)
//	self.Emit("SUBQ"|"ADDQ", jit.Imm(<const>), _SP)                 the only writers of SP
//	self.Emit("RET")                                                as the statement after the ADDQ
//	self.Byte(<integer literals>)                                   raw encodings
//	type State struct{…} / type Stack struct{…}                     fields of word-sized scalar / pointer types, arrays of them
//	jit.Sib(_ST, <idx>, 1, <int>) and jit.Ptr(_ST, <int>) inside save_state / drop_state

import (
	"fmt"
	"go/ast"
	"go/constant"
	"go/token"
	"path/filepath"
	"sort"
	"strconv"
	"strings"
)

type spWriter struct {
	fn, op string
	imm    int64
}

type codeShape struct {
	lean          string
	stages        []string
	firstFn       string
	firstOp       string
	spWriters     []spWriter
	rets          []string
	retFollowsAdd bool
	pushPops      [][2]string
	otherSp       [][2]string
	rawBytes      [][]int64
	spFnCalls     map[string]int // call sites `self.<fn>(` of the functions that write SP or return
}

var pushPopOps = map[string]bool{
	"PUSHQ": true, "PUSHL": true, "PUSHW": true, "PUSHFQ": true, "PUSHFL": true, "PUSHFW": true,
	"POPQ": true, "POPL": true, "POPW": true, "POPFQ": true, "POPFL": true, "POPFW": true, "ADJSP": true,
}

func recvTypeName(fd *ast.FuncDecl) string {
	if fd.Recv == nil || len(fd.Recv.List) != 1 {
		return ""
	}
	t := fd.Recv.List[0].Type
	if s, ok := t.(*ast.StarExpr); ok {
		t = s.X
	}
	if id, ok := t.(*ast.Ident); ok {
		return id.Name
	}
	return ""
}

// selfCall: `self.<name>(args)` -> name, args
func selfCall(n ast.Node) (string, []ast.Expr, bool) {
	c, ok := n.(*ast.CallExpr)
	if !ok {
		return "", nil, false
	}
	s, ok := c.Fun.(*ast.SelectorExpr)
	if !ok {
		return "", nil, false
	}
	if id, ok := s.X.(*ast.Ident); !ok || id.Name != "self" {
		return "", nil, false
	}
	return s.Sel.Name, c.Args, true
}

func strLit(x ast.Expr) (string, bool) {
	bl, ok := x.(*ast.BasicLit)
	if !ok || bl.Kind != token.STRING {
		return "", false
	}
	s, err := strconv.Unquote(bl.Value)
	return s, err == nil
}

func isIdent(x ast.Expr, name string) bool {
	id, ok := x.(*ast.Ident)
	return ok && id.Name == name
}

// readCodeShape scans every method of receiver type `recv` in the package directory.
func readCodeShape(lean, dir, recv string, e *env) *codeShape {
	cs := &codeShape{lean: lean}
	methods := map[string]*ast.FuncDecl{}
	var order []*ast.FuncDecl
	for _, p := range goFiles(dir, false) {
		f := parse(p)
		for _, d := range f.Decls {
			fd, ok := d.(*ast.FuncDecl)
			if !ok || fd.Body == nil || recvTypeName(fd) != recv {
				continue
			}
			// build-tagged variants (asm_stubs_*_go117 / _go121) define the same method twice: keep both for scanning
			if _, dup := methods[fd.Name.Name]; !dup {
				methods[fd.Name.Name] = fd
			}
			order = append(order, fd)
		}
	}
	comp, ok := methods["compile"]
	if !ok {
		die("%s: type %s has no compile() method", dir, recv)
	}
	// stages = the self.<m>() calls that make up compile(), in order (only when compile is a list of them)
	firstStmt := func(fd *ast.FuncDecl) ast.Stmt {
		if len(fd.Body.List) == 0 {
			die("%s: %s has an empty body", pos(fd), fd.Name.Name)
		}
		return fd.Body.List[0]
	}
	emitOp := func(st ast.Stmt) (string, []ast.Expr, bool) {
		es, ok := st.(*ast.ExprStmt)
		if !ok {
			return "", nil, false
		}
		name, args, ok := selfCall(es.X)
		if !ok || name != "Emit" || len(args) == 0 {
			return "", nil, false
		}
		op, ok := strLit(args[0])
		if !ok {
			return "", nil, false
		}
		return op, args[1:], true
	}
	allStages := true
	for _, st := range comp.Body.List {
		es, ok := st.(*ast.ExprStmt)
		if !ok {
			allStages = false
			break
		}
		name, args, ok := selfCall(es.X)
		if !ok || len(args) != 0 || methods[name] == nil {
			allStages = false
			break
		}
		cs.stages = append(cs.stages, name)
	}
	if allStages {
		first := methods[cs.stages[0]]
		op, _, ok := emitOp(firstStmt(first))
		if !ok {
			die("%s: the first statement of %s (first stage of compile) is not an Emit", pos(first), first.Name.Name)
		}
		cs.firstFn, cs.firstOp = first.Name.Name, op
	} else {
		cs.stages = nil
		op, _, ok := emitOp(firstStmt(comp))
		if !ok {
			die("%s: compile() is neither a list of stage calls nor does it start with an Emit", pos(comp))
		}
		cs.firstFn, cs.firstOp = "compile", op
	}

	seenRaw := map[string]bool{}
	for _, fd := range order {
		fn := fd.Name.Name
		// statement-level scan for "ADDQ …, _SP" followed by RET
		var walkBlock func(list []ast.Stmt)
		walkBlock = func(list []ast.Stmt) {
			for i, st := range list {
				if op, args, ok := emitOp(st); ok && op == "ADDQ" && len(args) == 2 && isIdent(args[1], "_SP") {
					if i+1 < len(list) {
						if op2, a2, ok2 := emitOp(list[i+1]); ok2 && op2 == "RET" && len(a2) == 0 {
							cs.retFollowsAdd = true
						}
					}
				}
			}
		}
		ast.Inspect(fd.Body, func(n ast.Node) bool {
			if b, ok := n.(*ast.BlockStmt); ok {
				walkBlock(b.List)
			}
			name, args, ok := selfCall(n)
			if !ok {
				return true
			}
			switch name {
			case "Emit", "Rjmp", "Sjmp", "From":
				if len(args) == 0 {
					die("%s: %s without a mnemonic", pos(n), name)
				}
				op, ok := strLit(args[0])
				if !ok {
					// a computed mnemonic: jumps (Sjmp/Rjmp), or a two-operand Emit whose destination is a
					// register variable other than _SP (then it is neither PUSH/POP/RET nor a write of SP)
					if name == "Sjmp" || name == "Rjmp" {
						return true
					}
					if name == "Emit" && len(args) >= 3 {
						if id, isId := args[len(args)-1].(*ast.Ident); isId && id.Name != "_SP" {
							return true
						}
					}
					die("%s: %s with a non-literal mnemonic whose effect on SP cannot be read off", pos(n), name)
				}
				rest := args[1:]
				switch {
				case op == "RET":
					cs.rets = append(cs.rets, fn)
				case pushPopOps[op]:
					cs.pushPops = append(cs.pushPops, [2]string{fn, op})
				case name == "Emit" && len(rest) > 0 && isIdent(rest[len(rest)-1], "_SP"):
					if (op == "SUBQ" || op == "ADDQ") && len(rest) == 2 {
						if c, ok := rest[0].(*ast.CallExpr); ok && exprName(c.Fun) == "jit.Imm" && len(c.Args) == 1 {
							cs.spWriters = append(cs.spWriters, spWriter{fn, op, toInt(e.eval(c.Args[0]), "SP adjustment")})
							return true
						}
					}
					cs.otherSp = append(cs.otherSp, [2]string{fn, op})
				case name == "From" && len(rest) == 1 && isIdent(rest[0], "_SP"):
					// one-operand forms (MULQ/DIVQ …) read their operand; listed so that a reviewer sees them
					cs.otherSp = append(cs.otherSp, [2]string{fn, op})
				}
			case "Byte":
				var bs []int64
				for _, a := range args {
					bl, ok := a.(*ast.BasicLit)
					if !ok || bl.Kind != token.INT {
						die("%s: self.Byte with a non-literal argument", pos(n))
					}
					v, _ := constant.Int64Val(constant.MakeFromLiteral(bl.Value, token.INT, 0))
					bs = append(bs, v)
				}
				key := fmt.Sprint(bs)
				if !seenRaw[key] {
					seenRaw[key] = true
					cs.rawBytes = append(cs.rawBytes, bs)
				}
			}
			return true
		})
	}
	// how often the functions that hold the SUBQ / ADDQ / RET are called (they must run exactly once)
	cs.spFnCalls = map[string]int{}
	for _, w := range cs.spWriters {
		cs.spFnCalls[w.fn] = 0
	}
	for _, r := range cs.rets {
		cs.spFnCalls[r] = 0
	}
	for _, fd := range order {
		ast.Inspect(fd.Body, func(n ast.Node) bool {
			if name, _, ok := selfCall(n); ok {
				if _, tracked := cs.spFnCalls[name]; tracked {
					cs.spFnCalls[name]++
				}
			}
			return true
		})
	}
	sort.Slice(cs.rawBytes, func(i, j int) bool { return fmt.Sprint(cs.rawBytes[i]) < fmt.Sprint(cs.rawBytes[j]) })
	return cs
}

func emitCodeShape(b *strings.Builder, cs *codeShape) {
	fmt.Fprintf(b, "def %sCode : CodeShape :=\n  { name := %s\n    stages := %s\n    firstInstr := (%s, %s)\n", cs.lean, strconv.Quote(cs.lean),
		leanStrings(cs.stages), strconv.Quote(cs.firstFn), strconv.Quote(cs.firstOp))
	w := make([]string, len(cs.spWriters))
	for i, x := range cs.spWriters {
		w[i] = fmt.Sprintf("(%s, %s, %s)", strconv.Quote(x.fn), strconv.Quote(x.op), leanInt(x.imm))
	}
	fmt.Fprintf(b, "    spWriters := [%s]\n    rets := %s\n    retFollowsAdd := %v\n", strings.Join(w, ", "), leanStrings(cs.rets), cs.retFollowsAdd)
	pairs := func(l [][2]string) string {
		s := make([]string, len(l))
		for i, x := range l {
			s[i] = fmt.Sprintf("(%s, %s)", strconv.Quote(x[0]), strconv.Quote(x[1]))
		}
		return "[" + strings.Join(s, ", ") + "]"
	}
	rb := make([]string, len(cs.rawBytes))
	for i, x := range cs.rawBytes {
		t := make([]string, len(x))
		for k, v := range x {
			t[k] = strconv.FormatInt(v, 10)
		}
		rb[i] = "[" + strings.Join(t, ", ") + "]"
	}
	var fns []string
	for fn := range cs.spFnCalls {
		fns = append(fns, fn)
	}
	sort.Strings(fns)
	fc := make([]string, len(fns))
	for i, fn := range fns {
		fc[i] = fmt.Sprintf("(%s, %d)", strconv.Quote(fn), cs.spFnCalls[fn])
	}
	fmt.Fprintf(b, "    pushPops := %s\n    otherSp := %s\n    rawBytes := [%s]\n    spFnCalls := [%s] }\n\n", pairs(cs.pushPops), pairs(cs.otherSp), strings.Join(rb, ", "), strings.Join(fc, ", "))
}

// ---------------------------------------------------------------------------- struct layout

type fieldLay struct {
	name      string
	off, size int64
	shape     string
}

// layoutOf: amd64 layout of a struct whose fields are 8-byte scalars, pointers, arrays of such, or
// structs of such declared in the same files (every field is 8-aligned, so there is no padding).
func layoutOf(structs map[string]*ast.StructType, e *env, name string) (fields []fieldLay, size int64) {
	st, ok := structs[name]
	if !ok {
		die("struct type %s is not declared in the files read", name)
	}
	var sizeShape func(t ast.Expr) (int64, string)
	sizeShape = func(t ast.Expr) (int64, string) {
		switch v := t.(type) {
		case *ast.Ident:
			switch v.Name {
			case "int", "uint", "int64", "uint64", "uintptr", "float64":
				return 8, "scalar"
			}
			if _, ok := structs[v.Name]; ok {
				_, sz := layoutOf(structs, e, v.Name)
				return sz, "struct"
			}
			die("%s: field type %s: layout not known to this extractor", pos(t), v.Name)
		case *ast.StarExpr:
			return 8, "ptr"
		case *ast.SelectorExpr:
			if exprName(v) == "unsafe.Pointer" {
				return 8, "ptr"
			}
			die("%s: field type %s: layout not known to this extractor", pos(t), exprName(v))
		case *ast.ArrayType:
			if v.Len == nil {
				die("%s: slice field: layout not handled", pos(t))
			}
			n := toInt(e.eval(v.Len), "array length")
			sz, sh := sizeShape(v.Elt)
			return n * sz, "array-of-" + sh
		}
		die("%s: unsupported field type (%T)", pos(t), t)
		return 0, ""
	}
	off := int64(0)
	for _, f := range st.Fields.List {
		if len(f.Names) == 0 {
			die("%s: embedded field in %s", pos(f), name)
		}
		for _, n := range f.Names {
			sz, sh := sizeShape(f.Type)
			fields = append(fields, fieldLay{n.Name, off, sz, sh})
			off += sz
		}
	}
	return fields, off
}

type stateAccess struct {
	fn, op, reg string
	disp        int64
}

func leanLayout(l []fieldLay) string {
	s := make([]string, len(l))
	for i, f := range l {
		s[i] = fmt.Sprintf("(%s, %d, %d, %s)", strconv.Quote(f.name), f.off, f.size, strconv.Quote(f.shape))
	}
	return "[" + strings.Join(s, ", ") + "]"
}

// emitEncoderState: vars.State / vars.Stack layout, vars.StateSize / StackLimit / MaxStack, and every
// access `jit.Sib(_ST, idx, 1, d)` / `jit.Ptr(_ST, d)` made by save_state and drop_state.
func emitEncoderState(b *strings.Builder, varsDir, asmPath string) {
	structs := map[string]*ast.StructType{}
	ve := newEnv()
	for _, p := range goFiles(varsDir, false) {
		f := parse(p)
		ve.addFile(f)
		for _, d := range f.Decls {
			gd, ok := d.(*ast.GenDecl)
			if !ok || gd.Tok != token.TYPE {
				continue
			}
			for _, s := range gd.Specs {
				ts := s.(*ast.TypeSpec)
				if st, ok := ts.Type.(*ast.StructType); ok {
					structs[ts.Name.Name] = st
				}
			}
		}
	}
	ve.sizeof = func(name string) (int64, bool) {
		if _, ok := structs[name]; !ok {
			return 0, false
		}
		_, sz := layoutOf(structs, ve, name)
		return sz, true
	}
	stateL, stateSz := layoutOf(structs, ve, "State")
	stackL, stackSz := layoutOf(structs, ve, "Stack")
	fmt.Fprintf(b, "/-! encoder state stack: internal/encoder/vars (State, Stack) as laid out on amd64, the constants the\n    assembler uses, and the raw displacements of save_state / drop_state -/\n")
	fmt.Fprintf(b, "def encStateLayout : List FieldLayout := %s\ndef encStackLayout : List FieldLayout := %s\n", leanLayout(stateL), leanLayout(stackL))
	fmt.Fprintf(b, "def encStateSizeof : Nat := %d\ndef encStackSizeof : Nat := %d\n", stateSz, stackSz)
	fmt.Fprintf(b, "/-- vars.MaxStack, vars.StateSize, vars.StackLimit, vars.StackSize as the constant declarations evaluate -/\n")
	fmt.Fprintf(b, "def encMaxStack : Nat := %d\ndef encStateSizeConst : Nat := %d\ndef encStackLimit : Nat := %d\ndef encStackSizeConst : Nat := %d\n\n",
		ve.nat("MaxStack"), ve.nat("StateSize"), ve.nat("StackLimit"), ve.nat("StackSize"))

	f := parse(asmPath)
	ae := newEnv()
	ae.addFile(f)
	ae.pkgs["vars"] = ve
	var acc []stateAccess
	var decrs []int64
	found := 0
	for _, d := range f.Decls {
		fd, ok := d.(*ast.FuncDecl)
		if !ok || fd.Body == nil || (fd.Name.Name != "save_state" && fd.Name.Name != "drop_state") {
			continue
		}
		found++
		fn := fd.Name.Name
		ast.Inspect(fd.Body, func(n ast.Node) bool {
			name, args, ok := selfCall(n)
			if !ok || (name != "Emit" && name != "WritePtr") {
				return true
			}
			op := "WritePtr"
			ops := args
			if name == "Emit" {
				var ok2 bool
				op, ok2 = strLit(args[0])
				if !ok2 {
					die("%s: Emit with a non-literal mnemonic", pos(n))
				}
				ops = args[1:]
			} else {
				ops = args[1:] // WritePtr(i, reg, mem)
			}
			for i, a := range ops {
				c, ok := a.(*ast.CallExpr)
				if !ok {
					continue
				}
				var disp ast.Expr
				switch exprName(c.Fun) {
				case "jit.Sib":
					if len(c.Args) != 4 || !isIdent(c.Args[0], "_ST") {
						continue
					}
					if sc := toInt(ae.eval(c.Args[2]), "scale"); sc != 1 {
						die("%s: state access with scale %d", pos(c), sc)
					}
					disp = c.Args[3]
				case "jit.Ptr":
					if len(c.Args) != 2 || !isIdent(c.Args[0], "_ST") {
						continue
					}
					disp = c.Args[1]
				default:
					continue
				}
				other := "-"
				if len(ops) == 2 {
					o := ops[1-i]
					if id, ok := o.(*ast.Ident); ok {
						other = id.Name
					} else if oc, ok := o.(*ast.CallExpr); ok && exprName(oc.Fun) == "jit.Imm" {
						other = "imm"
					}
				}
				kind := op
				if exprName(c.Fun) == "jit.Ptr" {
					kind = op + ":sp"
				}
				acc = append(acc, stateAccess{fn, kind, other, toInt(ae.eval(disp), "displacement")})
			}
			return true
		})
	}
	if found != 2 {
		die("%s: expected save_state and drop_state, found %d of them", asmPath, found)
	}
	// the amounts drop_state is called with
	ast.Inspect(f, func(n ast.Node) bool {
		name, args, ok := selfCall(n)
		if ok && name == "drop_state" && len(args) == 1 {
			decrs = append(decrs, toInt(ae.eval(args[0]), "drop_state amount"))
		}
		return true
	})
	s := make([]string, len(acc))
	for i, a := range acc {
		s[i] = fmt.Sprintf("⟨%s, %s, %s, %d⟩", strconv.Quote(a.fn), strconv.Quote(a.op), strconv.Quote(a.reg), a.disp)
	}
	fmt.Fprintf(b, "/-- every `disp(ST)(idx)` / `disp(ST)` operand in save_state and drop_state (%s) -/\n", filepath.Base(asmPath))
	fmt.Fprintf(b, "def encStateAccess : List StateAccess := [\n  %s]\n", strings.Join(s, ",\n  "))
	ds := make([]string, len(decrs))
	for i, d := range decrs {
		ds[i] = strconv.FormatInt(d, 10)
	}
	fmt.Fprintf(b, "/-- the amounts `drop_state` is called with -/\ndef encDropAmounts : List Nat := [%s]\n\n", strings.Join(ds, ", "))
}

// ---------------------------------------------------------------------------- buildLoadFunc

// oneEntryTable: `&Pcdata{{PC: textSize, Val: <const>}}` -> the constant
func oneEntryTable(x ast.Expr, e *env) int64 {
	u, ok := x.(*ast.UnaryExpr)
	if !ok || u.Op != token.AND {
		die("%s: expected &Pcdata{…}", pos(x))
	}
	cl, ok := u.X.(*ast.CompositeLit)
	if !ok || !isIdent(cl.Type, "Pcdata") || len(cl.Elts) != 1 {
		die("%s: expected a one-entry &Pcdata{…}", pos(x))
	}
	el, ok := cl.Elts[0].(*ast.CompositeLit)
	if !ok || len(el.Elts) != 2 {
		die("%s: expected {PC: …, Val: …}", pos(x))
	}
	var val ast.Expr
	for _, f := range el.Elts {
		kv, ok := f.(*ast.KeyValueExpr)
		if !ok {
			die("%s: expected keyed fields", pos(f))
		}
		switch {
		case isIdent(kv.Key, "PC"):
			if !isIdent(kv.Value, "textSize") {
				die("%s: the table does not end at textSize", pos(kv))
			}
		case isIdent(kv.Key, "Val"):
			val = kv.Value
		default:
			die("%s: unexpected field", pos(kv))
		}
	}
	if val == nil {
		die("%s: no Val", pos(x))
	}
	return toInt(e.eval(val), "table value")
}

// emitLoadFunc: the values of the one-entry tables of loader.buildLoadFunc (loader/loader_latest.go)
func emitLoadFunc(b *strings.Builder, loaderDir string) {
	e := newEnv()
	e.addFile(parse(filepath.Join(loaderDir, "pcdata.go")))
	f := parse(filepath.Join(loaderDir, "loader_latest.go"))
	var fd *ast.FuncDecl
	for _, d := range f.Decls {
		if x, ok := d.(*ast.FuncDecl); ok && x.Name.Name == "buildLoadFunc" && x.Body != nil {
			fd = x
		}
	}
	if fd == nil {
		die("%s: no func buildLoadFunc", loaderDir)
	}
	assignTo := func(st ast.Stmt, field string) (ast.Expr, bool) {
		as, ok := st.(*ast.AssignStmt)
		if !ok || len(as.Lhs) != 1 || len(as.Rhs) != 1 {
			return nil, false
		}
		if exprName(as.Lhs[0]) != "fn."+field {
			return nil, false
		}
		return as.Rhs[0], true
	}
	haveUnsafe, haveSmi := false, false
	var unsafeVal, smiVal int64
	safe := "none"
	for _, st := range fd.Body.List {
		if is, ok := st.(*ast.IfStmt); ok && isIdent(is.Cond, "noPreempt") {
			if len(is.Body.List) != 1 {
				die("%s: the noPreempt branch is not a single assignment", pos(is))
			}
			rhs, ok := assignTo(is.Body.List[0], "PcUnsafePoint")
			if !ok {
				die("%s: the noPreempt branch does not assign fn.PcUnsafePoint", pos(is))
			}
			unsafeVal, haveUnsafe = oneEntryTable(rhs, e), true
			if is.Else != nil {
				eb, ok := is.Else.(*ast.BlockStmt)
				if !ok || len(eb.List) != 1 {
					die("%s: the else branch is not a single assignment", pos(is))
				}
				rhs, ok := assignTo(eb.List[0], "PcUnsafePoint")
				if !ok {
					die("%s: the else branch does not assign fn.PcUnsafePoint", pos(is))
				}
				safe = "some " + leanInt(oneEntryTable(rhs, e))
			}
			continue
		}
		if rhs, ok := assignTo(st, "PcStackMapIndex"); ok {
			smiVal, haveSmi = oneEntryTable(rhs, e), true
		}
		if _, ok := assignTo(st, "PcUnsafePoint"); ok {
			die("%s: fn.PcUnsafePoint assigned outside `if noPreempt`", pos(st))
		}
	}
	if !haveUnsafe || !haveSmi {
		die("%s: buildLoadFunc: `if noPreempt {fn.PcUnsafePoint = …}` or `fn.PcStackMapIndex = …` not found", loaderDir)
	}
	fmt.Fprintf(b, "/-- loader.buildLoadFunc (loader/loader_latest.go): values of its one-entry tables -/\n")
	fmt.Fprintf(b, "def loadFuncFacts : LoadFuncFacts := { unsafeVal := %s, safeVal := %s, smiVal := %s }\n\n", leanInt(unsafeVal), safe, leanInt(smiVal))
}
