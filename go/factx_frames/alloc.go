package main

// Third part of factx_frames (wave 3): memory that unsafe / generated code hands to the runtime as
// pointer-typed.
//
//	rawAllocs      every call of runtime.mallocgc reached from sonic's own Go code (`Mallocgc(size, typ,
//	               needzero)` / `rt.Mallocgc(…)` / `mallocgc(…)`) and every `call_go(_F_mallocgc)` the JIT
//	               assemblers emit (type and needzero are the values moved into BX / CX before it), with
//	               the type expression and the needzero argument as written
//	noEscapeSites  every `rt.NoEscape(unsafe.Pointer(&x))`: the address of a local hidden from escape
//	               analysis, with the call it is passed to and the `if` that guards it
//
// Scope: every non-test .go file under internal/, loader/ (without loader/internal/iasm), encoder/,
// decoder/, ast/, api and the root package.

import (
	"bytes"
	"fmt"
	"go/ast"
	"go/printer"
	"os"
	"path/filepath"
	"sort"
	"strconv"
	"strings"
)

type rawAlloc struct {
	file, fn, via, typ, needzero string
}

type noEscapeSite struct {
	file, fn, operand, callee, guard string
}

func exprText(x ast.Expr) string {
	var b bytes.Buffer
	if err := printer.Fprint(&b, fset, x); err != nil {
		die("cannot print expression at %s", pos(x))
	}
	return strings.Join(strings.Fields(b.String()), " ")
}

func scanFiles(root string) []string {
	var out []string
	skipDirs := map[string]bool{"iasm": true, "testdata": true, "external_jsonlib_test": true, "fuzz": true, "generic_test": true,
		"issue_test": true, "scripts": true, "tools": true, "docs": true, "examples": true, "licenses": true, "native": false}
	err := filepath.Walk(root, func(p string, info os.FileInfo, err error) error {
		if err != nil {
			return err
		}
		if info.IsDir() {
			if strings.HasPrefix(info.Name(), ".") && p != root {
				return filepath.SkipDir
			}
			if skipDirs[info.Name()] {
				return filepath.SkipDir
			}
			return nil
		}
		if strings.HasSuffix(p, ".go") && !strings.HasSuffix(p, "_test.go") && !strings.HasSuffix(p, "_text_amd64.go") &&
			!strings.HasSuffix(p, "_subr.go") && !strings.HasSuffix(p, "verif_hook.go") {
			out = append(out, p)
		}
		return nil
	})
	if err != nil {
		die("walking %s: %v", root, err)
	}
	sort.Strings(out)
	return out
}

func readAllocs(root string) (allocs []rawAlloc, sites []noEscapeSite) {
	for _, p := range scanFiles(root) {
		f := parse(p)
		rel, _ := filepath.Rel(root, p)
		rel = filepath.ToSlash(rel)
		for _, d := range f.Decls {
			fd, ok := d.(*ast.FuncDecl)
			if !ok || fd.Body == nil {
				continue
			}
			fn := fd.Name.Name
			// Go-level calls
			ast.Inspect(fd.Body, func(n ast.Node) bool {
				c, ok := n.(*ast.CallExpr)
				if !ok {
					return true
				}
				name := ""
				switch v := c.Fun.(type) {
				case *ast.Ident:
					name = v.Name
				case *ast.SelectorExpr:
					name = v.Sel.Name
				}
				if (name == "Mallocgc" || name == "mallocgc") && len(c.Args) == 3 {
					allocs = append(allocs, rawAlloc{rel, fn, "go", exprText(c.Args[1]), exprText(c.Args[2])})
				}
				return true
			})
			// JIT: the statements before `self.call_go(_F_mallocgc)` in the same block
			ast.Inspect(fd.Body, func(n ast.Node) bool {
				b, ok := n.(*ast.BlockStmt)
				if !ok {
					return true
				}
				for i, st := range b.List {
					es, ok := st.(*ast.ExprStmt)
					if !ok {
						continue
					}
					name, args, ok := selfCall(es.X)
					if !ok || name != "call_go" || len(args) != 1 || !isIdent(args[0], "_F_mallocgc") {
						continue
					}
					typ, nz := "?", "?"
					for k := i - 1; k >= 0 && k >= i-6; k-- {
						ps, ok := b.List[k].(*ast.ExprStmt)
						if !ok {
							break
						}
						pn, pa, ok := selfCall(ps.X)
						if !ok || pn != "Emit" || len(pa) < 3 {
							break
						}
						op, _ := strLit(pa[0])
						dst := pa[len(pa)-1]
						if isIdent(dst, "_BX") && typ == "?" {
							typ = exprText(pa[1])
						}
						if isIdent(dst, "_CX") && nz == "?" {
							nz = op + " " + exprText(pa[1])
						}
					}
					if typ == "?" || nz == "?" {
						die("%s: call_go(_F_mallocgc): the type (BX) / needzero (CX) operands are not set by the Emits right before it", pos(st))
					}
					allocs = append(allocs, rawAlloc{rel, fn, "jit", typ, nz})
				}
				return true
			})
			// NoEscape(&local)
			var walk func(n ast.Node, guard string, callee string)
			walk = func(n ast.Node, guard string, callee string) {
				switch v := n.(type) {
				case nil:
					return
				case *ast.IfStmt:
					if v.Init != nil {
						walk(v.Init, guard, callee)
					}
					walk(v.Cond, guard, callee)
					g := exprText(v.Cond)
					if is, ok := v.Cond.(*ast.BinaryExpr); ok && v.Init != nil {
						_ = is
					}
					walk(v.Body, "then:"+g, callee)
					if v.Else != nil {
						walk(v.Else, "else:"+g, callee)
					}
					return
				case *ast.CallExpr:
					if exprName2(v.Fun) == "NoEscape" && len(v.Args) == 1 {
						if op := addrOfLocal(v.Args[0]); op != "" {
							sites = append(sites, noEscapeSite{rel, fn, op, callee, guard})
						}
					}
					cal := exprName2(v.Fun)
					for _, a := range v.Args {
						c2 := callee
						if cal != "" && cal != "NoEscape" && cal != "Pointer" {
							c2 = cal
						}
						walk(a, guard, c2)
					}
					walk(v.Fun, guard, callee)
					return
				}
				// generic traversal of children
				ast.Inspect(n, func(m ast.Node) bool {
					if m == n || m == nil {
						return true
					}
					switch m.(type) {
					case *ast.IfStmt, *ast.CallExpr:
						walk(m, guard, callee)
						return false
					}
					return true
				})
			}
			walk(fd.Body, "", "")
		}
	}
	return
}

// exprName2: last identifier of a (qualified / parenthesised / converted) function expression, "" if none
func exprName2(x ast.Expr) string {
	switch v := x.(type) {
	case *ast.Ident:
		return v.Name
	case *ast.SelectorExpr:
		return v.Sel.Name
	case *ast.ParenExpr:
		return exprName2(v.X)
	case *ast.StarExpr:
		return exprName2(v.X)
	}
	return ""
}

// addrOfLocal: `unsafe.Pointer(&x)` or `&x` -> "x"
func addrOfLocal(x ast.Expr) string {
	if c, ok := x.(*ast.CallExpr); ok && len(c.Args) == 1 && exprName2(c.Fun) == "Pointer" {
		x = c.Args[0]
	}
	if u, ok := x.(*ast.UnaryExpr); ok && u.Op.String() == "&" {
		if id, ok := u.X.(*ast.Ident); ok {
			return id.Name
		}
		return exprText(u.X)
	}
	return ""
}

func emitAllocs(b *strings.Builder, root string) {
	allocs, sites := readAllocs(root)
	if len(allocs) == 0 {
		die("no mallocgc call found under %s: the scan is broken", root)
	}
	s := make([]string, len(allocs))
	for i, a := range allocs {
		s[i] = fmt.Sprintf("⟨%s, %s, %s, %s, %s⟩", strconv.Quote(a.file), strconv.Quote(a.fn), strconv.Quote(a.via), strconv.Quote(a.typ), strconv.Quote(a.needzero))
	}
	b.WriteString("/-- every `mallocgc(size, typ, needzero)` sonic's Go code calls (`via = \"go\"`) or its JIT assemblers emit\n    (`via = \"jit\"`: type and needzero are what is moved into BX / CX before `call_go(_F_mallocgc)`) -/\n")
	fmt.Fprintf(b, "def rawAllocs : List RawAlloc := [\n  %s]\n\n", strings.Join(s, ",\n  "))
	t := make([]string, len(sites))
	for i, x := range sites {
		t[i] = fmt.Sprintf("⟨%s, %s, %s, %s, %s⟩", strconv.Quote(x.file), strconv.Quote(x.fn), strconv.Quote(x.operand), strconv.Quote(x.callee), strconv.Quote(x.guard))
	}
	b.WriteString("/-- every `rt.NoEscape(unsafe.Pointer(&x))`: the address of a local hidden from escape analysis -/\n")
	fmt.Fprintf(b, "def noEscapeSites : List NoEscapeSite := [\n  %s]\n\n", strings.Join(t, ",\n  "))
}
