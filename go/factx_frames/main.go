// Command factx_frames prints lean/SonicSpec/Generated/Frames.lean for the tree at <repo root>:
// the frame constants, named stack slots, pointer maps, function-type word layouts, stack
// pre-growth request and native pc-sp tables that sonic's two JIT assemblers hand to the Go
// runtime (property C10).  go/ast + go/constant, standard library only.
//
// It is deliberately dumb: every shape it does not recognise is a fatal error (exit 1), never
// a silently dropped fact.  Shapes relied on (DESIGN.md Appendix C, "frame layout"):
//
//	const _FP_x / _VD_x / FP_offs = <integer constant expression>
//	var   _ARG_x / _VAR_x = jit.Ptr(_SP, <const expr over _FP_base | _FP_fargs+_FP_saves>)  or  = _ARG_y / _VAR_y
//	var   argPtrs / localPtrs / ArgPtrs / LocalPtrs (…_generic) = []bool{ true | false … }
//	type  _Decoder / Encoder func(…) …
//	<assembler>.Load(<name expr>, <frame size>, <arg size>, <arg ptrs>, <local ptrs>)
//	const MaxFrameSize uintptr = <int>          (internal/native/dispatch_amd64.go)
//	rt.MoreStack(<const expr>)                  (exactly once under internal/decoder/jitdec)
//	_entry__f / _stack__f / _size__f consts and _pcsp__f = [][2]uint32{{pc, sp}, …} in *_subr.go
//
// usage: factx_frames <repo root>        (Lean source on stdout)
package main

import (
	"fmt"
	"go/ast"
	"go/constant"
	"go/parser"
	"go/token"
	"os"
	"path/filepath"
	"regexp"
	"sort"
	"strconv"
	"strings"
)

func die(format string, a ...interface{}) {
	fmt.Fprintf(os.Stderr, "factx_frames: "+format+"\n", a...)
	os.Exit(1)
}

var fset = token.NewFileSet()

func parse(path string) *ast.File {
	f, err := parser.ParseFile(fset, path, nil, parser.ParseComments)
	if err != nil {
		die("cannot parse %s: %v", path, err)
	}
	return f
}

func pos(n ast.Node) string { return fset.Position(n.Pos()).String() }

// ---------------------------------------------------------------------------- constants

// env: package-level constant declarations of a set of files, evaluated on demand.
type env struct {
	decl   map[string]ast.Expr
	where  map[string]string
	pkgs   map[string]*env // selector environments: "native" -> consts of dispatch_amd64.go
	busy   map[string]bool
	idents *[]string                           // when non-nil, every identifier / selector written in the expression is appended
	sizeof func(typeName string) (int64, bool) // unsafe.Sizeof(T{}) for struct types this extractor lays out
}

func newEnv() *env {
	return &env{decl: map[string]ast.Expr{}, where: map[string]string{}, pkgs: map[string]*env{}, busy: map[string]bool{}}
}

func (e *env) addFile(f *ast.File) {
	for _, d := range f.Decls {
		gd, ok := d.(*ast.GenDecl)
		if !ok || gd.Tok != token.CONST {
			continue
		}
		for _, s := range gd.Specs {
			vs := s.(*ast.ValueSpec)
			for i, n := range vs.Names {
				if n.Name == "_" {
					continue
				}
				if _, dup := e.decl[n.Name]; dup {
					die("constant %s declared twice (%s and %s)", n.Name, e.where[n.Name], pos(n))
				}
				if i < len(vs.Values) {
					e.decl[n.Name] = vs.Values[i]
				} else {
					e.decl[n.Name] = nil // implicit repetition / iota: not evaluated here
				}
				e.where[n.Name] = pos(n)
			}
		}
	}
}

var intConv = map[string]bool{"int": true, "int64": true, "int32": true, "uint": true, "uint64": true, "uint32": true, "uintptr": true}

func (e *env) eval(x ast.Expr) constant.Value {
	switch v := x.(type) {
	case *ast.BasicLit:
		if v.Kind != token.INT && v.Kind != token.CHAR {
			die("%s: literal %s is not an integer", pos(v), v.Value)
		}
		c := constant.MakeFromLiteral(v.Value, v.Kind, 0)
		if c.Kind() == constant.Unknown {
			die("%s: bad literal %s", pos(v), v.Value)
		}
		return constant.ToInt(c)
	case *ast.ParenExpr:
		return e.eval(v.X)
	case *ast.Ident:
		// only the names written in the expression itself are recorded, not what they expand to
		saved := e.idents
		if saved != nil {
			*saved = append(*saved, v.Name)
		}
		e.idents = nil
		r := e.lookup(v.Name, pos(v))
		e.idents = saved
		return r
	case *ast.SelectorExpr:
		p, ok := v.X.(*ast.Ident)
		if !ok {
			die("%s: unsupported selector expression", pos(v))
		}
		pe, ok := e.pkgs[p.Name]
		if !ok {
			die("%s: constant from package %q is not one this extractor reads", pos(v), p.Name)
		}
		if e.idents != nil {
			*e.idents = append(*e.idents, p.Name+"."+v.Sel.Name)
		}
		return pe.lookup(v.Sel.Name, pos(v))
	case *ast.UnaryExpr:
		a := e.eval(v.X)
		switch v.Op {
		case token.SUB, token.ADD, token.XOR:
			return constant.UnaryOp(v.Op, a, 0)
		}
		die("%s: unsupported unary operator %s", pos(v), v.Op)
	case *ast.BinaryExpr:
		a, b := e.eval(v.X), e.eval(v.Y)
		switch v.Op {
		case token.ADD, token.SUB, token.MUL, token.AND, token.OR, token.XOR, token.AND_NOT, token.REM:
			return constant.BinaryOp(a, v.Op, b)
		case token.QUO:
			if constant.Sign(b) == 0 {
				die("%s: division by zero", pos(v))
			}
			return constant.BinaryOp(a, token.QUO_ASSIGN, b) // integer division
		case token.SHL, token.SHR:
			s, ok := constant.Uint64Val(b)
			if !ok || s > 512 {
				die("%s: bad shift count", pos(v))
			}
			return constant.Shift(a, v.Op, uint(s))
		}
		die("%s: unsupported binary operator %s", pos(v), v.Op)
	case *ast.CallExpr:
		if id, ok := v.Fun.(*ast.Ident); ok && intConv[id.Name] && len(v.Args) == 1 {
			return e.eval(v.Args[0])
		}
		if sel, ok := v.Fun.(*ast.SelectorExpr); ok && exprName(sel) == "unsafe.Sizeof" && len(v.Args) == 1 && e.sizeof != nil {
			if cl, ok := v.Args[0].(*ast.CompositeLit); ok && len(cl.Elts) == 0 {
				if id, ok := cl.Type.(*ast.Ident); ok {
					if sz, ok := e.sizeof(id.Name); ok {
						return constant.MakeInt64(sz)
					}
				}
			}
		}
		die("%s: unsupported call in a constant expression", pos(v))
	}
	die("%s: unsupported constant expression (%T)", pos(x), x)
	return nil
}

func (e *env) lookup(name, at string) constant.Value {
	x, ok := e.decl[name]
	if !ok {
		die("%s: constant %s is not declared in the files read", at, name)
	}
	if x == nil {
		die("%s: constant %s has no explicit value (iota / implicit repetition)", at, name)
	}
	if e.busy[name] {
		die("%s: constant %s is defined in terms of itself", at, name)
	}
	e.busy[name] = true
	v := e.eval(x)
	delete(e.busy, name)
	return v
}

func toInt(v constant.Value, what string) int64 {
	i, ok := constant.Int64Val(v)
	if !ok {
		die("%s does not fit int64", what)
	}
	return i
}

func (e *env) nat(name string) int64 {
	v := toInt(e.lookup(name, name), name)
	if v < 0 {
		die("constant %s is negative (%d)", name, v)
	}
	return v
}

// ---------------------------------------------------------------------------- variables

// pkgVars: package-level `var name = value` of a file (only 1:1 specs)
func pkgVars(f *ast.File) (names []string, vals map[string]ast.Expr) {
	vals = map[string]ast.Expr{}
	for _, d := range f.Decls {
		gd, ok := d.(*ast.GenDecl)
		if !ok || gd.Tok != token.VAR {
			continue
		}
		for _, s := range gd.Specs {
			vs := s.(*ast.ValueSpec)
			if len(vs.Values) == 0 {
				continue
			}
			if len(vs.Values) != len(vs.Names) {
				for _, n := range vs.Names {
					if slotName.MatchString(n.Name) {
						die("%s: slot %s is declared by a multi-value assignment", pos(n), n.Name)
					}
				}
				continue
			}
			for i, n := range vs.Names {
				names = append(names, n.Name)
				vals[n.Name] = vs.Values[i]
			}
		}
	}
	return
}

var slotName = regexp.MustCompile(`^_(ARG|VAR)_[A-Za-z0-9_]+$`)
var frameConst = regexp.MustCompile(`^_?(FP|VD)_[A-Za-z0-9_]+$`)

type slot struct {
	name, base, alias string
	off               int64
}

func boolList(x ast.Expr, what string) []bool {
	cl, ok := x.(*ast.CompositeLit)
	if !ok {
		die("%s: %s is not a composite literal", pos(x), what)
	}
	at, ok := cl.Type.(*ast.ArrayType)
	if !ok || at.Len != nil {
		die("%s: %s is not a slice literal", pos(x), what)
	}
	if id, ok := at.Elt.(*ast.Ident); !ok || id.Name != "bool" {
		die("%s: %s is not a []bool", pos(x), what)
	}
	var out []bool
	for _, el := range cl.Elts {
		id, ok := el.(*ast.Ident)
		if !ok || (id.Name != "true" && id.Name != "false") {
			die("%s: element of %s is not the literal true/false", pos(el), what)
		}
		out = append(out, id.Name == "true")
	}
	return out
}

type frame struct {
	lean, prefix               string
	consts                     [][2]string
	args, fargs, saves, locals int64
	offs, size                 int64
	base                       int64
	hasBase                    bool
	slots                      []slot
	argPtrs, localPtrs         []bool
	loadFrame, loadArgs        int64
	loadArgPtrs, loadLocalPtrs string
}

func exprName(x ast.Expr) string {
	switch v := x.(type) {
	case *ast.Ident:
		return v.Name
	case *ast.SelectorExpr:
		if p, ok := v.X.(*ast.Ident); ok {
			return p.Name + "." + v.Sel.Name
		}
	}
	die("%s: expected a (qualified) identifier", pos(x))
	return ""
}

// readFrame: constants <pfx>args … of file `asm`, slots of the same file, the Load call.
func readFrame(lean, asmPath, pfx string, ptrVars map[string]ast.Expr) *frame {
	f := parse(asmPath)
	e := newEnv()
	e.addFile(f)
	fr := &frame{lean: lean, prefix: pfx}
	var cn []string
	for n := range e.decl {
		if frameConst.MatchString(n) {
			cn = append(cn, n)
		}
	}
	sort.Strings(cn)
	for _, n := range cn {
		fr.consts = append(fr.consts, [2]string{n, strconv.FormatInt(toInt(e.lookup(n, n), n), 10)})
	}
	pick := func(suffix string, optional bool) (int64, bool) {
		for _, cand := range []string{"_" + pfx + "_" + suffix, pfx + "_" + suffix} {
			if _, ok := e.decl[cand]; ok {
				return e.nat(cand), true
			}
		}
		if !optional {
			die("%s: no constant _%s_%s / %s_%s", asmPath, pfx, suffix, pfx, suffix)
		}
		return 0, false
	}
	fr.args, _ = pick("args", false)
	fr.fargs, _ = pick("fargs", false)
	fr.saves, _ = pick("saves", false)
	fr.locals, _ = pick("locals", false)
	fr.offs, _ = pick("offs", false)
	fr.size, _ = pick("size", false)
	fr.base, fr.hasBase = pick("base", true)

	// slots
	names, vals := pkgVars(f)
	for _, n := range names {
		if !slotName.MatchString(n) {
			continue
		}
		v := vals[n]
		switch x := v.(type) {
		case *ast.Ident:
			if !slotName.MatchString(x.Name) {
				die("%s: slot %s is assigned %s, which is not a slot", pos(v), n, x.Name)
			}
			fr.slots = append(fr.slots, slot{name: n, alias: x.Name})
		case *ast.CallExpr:
			if exprName(x.Fun) != "jit.Ptr" || len(x.Args) != 2 {
				die("%s: slot %s is not jit.Ptr(_SP, <expr>)", pos(v), n)
			}
			if r, ok := x.Args[0].(*ast.Ident); !ok || r.Name != "_SP" {
				die("%s: slot %s is not addressed from _SP", pos(v), n)
			}
			var ids []string
			e.idents = &ids
			off := toInt(e.eval(x.Args[1]), n)
			e.idents = nil
			sort.Strings(ids)
			key := strings.Join(ids, "+")
			var base string
			switch key {
			case "_" + pfx + "_base":
				base = "args"
			case "_" + pfx + "_fargs+_" + pfx + "_saves":
				base = "locals"
			default:
				die("%s: slot %s is addressed from {%s}: neither _%s_base nor _%s_fargs+_%s_saves", pos(v), n, key, pfx, pfx, pfx)
			}
			if off < 0 {
				die("%s: slot %s has a negative offset", pos(v), n)
			}
			fr.slots = append(fr.slots, slot{name: n, base: base, off: off})
		default:
			die("%s: slot %s has an unrecognised initialiser (%T)", pos(v), n, v)
		}
	}
	// resolve aliases (one level, or chains)
	byName := map[string]*slot{}
	for i := range fr.slots {
		byName[fr.slots[i].name] = &fr.slots[i]
	}
	for i := range fr.slots {
		s := &fr.slots[i]
		t := s
		for hops := 0; t.alias != "" && t.base == ""; hops++ {
			nx, ok := byName[t.alias]
			if !ok || hops > 8 {
				die("slot %s aliases %s, which is not a slot of the same file", s.name, t.alias)
			}
			t = nx
		}
		if s != t {
			s.base, s.off = t.base, t.off
		}
	}

	// the Load call: exactly one call  X.Load(name, frameSize, argSize, argPtrs, localPtrs)
	var loads []*ast.CallExpr
	ast.Inspect(f, func(n ast.Node) bool {
		if c, ok := n.(*ast.CallExpr); ok && len(c.Args) == 5 {
			if s, ok := c.Fun.(*ast.SelectorExpr); ok && s.Sel.Name == "Load" {
				loads = append(loads, c)
			}
		}
		return true
	})
	if len(loads) != 1 {
		die("%s: expected exactly one 5-argument Load call, found %d", asmPath, len(loads))
	}
	lc := loads[0]
	fr.loadFrame = toInt(e.eval(lc.Args[1]), "Load frame size")
	fr.loadArgs = toInt(e.eval(lc.Args[2]), "Load arg size")
	fr.loadArgPtrs = exprName(lc.Args[3])
	fr.loadLocalPtrs = exprName(lc.Args[4])
	for _, p := range []struct {
		name string
		dst  *[]bool
	}{{fr.loadArgPtrs, &fr.argPtrs}, {fr.loadLocalPtrs, &fr.localPtrs}} {
		x, ok := ptrVars[p.name]
		if !ok {
			die("%s: Load is given %s, which is not one of the []bool maps this extractor reads", pos(lc), p.name)
		}
		*p.dst = boolList(x, p.name)
	}
	return fr
}

// ---------------------------------------------------------------------------- signatures

type word struct {
	name string
	ptr  bool
}

func typeWords(name string, t ast.Expr) []word {
	switch v := t.(type) {
	case *ast.Ident:
		switch v.Name {
		case "string":
			return []word{{name + ".ptr", true}, {name + ".len", false}}
		case "int", "int64", "uint", "uint64", "uintptr":
			return []word{{name, false}}
		case "error":
			return []word{{name + ".tab", true}, {name + ".data", true}}
		}
		die("%s: parameter type %s is not one this extractor knows the word layout of", pos(t), v.Name)
	case *ast.StarExpr:
		return []word{{name, true}}
	case *ast.SelectorExpr:
		if exprName(v) == "unsafe.Pointer" {
			return []word{{name, true}}
		}
		die("%s: parameter type %s is not one this extractor knows the word layout of", pos(t), exprName(v))
	case *ast.ArrayType:
		if v.Len == nil {
			return []word{{name + ".ptr", true}, {name + ".len", false}, {name + ".cap", false}}
		}
	case *ast.InterfaceType:
		return []word{{name + ".tab", true}, {name + ".data", true}}
	}
	die("%s: unsupported parameter type (%T)", pos(t), t)
	return nil
}

func fieldWords(fl *ast.FieldList, anon string) []word {
	var out []word
	if fl == nil {
		return out
	}
	k := 0
	for _, f := range fl.List {
		if len(f.Names) == 0 {
			out = append(out, typeWords(anon+strconv.Itoa(k), f.Type)...)
			k++
			continue
		}
		for _, n := range f.Names {
			out = append(out, typeWords(n.Name, f.Type)...)
		}
	}
	return out
}

func funcType(files []string, name string) (args, results []word) {
	found := 0
	for _, p := range files {
		f := parse(p)
		for _, d := range f.Decls {
			gd, ok := d.(*ast.GenDecl)
			if !ok || gd.Tok != token.TYPE {
				continue
			}
			for _, s := range gd.Specs {
				ts := s.(*ast.TypeSpec)
				if ts.Name.Name != name {
					continue
				}
				ft, ok := ts.Type.(*ast.FuncType)
				if !ok {
					die("%s: type %s is not a func type", pos(ts), name)
				}
				found++
				args = fieldWords(ft.Params, "a")
				results = fieldWords(ft.Results, "r")
			}
		}
	}
	if found != 1 {
		die("type %s: expected one declaration in %v, found %d", name, files, found)
	}
	return
}

// ---------------------------------------------------------------------------- natives

type native struct {
	isa, name          string
	entry, size, stack int64
	pcsp               [][2]int64
}

func readNatives(dir, isa string) []native {
	paths, _ := filepath.Glob(filepath.Join(dir, "*_subr.go"))
	sort.Strings(paths)
	if len(paths) == 0 {
		die("no *_subr.go under %s", dir)
	}
	var out []native
	for _, p := range paths {
		f := parse(p)
		e := newEnv()
		e.addFile(f)
		_, vals := pkgVars(f)
		var fns []string
		for n := range vals {
			if strings.HasPrefix(n, "_pcsp__") {
				fns = append(fns, strings.TrimPrefix(n, "_pcsp__"))
			}
		}
		sort.Strings(fns)
		if len(fns) == 0 {
			die("%s: no _pcsp__ table", p)
		}
		for _, fn := range fns {
			nv := native{isa: isa, name: fn, entry: e.nat("_entry__" + fn), size: e.nat("_size__" + fn), stack: e.nat("_stack__" + fn)}
			cl, ok := vals["_pcsp__"+fn].(*ast.CompositeLit)
			if !ok {
				die("%s: _pcsp__%s is not a composite literal", p, fn)
			}
			at, ok := cl.Type.(*ast.ArrayType)
			if !ok || at.Len != nil {
				die("%s: _pcsp__%s is not a slice", p, fn)
			}
			in, ok := at.Elt.(*ast.ArrayType)
			if !ok || in.Len == nil || toInt(e.eval(in.Len), "len") != 2 {
				die("%s: _pcsp__%s is not [][2]uint32", p, fn)
			}
			if id, ok := in.Elt.(*ast.Ident); !ok || id.Name != "uint32" {
				die("%s: _pcsp__%s is not [][2]uint32", p, fn)
			}
			for _, el := range cl.Elts {
				pair, ok := el.(*ast.CompositeLit)
				if !ok || len(pair.Elts) != 2 {
					die("%s: entry of _pcsp__%s is not a pair", pos(el), fn)
				}
				pc := toInt(e.eval(pair.Elts[0]), "pc")
				sp := toInt(e.eval(pair.Elts[1]), "sp")
				if pc < 0 || pc >= 1<<32 || sp < 0 || sp >= 1<<32 {
					die("%s: entry of _pcsp__%s outside uint32", pos(el), fn)
				}
				// WrapGoC reinterprets [2]uint32 as Pcvalue{PC uint32; Val int32}
				if sp >= 1<<31 {
					sp -= 1 << 32
				}
				nv.pcsp = append(nv.pcsp, [2]int64{pc, sp})
			}
			out = append(out, nv)
		}
	}
	return out
}

// ---------------------------------------------------------------------------- MoreStack

func goFiles(dir string, recursive bool) []string {
	var out []string
	walk := func(p string, info os.FileInfo, err error) error {
		if err != nil {
			return err
		}
		if info.IsDir() {
			if p != dir && !recursive {
				return filepath.SkipDir
			}
			return nil
		}
		if strings.HasSuffix(p, ".go") && !strings.HasSuffix(p, "_test.go") {
			out = append(out, p)
		}
		return nil
	}
	if err := filepath.Walk(dir, walk); err != nil {
		die("walking %s: %v", dir, err)
	}
	sort.Strings(out)
	return out
}

func moreStackCalls(files []string) (calls []*ast.CallExpr) {
	for _, p := range files {
		f := parse(p)
		ast.Inspect(f, func(n ast.Node) bool {
			if c, ok := n.(*ast.CallExpr); ok {
				if s, ok := c.Fun.(*ast.SelectorExpr); ok && s.Sel.Name == "MoreStack" {
					calls = append(calls, c)
				}
			}
			return true
		})
	}
	return
}

// ---------------------------------------------------------------------------- output

func leanBools(b []bool) string {
	s := make([]string, len(b))
	for i, v := range b {
		s[i] = strconv.FormatBool(v)
	}
	return "[" + strings.Join(s, ", ") + "]"
}

func leanStrings(b []string) string {
	s := make([]string, len(b))
	for i, v := range b {
		s[i] = strconv.Quote(v)
	}
	return "[" + strings.Join(s, ", ") + "]"
}

func leanInt(v int64) string {
	if v < 0 {
		return "(" + strconv.FormatInt(v, 10) + ")"
	}
	return strconv.FormatInt(v, 10)
}

func leanWords(w []word) string {
	s := make([]string, len(w))
	for i, v := range w {
		s[i] = fmt.Sprintf("⟨%s, %v⟩", strconv.Quote(v.name), v.ptr)
	}
	return "[" + strings.Join(s, ", ") + "]"
}

func emitFrame(b *strings.Builder, fr *frame) {
	fmt.Fprintf(b, "def %sConsts : List (String × Int) :=\n  [", fr.lean)
	for i, c := range fr.consts {
		if i > 0 {
			b.WriteString(", ")
		}
		v, _ := strconv.ParseInt(c[1], 10, 64)
		fmt.Fprintf(b, "(%s, %s)", strconv.Quote(c[0]), leanInt(v))
	}
	b.WriteString("]\n\n")
	fmt.Fprintf(b, "def %sFrame : Frame :=\n  { name := %s\n", fr.lean, strconv.Quote(fr.lean))
	fmt.Fprintf(b, "    fpArgs := %d, fpFargs := %d, fpSaves := %d, fpLocals := %d\n", fr.args, fr.fargs, fr.saves, fr.locals)
	if fr.hasBase {
		fmt.Fprintf(b, "    fpOffs := %d, fpSize := %d, fpBase := some %d\n", fr.offs, fr.size, fr.base)
	} else {
		fmt.Fprintf(b, "    fpOffs := %d, fpSize := %d, fpBase := none\n", fr.offs, fr.size)
	}
	b.WriteString("    slots := [\n")
	for i, s := range fr.slots {
		al := "none"
		if s.alias != "" {
			al = "some " + strconv.Quote(s.alias)
		}
		sep := ","
		if i == len(fr.slots)-1 {
			sep = ""
		}
		fmt.Fprintf(b, "      { name := %s, off := %d, base := .%s, aliasOf := %s }%s\n", strconv.Quote(s.name), s.off, s.base, al, sep)
	}
	b.WriteString("    ]\n")
	fmt.Fprintf(b, "    argPtrs := %s\n    localPtrs := %s }\n\n", leanBools(fr.argPtrs), leanBools(fr.localPtrs))
	fmt.Fprintf(b, "/-- what the assembler passes to `Load`: frame size, argument size, names of the two pointer maps -/\n")
	fmt.Fprintf(b, "def %sLoadFrameSize : Nat := %d\ndef %sLoadArgSize : Nat := %d\ndef %sLoadPtrMaps : List String := %s\n\n",
		fr.lean, fr.loadFrame, fr.lean, fr.loadArgs, fr.lean, leanStrings([]string{fr.loadArgPtrs, fr.loadLocalPtrs}))
}

// je0: constants of the given files
func je0(paths ...string) *env {
	e := newEnv()
	for _, p := range paths {
		e.addFile(parse(p))
	}
	return e
}

func main() {
	if len(os.Args) != 2 {
		die("usage: factx_frames <repo root>")
	}
	root := os.Args[1]
	in := func(p string) string { return filepath.Join(root, filepath.FromSlash(p)) }

	jitdec := in("internal/decoder/jitdec")
	decAsm := filepath.Join(jitdec, "assembler_regabi_amd64.go")
	genAsm := filepath.Join(jitdec, "generic_regabi_amd64.go")
	pools := filepath.Join(jitdec, "pools.go")
	encAsm := in("internal/encoder/x86/assembler_regabi_amd64.go")
	encVars := in("internal/encoder/vars")
	dispatch := in("internal/native/dispatch_amd64.go")

	// pointer maps by the name the Load calls use
	ptrVars := map[string]ast.Expr{}
	_, pv := pkgVars(parse(pools))
	for _, n := range []string{"argPtrs", "localPtrs", "argPtrs_generic", "localPtrs_generic"} {
		x, ok := pv[n]
		if !ok {
			die("%s: no var %s", pools, n)
		}
		ptrVars[n] = x
	}
	stack := filepath.Join(encVars, "stack.go")
	_, sv := pkgVars(parse(stack))
	for _, n := range []string{"ArgPtrs", "LocalPtrs"} {
		x, ok := sv[n]
		if !ok {
			die("%s: no var %s", stack, n)
		}
		ptrVars["vars."+n] = x
	}

	dec := readFrame("dec", decAsm, "FP", ptrVars)
	gen := readFrame("gen", genAsm, "VD", ptrVars)
	enc := readFrame("enc", encAsm, "FP", ptrVars)

	decArgs, decRes := funcType([]string{pools}, "_Decoder")
	encArgs, encRes := funcType(goFiles(encVars, false), "Encoder")

	// native.MaxFrameSize
	ne := newEnv()
	ne.addFile(parse(dispatch))
	maxFrame := ne.nat("MaxFrameSize")

	// rt.MoreStack(<expr>) under internal/decoder/jitdec
	je := newEnv()
	je.addFile(parse(decAsm))
	je.addFile(parse(genAsm))
	je.pkgs["native"] = ne
	calls := moreStackCalls(goFiles(jitdec, false))
	if len(calls) != 1 || len(calls[0].Args) != 1 {
		die("expected exactly one MoreStack(<expr>) call under %s, found %d", jitdec, len(calls))
	}
	if exprName(calls[0].Fun) != "rt.MoreStack" {
		die("%s: MoreStack is not rt.MoreStack", pos(calls[0]))
	}
	var terms []string
	je.idents = &terms
	req := toInt(je.eval(calls[0].Args[0]), "MoreStack request")
	je.idents = nil
	encCalls := moreStackCalls(goFiles(in("internal/encoder"), true))

	natives := append(readNatives(in("internal/native/avx2"), "avx2"), readNatives(in("internal/native/sse"), "sse")...)

	var b strings.Builder
	b.WriteString("/- GENERATED by go/factx_frames from the repository tree - do not edit, never committed.\n")
	b.WriteString("   Frame constants, named stack slots, pointer maps, func-type word layouts, stack pre-growth\n")
	b.WriteString("   request and native pc-sp tables, as the source says them now. -/\n")
	b.WriteString("import SonicSpec.Model.Loader\nnamespace SonicSpec.Generated.Frames\nopen SonicSpec.Loader\n\n")
	b.WriteString("/-! decoder: internal/decoder/jitdec/assembler_regabi_amd64.go + pools.go -/\n")
	emitFrame(&b, dec)
	b.WriteString("/-! generic decoder (`decode_value`): internal/decoder/jitdec/generic_regabi_amd64.go -/\n")
	emitFrame(&b, gen)
	b.WriteString("/-! encoder: internal/encoder/x86/assembler_regabi_amd64.go + internal/encoder/vars/stack.go -/\n")
	emitFrame(&b, enc)
	b.WriteString("/-! emitting code of the three assemblers: what writes SP, and where -/\n")
	emitCodeShape(&b, readCodeShape("dec", jitdec, "_Assembler", je0(decAsm, genAsm)))
	emitCodeShape(&b, readCodeShape("gen", jitdec, "_ValueDecoder", je0(decAsm, genAsm)))
	emitCodeShape(&b, readCodeShape("enc", filepath.Dir(encAsm), "Assembler", je0(encAsm)))
	emitEncoderState(&b, encVars, encAsm)
	emitLoadFunc(&b, in("loader"))
	emitAllocs(&b, root)
	b.WriteString("/-- words of `type _Decoder func(...)` (jitdec/pools.go), in order -/\n")
	fmt.Fprintf(&b, "def decoderSigArgs : List SigWord := %s\ndef decoderSigResults : List SigWord := %s\n\n", leanWords(decArgs), leanWords(decRes))
	b.WriteString("/-- words of `type Encoder func(...)` (internal/encoder/vars) -/\n")
	fmt.Fprintf(&b, "def encoderSigArgs : List SigWord := %s\ndef encoderSigResults : List SigWord := %s\n\n", leanWords(encArgs), leanWords(encRes))
	fmt.Fprintf(&b, "/-- `native.MaxFrameSize` (internal/native/dispatch_amd64.go) -/\ndef nativeMaxFrameSize : Nat := %d\n\n", maxFrame)
	fmt.Fprintf(&b, "/-- the one `rt.MoreStack(<expr>)` under internal/decoder/jitdec (%s), evaluated, and the names it sums -/\n", filepath.Base(fset.Position(calls[0].Pos()).Filename))
	if req < 0 {
		die("MoreStack request is negative")
	}
	fmt.Fprintf(&b, "def moreStackRequest : Nat := %d\ndef moreStackTerms : List String := %s\n", req, leanStrings(terms))
	fmt.Fprintf(&b, "/-- number of `MoreStack` calls under internal/encoder (the encoder does not pre-grow) -/\ndef encoderMoreStackCalls : Nat := %d\n\n", len(encCalls))
	b.WriteString("/-- native routines: entry, text size, maximum stack depth and pc-sp table (`[2]uint32` read as\n    `Pcvalue{PC uint32; Val int32}`, the cast `WrapGoC` does) of every `*_subr.go` -/\n")
	b.WriteString("def natives : List NativeFn := [\n")
	for i, n := range natives {
		ps := make([]string, len(n.pcsp))
		for k, e := range n.pcsp {
			ps[k] = fmt.Sprintf("⟨%d, %s⟩", e[0], leanInt(e[1]))
		}
		sep := ","
		if i == len(natives)-1 {
			sep = ""
		}
		fmt.Fprintf(&b, "  { isa := %s, name := %s, entry := %d, size := %d, stack := %d,\n    pcsp := [%s] }%s\n",
			strconv.Quote(n.isa), strconv.Quote(n.name), n.entry, n.size, n.stack, strings.Join(ps, ", "), sep)
	}
	b.WriteString("]\n\nend SonicSpec.Generated.Frames\n")
	os.Stdout.WriteString(b.String())
}
