module factx_frames

go 1.18
