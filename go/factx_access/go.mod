module factx_access

go 1.18
