// Command factx_access re-reads ast/node.go, ast/encode.go and ast/parser.go of a sonic tree and
// prints, for every function with an ast.Node receiver (plus a few listed plain functions), the
// ORDERED list of what the body does to the receiver: atomic.* calls on receiver fields,
// Lock/Unlock/RLock/RUnlock on the receiver's mutex, plain reads/writes of the fields t/l/p/m,
// whole-struct reads/writes (*self), calls of other receiver methods, and the branch structure
// flattened with markers.  The result is a Lean data file (Generated/Access.lean) that the
// property-C16 model is compiled from (SonicSpec.RW.lower).
//
// The children containers (linkedNodes / linkedPairs, ast/buffer.go) are followed as well: their
// methods are listed under "linkedPairs.Get" etc. with every access to their fields, to the chunks
// and to the hash index printed as a read / write of the pseudo field `c` ("memory reachable
// through p"), and a *Node method that calls into a container it obtained from `self.p` gets a
// `.call "linkedPairs.Get"` event - so a write to shared structure inside a documented read path
// (e.g. an index built lazily by Get) shows up in the read operation's program.
// `parser.Parse()` on a local parser inside a *Node method is printed as `.parse` (it builds the
// children and their container).
//
// Stdlib only (go/ast, go/parser, go/token).  Purely syntactic and order-preserving; it fails
// loudly (exit status 2) on any statement or expression shape it does not know.
//
//	usage: factx_access <repo root> <output .lean file>
package main

import (
	"bytes"
	"fmt"
	"go/ast"
	"go/parser"
	"go/printer"
	"go/token"
	"os"
	"path/filepath"
	"sort"
	"strings"
)

// the three files the property anchors, plus the other files of package ast that declare methods
// on Node which the listed functions call (encodeInterface, getParserAnd*Stack, Error, iterators)
var files = []string{"ast/node.go", "ast/encode.go", "ast/parser.go", "ast/api.go", "ast/buffer.go", "ast/error.go", "ast/iterator.go"}

// plain (receiver-less) functions and Parser methods that are listed as well: only the
// construction facts (newRawNode lock argument, lazy constructors, mutex allocation) matter there.
var plainFuncs = map[string]bool{"NewRaw": true, "NewRawConcurrentRead": true, "newRawNode": true, "newObject": true, "newArray": true}
var parserMethods = map[string]bool{"Parse": true, "decodeArray": true, "decodeObject": true}

var fset = token.NewFileSet()

func die(pos token.Pos, format string, a ...interface{}) {
	fmt.Fprintf(os.Stderr, "factx_access: %s: unrecognised shape: %s\n", fset.Position(pos), fmt.Sprintf(format, a...))
	os.Exit(2)
}

func src(n ast.Node) string {
	var b bytes.Buffer
	printer.Fprint(&b, fset, n)
	return b.String()
}

type fn struct {
	name   string
	file   string
	line   int
	events []string
}

// walker state for one function body
type walker struct {
	fname    string
	recv     string          // receiver identifier ("" for plain functions)
	nodeRecv bool            // receiver is Node / *Node
	valRecv  bool            // receiver by value
	alias    map[string]bool // local identifiers that currently alias the receiver pointer
	mutex    map[string]bool // local identifiers holding recv.m
	tvar     map[string]bool // local identifiers holding recv.loadt()
	lockvar  map[string]bool // local identifiers holding the result of recv.lock()/rlock()
	lazyvar  map[string]bool // local identifiers holding the result of recv.isLazy()
	parsers  map[string]bool // local identifiers holding a Parser
	perr     map[string]bool // local identifiers holding the ParsingError of parser.Parse()
	params   map[string]bool // bool parameters of the function
	contRecv bool              // receiver is *linkedNodes / *linkedPairs
	contType string            // its type name
	contVars map[string]string // identifiers (locals, parameters) of type *linkedNodes / *linkedPairs
	contPtr  map[string]bool   // locals pointing into container memory (&self.tail[a], self.At(i))
	labels   map[string]token.Pos
	ev       []string
}

func (w *walker) emit(s string) { w.ev = append(w.ev, s) }

func (w *walker) isRecv(e ast.Expr) bool {
	e = unparen(e)
	id, ok := e.(*ast.Ident)
	return ok && w.recv != "" && (id.Name == w.recv || w.alias[id.Name])
}

func unparen(e ast.Expr) ast.Expr {
	for {
		p, ok := e.(*ast.ParenExpr)
		if !ok {
			return e
		}
		e = p.X
	}
}

var fields = map[string]bool{"t": true, "l": true, "p": true, "m": true}

// recvField returns the field name if e is recv.<t|l|p|m>
func (w *walker) recvField(e ast.Expr) (string, bool) {
	e = unparen(e)
	s, ok := e.(*ast.SelectorExpr)
	if ok && w.contRecv && w.isRecv(s.X) {
		return "c", true // any field of the container: index, head, tail, size
	}
	if ok && !w.contRecv {
		// x.size etc. on a container-typed local / parameter
		if id, isId := unparen(s.X).(*ast.Ident); isId && w.contVars[id.Name] != "" && !w.isRecv(s.X) {
			return "c", true
		}
	}
	if !ok || !w.isRecv(s.X) || !w.nodeRecv {
		return "", false
	}
	if fields[s.Sel.Name] {
		return s.Sel.Name, true
	}
	return "", false
}

// contName: the container type an expression of the form *linkedNodes / *linkedPairs names
func contName(t ast.Expr) string {
	t = unparen(t)
	if s, ok := t.(*ast.StarExpr); ok {
		t = unparen(s.X)
	}
	if id, ok := t.(*ast.Ident); ok && (id.Name == "linkedNodes" || id.Name == "linkedPairs") {
		return id.Name
	}
	return ""
}

// contTypeOf: e is a children container - the receiver of a container method, a container-typed
// identifier, a conversion (*linkedPairs)(x) or new(linkedPairs)
func (w *walker) contTypeOf(e ast.Expr) string {
	e = unparen(e)
	if w.contRecv && w.isRecv(e) {
		return w.contType
	}
	switch x := e.(type) {
	case *ast.Ident:
		return w.contVars[x.Name]
	case *ast.CallExpr:
		if len(x.Args) == 1 {
			if _, isStar := unparen(x.Fun).(*ast.StarExpr); isStar {
				return contName(x.Fun)
			}
			if id, ok := unparen(x.Fun).(*ast.Ident); ok && id.Name == "new" {
				return contName(x.Args[0])
			}
		}
	}
	return ""
}

// contRooted: an assignment target inside container memory: self.size, self.index[k], self.tail[a][b],
// *n / (*n)[b] for n := &self.tail[a]
func (w *walker) contRooted(e ast.Expr) bool {
	deref := false
	for {
		e = unparen(e)
		if f, ok := w.recvField(e); ok && f == "c" {
			return true
		}
		switch x := e.(type) {
		case *ast.IndexExpr:
			e = x.X
			deref = true
		case *ast.StarExpr:
			e = x.X
			deref = true
		case *ast.SelectorExpr:
			if id, ok := unparen(x.X).(*ast.Ident); ok && w.contPtr[id.Name] {
				return true
			}
			return false
		case *ast.Ident:
			// the pointer variable itself is a local; only what it points to is container memory
			return deref && w.contPtr[x.Name]
		default:
			return false
		}
	}
}

func (w *walker) isStarRecv(e ast.Expr) bool {
	e = unparen(e)
	s, ok := e.(*ast.StarExpr)
	return ok && w.isRecv(s.X) && w.nodeRecv
}

func boolArg(args []ast.Expr, params map[string]bool) string {
	for _, a := range args {
		if id, ok := unparen(a).(*ast.Ident); ok {
			switch {
			case id.Name == "true":
				return ".tru"
			case id.Name == "false":
				return ".fls"
			case params[id.Name]:
				return ".dyn"
			}
		}
	}
	return ".none"
}

// expr walks an expression in evaluation order and emits the receiver-related events
func (w *walker) expr(e ast.Expr) {
	switch x := e.(type) {
	case nil:
	case *ast.BasicLit, *ast.FuncLit:
		if fl, ok := e.(*ast.FuncLit); ok {
			// a closure capturing the receiver cannot be ordered syntactically
			ast.Inspect(fl.Body, func(n ast.Node) bool {
				if id, ok := n.(*ast.Ident); ok && w.recv != "" && (id.Name == w.recv || w.alias[id.Name]) {
					die(id.Pos(), "receiver used inside a function literal in %s", w.fname)
				}
				return true
			})
		}
	case *ast.Ident:
		// a bare receiver identifier is a pointer copy (no field access); value receivers are copies anyway
	case *ast.ParenExpr:
		w.expr(x.X)
	case *ast.SelectorExpr:
		if f, ok := w.recvField(x); ok {
			w.emit(".rd ." + f)
			return
		}
		if id, ok := unparen(x.X).(*ast.Ident); ok && w.contPtr[id.Name] {
			w.emit(".rd .c")
			return
		}
		w.expr(x.X)
	case *ast.StarExpr:
		if w.isStarRecv(x) {
			w.emit(".rdAll")
			return
		}
		if id, ok := unparen(x.X).(*ast.Ident); ok && w.contPtr[id.Name] {
			w.emit(".rd .c")
			return
		}
		w.expr(x.X)
	case *ast.UnaryExpr:
		if x.Op == token.AND {
			if f, ok := w.recvField(x.X); ok && f != "c" {
				die(x.Pos(), "address of a receiver field taken outside atomic.* in %s", w.fname)
			}
		}
		w.expr(x.X)
	case *ast.BinaryExpr:
		w.expr(x.X)
		w.expr(x.Y)
	case *ast.IndexExpr:
		w.expr(x.X)
		w.expr(x.Index)
	case *ast.SliceExpr:
		w.expr(x.X)
		w.expr(x.Low)
		w.expr(x.High)
		w.expr(x.Max)
	case *ast.TypeAssertExpr:
		w.expr(x.X)
	case *ast.KeyValueExpr:
		w.expr(x.Value)
	case *ast.CompositeLit:
		for _, el := range x.Elts {
			w.expr(el)
		}
	case *ast.CallExpr:
		w.call(x, false)
	case *ast.ArrayType, *ast.MapType, *ast.InterfaceType, *ast.StructType, *ast.FuncType, *ast.ChanType:
	default:
		die(e.Pos(), "expression %T in %s", e, w.fname)
	}
}

func (w *walker) call(c *ast.CallExpr, setsLock bool) {
	fun := unparen(c.Fun)
	// conversions / builtins written as identifiers or types
	switch f := fun.(type) {
	case *ast.SelectorExpr:
		// atomic.X(&recv.f, ...)
		if pk, ok := f.X.(*ast.Ident); ok && pk.Name == "atomic" {
			if len(c.Args) == 0 {
				die(c.Pos(), "atomic call without arguments")
			}
			u, ok := unparen(c.Args[0]).(*ast.UnaryExpr)
			if ok && u.Op == token.AND {
				if fld, ok := w.recvField(u.X); ok {
					for _, a := range c.Args[1:] {
						w.expr(a)
					}
					switch {
					case strings.HasPrefix(f.Sel.Name, "Load"):
						w.emit(".aload ." + fld)
					case strings.HasPrefix(f.Sel.Name, "Store"):
						w.emit(".astore ." + fld)
					default:
						die(c.Pos(), "atomic.%s on receiver field %s", f.Sel.Name, fld)
					}
					return
				}
			}
			for _, a := range c.Args {
				w.expr(a)
			}
			return
		}
		// mutex operations on a local copy of recv.m, or directly on recv.m
		if id, ok := unparen(f.X).(*ast.Ident); ok && w.mutex[id.Name] {
			switch f.Sel.Name {
			case "Lock", "Unlock", "RLock", "RUnlock":
				w.emit(".mcall ." + f.Sel.Name)
				return
			}
			die(c.Pos(), "mutex method %s", f.Sel.Name)
		}
		if fld, ok := w.recvField(f.X); ok && fld == "m" {
			switch f.Sel.Name {
			case "Lock", "Unlock", "RLock", "RUnlock":
				w.emit(".rd .m")
				w.emit(".mcall ." + f.Sel.Name)
				return
			}
			die(c.Pos(), "mutex method %s", f.Sel.Name)
		}
		// receiver method call
		if w.isRecv(f.X) {
			for _, a := range c.Args {
				w.expr(a)
			}
			if w.valRecv {
				// methods called on a by-value copy do not touch the shared node
				w.emit(fmt.Sprintf(".callCopy %q", f.Sel.Name))
				return
			}
			kind := ".call"
			if setsLock {
				kind = ".callSet"
			}
			if w.contRecv {
				w.emit(fmt.Sprintf(".call %q .none", w.contType+"."+f.Sel.Name))
				return
			}
			w.emit(fmt.Sprintf("%s %q %s", kind, f.Sel.Name, boolArg(c.Args, w.params)))
			return
		}
		// method of a children container: (*linkedPairs)(self.p).Get(k), s.At(i), self.BuildIndex()
		if ct := w.contTypeOf(f.X); ct != "" {
			if conv, ok := unparen(f.X).(*ast.CallExpr); ok {
				for _, a := range conv.Args {
					w.expr(a)
				}
			}
			for _, a := range c.Args {
				w.expr(a)
			}
			w.emit(fmt.Sprintf(".call %q .none", ct+"."+f.Sel.Name))
			return
		}
		// parser.Parse() / decodeArray / decodeObject on a local parser inside a *Node method: builds the
		// children and their container
		if w.nodeRecv && (f.Sel.Name == "Parse" || f.Sel.Name == "decodeArray" || f.Sel.Name == "decodeObject") {
			if id, ok := unparen(f.X).(*ast.Ident); ok && !w.isRecv(id) {
				for _, a := range c.Args {
					w.argExpr(a, f.Sel.Name)
				}
				w.emit(".parse")
				return
			}
		}
		// other methods on a local parser etc.: not the receiver; arguments may mention it
		w.expr(f.X)
		for _, a := range c.Args {
			w.argExpr(a, f.Sel.Name)
		}
		return
	case *ast.Ident:
		switch f.Name {
		case "newRawNode":
			for _, a := range c.Args {
				w.expr(a)
			}
			if len(c.Args) != 3 {
				die(c.Pos(), "newRawNode with %d arguments", len(c.Args))
			}
			la := ".dyn"
			if id, ok := unparen(c.Args[2]).(*ast.Ident); ok {
				if id.Name == "true" {
					la = ".tru"
				} else if id.Name == "false" {
					la = ".fls"
				}
			}
			w.emit(".newRaw " + la)
			return
		case "newLazyArray", "newLazyObject":
			w.emit(".newLazy")
			return
		case "panic":
			for _, a := range c.Args {
				w.expr(a)
			}
			w.emit(".panic")
			return
		case "delete", "copy":
			if len(c.Args) >= 1 && w.contRooted(c.Args[0]) {
				for _, a := range c.Args[1:] {
					w.expr(a)
				}
				w.emit(".wr .c")
				return
			}
		}
		for _, a := range c.Args {
			w.argExpr(a, f.Name)
		}
		return
	case *ast.ArrayType, *ast.MapType, *ast.StarExpr, *ast.InterfaceType, *ast.FuncLit, *ast.IndexExpr, *ast.CallExpr:
		// conversion such as (*linkedNodes)(self.p) or a call of a call
		if fl, ok := fun.(*ast.FuncLit); ok {
			w.expr(fl)
		}
		if ce, ok := fun.(*ast.CallExpr); ok {
			w.call(ce, false)
		}
		for _, a := range c.Args {
			w.expr(a)
		}
		return
	}
	die(c.Pos(), "call %s in %s", src(c.Fun), w.fname)
}

// argExpr: an argument of a call to something that is not a receiver method; handing the
// receiver pointer itself to such a function lets it escape the syntactic analysis
func (w *walker) argExpr(a ast.Expr, callee string) {
	if w.isRecv(a) && w.nodeRecv && !w.valRecv {
		w.emit(fmt.Sprintf(".escape %q", callee))
		return
	}
	w.expr(a)
}

// cond classifies an if-condition; the events of the calls inside it are emitted by the caller first
func (w *walker) cond(e ast.Expr) (string, bool) {
	e = unparen(e)
	if u, ok := e.(*ast.UnaryExpr); ok && u.Op == token.NOT {
		c, n := w.cond(u.X)
		if c == ".opaque" {
			return c, false
		}
		return c, !n
	}
	if id, ok := e.(*ast.Ident); ok {
		if w.lockvar[id.Name] {
			return ".lockVar", false
		}
		if w.params[id.Name] {
			return ".param", false
		}
		if w.lazyvar[id.Name] {
			return ".lazy", false
		}
	}
	if c, ok := e.(*ast.CallExpr); ok {
		if s, ok := unparen(c.Fun).(*ast.SelectorExpr); ok && w.isRecv(s.X) && w.nodeRecv && len(c.Args) == 0 {
			switch s.Sel.Name {
			case "isRaw":
				return ".raw", false
			case "isLazy":
				return ".lazy", false
			case "isAny":
				return ".tAny", false
			}
		}
	}
	if s, ok := e.(*ast.SelectorExpr); ok && !w.nodeRecv {
		// parser flags (in Parser methods the receiver is the parser)
		if id, ok := s.X.(*ast.Ident); ok && id.Name == w.recv {
			switch s.Sel.Name {
			case "noLazy":
				return ".pNoLazy", false
			case "loadOnce":
				return ".pLoadOnce", false
			case "skipValue":
				return ".pSkipValue", false
			}
		}
	}
	if b, ok := e.(*ast.BinaryExpr); ok && (b.Op == token.EQL || b.Op == token.NEQ) {
		neg := b.Op == token.EQL
		x, y := unparen(b.X), unparen(b.Y)
		isNil := func(e ast.Expr) bool { id, ok := e.(*ast.Ident); return ok && id.Name == "nil" }
		isZero := func(e ast.Expr) bool { l, ok := e.(*ast.BasicLit); return ok && l.Value == "0" }
		isName := func(e ast.Expr, n string) bool { id, ok := e.(*ast.Ident); return ok && id.Name == n }
		// self == nil / self != nil          (.selfNil is "self == nil")
		if w.isRecv(x) && isNil(y) && !w.valRecv {
			return ".selfNil", !neg
		}
		// m != nil for m := self.m           (.mNonNil is "m != nil")
		if id, ok := x.(*ast.Ident); ok && w.mutex[id.Name] && isNil(y) {
			return ".mNonNil", neg
		}
		// t == V_ERROR for t := self.loadt()  (.tErr is "t == V_ERROR")
		if id, ok := x.(*ast.Ident); ok && w.tvar[id.Name] && isName(y, "V_ERROR") {
			return ".tErr", !neg
		}
		// t&_V_RAW != 0                      (.raw is "raw bit set")
		if bb, ok := x.(*ast.BinaryExpr); ok && bb.Op == token.AND && isZero(y) {
			if id, ok := unparen(bb.X).(*ast.Ident); ok && w.tvar[id.Name] && isName(bb.Y, "_V_RAW") {
				return ".raw", neg
			}
		}
		// e != 0 for _, e = parser.Parse()   (.parseErr is "e != 0")
		if id, ok := x.(*ast.Ident); ok && w.perr[id.Name] && isZero(y) {
			return ".parseErr", neg
		}
	}
	return ".opaque", false
}

func bstr(b bool) string {
	if b {
		return "true"
	}
	return "false"
}

// track what a := / = assignment binds
func (w *walker) bind(lhs []ast.Expr, rhs []ast.Expr) {
	// kill aliases that are overwritten
	for _, l := range lhs {
		if id, ok := unparen(l).(*ast.Ident); ok {
			delete(w.alias, id.Name)
			delete(w.mutex, id.Name)
			delete(w.tvar, id.Name)
			delete(w.lockvar, id.Name)
			delete(w.lazyvar, id.Name)
			delete(w.contPtr, id.Name)
		}
	}
	if len(lhs) == 1 && len(rhs) == 1 {
		id, ok := unparen(lhs[0]).(*ast.Ident)
		if !ok {
			return
		}
		r := unparen(rhs[0])
		if ct := w.contTypeOf(r); ct != "" && !(w.contRecv && w.isRecv(r)) {
			w.contVars[id.Name] = ct
		}
		if w.contRecv {
			// pointers into the container's memory
			if u, ok := r.(*ast.UnaryExpr); ok && u.Op == token.AND && w.contRooted(u.X) {
				w.contPtr[id.Name] = true
			}
			if c, ok := r.(*ast.CallExpr); ok {
				if sel, ok := unparen(c.Fun).(*ast.SelectorExpr); ok && w.isRecv(sel.X) && sel.Sel.Name == "At" {
					w.contPtr[id.Name] = true
				}
			}
		}
		if w.isRecv(r) && !w.valRecv {
			w.alias[id.Name] = true
			return
		}
		if f, ok := w.recvField(r); ok && f == "m" {
			w.mutex[id.Name] = true
			return
		}
		if c, ok := r.(*ast.CallExpr); ok {
			if s, ok := unparen(c.Fun).(*ast.SelectorExpr); ok {
				if w.isRecv(s.X) {
					switch s.Sel.Name {
					case "loadt":
						w.tvar[id.Name] = true
					case "lock", "rlock":
						w.lockvar[id.Name] = true
					case "isLazy":
						w.lazyvar[id.Name] = true
					}
				}
			}
			if fid, ok := unparen(c.Fun).(*ast.Ident); ok && (fid.Name == "NewParserObj" || fid.Name == "NewParser") {
				w.parsers[id.Name] = true
			}
		}
	}
	// `x, e = parser.Parse()`
	if len(lhs) == 2 && len(rhs) == 1 {
		if c, ok := unparen(rhs[0]).(*ast.CallExpr); ok {
			if s, ok := unparen(c.Fun).(*ast.SelectorExpr); ok && s.Sel.Name == "Parse" {
				if pid, ok := unparen(s.X).(*ast.Ident); ok && w.parsers[pid.Name] {
					if id, ok := unparen(lhs[1]).(*ast.Ident); ok {
						w.perr[id.Name] = true
					}
				}
			}
		}
	}
}

func (w *walker) assign(s *ast.AssignStmt) {
	// right-hand sides first (evaluation order), then the stores
	for _, r := range s.Rhs {
		if c, ok := unparen(r).(*ast.CallExpr); ok && len(s.Lhs) == 1 && len(s.Rhs) == 1 {
			if sel, ok := unparen(c.Fun).(*ast.SelectorExpr); ok && w.isRecv(sel.X) && (sel.Sel.Name == "lock" || sel.Sel.Name == "rlock") {
				w.call(c, true)
				continue
			}
		}
		w.expr(r)
	}
	if s.Tok != token.ASSIGN && s.Tok != token.DEFINE {
		// op-assignment reads the left side too
		for _, l := range s.Lhs {
			w.expr(l)
		}
	}
	for _, l := range s.Lhs {
		l = unparen(l)
		if w.contRooted(l) {
			w.emit(".wr .c")
			continue
		}
		if f, ok := w.recvField(l); ok {
			if w.valRecv {
				continue
			}
			w.emit(".wr ." + f)
			continue
		}
		if w.isStarRecv(l) {
			w.emit(".wrAll")
			continue
		}
		// parser.noLazy = true etc. on a local parser
		if sel, ok := l.(*ast.SelectorExpr); ok {
			if id, ok := sel.X.(*ast.Ident); ok && (w.parsers[id.Name] || (!w.nodeRecv && id.Name == w.recv)) {
				switch sel.Sel.Name {
				case "noLazy", "loadOnce", "skipValue":
					v := "?"
					if len(s.Rhs) == len(s.Lhs) {
						for i := range s.Lhs {
							if unparen(s.Lhs[i]) == l {
								v = src(s.Rhs[i])
							}
						}
					}
					if v != "true" && v != "false" {
						die(s.Pos(), "parser flag %s assigned a non-literal %s", sel.Sel.Name, v)
					}
					w.emit(fmt.Sprintf(".pset %q %s", sel.Sel.Name, v))
					continue
				}
			}
			// X.m = new(sync.RWMutex) on something else (newRawNode's result)
			if sel.Sel.Name == "m" {
				w.emit(".mkMutex")
				continue
			}
		}
		switch x := l.(type) {
		case *ast.Ident:
		case *ast.IndexExpr:
			w.expr(x.X)
			w.expr(x.Index)
		case *ast.SelectorExpr:
			w.expr(x.X)
		case *ast.StarExpr:
			w.expr(x.X)
		default:
			die(l.Pos(), "assignment target %T in %s", l, w.fname)
		}
	}
	w.bind(s.Lhs, s.Rhs)
}

func (w *walker) block(b *ast.BlockStmt) {
	if b == nil {
		return
	}
	for _, s := range b.List {
		w.stmt(s)
	}
}

// assignsOnEveryPath: does the statement list assign to identifier `name` on every path that
// falls through (paths ending in return/panic count as assigning)?
func assignsOnEveryPath(list []ast.Stmt, name string) bool {
	for _, s := range list {
		switch x := s.(type) {
		case *ast.AssignStmt:
			for _, l := range x.Lhs {
				if id, ok := unparen(l).(*ast.Ident); ok && id.Name == name {
					return true
				}
			}
		case *ast.ReturnStmt:
			return true
		case *ast.ExprStmt:
			if c, ok := x.X.(*ast.CallExpr); ok {
				if id, ok := c.Fun.(*ast.Ident); ok && id.Name == "panic" {
					return true
				}
			}
		case *ast.BlockStmt:
			if assignsOnEveryPath(x.List, name) {
				return true
			}
		case *ast.IfStmt:
			if x.Else != nil {
				var el []ast.Stmt
				switch e := x.Else.(type) {
				case *ast.BlockStmt:
					el = e.List
				default:
					el = []ast.Stmt{e}
				}
				if assignsOnEveryPath(x.Body.List, name) && assignsOnEveryPath(el, name) {
					return true
				}
			}
		case *ast.TypeSwitchStmt:
			all, hasDefault := true, false
			for _, cc := range x.Body.List {
				c := cc.(*ast.CaseClause)
				if c.List == nil {
					hasDefault = true
				}
				if !assignsOnEveryPath(c.Body, name) {
					all = false
				}
			}
			if all && hasDefault {
				return true
			}
		case *ast.SwitchStmt:
			all, hasDefault := true, false
			for _, cc := range x.Body.List {
				c := cc.(*ast.CaseClause)
				if c.List == nil {
					hasDefault = true
				}
				if !assignsOnEveryPath(c.Body, name) {
					all = false
				}
			}
			if all && hasDefault {
				return true
			}
		}
	}
	return false
}

func usesIdent(n ast.Node, names map[string]bool) bool {
	found := false
	ast.Inspect(n, func(x ast.Node) bool {
		if id, ok := x.(*ast.Ident); ok && names[id.Name] {
			found = true
		}
		return !found
	})
	return found
}

func (w *walker) loop(pos token.Pos, init ast.Stmt, cond ast.Expr, post ast.Stmt, rangeX ast.Expr, body *ast.BlockStmt) {
	if init != nil {
		w.stmt(init)
	}
	w.expr(rangeX)
	// A loop whose body uses a receiver alias (`var s = self; for ... { s = s.Index(p) }`) touches
	// the receiver in its first iteration only, provided the alias is overwritten on every path
	// through the body: it is printed as a conditional (zero or one execution on the receiver).
	if len(w.alias) > 0 && usesIdent(body, w.alias) {
		if len(w.alias) != 1 {
			die(pos, "loop over more than one receiver alias in %s", w.fname)
		}
		var name string
		for k := range w.alias {
			name = k
		}
		if (cond != nil && usesIdent(cond, w.alias)) || (post != nil && usesIdent(post, w.alias)) || !assignsOnEveryPath(body.List, name) {
			die(pos, "receiver alias %s survives a loop iteration in %s", name, w.fname)
		}
		w.expr(cond)
		w.emit(".ifB .opaque false")
		w.block(body)
		w.emit(".ifE")
		delete(w.alias, name)
		return
	}
	w.emit(".loopB")
	w.expr(cond)
	w.block(body)
	if post != nil {
		w.stmt(post)
	}
	w.emit(".loopE")
}

// branches: the receiver aliases are tracked per path; after a branching statement an alias
// survives only if it survives every branch
func copyset(m map[string]bool) map[string]bool {
	r := map[string]bool{}
	for k, v := range m {
		if v {
			r[k] = true
		}
	}
	return r
}

type branches struct {
	w     *walker
	start map[string]bool
	meet  map[string]bool
	n     int
}

func (w *walker) fork() *branches { return &branches{w: w, start: copyset(w.alias)} }

func (b *branches) begin() { b.w.alias = copyset(b.start) }

func (b *branches) end() {
	if b.n == 0 {
		b.meet = copyset(b.w.alias)
	} else {
		for k := range b.meet {
			if !b.w.alias[k] {
				delete(b.meet, k)
			}
		}
	}
	b.n++
}

// join: `implicit` says that there is a path that executes none of the branches
func (b *branches) join(implicit bool) {
	if implicit {
		b.begin()
		b.end()
	}
	b.w.alias = b.meet
	if b.w.alias == nil {
		b.w.alias = map[string]bool{}
	}
}

func (w *walker) stmt(s ast.Stmt) {
	switch x := s.(type) {
	case nil:
	case *ast.EmptyStmt:
	case *ast.ExprStmt:
		w.expr(x.X)
	case *ast.AssignStmt:
		w.assign(x)
	case *ast.IncDecStmt:
		if f, ok := w.recvField(x.X); ok {
			w.emit(".rd ." + f)
			if !w.valRecv {
				w.emit(".wr ." + f)
			}
			return
		}
		if w.contRooted(x.X) {
			w.emit(".rd .c")
			w.emit(".wr .c")
			return
		}
		w.expr(x.X)
	case *ast.DeclStmt:
		gd, ok := x.Decl.(*ast.GenDecl)
		if !ok {
			die(x.Pos(), "declaration statement")
		}
		for _, sp := range gd.Specs {
			vs, ok := sp.(*ast.ValueSpec)
			if !ok {
				continue // type / const declarations
			}
			if ct := contName(vs.Type); ct != "" && vs.Type != nil {
				for _, n := range vs.Names {
					w.contVars[n.Name] = ct
				}
			}
			for _, v := range vs.Values {
				w.expr(v)
			}
			if len(vs.Values) > 0 {
				lhs := make([]ast.Expr, len(vs.Names))
				for i, n := range vs.Names {
					lhs[i] = n
				}
				w.bind(lhs, vs.Values)
			}
		}
	case *ast.ReturnStmt:
		for _, r := range x.Results {
			w.expr(r)
		}
		w.emit(".ret")
	case *ast.BlockStmt:
		w.block(x)
	case *ast.IfStmt:
		if x.Init != nil {
			w.stmt(x.Init)
		}
		w.expr(x.Cond)
		c, neg := w.cond(x.Cond)
		w.emit(fmt.Sprintf(".ifB %s %s", c, bstr(neg)))
		br := w.fork()
		br.begin()
		w.block(x.Body)
		br.end()
		if x.Else != nil {
			w.emit(".els")
			br.begin()
			w.stmt(x.Else)
			br.end()
		}
		br.join(x.Else == nil)
		w.emit(".ifE")
	case *ast.SwitchStmt:
		if x.Init != nil {
			w.stmt(x.Init)
		}
		w.expr(x.Tag)
		w.emit(".swB")
		br := w.fork()
		hasDefault := false
		for _, cc := range x.Body.List {
			c := cc.(*ast.CaseClause)
			br.begin()
			before := len(w.ev)
			for _, e := range c.List {
				w.expr(e)
			}
			if len(w.ev) != before {
				die(c.Pos(), "case expression touches the receiver in %s", w.fname)
			}
			if c.List == nil {
				hasDefault = true
				w.emit(".dflt")
			} else {
				w.emit(".cas")
			}
			for _, b := range c.Body {
				w.stmt(b)
			}
			br.end()
		}
		br.join(!hasDefault)
		w.emit(".swE")
	case *ast.TypeSwitchStmt:
		if x.Init != nil {
			w.stmt(x.Init)
		}
		switch a := x.Assign.(type) {
		case *ast.AssignStmt:
			for _, r := range a.Rhs {
				w.expr(r)
			}
		case *ast.ExprStmt:
			w.expr(a.X)
		}
		w.emit(".swB")
		br := w.fork()
		hasDefault := false
		for _, cc := range x.Body.List {
			c := cc.(*ast.CaseClause)
			br.begin()
			if c.List == nil {
				hasDefault = true
				w.emit(".dflt")
			} else {
				w.emit(".cas")
			}
			for _, b := range c.Body {
				w.stmt(b)
			}
			br.end()
		}
		br.join(!hasDefault)
		w.emit(".swE")
	case *ast.ForStmt:
		w.loop(x.Pos(), x.Init, x.Cond, x.Post, nil, x.Body)
	case *ast.RangeStmt:
		w.loop(x.Pos(), nil, nil, nil, x.X, x.Body)
	case *ast.DeferStmt:
		c := x.Call
		if s, ok := unparen(c.Fun).(*ast.SelectorExpr); ok && w.isRecv(s.X) && len(c.Args) == 0 && w.nodeRecv && !w.valRecv {
			w.emit(fmt.Sprintf(".deferCall %q", s.Sel.Name))
			return
		}
		// a deferred closure in a function whose receiver is not a *Node cannot touch the node fields the
		// facts are about (those are only reached through the receiver): book-keeping such as a depth counter
		if _, ok := unparen(c.Fun).(*ast.FuncLit); ok && !w.nodeRecv && len(c.Args) == 0 {
			return
		}
		die(x.Pos(), "defer of %s in %s", src(c.Fun), w.fname)
	case *ast.BranchStmt:
		switch x.Tok {
		case token.BREAK:
			if x.Label != nil {
				die(x.Pos(), "labelled break")
			}
			w.emit(".brk")
		case token.CONTINUE:
			if x.Label != nil {
				die(x.Pos(), "labelled continue")
			}
			w.emit(".cont")
		case token.FALLTHROUGH:
			w.emit(".fallthru")
		case token.GOTO:
			// a forward jump to a label of the same function is printed as a marker and flattened as
			// fall-through (every access between here and the label is kept: over-approximation)
			if x.Label == nil || w.labels[x.Label.Name] <= x.Pos() {
				die(x.Pos(), "backward or unknown goto in %s", w.fname)
			}
			w.emit(".gotoFwd")
		default:
			die(x.Pos(), "branch statement")
		}
	case *ast.LabeledStmt:
		w.emit(".label")
		w.stmt(x.Stmt)
	default:
		die(s.Pos(), "statement %T in %s", s, w.fname)
	}
}

func recvInfo(d *ast.FuncDecl) (name, typ string, ptr bool) {
	if d.Recv == nil || len(d.Recv.List) != 1 {
		return "", "", false
	}
	f := d.Recv.List[0]
	if len(f.Names) == 1 {
		name = f.Names[0].Name
	}
	t := f.Type
	if s, ok := t.(*ast.StarExpr); ok {
		ptr = true
		t = s.X
	}
	if id, ok := t.(*ast.Ident); ok {
		typ = id.Name
	}
	return
}

func main() {
	if len(os.Args) != 3 {
		fmt.Fprintln(os.Stderr, "usage: factx_access <repo root> <output .lean file>")
		os.Exit(2)
	}
	root, out := os.Args[1], os.Args[2]
	var fns []fn
	seen := map[string]bool{}
	for _, rel := range files {
		path := filepath.Join(root, rel)
		f, err := parser.ParseFile(fset, path, nil, 0)
		if err != nil {
			fmt.Fprintln(os.Stderr, "factx_access:", err)
			os.Exit(2)
		}
		for _, d := range f.Decls {
			fd, ok := d.(*ast.FuncDecl)
			if !ok || fd.Body == nil {
				continue
			}
			rname, rtyp, ptr := recvInfo(fd)
			name := fd.Name.Name
			var w *walker
			switch {
			case rtyp == "Node":
				w = &walker{fname: name, recv: rname, nodeRecv: true, valRecv: !ptr}
			case rtyp == "Parser" && parserMethods[name]:
				w = &walker{fname: name, recv: rname}
				name = "Parser." + name
			case fd.Recv == nil && plainFuncs[name]:
				w = &walker{fname: name}
			case (rtyp == "linkedNodes" || rtyp == "linkedPairs") && ptr:
				w = &walker{fname: name, recv: rname, contRecv: true, contType: rtyp}
				name = rtyp + "." + name
			default:
				continue
			}
			w.contVars, w.contPtr, w.labels = map[string]string{}, map[string]bool{}, map[string]token.Pos{}
			ast.Inspect(fd.Body, func(n ast.Node) bool {
				if l, ok := n.(*ast.LabeledStmt); ok {
					w.labels[l.Label.Name] = l.Pos()
				}
				return true
			})
			for _, p := range fd.Type.Params.List {
				if ct := contName(p.Type); ct != "" {
					for _, n := range p.Names {
						w.contVars[n.Name] = ct
					}
				}
			}
			w.alias, w.mutex, w.tvar, w.lockvar = map[string]bool{}, map[string]bool{}, map[string]bool{}, map[string]bool{}
			w.lazyvar = map[string]bool{}
			w.parsers, w.perr, w.params = map[string]bool{}, map[string]bool{}, map[string]bool{}
			for _, p := range fd.Type.Params.List {
				if id, ok := p.Type.(*ast.Ident); ok && id.Name == "bool" {
					for _, n := range p.Names {
						w.params[n.Name] = true
					}
				}
			}
			if w.valRecv {
				w.emit(".valueRecv")
			}
			w.block(fd.Body)
			if seen[name] {
				die(fd.Pos(), "function %s declared twice", name)
			}
			seen[name] = true
			pos := fset.Position(fd.Pos())
			fns = append(fns, fn{name: name, file: rel, line: pos.Line, events: w.ev})
		}
	}
	sort.SliceStable(fns, func(i, j int) bool { return fns[i].name < fns[j].name })
	var b strings.Builder
	b.WriteString("-- generated by go/factx_access from the source tree on every run; do not edit, do not commit\n")
	b.WriteString("import SonicSpec.Model.RWAccess\n")
	b.WriteString("namespace SonicSpec.Generated.Access\nopen SonicSpec.RW\n\n")
	b.WriteString("def access : List (String × List Ev) := [\n")
	for i, f := range fns {
		fmt.Fprintf(&b, "  -- %s:%d\n  (%q, [", f.file, f.line, f.name)
		for k, e := range f.events {
			if k > 0 {
				b.WriteString(", ")
			}
			if k%6 == 0 && k > 0 {
				b.WriteString("\n      ")
			}
			b.WriteString(e)
		}
		b.WriteString("])")
		if i+1 < len(fns) {
			b.WriteString(",")
		}
		b.WriteString("\n")
	}
	b.WriteString("]\n\nend SonicSpec.Generated.Access\n")
	if err := os.WriteFile(out, []byte(b.String()), 0o644); err != nil {
		fmt.Fprintln(os.Stderr, "factx_access:", err)
		os.Exit(2)
	}
}
