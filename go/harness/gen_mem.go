package main

// Generators of work package `mem` (C05 / C13).
//
//   c05.place   structured, mostly valid documents / numbers / strings / raw byte strings,
//               every one with an api that consumes it, a page-edge offset and a continuation
//   c05.sweep   the length x alignment sweep (every length 0..300 and every offset 0..63 in
//               the thorough tier, a stride in the quick tier) over string, number, space and
//               container shapes whose scan ends near / at a SIMD block boundary
//   c05.bad     malformed stream: truncations (open strings, backslash at the end, cut numbers
//               and containers), mutated bytes
//   c13.plain   heap-only calls (number formatting, and the same families as above)
//
// Inputs whose last byte is a leading `0` of a number are the trigger of the known
// check_leading_zero over-read: they are always generated, but only a bounded number of them per
// stream is placed exactly at the page edge (the rest a few bytes before it), so that the share of
// cases masked by that finding stays small.

import (
	"encoding/binary"
	"math"
	"strconv"
	"strings"
)

var memTails = []string{".5", "\"", "5", "\\", "]", "}", "e5", ",1", "x\"", "\\\"", "", "0", "    ", "\xff", "E1", "\\u0041", "}]\"", ":", "\n"}

var (
	memJSONAPIs = []string{"valid", "validstd", "skip", "get", "getf", "getk", "getfk", "geti", "getfi", "getki",
		"unm_any", "unm_anystd", "unm_anynum", "unm_struct", "unm_structstd", "unm_map", "unm_sl", "unm_bytes",
		"node_load", "node_iface", "ast_loads", "unm_raw", "mar_raw", "unm_ints", "unm_arr2", "unm_arr1s", "unm_arr0",
		"unm_starr", "ast_parse", "node_loadall"}
	memNumAPIs = []string{"unm_int", "unm_i8", "unm_u64", "unm_f64", "unm_f32", "unm_num", "unm_any", "unm_anynum",
		"unm_anystd", "skip", "valid", "getf", "get", "mar_num", "unm_raw", "node_iface", "ast_loads", "unm_bytes"}
	memStrAPIs = []string{"unm_str", "unm_strstd", "unm_any", "unm_anystd", "skip", "getf", "get", "valid", "validstd",
		"unm_raw", "node_iface", "ast_loads", "unm_bytes"}
	memByteAPIs = []string{"quote", "unquote", "html", "utf8v", "utf8vs", "utf8c", "mar_str", "mar_strstd"}
)

func memPick(g *Gen, l []string) string { return l[g.R.Intn(len(l))] }

func memRandBytes(g *Gen, n int) []byte {
	b := make([]byte, 0, n+4)
	for len(b) < n {
		switch g.R.Intn(12) {
		case 0:
			b = append(b, byte(g.R.Intn(256)))
		case 1:
			b = append(b, []byte{'"', '\\', '<', '>', '&', '\n', 0, 0x1f, 0x7f, '\t', '\r', 8, 12, '/'}[g.R.Intn(14)])
		case 2:
			b = append(b, []byte([]string{"é", "中", "😀", "\u2028", "\u2029", "\ufffd", "\xed\xa0\x80", "\xf4\x90\x80\x80", "\xc0\x80", "\xe0\x80", "\xe2\x80", "\xe2"}[g.R.Intn(12)])...)
		case 3:
			b = append(b, []byte([]string{"\\n", "\\\"", "\\\\", "\\u0041", "\\ud83d\\ude00", "\\ud800", "\\u00", "\\x", "\\/", "\\t"}[g.R.Intn(10)])...)
		default:
			b = append(b, byte(0x20+g.R.Intn(0x5f)))
		}
	}
	return b
}

// body of a JSON string literal (already escaped, no raw quote / control character)
func memStrBody(g *Gen, n int) string {
	var sb strings.Builder
	for sb.Len() < n {
		switch g.R.Intn(14) {
		case 0:
			sb.WriteString([]string{"\\n", "\\\"", "\\\\", "\\u0041", "\\ud83d\\ude00", "\\/", "\\t", "\\b", "\\\\\\\"", "\\\\\\\\"}[g.R.Intn(10)])
		case 1:
			sb.WriteString([]string{"é", "中", "😀", "\u2028", "<", ">", "&"}[g.R.Intn(7)])
		case 2:
			sb.WriteByte("[]{},: 0123456789.-eE"[g.R.Intn(21)])
		default:
			sb.WriteByte(byte('a' + g.R.Intn(26)))
		}
	}
	return sb.String()
}

func memSpaces(g *Gen) string {
	switch g.R.Intn(8) {
	case 0:
		return strings.Repeat(" ", g.R.Intn(70))
	case 1:
		return strings.Repeat(" \t\r\n", g.R.Intn(20))
	case 2:
		return " "
	case 3:
		return "\n  "
	}
	return ""
}

func memNumber(g *Gen) string {
	digits := func(n int) string {
		var sb strings.Builder
		for i := 0; i < n; i++ {
			sb.WriteByte(byte('0' + g.R.Intn(10)))
		}
		return sb.String()
	}
	sign := ""
	if g.R.Intn(3) == 0 {
		sign = "-"
	}
	switch g.R.Intn(14) {
	case 0:
		return sign + "0"
	case 1:
		return sign + "0." + digits(1+g.R.Intn(40))
	case 2:
		return sign + "0e" + digits(1+g.R.Intn(3))
	case 3:
		return sign + strconv.Itoa(1+g.R.Intn(9)) + digits(g.R.Intn(40))
	case 4:
		return sign + strconv.Itoa(1+g.R.Intn(9)) + digits(g.R.Intn(20)) + "." + digits(1+g.R.Intn(40))
	case 5:
		return sign + strconv.Itoa(1+g.R.Intn(9)) + digits(g.R.Intn(17)) + []string{"e", "E", "e+", "e-", "E-"}[g.R.Intn(5)] + digits(1+g.R.Intn(3))
	case 6:
		return sign + strconv.Itoa(1+g.R.Intn(9)) + "." + digits(1+g.R.Intn(30)) + []string{"e", "E", "e+", "e-"}[g.R.Intn(4)] + digits(1+g.R.Intn(3))
	case 7:
		return strconv.FormatFloat(math.Float64frombits(g.R.Uint64()), 'g', -1, 64)
	case 8:
		return strconv.FormatInt(int64(g.R.Uint64()), 10)
	case 9:
		return sign + strconv.Itoa(g.R.Intn(300))
	case 10:
		return sign + strconv.Itoa(1+g.R.Intn(9)) + strings.Repeat("0", g.R.Intn(70))
	case 11:
		return sign + "0.0"
	case 12:
		return sign + digits(1+g.R.Intn(3)) + "0"
	}
	return sign + strconv.Itoa(g.R.Intn(100000))
}

// malformed number literals (two defects may fall into one vector block)
func memBadNumber(g *Gen) string {
	n := memNumber(g)
	switch g.R.Intn(10) {
	case 0:
		return n + "e"
	case 1:
		return n + "."
	case 2:
		return "-"
	case 3:
		return n + "e+"
	case 4:
		return "0" + n
	case 5:
		return n + "." + n
	case 6:
		return "1e1e1" + strings.Repeat("1", g.R.Intn(20)) + ".1.1" + strings.Repeat("1", g.R.Intn(30))
	case 7:
		return "1" + strings.Repeat("1", g.R.Intn(40)) + []string{"..", "ee", "e.", ".e", "+", "-", "e+e", "e1.", ".1e1.1"}[g.R.Intn(9)] + strings.Repeat("2", g.R.Intn(40))
	case 8:
		return "-" + n
	}
	return n[:g.R.Intn(len(n)+1)]
}

func memJSON(g *Gen, depth int) string {
	k := g.R.Intn(10)
	if depth <= 0 && k >= 6 {
		k = g.R.Intn(6)
	}
	switch k {
	case 0:
		return []string{"null", "true", "false"}[g.R.Intn(3)]
	case 1, 2:
		return memNumber(g)
	case 3, 4, 5:
		n := g.R.Intn(12)
		if g.R.Intn(6) == 0 {
			n = g.R.Intn(140)
		}
		return "\"" + memStrBody(g, n) + "\""
	case 6, 7:
		n := g.R.Intn(5)
		var sb strings.Builder
		sb.WriteString("[" + memSpaces(g))
		for i := 0; i < n; i++ {
			if i > 0 {
				sb.WriteString("," + memSpaces(g))
			}
			sb.WriteString(memJSON(g, depth-1))
		}
		sb.WriteString(memSpaces(g) + "]")
		return sb.String()
	}
	n := g.R.Intn(5)
	var sb strings.Builder
	sb.WriteString("{" + memSpaces(g))
	keys := []string{"a", "b", "c", "d", "e", "f", "g", "h", "i", "j", "x", "y", "k\\\"", "long" + strings.Repeat("k", g.R.Intn(40))}
	for i := 0; i < n; i++ {
		if i > 0 {
			sb.WriteString("," + memSpaces(g))
		}
		key := keys[g.R.Intn(len(keys))]
		if i == 0 && g.R.Intn(2) == 0 {
			key = "a"
		}
		sb.WriteString("\"" + key + "\"" + memSpaces(g) + ":" + memSpaces(g))
		sb.WriteString(memJSON(g, depth-1))
	}
	sb.WriteString(memSpaces(g) + "}")
	return sb.String()
}

// document for the struct destination of ops_mem.go (memStruct)
func memStructDoc(g *Gen) string {
	var parts []string
	if g.R.Intn(4) != 0 {
		parts = append(parts, "\"a\":"+strconv.Itoa(g.R.Intn(1000)-500))
	}
	if g.R.Intn(4) != 0 {
		parts = append(parts, "\"b\":\""+memStrBody(g, g.R.Intn(80))+"\"")
	}
	if g.R.Intn(4) != 0 {
		parts = append(parts, "\"c\":["+memNumber(g)+","+memNumber(g)+"]")
	}
	if g.R.Intn(4) != 0 {
		parts = append(parts, "\"d\":"+memJSON(g, 2))
	}
	if g.R.Intn(4) != 0 {
		parts = append(parts, "\"e\":{\"x\":"+strconv.Itoa(g.R.Intn(200)-100)+",\"y\":"+memNumber(g)+"}")
	}
	if g.R.Intn(4) != 0 {
		parts = append(parts, "\"f\":"+memJSON(g, 2))
	}
	if g.R.Intn(4) != 0 {
		parts = append(parts, "\"g\":"+memNumber(g))
	}
	if g.R.Intn(4) != 0 {
		parts = append(parts, "\"h\":true")
	}
	if g.R.Intn(4) != 0 {
		parts = append(parts, "\"i\":\""+strconv.Itoa(g.R.Intn(100000))+"\"")
	}
	if g.R.Intn(4) != 0 {
		parts = append(parts, "\"j\":\"aGVsbG8gd29ybGQ=\"")
	}
	if g.R.Intn(4) == 0 {
		parts = append(parts, "\"unknown\":"+memJSON(g, 2))
	}
	g.R.Shuffle(len(parts), func(i, j int) { parts[i], parts[j] = parts[j], parts[i] })
	return "{" + strings.Join(parts, ","+memSpaces(g)) + "}"
}

// memEndsInLeadingZero: the last byte of the document is the leading `0` of a number
// (the trigger of the check_leading_zero over-read)
func memEndsInLeadingZero(doc []byte) bool {
	n := len(doc)
	if n == 0 || doc[n-1] != '0' {
		return false
	}
	i := n - 1
	if i > 0 && doc[i-1] == '-' {
		i--
	}
	if i == 0 {
		return true
	}
	c := doc[i-1]
	return !(c >= '0' && c <= '9') && c != '.' && c != 'e' && c != 'E' && c != '+' && c != '-'
}

// memShortLiteral: the whole input is so short that advance_dword's `len + dec - 4` wraps around
// (t/n: len <= 2, f: len <= 3) - the trigger of the known advance_dword over-read
func memShortLiteral(doc []byte) bool {
	for _, c := range doc {
		switch c {
		case 't', 'n':
			return len(doc) <= 2
		case 'f':
			return len(doc) <= 3
		}
	}
	return false
}

type memEmitter struct {
	g          *Gen
	edgeBudget int // how many leading-zero-at-the-edge cases may still be emitted
}

func (e *memEmitter) offset() int {
	g := e.g
	switch g.R.Intn(4) {
	case 0, 1:
		return 0
	case 2:
		return 1 + g.R.Intn(63)
	}
	return []int{1, 2, 3, 15, 16, 17, 31, 32, 33, 63}[g.R.Intn(10)]
}

func (e *memEmitter) place(api string, doc []byte, off int, tail string) {
	if (off == 0 && memEndsInLeadingZero(doc)) || (off < 4 && memShortLiteral(doc)) {
		if e.edgeBudget <= 0 {
			off = 4 + e.g.R.Intn(8)
		} else {
			e.edgeBudget--
		}
	}
	e.g.Emit("place", api, hexArg(doc), itoa(off), hexArg([]byte(tail)))
}

func (e *memEmitter) auto(api string, doc []byte) {
	e.place(api, doc, e.offset(), memPick(e.g, memTails))
}

func init() {
	registerGen("c05.place", func(g *Gen) {
		e := &memEmitter{g: g, edgeBudget: 20}
		if g.Tier == "thorough" {
			e.edgeBudget = 600
		}
		for i := 0; i < g.N; i++ {
			switch g.R.Intn(10) {
			case 0, 1, 2:
				doc := memSpaces(g) + memJSON(g, 3) + memSpaces(g)
				e.auto(memPick(g, memJSONAPIs), []byte(doc))
			case 3:
				e.auto(memPick(g, []string{"unm_struct", "unm_structstd", "unm_map", "unm_any", "getk", "getfk", "valid"}), []byte(memStructDoc(g)))
			case 4, 5:
				doc := memNumber(g)
				if g.R.Intn(8) == 0 {
					doc = memSpaces(g) + doc
				}
				e.auto(memPick(g, memNumAPIs), []byte(doc))
			case 6:
				// numbers as the last element of a container / after a key
				doc := []string{"[", "[1,", "{\"a\":", "[[", " [ "}[g.R.Intn(5)] + memNumber(g)
				if g.R.Intn(2) == 0 {
					doc = strings.TrimLeft(doc, " ")
				}
				e.auto(memPick(g, []string{"unm_any", "unm_sl", "unm_ints", "valid", "skip", "getf", "geti", "getfi", "getk", "unm_map", "unm_struct", "node_load", "ast_loads"}), []byte(doc))
			case 7:
				n := g.R.Intn(100)
				if g.R.Intn(4) == 0 {
					n = g.R.Intn(300)
				}
				doc := "\"" + memStrBody(g, n) + "\""
				e.auto(memPick(g, memStrAPIs), []byte(doc))
			default:
				n := g.R.Intn(100)
				if g.R.Intn(4) == 0 {
					n = g.R.Intn(300)
				}
				e.auto(memPick(g, memByteAPIs), memRandBytes(g, n))
			}
		}
	})

	registerGen("c05.sweep", func(g *Gen) {
		e := &memEmitter{g: g, edgeBudget: 10}
		thorough := g.Tier == "thorough"
		if thorough {
			e.edgeBudget = 300
		}
		maxLen := 300
		shapes := []struct {
			name string
			mk   func(n int) []byte
			apis []string
		}{
			{"str", func(n int) []byte { return []byte("\"" + strings.Repeat("x", n) + "\"") }, []string{"valid", "skip", "getf", "get", "unm_str", "unm_any", "unm_strstd"}},
			{"open", func(n int) []byte { return []byte("\"" + strings.Repeat("x", n)) }, []string{"valid", "skip", "getf", "get", "unm_str", "unm_strstd", "unm_raw"}},
			{"bs", func(n int) []byte { return []byte("\"" + strings.Repeat("x", n) + "\\") }, []string{"valid", "skip", "getf", "unm_str", "unm_strstd"}},
			{"escq", func(n int) []byte { return []byte("\"" + strings.Repeat("x", n) + "\\\"y\"") }, []string{"valid", "skip", "getf", "unm_str", "unm_any"}},
			{"bsrun", func(n int) []byte {
				return []byte("\"" + strings.Repeat("x", n/2) + strings.Repeat("\\", n-n/2) + "\"")
			}, []string{"valid", "skip", "getf", "unm_str"}},
			{"raw", func(n int) []byte { return []byte(strings.Repeat("y", n)) }, []string{"quote", "html", "utf8v", "unquote", "mar_str", "utf8c"}},
			{"rawq", func(n int) []byte { return []byte(strings.Repeat("y", n) + "\"") }, []string{"quote", "mar_str"}},
			{"rawbs", func(n int) []byte { return []byte(strings.Repeat("y", n) + "\\") }, []string{"unquote", "quote"}},
			// inputs whose escaped image is several times their size: the restart loops of Quote / HtmlEscape grow
			// the buffer more than once and must resume exactly where the native routine stopped
			{"rawctl", func(n int) []byte { return []byte(strings.Repeat("\x01", n)) }, []string{"quote", "mar_str"}},
			{"rawqq", func(n int) []byte { return []byte(strings.Repeat("\"\\", n/2+1)) }, []string{"quote", "mar_str"}},
			{"rawlts", func(n int) []byte { return []byte(strings.Repeat("<&", n/2+1)) }, []string{"html", "mar_strstd"}},
			{"rawlt", func(n int) []byte { return []byte(strings.Repeat("y", n) + "<") }, []string{"html", "mar_strstd"}},
			{"rawe2", func(n int) []byte { return []byte(strings.Repeat("y", n) + "\xe2\x80") }, []string{"html", "utf8v", "utf8c", "mar_strstd"}},
			{"rawhi", func(n int) []byte { return []byte(strings.Repeat("y", n) + "\xe4\xb8") }, []string{"utf8v", "utf8c", "utf8vs"}},
			{"digits", func(n int) []byte { return []byte("1" + strings.Repeat("7", n)) }, []string{"skip", "valid", "unm_f64", "unm_num", "getf", "unm_any", "unm_int"}},
			{"frac", func(n int) []byte { return []byte("0." + strings.Repeat("3", n+1)) }, []string{"skip", "valid", "unm_f64", "unm_num", "getf", "unm_any"}},
			{"zeros", func(n int) []byte { return []byte("1" + strings.Repeat("0", n)) }, []string{"skip", "valid", "unm_f64", "unm_num", "unm_any"}},
			{"spaces", func(n int) []byte { return []byte(strings.Repeat(" ", n) + "1") }, []string{"skip", "valid", "getf", "unm_any", "unm_int"}},
			{"allsp", func(n int) []byte { return []byte(strings.Repeat(" ", n)) }, []string{"skip", "valid", "getf", "unm_any"}},
			{"trailsp", func(n int) []byte { return []byte("[1]" + strings.Repeat(" ", n)) }, []string{"valid", "unm_any", "unm_sl"}},
			{"arr", func(n int) []byte { return []byte("[" + strings.Repeat("1,", n/2) + "2]") }, []string{"valid", "skip", "getf", "geti", "getfi", "unm_sl", "unm_ints"}},
			{"openarr", func(n int) []byte { return []byte("[" + strings.Repeat("[", n/4) + strings.Repeat("]", n/4)) }, []string{"valid", "skip", "getf", "unm_any"}},
			{"objstr", func(n int) []byte { return []byte("{\"a\":\"" + strings.Repeat("]}\\\"", n/4) + "\"}") }, []string{"valid", "skip", "getf", "getk", "getfk", "unm_map"}},
			{"key", func(n int) []byte { return []byte("{\"" + strings.Repeat("k", n) + "\":1,\"a\":2}") }, []string{"getk", "getfk", "unm_struct", "unm_map"}},
			{"lit", func(n int) []byte { return []byte(strings.Repeat(" ", n) + []string{"true", "false", "null", "tru", "fals", "nul", "t", "n"}[n%8]) }, []string{"valid", "skip", "getf", "unm_any"}},
		}
		emitted := 0
		for emitted < g.N {
			before := emitted
			for n := 0; n <= maxLen && emitted < g.N; n++ {
				for si := range shapes {
					sh := &shapes[si]
					if !thorough && g.R.Intn(3) != 0 {
						continue
					}
					doc := sh.mk(n)
					if thorough {
						// every alignment for this length, the api rotating
						for off := 0; off < 64 && emitted < g.N; off++ {
							if g.R.Intn(8) != 0 && off != 0 {
								continue
							}
							e.place(sh.apis[(n+off)%len(sh.apis)], doc, off, memPick(g, memTails))
							emitted++
						}
					} else {
						off := 0
						if g.R.Intn(2) == 0 {
							off = g.R.Intn(64)
						}
						e.place(sh.apis[g.R.Intn(len(sh.apis))], doc, off, memPick(g, memTails))
						emitted++
					}
					if emitted >= g.N {
						break
					}
				}
			}
			if emitted == before {
				break
			}
		}
	})

	registerGen("c05.bad", func(g *Gen) {
		e := &memEmitter{g: g, edgeBudget: 20}
		if g.Tier == "thorough" {
			e.edgeBudget = 600
		}
		for i := 0; i < g.N; i++ {
			switch g.R.Intn(8) {
			case 0, 1, 2:
				doc := []byte(memJSON(g, 3))
				if len(doc) > 0 {
					doc = doc[:g.R.Intn(len(doc)+1)]
				}
				e.auto(memPick(g, memJSONAPIs), doc)
			case 3:
				doc := []byte(memJSON(g, 3))
				for k := g.R.Intn(3) + 1; k > 0 && len(doc) > 0; k-- {
					const mut = "\"\\[]{},:0-.e \x00x"
					doc[g.R.Intn(len(doc))] = mut[g.R.Intn(len(mut))]
				}
				e.auto(memPick(g, memJSONAPIs), doc)
			case 4:
				e.auto(memPick(g, memNumAPIs), []byte(memBadNumber(g)))
			case 5:
				// open string / backslash at the end / truncated \u escape
				n := g.R.Intn(140)
				doc := "\"" + memStrBody(g, n) + []string{"", "\\", "\\u", "\\u00", "\\ud83d", "\\ud83d\\u", "\x01\"", "\\x\""}[g.R.Intn(8)]
				e.auto(memPick(g, memStrAPIs), []byte(doc))
			case 6:
				doc := memStructDoc(g)
				doc = doc[:g.R.Intn(len(doc)+1)]
				e.auto(memPick(g, []string{"unm_struct", "unm_structstd", "unm_map", "getk", "getfk", "valid", "skip"}), []byte(doc))
			default:
				// pure junk
				e.auto(memPick(g, append(append([]string{}, memJSONAPIs...), memByteAPIs...)), memRandBytes(g, g.R.Intn(80)))
			}
		}
	})

	// Go-side scanners (ast/decode.go skipBlank & co., the ast parser): documents cut after every structural
	// prefix, optionally followed by blanks, flush against the unmapped page (offset 0) - and, by the `pre`
	// placement of the op, flush behind one.
	registerGen("c05.goscan", func(g *Gen) {
		apis := []string{"ast_loads", "ast_parse", "ast_parseobj", "node_loadall", "node_getk", "node_idx", "node_each"}
		more := []string{"node_load", "node_iface", "get", "getk", "geti", "getki", "mar_raw", "valid", "skip", "utf8v", "utf8c"}
		blanks := []string{"", " ", "\r\n", "\t  ", "                                 "}
		bases := []string{
			`{"a": [1, {"b": "x\\\"y", "c": [true, null, -0.5e3]}, "z"], "d": {}, "e": [], "f": "é"}`,
			`[[ {"a":[]} ,[  ]], "s", 12, {"a" : {"a":[1,2]}}, false]`,
			`{ "a" : [ 1 , 2 ] , "b" : { } }`,
			`"str\\n"`, `-12.5e+3`, `true`, `null`,
		}
		emit := func(api string, doc string) {
			off := 0
			if g.R.Intn(8) == 0 {
				off = 1 + g.R.Intn(3)
			}
			g.Emit("place", api, hexArg([]byte(doc)), itoa(off), hexArg([]byte(memPick(g, memTails))))
		}
		structural := func(c byte) bool {
			return c == '[' || c == '{' || c == ',' || c == ':' || c == ']' || c == '}' || c == '"' || c == ' '
		}
		n := 0
		for bi, b := range bases {
			for i := 1; i <= len(b); i++ {
				if bi > 0 && i < len(b) && !structural(b[i-1]) {
					continue
				}
				for k, api := range apis {
					bl := blanks[(i+k)%len(blanks)]
					emit(api, b[:i])
					if bl != "" {
						emit(api, b[:i]+bl)
					}
					n += 2
				}
				emit(more[i%len(more)], b[:i])
			}
			if g.Tier != "thorough" && n > g.N {
				break
			}
		}
		for i := 0; i < g.N/4; i++ {
			doc := memJSON(g, 3)
			cut := g.R.Intn(len(doc) + 1)
			for cut > 0 && cut < len(doc) && !structural(doc[cut-1]) && g.R.Intn(3) != 0 {
				cut--
			}
			all := append(append([]string{}, apis...), more...)
			emit(memPick(g, all), doc[:cut]+blanks[g.R.Intn(len(blanks))])
		}
	})

	registerGen("c13.plain", func(g *Gen) {
		var u8 [8]byte
		emitF64 := func(bits uint64) {
			binary.BigEndian.PutUint64(u8[:], bits)
			g.Emit("plain", "ftoa64", hexArg(u8[:]))
		}
		emitF32 := func(bits uint32) {
			binary.BigEndian.PutUint32(u8[:4], bits)
			g.Emit("plain", "ftoa32", hexArg(u8[:4]))
		}
		emitI := func(v uint64) {
			binary.BigEndian.PutUint64(u8[:], v)
			g.Emit("plain", "itoa", hexArg(u8[:]))
		}
		for _, f := range []float64{0, math.Copysign(0, -1), 1, -1, 0.1, 1e21, 1e-7, 123456789012345678, math.MaxFloat64, math.SmallestNonzeroFloat64, 5e-324, 1e23, 9007199254740993, math.Inf(1), math.NaN()} {
			emitF64(math.Float64bits(f))
			emitF32(math.Float32bits(float32(f)))
		}
		for _, v := range []uint64{0, 1, 9, 10, 99, 100, 1<<63 - 1, 1 << 63, ^uint64(0), 9999999999, 10000000000} {
			emitI(v)
		}
		// JSON arrays longer than the Go array they fill (native skip_array, only reached from JIT code), and the
		// other stubs that only generated code calls (skip_one for unknown fields / RawMessage, skip_number for json.Number)
		memArrDocs := []string{`[]`, `[1]`, `[1,2]`, `[1,2,3]`, `[1,2,3,4,5,6,7]`, `[1,2,[3,[4]],{"a":[5]},"]"]`, `[ 1 , 2 , 3 ]`,
			`["a"]`, `["a","b","c\\\"]"]`, `[1,2,3`, `[1,2,3,]`, `[1,2,3}`, `[1,2,"x]`, `[1,2,{"a":1]`,
			`{"a":[1.5,2,3,4],"b":7,"c":[[1,2],[3]]}`, `{"a":[1,2,3,{"x":[]}],"b":-1}`, `{"c":[[{"k":"v"},2,3],4],"b":2}`,
			`{"a":[1,2,3`, `{"unknown":[1,2,{"a":"}"}],"b":3,"a":[0,1,2,3e5]}`}
		for i, d := range memArrDocs {
			for _, api := range []string{"unm_arr2", "unm_arr1s", "unm_arr0", "unm_starr", "unm_ints", "unm_sl", "unm_struct", "unm_num", "unm_raw"} {
				g.Emit("plain", api, hexArg([]byte(d)))
			}
			g.Emit("plain", "unm_arr2", hexArg([]byte(memSpaces(g)+d+memSpaces(g))))
			_ = i
		}
		// Marshal into caller-supplied buffers of many capacities (C13: the capacity must not leak into the output)
		memEncPayloads := [][]byte{{0xfb}, {0xfb, 0xff}, {0xfb, 0xff, 0xbe}, {0xff, 0xff, 0xff, 0xfe}, {0x3e, 0x3f}, {0},
			[]byte("a\"<\n\u2028"), {0xfb, 0xef, 0xbe, 0xfb, 0xef}, []byte("hello world, hello base64 >>>???")}
		emitEnc := func(api string, capacity, opt int, payload []byte) {
			arg := append([]byte{byte(capacity >> 8), byte(capacity), byte(opt)}, payload...)
			g.Emit("plain", api, hexArg(arg))
		}
		memEncCaps := []int{}
		for c := 0; c <= 80; c++ {
			memEncCaps = append(memEncCaps, c)
		}
		memEncCaps = append(memEncCaps, 1023, 1024, 1025, 1026, 1027, 1028, 1029, 1030, 4095, 4096, 4097, 4098, 4099, 4100, 8191)
		for i, c := range memEncCaps {
			// every capacity with payloads whose base64 uses `+`, `/` and needs one and two pad characters
			emitEnc("encinto_bytes", c, 0, memEncPayloads[i%3])
			emitEnc("encinto_bytes", c, i, memEncPayloads[(i+1)%3])
			if c >= 64 || c%4 == 1 {
				emitEnc("encinto_any", c, i, memEncPayloads[i%len(memEncPayloads)])
			}
		}
		for i := 0; i < g.N; i++ {
			switch g.R.Intn(13) {
			case 12:
				api := "encinto_bytes"
				if g.R.Intn(3) == 0 {
					api = "encinto_any"
				}
				var payload []byte
				if g.R.Intn(2) == 0 {
					payload = memEncPayloads[g.R.Intn(len(memEncPayloads))]
				} else {
					payload = make([]byte, g.R.Intn(40))
					for k := range payload {
						payload[k] = byte(0xf8 + g.R.Intn(8))
						if g.R.Intn(4) == 0 {
							payload[k] = byte(g.R.Intn(256))
						}
					}
				}
				emitEnc(api, memEncCaps[g.R.Intn(len(memEncCaps))], g.R.Intn(6), payload)
			case 0:
				emitF64(g.R.Uint64())
			case 1:
				emitF32(g.R.Uint32())
			case 2:
				v := g.R.Uint64() >> uint(g.R.Intn(64))
				if g.R.Intn(2) == 0 {
					v = -v
				}
				emitI(v)
			case 3:
				emitF64(math.Float64bits(float64(g.R.Intn(1000000)) / []float64{1, 10, 100, 1e5, 1e10}[g.R.Intn(5)]))
			case 4, 5:
				g.Emit("plain", memPick(g, memJSONAPIs), hexArg([]byte(memSpaces(g)+memJSON(g, 3))))
			case 6:
				g.Emit("plain", memPick(g, memNumAPIs), hexArg([]byte(memNumber(g))))
			case 7:
				g.Emit("plain", memPick(g, memNumAPIs), hexArg([]byte(memBadNumber(g))))
			case 8:
				n := g.R.Intn(300)
				g.Emit("plain", memPick(g, memStrAPIs), hexArg([]byte("\""+memStrBody(g, n)+[]string{"\"", "\"", "\"", "", "\\"}[g.R.Intn(5)])))
			case 9:
				doc := []byte(memJSON(g, 3))
				if len(doc) > 0 {
					doc = doc[:g.R.Intn(len(doc)+1)]
				}
				g.Emit("plain", memPick(g, memJSONAPIs), hexArg(doc))
			default:
				g.Emit("plain", memPick(g, memByteAPIs), hexArg(memRandBytes(g, g.R.Intn(300))))
			}
		}
	})
}
