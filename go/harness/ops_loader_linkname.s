// Empty on purpose: its presence lets ops_loader.go declare the body-less functions it binds
// with //go:linkname to runtime.step, runtime.findfunc and runtime.pcdatavalue2.
