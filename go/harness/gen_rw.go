package main

// C16 generators: documents with nested containers (after the conversion of a concurrently
// readable node every container child is again a raw node with its own lock, converted lazily by
// whoever reads it first), big enough that the conversion overlaps with the other readers, with
// insignificant white space and escapes (so that raw text and re-serialised text differ), and
// `conc` cases over all the ways of obtaining such a node.

import (
	"fmt"
	"strconv"
	"strings"
)

var rwKeys = []string{"a", "b", "id", "name", "user", "tags", "x", "y", "data", "items", "k\\u0041", "sp ace", "é", "", "n1", "n2", "deep", "v"}

func rwWS(g *Gen, b *strings.Builder) {
	switch g.R.Intn(8) {
	case 0:
		b.WriteByte(' ')
	case 1:
		b.WriteString("\n  ")
	case 2:
		b.WriteByte('\t')
	}
}

func rwString(g *Gen, b *strings.Builder) {
	b.WriteByte('"')
	n := g.R.Intn(12)
	if g.R.Intn(10) == 0 {
		n = 20 + g.R.Intn(80)
	}
	for i := 0; i < n; i++ {
		switch g.R.Intn(14) {
		case 0:
			b.WriteString([]string{`\n`, `\t`, `\"`, `\\`, `\/`, `\b`, `\f`, `\r`}[g.R.Intn(8)])
		case 1:
			b.WriteString([]string{`A`, `é`, `中`, `😀`, ` `, `\u0000`}[g.R.Intn(6)])
		case 2:
			b.WriteString([]string{"é", "中", "😀", "<", ">", "&"}[g.R.Intn(6)])
		default:
			b.WriteByte(byte('a' + g.R.Intn(26)))
		}
	}
	b.WriteByte('"')
}

func rwNumber(g *Gen, b *strings.Builder) {
	switch g.R.Intn(8) {
	case 0:
		b.WriteString(strconv.FormatInt(g.R.Int63()-g.R.Int63(), 10))
	case 1:
		fmt.Fprintf(b, "%d.%d", g.R.Intn(1000), g.R.Intn(1000))
	case 2:
		fmt.Fprintf(b, "%dE%d", 1+g.R.Intn(9), g.R.Intn(30))
	case 3:
		fmt.Fprintf(b, "-%d.%de-%d", g.R.Intn(10), g.R.Intn(100), g.R.Intn(20))
	case 4:
		b.WriteString("0")
	case 5:
		b.WriteString("-0")
	default:
		b.WriteString(strconv.Itoa(g.R.Intn(100000) - 500))
	}
}

// rwValue writes a random JSON value; budget bounds the number of nodes
func rwValue(g *Gen, b *strings.Builder, depth int, budget *int) {
	*budget--
	c := g.R.Intn(10)
	if depth <= 0 || *budget <= 0 {
		c = 4 + g.R.Intn(6)
	}
	switch c {
	case 0, 1:
		n := g.R.Intn(6)
		if depth >= 3 && g.R.Intn(3) == 0 {
			n = 5 + g.R.Intn(30)
		}
		b.WriteByte('[')
		rwWS(g, b)
		for i := 0; i < n; i++ {
			if i > 0 {
				b.WriteByte(',')
				rwWS(g, b)
			}
			rwValue(g, b, depth-1, budget)
			rwWS(g, b)
		}
		b.WriteByte(']')
	case 2, 3:
		n := g.R.Intn(6)
		if depth >= 3 && g.R.Intn(3) == 0 {
			n = 5 + g.R.Intn(30) // beyond the hash-index threshold of 16 now and then
		}
		b.WriteByte('{')
		rwWS(g, b)
		for i := 0; i < n; i++ {
			if i > 0 {
				b.WriteByte(',')
				rwWS(g, b)
			}
			k := rwKeys[g.R.Intn(len(rwKeys))]
			if n > 6 {
				k += strconv.Itoa(i) // distinct keys in large objects
			}
			b.WriteByte('"')
			b.WriteString(k)
			b.WriteByte('"')
			rwWS(g, b)
			b.WriteByte(':')
			rwWS(g, b)
			rwValue(g, b, depth-1, budget)
			rwWS(g, b)
		}
		b.WriteByte('}')
	case 4, 5:
		rwString(g, b)
	case 6, 7:
		rwNumber(g, b)
	case 8:
		b.WriteString([]string{"true", "false"}[g.R.Intn(2)])
	default:
		b.WriteString("null")
	}
}

// rwDoc: a document whose top level is a container (mostly)
func rwDoc(g *Gen, budget int) string {
	var b strings.Builder
	rwWS(g, &b)
	if g.R.Intn(12) == 0 {
		// scalar document
		bud := 1
		rwValue(g, &b, 0, &bud)
	} else {
		depth := 2 + g.R.Intn(4)
		for {
			b.Reset()
			bud := budget
			rwValue(g, &b, depth, &bud)
			s := b.String()
			if s[0] == '[' || s[0] == '{' {
				break
			}
		}
	}
	rwWS(g, &b)
	return b.String()
}

var rwModes = []string{"new", "new", "new", "get", "get", "getv", "sub", "load", "loadall"}

func init() {
	registerGen("c16.conc", func(g *Gen) {
		// hand-made openers: the smallest racing shapes
		for _, d := range []string{`[ 1 , "A", {"a" : 2} ]`, `{"a":{"b":[1,2,{"c":"d"}]},"e":[[],[[]],{}]}`, `"strA"`, `12.5e3`, `[]`, `{}`, ` { "k" : [ true , null ] } `} {
			for _, m := range []string{"new", "get", "load"} {
				g.Emit("conc", m, hexArg([]byte(d)), "8", strconv.Itoa(g.R.Intn(1<<30)))
			}
		}
		for i := 0; i < g.N; i++ {
			budget := 30 + g.R.Intn(200)
			switch {
			case i%9 == 0:
				budget = 1000 + g.R.Intn(3000) // conversion takes long enough to overlap with everybody
			case g.Tier == "thorough" && i%31 == 0:
				budget = 20000 + g.R.Intn(40000)
			}
			doc := rwDoc(g, budget)
			k := []int{2, 2, 3, 4, 8, 8, 16, 16, 32}[g.R.Intn(9)]
			g.Emit("conc", rwModes[g.R.Intn(len(rwModes))], hexArg([]byte(doc)), strconv.Itoa(k), strconv.Itoa(g.R.Intn(1<<30)))
		}
	})

	// texts that the fast skipper lets through but the node's own parser rejects, plain malformed
	// texts, and texts with trailing bytes
	registerGen("c16.malformed", func(g *Gen) {
		bad := []string{`"\q"`, `"\u12"`, `"\uZZZZ"`, `"a\`, `"` + strings.Repeat("x", 32), `"` + strings.Repeat("y", 64)}
		for i := 0; i < g.N; i++ {
			doc := rwDoc(g, 20+g.R.Intn(60))
			var d string
			switch g.R.Intn(6) {
			case 0, 1, 2:
				// replace one string literal by a bad one
				idx := strings.Index(doc, `"`)
				if idx < 0 {
					d = "[" + bad[g.R.Intn(len(bad))] + "," + doc + "]"
				} else {
					end := idx + 1
					for end < len(doc) && (doc[end] != '"' || doc[end-1] == '\\') {
						end++
					}
					if end >= len(doc) {
						d = "[" + bad[g.R.Intn(len(bad))] + "]"
					} else {
						d = doc[:idx] + bad[g.R.Intn(4)] + doc[end+1:]
					}
				}
			case 3:
				d = doc[:len(doc)*(1+g.R.Intn(9))/10] // truncated
			case 4:
				d = doc + []string{"]", "}", " x", ",1", `"`}[g.R.Intn(5)]
			default:
				p := g.R.Intn(len(doc))
				d = doc[:p] + string([]byte{byte(g.R.Intn(256))}) + doc[p:]
			}
			k := []int{2, 4, 8}[g.R.Intn(3)]
			g.Emit("conc", []string{"new", "new", "get", "getv", "sub", "load"}[g.R.Intn(6)], hexArg([]byte(d)), strconv.Itoa(k), strconv.Itoa(g.R.Intn(1<<30)))
		}
	})
}
