package main

// Operations of property C20: quote / unquote / HTML escape / UTF-8 routines of sonic, called directly
// and through Marshal / Unmarshal, each beside its executable reference (encoding/json, unicode/utf8).

import (
	"bytes"
	"encoding/json"
	"strings"
	"unicode/utf8"

	"github.com/bytedance/sonic"
	"github.com/bytedance/sonic/ast"
	"github.com/bytedance/sonic/decoder"
	"github.com/bytedance/sonic/encoder"
	"github.com/bytedance/sonic/unquote"
	sutf8 "github.com/bytedance/sonic/utf8"
)

// bytewise replacement of ill-formed UTF-8 as unicode/utf8 decodes it (one replacement per byte)
func fixUTF8(b []byte, repl string) []byte {
	out := make([]byte, 0, len(b))
	for i := 0; i < len(b); {
		r, n := utf8.DecodeRune(b[i:])
		if r == utf8.RuneError && n == 1 {
			out = append(out, repl...)
			i++
			continue
		}
		out = append(out, b[i:i+n]...)
		i += n
	}
	return out
}

func okHex(b []byte) string { return "ok:" + hexArg(b) }

var unqErrNames = map[int]string{1: "EOF", 2: "INVALID_CHAR", 3: "INVALID_ESCAPE", 4: "INVALID_UNICODE"}

type strField struct {
	S string `json:"s"`
}
type strFieldQ struct {
	S string `json:"s,string"`
}

var cfgHTML = sonic.Config{EscapeHTML: true}.Froze()
var cfgValid = sonic.Config{ValidateString: true}.Froze()

func marshalCfg(cfg string) sonic.API {
	switch cfg {
	case "s":
		return sonic.ConfigStd
	case "h":
		return cfgHTML
	case "v":
		return cfgValid
	}
	return sonic.ConfigDefault
}

// cut the known frame off a document; ok=false when the frame is not there
func unframe(doc []byte, pre, suf string) ([]byte, bool) {
	if len(doc) >= len(pre)+len(suf) && bytes.HasPrefix(doc, []byte(pre)) && bytes.HasSuffix(doc, []byte(suf)) {
		return doc[len(pre) : len(doc)-len(suf)], true
	}
	return nil, false
}

func init() {
	// quote <hex>: encoder.Quote; ref = does encoding/json decode the result to the input
	// (ill-formed input bytes come back as U+FFFD from encoding/json)
	registerOp("quote", func(a []string) string {
		in := unhexArg(a[0])
		out := encoder.Quote(string(in))
		var back string
		ref := "0"
		if err := json.Unmarshal([]byte(out), &back); err == nil && back == string(fixUTF8(in, "\ufffd")) {
			ref = "1"
		}
		return "sonic=" + hexArg([]byte(out)) + "\tref=" + ref
	})

	// unq <hex>: unquote.String (F_UNICODE_REPLACE); ref = encoding/json on `"`+s+`"` where that is a
	// literal encoding/json can be asked about (no bare quote / control character); encoding/json
	// replaces ill-formed raw bytes, unquote.String copies them: sfix = sonic's result after the same
	// replacement, to be compared with ref.
	registerOp("unq", func(a []string) string {
		in := unhexArg(a[0])
		s, e := unquote.String(string(in))
		var res, sfix string
		if e == 0 {
			res = okHex([]byte(s))
			sfix = okHex(fixUTF8([]byte(s), "\ufffd"))
		} else {
			n := unqErrNames[int(e)]
			if n == "" {
				n = "OTHER" + itoa(int(e))
			}
			res = "err:" + n
			sfix = "err"
		}
		// IntoBytes must agree with String
		buf := make([]byte, 0, len(in)+1)
		e2 := unquote.IntoBytes(string(in), &buf)
		into := "1"
		if (e2 != 0) != (e != 0) || (e == 0 && string(buf) != s) {
			into = "0"
		}
		ref := "na"
		if !bytes.ContainsRune(in, '"') && !hasCtl(in) {
			var back string
			if err := json.Unmarshal([]byte(`"`+string(in)+`"`), &back); err == nil {
				ref = okHex([]byte(back))
			} else {
				ref = "err"
			}
		}
		return "sonic=" + res + "\tsfix=" + sfix + "\tinto=" + into + "\tref=" + ref
	})

	// html <spare> <dst> <src>: encoder.HTMLEscape(dst, src) with cap(dst) = len(dst)+spare;
	// ref = json.HTMLEscape appended to the same prefix
	registerOp("html", func(a []string) string {
		spare := atoi(a[0])
		d := unhexArg(a[1])
		src := unhexArg(a[2])
		dst := make([]byte, len(d), len(d)+spare)
		copy(dst, d)
		var bb bytes.Buffer
		bb.Write(d)
		json.HTMLEscape(&bb, src)
		ref := "\tref=" + hexArg(bb.Bytes())
		res := func() (r string) {
			defer func() {
				if p := recover(); p != nil {
					r = "sonic=PANIC\tpanic=" + cleanMsg(p)
				}
			}()
			out := encoder.HTMLEscape(dst, src)
			return "sonic=" + hexArg(out)
		}()
		return res + ref
	})

	// utf8v <hex>: utf8.Validate / ValidateString; ref = unicode/utf8.Valid
	registerOp("utf8v", func(a []string) string {
		in := unhexArg(a[0])
		v1 := sutf8.Validate(in)
		v2 := sutf8.ValidateString(string(in))
		s := b01(v1)
		if v1 != v2 {
			s = "split:" + b01(v1) + b01(v2)
		}
		return "sonic=" + s + "\tref=" + b01(utf8.Valid(in))
	})

	// utf8c <repl> <dst> <src>: utf8.CorrectWith(dst, src, repl); ref = bytewise replacement computed
	// with unicode/utf8
	registerOp("utf8c", func(a []string) string {
		repl := string(unhexArg(a[0]))
		d := unhexArg(a[1])
		src := unhexArg(a[2])
		dst := append(make([]byte, 0, len(d)), d...)
		out := sutf8.CorrectWith(dst, src, repl)
		ref := append(append([]byte{}, d...), fixUTF8(src, repl)...)
		return "sonic=" + hexArg(out) + "\tref=" + hexArg(ref)
	})

	// mstr <shape> <cfg> <hex>: the string reached through Marshal.
	//   shape v: Marshal(string)  i: Marshal(interface{}(string))  f: struct field  fs: field with `,string`
	//         k: map key          a: ast.NewString(s).MarshalJSON()
	//   cfg d: ConfigDefault  s: ConfigStd  h: EscapeHTML only  v: ValidateString only
	// sonic = the literal (frame cut off); direct = the same composed from the directly called routines;
	// ref = 1 when encoding/json decodes the whole document to the expected string
	registerOp("mstr", func(a []string) string {
		shape, cfg := a[0], a[1]
		in := string(unhexArg(a[2]))
		api := marshalCfg(cfg)
		var doc []byte
		var err error
		pre, suf := "", ""
		switch shape {
		case "v":
			doc, err = api.Marshal(in)
		case "i":
			var x interface{} = in
			doc, err = api.Marshal(x)
		case "f":
			doc, err = api.Marshal(strField{in})
			pre, suf = `{"s":`, `}`
		case "fs":
			doc, err = api.Marshal(strFieldQ{in})
			pre, suf = `{"s":`, `}`
		case "k":
			doc, err = api.Marshal(map[string]int{in: 1})
			pre, suf = `{`, `:1}`
		case "a":
			n := ast.NewString(in)
			doc, err = n.MarshalJSON()
		default:
			return "sonic=unsupported"
		}
		if err != nil {
			return "sonic=err"
		}
		lit, ok := unframe(doc, pre, suf)
		if !ok {
			return "sonic=badframe:" + hexArg(doc)
		}
		// the directly called routines, composed as internal/encoder/encoder.go:225 composes them
		d := []byte(encoder.Quote(in))
		if shape == "fs" {
			d = []byte(encoder.Quote(string(d)))
		}
		html := shape != "a" && (cfg == "s" || cfg == "h")
		valid := shape != "a" && (cfg == "s" || cfg == "v")
		if html {
			d = encoder.HTMLEscape(nil, d)
		}
		if valid && !sutf8.Validate(d) {
			d = sutf8.CorrectWith(nil, d, `\ufffd`)
		}
		// reference: encoding/json reads the document back
		want := in
		if valid || !utf8.ValidString(in) {
			want = string(fixUTF8([]byte(in), "\ufffd"))
		}
		ref := "0"
		switch shape {
		case "v", "i", "a":
			var back string
			if json.Unmarshal(doc, &back) == nil && back == want {
				ref = "1"
			}
		case "f":
			var back strField
			if json.Unmarshal(doc, &back) == nil && back.S == want {
				ref = "1"
			}
		case "fs":
			var back strFieldQ
			if json.Unmarshal(doc, &back) == nil && back.S == want {
				ref = "1"
			}
		case "k":
			back := map[string]int{}
			if json.Unmarshal(doc, &back) == nil && len(back) == 1 {
				if _, ok := back[want]; ok {
					ref = "1"
				}
			}
		}
		return "sonic=" + hexArg(lit) + "\tdirect=" + hexArg(d) + "\tref=" + ref
	})

	// ustr <shape> <cfg> <body>: the string body reached through Unmarshal of `"`+body+`"`.
	//   shape v: into *string  i: into *interface{}  f: struct field  fs: field with `,string`
	//         (document {"s":"\"`+body+`\""})
	//   cfg d: ConfigDefault  s: ConfigStd  u: decoder with UseUnicodeErrors (no F_UNICODE_REPLACE)
	// direct = unquote.String on the body where the configuration adds nothing to it;
	// ref = encoding/json on the same document where it is comparable
	registerOp("ustr", func(a []string) string {
		shape, cfg := a[0], a[1]
		body := string(unhexArg(a[2]))
		var doc string
		switch shape {
		case "v", "i":
			doc = `"` + body + `"`
		case "f":
			doc = `{"s":"` + body + `"}`
		case "fs":
			doc = `{"s":"\"` + body + `\""}`
		default:
			return "sonic=unsupported"
		}
		dec := func(v interface{}) error {
			switch cfg {
			case "s":
				return sonic.ConfigStd.UnmarshalFromString(doc, v)
			case "u":
				d := decoder.NewDecoder(doc)
				d.UseUnicodeErrors()
				if err := d.Decode(v); err != nil {
					return err
				}
				return d.CheckTrailings()
			}
			return sonic.UnmarshalString(doc, v)
		}
		var got, std string
		var err, serr error
		switch shape {
		case "v":
			err = dec(&got)
			serr = json.Unmarshal([]byte(doc), &std)
		case "i":
			var x, y interface{}
			err = dec(&x)
			if err == nil {
				s, ok := x.(string)
				if !ok {
					return "sonic=nonstring"
				}
				got = s
			}
			serr = json.Unmarshal([]byte(doc), &y)
			if serr == nil {
				std, _ = y.(string)
			}
		case "f":
			var x, y strField
			err = dec(&x)
			got = x.S
			serr = json.Unmarshal([]byte(doc), &y)
			std = y.S
		case "fs":
			var x, y strFieldQ
			err = dec(&x)
			got = x.S
			serr = json.Unmarshal([]byte(doc), &y)
			std = y.S
		}
		res := "err"
		if err == nil {
			res = okHex([]byte(got))
		}
		ref := "err"
		if serr == nil {
			ref = okHex([]byte(std))
		}
		direct := "na"
		if shape != "fs" && cfg == "d" && !strings.Contains(body, `"`) {
			s, e := unquote.String(body)
			if e == 0 {
				direct = okHex([]byte(s))
			} else {
				direct = "err"
			}
		}
		return "sonic=" + res + "\tdirect=" + direct + "\tref=" + ref
	})
}

func hasCtl(b []byte) bool {
	for _, c := range b {
		if c < 0x20 {
			return true
		}
	}
	return false
}

func atoi(s string) int {
	n := 0
	for _, c := range s {
		if c < '0' || c > '9' {
			break
		}
		n = n*10 + int(c-'0')
	}
	return n
}

func cleanMsg(p interface{}) string {
	msg := ""
	switch v := p.(type) {
	case string:
		msg = v
	case error:
		msg = v.Error()
	default:
		msg = "panic"
	}
	if len(msg) > 120 {
		msg = msg[:120]
	}
	return strings.Map(func(r rune) rune {
		if r == '\t' || r == '\n' || r == '\r' {
			return ' '
		}
		return r
	}, msg)
}
