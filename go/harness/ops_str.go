package main

import (
	"github.com/bytedance/sonic/encoder"
)

func init() {
	// quote <hex bytes> -> sonic=<hex of encoder.Quote>
	registerOp("quote", func(a []string) string {
		s := string(unhexArg(a[0]))
		return "sonic=" + hexArg([]byte(encoder.Quote(s)))
	})
}
