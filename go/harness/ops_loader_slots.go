package main

// gcslot <kind> <seed> <n>   (property C10: failing-input search aimed at single pointer slots)
//
// Each kind puts a heap object into a position where, while a user callback runs, the ONLY
// reference to it is one particular slot of sonic's generated frame or pooled stack, then lets the
// collector run inside the callback (receiver dead in every Go frame) and re-uses freed memory of the
// same size class with poison.  A slot the collector does not trace shows up as: the object's
// finalizer firing during the call, a decoded value / error made of somebody else's bytes, or a crash.
// Oracle: the same input run quietly through the same sonic.
//
//	vk       map with TextUnmarshaler keys: the key under construction lives only in the `vk`
//	         argument word of the decoder frame (argPtrs bit 8) during UnmarshalText
//	vkreuse  the same without the finalizer probe (detection through re-use of the freed key only)
//	recv     Unmarshaler / TextUnmarshaler receivers in every other position (map value, *T element,
//	         **T, pre-set interface, nested program): the decoder still needs them after the callback
//	ep       a type-mismatch error reported by a nested program is parked in `_Stack.ep`
//	         while later callbacks collect, then formatted
//	encbuf   encoder: output buffer grown inside generated code right before a Marshaler callback
//	enckey   encoder: map iteration with TextMarshaler keys / Marshaler values, callback collects

import (
	"encoding/json"
	"errors"
	"fmt"
	"math/rand"
	"reflect"
	"runtime"
	"strconv"
	"strings"
	"sync/atomic"
	"time"

	"github.com/bytedance/sonic"
	"github.com/bytedance/sonic/decoder"
)

const slotPoison = 0xdeaddeaddeaddead

type slotState struct {
	on      bool
	caseID  int64
	r       *rand.Rand
	calls   int
	finsSet int
	sprayN  int
	noFin   bool // reuse probe only
}

var (
	slotSt      slotState
	slotCaseSeq int64
	slotSinkK   []*slotK
	slotSinkE   []*decoder.MismatchTypeError
	slotSinkB   [][]byte
)

// 32 bytes, contains a pointer: not tiny-allocated, not in a noscan span
type slotK struct {
	A, B uint64
	S    string
}

type slotU struct {
	A, B uint64
	S    string
}

//go:noinline
func slotSpray(n int) {
	if len(slotSinkK) > 60000 { // keep the heap (and with it the cost of every forced collection) bounded
		slotSinkK, slotSinkE = nil, nil
	}
	for i := 0; i < n; i++ {
		slotSinkK = append(slotSinkK, &slotK{A: slotPoison, B: slotPoison, S: "POISON"})
	}
	for i := 0; i < n/2; i++ {
		slotSinkE = append(slotSinkE, &decoder.MismatchTypeError{Pos: -7, Src: "SPRAYED"})
	}
}

//go:noinline
func slotSprayBytes() {
	for sz := 512; sz <= 1<<18; sz <<= 1 {
		cnt := (1 << 20) / sz
		if cnt > 64 {
			cnt = 64
		}
		for i := 0; i < cnt+2; i++ {
			b := make([]byte, sz)
			for k := range b {
				b[k] = 0xA5
			}
			slotSinkB = append(slotSinkB, b)
		}
	}
}

// slotArm decides (from the case's PRNG) whether this callback probes with a finalizer, and sets it.
// Only called for receivers that are separately allocated heap objects (SetFinalizer on an interior
// pointer is a fatal error): map keys, and values whose JSON text carries the marker "p":1.
func slotArm(p interface{}, tok int64) bool {
	s := &slotSt
	if !s.on || s.noFin || (s.r.Intn(2) == 0 && s.calls > 2) {
		return false
	}
	switch v := p.(type) {
	case *slotK:
		runtime.SetFinalizer(v, func(*slotK) {
			if atomic.LoadInt64(&slotInCallback) == tok {
				atomic.StoreInt32(&slotCollected, 1)
			}
		})
	case *slotU:
		runtime.SetFinalizer(v, func(*slotU) {
			if atomic.LoadInt64(&slotInCallback) == tok {
				atomic.StoreInt32(&slotCollected, 1)
			}
		})
	}
	s.finsSet++
	return true
}

// slotHostile runs inside a callback AFTER the callback is done with its receiver: the receiver is
// dead in every Go frame, the decoder that waits for the callback to return holds the only reference.
//
//go:noinline
func slotHostile(armed bool) {
	s := &slotSt
	s.calls++
	if !s.on {
		return
	}
	act := s.r.Intn(4)
	rounds := 2
	if armed {
		rounds = 4
	}
	for i := 0; i < rounds; i++ {
		runtime.GC()
		if armed {
			time.Sleep(time.Millisecond)
			if atomic.LoadInt32(&slotCollected) != 0 {
				break
			}
		}
	}
	if act != 0 || s.calls <= 2 {
		slotSpray(s.sprayN)
	}
}

var slotNoFin bool

var (
	slotInCallback int64 // token of the callback invocation that is running (0 = none)
	slotCallSeq    int64
	slotCollected  int32 // a receiver was collected while its own callback was still running
)

func (k *slotK) UnmarshalText(b []byte) error {
	k.A, k.B, k.S = 1, 2, string(b)
	tok := atomic.AddInt64(&slotCallSeq, 1)
	atomic.StoreInt64(&slotInCallback, tok)
	armed := slotArm(k, tok)
	slotHostile(armed) // k is dead from here on
	atomic.StoreInt64(&slotInCallback, 0)
	return nil
}

func (k slotK) MarshalText() ([]byte, error) {
	slotHostile(false)
	if slotSt.on {
		slotSprayBytes()
	}
	return []byte(k.S + "#" + strconv.FormatUint(k.A, 10)), nil
}

func (u *slotU) UnmarshalJSON(b []byte) error {
	u.A, u.B, u.S = 1, 2, string(b)
	tok := atomic.AddInt64(&slotCallSeq, 1)
	atomic.StoreInt64(&slotInCallback, tok)
	armed := false
	if strings.Contains(u.S, `"p":1`) { // the generator marks values that are objects of their own
		armed = slotArm(u, tok)
	}
	slotHostile(armed) // u is dead from here on
	atomic.StoreInt64(&slotInCallback, 0)
	return nil
}

func (u slotU) MarshalJSON() ([]byte, error) {
	slotHostile(false)
	if slotSt.on {
		slotSprayBytes()
	}
	return []byte(`{"s":` + strconv.Quote(u.S) + `,"a":` + strconv.FormatUint(u.A, 10) + `}`), nil
}

type slotDoc struct {
	MK  map[slotK]int
	MKP map[slotK]*slotU
	MV  map[string]slotU
	MP  map[string]*slotU
	L   []slotU
	LP  []*slotU
	P   *slotU
	PP  **slotU
	I   interface{}
	A   [2]slotU
	N   *slotDoc
}

func slotReset(on bool, seed int64, spray int) {
	slotSt = slotState{on: on, caseID: atomic.AddInt64(&slotCaseSeq, 1), r: rand.New(rand.NewSource(seed)), sprayN: spray, noFin: slotNoFin}
	atomic.StoreInt32(&slotCollected, 0)
	slotSinkK, slotSinkE, slotSinkB = nil, nil, nil
}

func slotStats() string {
	return fmt.Sprintf("calls=%d\tfins=%d", slotSt.calls, slotSt.finsSet)
}

func slotWord(r *rand.Rand) string {
	n := 1 + r.Intn(12)
	b := make([]byte, n)
	for i := range b {
		b[i] = byte('a' + r.Intn(26))
	}
	return string(b)
}

func slotKeys(r *rand.Rand, n int, val func(i int) string) string {
	var sb strings.Builder
	sb.WriteByte('{')
	for i := 0; i < n; i++ {
		if i > 0 {
			sb.WriteByte(',')
		}
		sb.WriteString(strconv.Quote(slotWord(r)+strconv.Itoa(i)) + ":" + val(i))
	}
	sb.WriteByte('}')
	return sb.String()
}

func slotDocJSON(r *rand.Rand, kind string, n, depth int) string {
	num := func(i int) string { return strconv.Itoa(i + 1) }
	uval := func(i int) string { return `{"v":` + strconv.Quote(slotWord(r)) + `}` }       // receiver inside a larger object
	pval := func(i int) string { return `{"v":` + strconv.Quote(slotWord(r)) + `,"p":1}` } // receiver is an object of its own
	var parts []string
	parts = append(parts, `"MK":`+slotKeys(r, n, num))
	if kind == "recv" {
		parts = append(parts, `"MKP":`+slotKeys(r, 1+n/2, pval))
		parts = append(parts, `"MV":`+slotKeys(r, 1+n/2, uval))
		parts = append(parts, `"MP":`+slotKeys(r, 1+n/2, pval))
		var l, lp []string
		for i := 0; i < 1+n/2; i++ {
			l = append(l, uval(i))
			lp = append(lp, pval(i))
		}
		parts = append(parts, `"L":[`+strings.Join(l, ",")+`]`)
		parts = append(parts, `"LP":[`+strings.Join(lp, ",")+`]`)
		parts = append(parts, `"P":`+pval(0), `"PP":`+pval(1), `"I":`+pval(2))
		parts = append(parts, `"A":[`+uval(3)+`,`+uval(4)+`]`)
		if depth > 0 {
			parts = append(parts, `"N":`+slotDocJSON(r, kind, n/2+1, depth-1))
		}
	}
	// order of the members varies
	r.Shuffle(len(parts), func(i, j int) { parts[i], parts[j] = parts[j], parts[i] })
	return "{" + strings.Join(parts, ",") + "}"
}

//go:noinline
func slotDecode(doc string, on bool, seed int64, spray int) (*slotDoc, error, slotState) {
	in := string(append([]byte(nil), doc...))
	slotReset(on, seed, spray)
	d := &slotDoc{I: &slotU{}}
	err := sonic.UnmarshalString(in, d)
	st := slotSt
	slotSt.on = false
	return d, err, st
}

func slotRunDecode(kind string, seed int64, n int) string {
	r := rand.New(rand.NewSource(seed))
	slotNoFin = kind == "vkreuse"
	doc := slotDocJSON(r, kind, n, 1)
	quiet, qerr, _ := slotDecode(doc, false, seed, 0)
	host, herr, st := slotDecode(doc, true, seed, 10000)
	stats := fmt.Sprintf("calls=%d\tfins=%d\tbytes=%d", st.calls, st.finsSet, len(doc))
	if atomic.LoadInt32(&slotCollected) != 0 {
		return "sonic=corrupt:receiver-collected-while-decoder-still-needs-it\t" + stats
	}
	if (qerr == nil) != (herr == nil) {
		return "sonic=corrupt:error-only-under-gc\t" + stats
	}
	runtime.GC()
	if !reflect.DeepEqual(quiet, host) {
		return "sonic=corrupt:value-differs-under-gc:" + slotDiff(quiet, host) + "\t" + stats
	}
	runtime.KeepAlive(slotSinkK)
	slotSinkK, slotSinkE, slotSinkB = nil, nil, nil
	return "sonic=ok\t" + stats
}

func slotDiff(a, b *slotDoc) string {
	va, vb := reflect.ValueOf(*a), reflect.ValueOf(*b)
	for i := 0; i < va.NumField(); i++ {
		if !reflect.DeepEqual(va.Field(i).Interface(), vb.Field(i).Interface()) {
			s := fmt.Sprintf("%s=%+v", va.Type().Field(i).Name, vb.Field(i).Interface())
			if len(s) > 100 {
				s = s[:100]
			}
			return strings.Map(func(r rune) rune {
				if r == '\t' || r == '\n' {
					return ' '
				}
				return r
			}, s)
		}
	}
	return "?"
}

// ---- ep: mismatch error of a nested program parked across collections --------------------------

type slotHook struct{ called int }

func (h *slotHook) UnmarshalJSON(b []byte) error {
	h.called++
	s := &slotSt
	s.calls++
	if s.on {
		runtime.GC()
		runtime.GC()
		slotSpray(s.sprayN)
	}
	return nil
}

type slotSub struct {
	X int `json:"x"`
	Y int `json:"y"`
}

type slotTop struct {
	H0 slotHook    `json:"h0"`
	A  interface{} `json:"a"`
	B  slotHook    `json:"b"`
	C  []slotHook  `json:"c"`
}

type slotNode struct {
	X    int       `json:"x"`
	Next *slotNode `json:"next"`
	H    slotHook  `json:"h"`
	T    []int     `json:"t"`
}

func slotErrSummary(err error, src string) (sum string) {
	if err == nil {
		return "nil"
	}
	defer func() {
		if r := recover(); r != nil {
			sum = "panic-while-formatting-the-error"
		}
	}()
	var me *decoder.MismatchTypeError
	if errors.As(err, &me) {
		ok := me.Src == src && me.Pos >= 0 && me.Pos <= len(src) && me.Type != nil
		return fmt.Sprintf("mismatch|%v|%d|%v|%s", ok, me.Pos, me.Type, err.Error())
	}
	return fmt.Sprintf("%T|%s", err, err.Error())
}

//go:noinline
func slotEpOnce(shape int, src string, on bool, seed int64) (string, int) {
	in := string(append([]byte(nil), src...))
	slotReset(on, seed, 10000)
	var err error
	if shape == 0 {
		top := &slotTop{A: &slotSub{}}
		err = sonic.UnmarshalString(in, top)
	} else {
		var n slotNode
		err = sonic.UnmarshalString(in, &n)
	}
	calls := slotSt.calls
	slotSt.on = false
	runtime.GC()
	sum := slotErrSummary(err, in)
	return strings.Replace(sum, in, "<src>", -1), calls
}

func slotRunEp(seed int64, n int) string {
	r := rand.New(rand.NewSource(seed))
	shape := int(seed & 1)
	var src string
	hooks := make([]string, 1+n%4)
	for i := range hooks {
		hooks[i] = strconv.Itoa(r.Intn(100))
	}
	pad := strings.Repeat(" ", r.Intn(5))
	if shape == 0 {
		src = `{"h0":1,"a":{"y":` + strconv.Itoa(r.Intn(9)) + `,` + pad + `"x":"` + slotWord(r) + `"},"b":2,"c":[` + strings.Join(hooks, ",") + `]}`
	} else {
		inner := `{"x":"` + slotWord(r) + `"}`
		for d := r.Intn(3); d > 0; d-- {
			inner = `{"x":` + strconv.Itoa(d) + `,"next":` + inner + `,"h":7}`
		}
		src = `{"x":1,` + pad + `"next":` + inner + `,"h":1,"t":[` + strings.Join(hooks, ",") + `]}`
	}
	quiet, _ := slotEpOnce(shape, src, false, seed)
	host, calls := slotEpOnce(shape, src, true, seed)
	stats := fmt.Sprintf("calls=%d\tbytes=%d", calls, len(src))
	slotSinkK, slotSinkE, slotSinkB = nil, nil, nil
	if quiet != host {
		clean := func(s string) string {
			if len(s) > 160 {
				s = s[:160]
			}
			return strings.Map(func(r rune) rune {
				if r == '\t' || r == '\n' {
					return ' '
				}
				return r
			}, s)
		}
		return "sonic=corrupt:error-differs-under-gc\tquiet=" + clean(quiet) + "\thostile=" + clean(host) + "\t" + stats
	}
	if !strings.HasPrefix(quiet, "mismatch|true|") {
		return "sonic=ok\tnote=no-mismatch-error\t" + stats
	}
	return "sonic=ok\tparked=1\t" + stats
}

// ---- encoder ------------------------------------------------------------------------------------

type slotEnc struct {
	Big  string
	M    slotU
	MP   *slotU
	Mid  []int
	MK   map[slotK]slotU
	L    []slotU
	I    interface{}
	Tail string
}

func slotRunEncode(kind string, seed int64, n int) string {
	r := rand.New(rand.NewSource(seed))
	mk := func() slotU { return slotU{A: uint64(r.Intn(1000)), S: slotWord(r)} }
	v := &slotEnc{M: mk(), Tail: slotWord(r), MK: map[slotK]slotU{}}
	// a string that does not fit the buffer the encoder starts with: growth happens in generated code
	v.Big = strings.Repeat(slotWord(r), 1+(300<<uint(r.Intn(6)))/8)
	u := mk()
	v.MP = &u
	for i := 0; i < n*4; i++ {
		v.Mid = append(v.Mid, r.Intn(1<<30))
	}
	if kind == "enckey" {
		for i := 0; i < n; i++ {
			v.MK[slotK{A: uint64(i), S: slotWord(r)}] = mk()
			v.L = append(v.L, mk())
		}
		v.I = mk()
	}
	api := gcSorted
	slotReset(false, seed, 0)
	quiet, qerr := api.Marshal(v)
	quiet = append([]byte(nil), quiet...)
	slotReset(true, seed, 2000)
	host, herr := api.Marshal(v)
	calls := slotSt.calls
	slotSt.on = false
	stats := fmt.Sprintf("calls=%d\tbytes=%d", calls, len(host))
	if (qerr == nil) != (herr == nil) {
		return "sonic=corrupt:error-only-under-gc\t" + stats
	}
	hostCopy := string(host)
	runtime.GC()
	slotSprayBytes()
	runtime.GC()
	changed := string(host) != hostCopy
	slotSinkK, slotSinkE, slotSinkB = nil, nil, nil
	if changed {
		return "sonic=corrupt:output-changed-after-gc\t" + stats
	}
	if string(quiet) != hostCopy {
		return "sonic=corrupt:output-differs-under-gc\t" + stats
	}
	if !json.Valid(host) {
		return "sonic=corrupt:output-invalid\t" + stats
	}
	return "sonic=ok\t" + stats
}

func init() {
	registerOp("gcslot", func(a []string) string {
		kind := a[0]
		seed, _ := strconv.ParseInt(a[1], 10, 64)
		n, _ := strconv.Atoi(a[2])
		if n < 1 {
			n = 1
		}
		defer func() { slotSt = slotState{}; slotSinkK, slotSinkE, slotSinkB = nil, nil, nil }()
		switch kind {
		case "vk", "vkreuse", "recv":
			return slotRunDecode(kind, seed, n)
		case "ep":
			return slotRunEp(seed, n)
		case "encbuf", "enckey":
			return slotRunEncode(kind, seed, n)
		}
		return "sonic=unsupported"
	})
}
