// Package dup (import path .../pkga): one of two distinct packages with the SAME package name, so
// that pkga.T and pkgb.T are distinct Go types with identical reflect.Type.String() == "dup.T".
package dup

type T struct {
	A int64
	B string
}

type Inner struct {
	N int
}

// New returns a value of this package's T that exercises every field.
func New() T { return T{A: 41, B: "pkga"} }

const JSON = `{"A":7,"B":"from-a"}`
