package main

// c18.big - large documents built by repetition (see ops_opts_big.go): for every decoder switch whose effect
// shows in values, array lengths that straddle the internal size thresholds.

import (
	"fmt"

	"github.com/bytedance/sonic/option"
)

// optdec's pooled node buffer: internal/decoder/optdec/native.go `defaultNodesCap = (1 << 20) / unsafe.Sizeof(node{})`
// (16-byte nodes).  Not exported and not a plain constant for factx; the sizes below also sweep powers of two, so a
// retuned capacity is still straddled in the thorough tier.
const ocOptdecNodes = (1 << 20) / 16

// elements: every number shape whose landing depends on UseNumber / UseInt64, strings the string switches look at
var ocBigElems = []string{`12345678901234567890`, `1.50`, `7`, `-0`, `1e2`, `"ab"`, `"aé\n"`, `[1,"x"]`, `{"k":2.50,"K":"v"}`, `null`, `true`,
	"\"a\xffb\"", "\"c\x01\""}

var ocBigTmpls = [][2]string{{"nest", "A"}, {"nest", "I"}, {"nest", "M"}, {"nest", "skip"}, {"nest", "case"}, {"any", "arr"}, {"any", "obj"},
	{"mapany", "obj"}, {"slany", "arr"}, {"flat", "ab"}, {"flat", "tail"}}

func ocBigSwitches() []int {
	var r []int
	for i, n := range ocFieldNames {
		switch n {
		case "UseNumber", "UseInt64", "CopyString", "DisallowUnknownFields", "ValidateString", "CaseSensitive", "NoValidateJSONSkip", "UseUnicodeErrors":
			r = append(r, i)
		}
	}
	return r
}

func ocBigSizes(g *Gen) []int {
	dec := int(option.DefaultDecoderBufferSize)
	lim := int(option.LimitBufferSize)
	// counts of repeated elements (an element is one or a few nodes, 1..20 bytes): around the node buffer, around
	// the byte thresholds divided by typical element sizes
	base := []int{ocOptdecNodes - 40, ocOptdecNodes - 3, ocOptdecNodes + 2, ocOptdecNodes + 40, 2*ocOptdecNodes + 5, ocOptdecNodes / 2, ocOptdecNodes / 3,
		dec / 2, dec + 1, 2*dec + 3, lim / 21, lim/21 + 50, lim/4 + 1, 70000, 200000}
	if g.Tier == "thorough" {
		for sh := uint(8); sh <= 18; sh++ {
			base = append(base, 1<<sh-1, 1<<sh+1)
		}
		base = append(base, 3*ocOptdecNodes+1, 300000)
	}
	return base
}

func init() {
	registerGen("c18.big", func(g *Gen) {
		sws := ocBigSwitches()
		sizes := ocBigSizes(g)
		emit := func(sw int, cfg uint64, t [2]string, elem string, n int) {
			g.Emit("optbig", itoa(sw), fmt.Sprint(cfg), t[0], t[1], hexArg([]byte(elem)), itoa(n))
		}
		// fixed part: each switch, others off, number elements, struct root with the array in A, just above the
		// optdec node buffer - plus one case per template
		for _, sw := range sws {
			emit(sw, 0, [2]string{"nest", "A"}, ocBigElems[0], ocOptdecNodes+40)
		}
		for i, t := range ocBigTmpls {
			emit(sws[i%len(sws)], 0, t, ocBigElems[1], 70000)
		}
		for i := 0; i < g.N; i++ {
			sw := sws[g.R.Intn(len(sws))]
			cfg := ocRandCfg(g, sw)
			if g.R.Intn(3) == 0 {
				cfg = 0
			}
			emit(sw, cfg, ocBigTmpls[g.R.Intn(len(ocBigTmpls))], ocPick(g, ocBigElems), sizes[g.R.Intn(len(sizes))])
		}
	})
}
