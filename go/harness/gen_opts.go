package main

// Generators of the C18 work package (`opts`).  Every random choice comes from g.R.
//
//   c18.pair    optpair cases: each switch on/off against random settings of the others, on the side
//               the switch belongs to (and, less often, on the other side where it must change nothing)
//   c18.entry   alternative entry points against the frozen Config
//   c18.words   froze / setseq: real option words against the regenerated wiring tables

import (
	"encoding/hex"
	"encoding/json"
	"fmt"
	"strings"
)

type ocD = map[string]interface{}

func ocHexS(s string) string { return hex.EncodeToString([]byte(s)) }

var ocStrPool = []string{"", "a", "plain text", "<script>&amp;</script>", "a<b>c&d", " ", "x y", "q\"uote", "back\\slash",
	"tab\tnl\n", "\x00\x01\x1f", "é中😀", "\xff", "a\xc0\x80b", "\xe2\x80", "\xed\xa0\x80", "\xf4\x90\x80\x80", "\xe2\x80\xa8<", "<\xff>", "\x7f",
	"null", "7.25e+7", "/slash", "&&", ">"}

var ocKeyPool = []string{"", "a", "b", "ab", "B", "A", "aa", "a\"", "<k>", "k&", " ", "é", "z", "Z", "0", "10", "9", "a b", "\\", "\x01", "~", "k1", "k2", "k10", "\xff", "a\xffb",
	"abcdefghijklmnopqrstuvwxyz0123456789", "abcdefghijklmnopqrstuvwxyz0123456788", "aaaaaaaaaaaaaaaaaaaaaaaaaaaaaaaaa", "aaaaaaaaaaaaaaaaaaaaaaaaaaaaaaaab", "a\x00", "a\x00b"}

// texts returned by TextMarshaler leaves (never \t \n \r: the model counts white space)
var ocTMPool = []string{"tm", "tm plain", "12", "true", "\"quoted\"", "tm<&>", "tm\"q", "tm\\b", "tm ", "tm\xff", "[1,2]", "tm\x01"}

var ocJMGood = []string{`null`, `12.5`, `"s"`, `[1,2]`, `{"Fz":1,"Fa":[true,null]}`, `"<&>"`, "\" \"", `{}`, `[]`, `-0`, `"<"`, `{"Fb":{"Fz":1,"Fa":2}}`}
var ocJMSpaced = []string{` null`, "12.5\n", ` {"Fz" : 1 ,` + "\n" + `"Fa":[ 1 , 2 ]}` + "\t", `[ ]`, `{ }`, "[1, 2]", `{"Fz": "a b"}`, " \"s \" "}
var ocJMBad = []string{`{"Fa":`, `[1,]`, `tru`, `01`, ``, `{"Fa":1}}`, `"unterminated`, `nul`, `[1 2]`, `{"Fa" 1}`, ` `, `1 2`}

func ocPick(g *Gen, p []string) string { return p[g.R.Intn(len(p))] }

func ocStrDesc(s string) interface{} {
	return ocD{"t": "str", "h": ocHexS(s)}
}

func ocGenStr(g *Gen) string {
	if g.R.Intn(4) == 0 {
		return string(randBytes(g, 12))
	}
	return ocPick(g, ocStrPool)
}

func ocGenFloat(g *Gen) interface{} {
	switch g.R.Intn(8) {
	case 0:
		return "nan"
	case 1:
		return "+inf"
	case 2:
		return "-inf"
	}
	return ocPick(g, []string{"0", "-0", "1.5", "1e21", "123456789", "1e-7", "-2.5", "3.4e38", "1e300", "0.1"})
}

func ocGenTM(g *Gen, ptr bool) interface{} {
	d := ocD{"t": "tm", "h": ocHexS(ocPick(g, ocTMPool))}
	if g.R.Intn(25) == 0 {
		d["err"] = true
	}
	if ptr {
		d["ptr"] = true
	}
	return d
}

func ocGenJM(g *Gen) interface{} {
	var r string
	switch n := g.R.Intn(10); {
	case n < 5:
		r = ocPick(g, ocJMGood)
	case n < 8:
		r = ocPick(g, ocJMSpaced)
	default:
		r = ocPick(g, ocJMBad)
	}
	d := ocD{"t": "jm", "h": ocHexS(r)}
	if g.R.Intn(25) == 0 {
		d["err"] = true
	}
	return d
}

// distinct map keys that never start with 'F' (struct members do)
func ocGenKeys(g *Gen, n int, pool []string) []string { return ocGenKeysP(g, n, pool, "") }

// prefix: put in front of the random (non-pool) keys; TextMarshaler texts all start with "tm" (or are one of a
// few fixed texts) so that no ordinary string of a value can be mistaken for one
func ocGenKeysP(g *Gen, n int, pool []string, prefix string) []string {
	seen := map[string]bool{}
	var r []string
	for tries := 0; len(r) < n && tries < 4*n+8; tries++ {
		k := ocPick(g, pool)
		if g.R.Intn(5) == 0 {
			k = prefix + string(randBytes(g, 6))
		}
		if strings.HasPrefix(k, "F") || seen[k] {
			continue
		}
		seen[k] = true
		r = append(r, k)
	}
	return r
}

func ocGenMapEntries(g *Gen, depth int, kind string) []interface{} {
	n := []int{0, 1, 1, 2, 3, 5, 9, 20}[g.R.Intn(8)]
	es := []interface{}{}
	switch kind {
	case "int":
		seen := map[int]bool{}
		for i := 0; i < n; i++ {
			k := []int{0, 1, -1, 2, 10, 9, 100, -10, 1 << 40, -(1 << 40), 7, 70}[g.R.Intn(12)]
			if seen[k] {
				continue
			}
			seen[k] = true
			es = append(es, []interface{}{k, ocGenVal(g, depth-1)})
		}
	case "tm":
		pool := []string{"tm", "tmb", "tma", "tm<", "tm\"", "tm\xff", "tm0", "tm10", "tm9"}
		for _, k := range ocGenKeysP(g, n, pool, "tm") {
			es = append(es, []interface{}{ocHexS(k), ocGenVal(g, depth-1)})
		}
	default:
		for _, k := range ocGenKeys(g, n, ocKeyPool) {
			es = append(es, []interface{}{ocHexS(k), ocGenVal(g, depth-1)})
		}
	}
	return es
}

func ocGenStrIntMap(g *Gen) interface{} {
	switch g.R.Intn(4) {
	case 0:
		return nil
	case 1:
		return []interface{}{}
	}
	es := []interface{}{}
	for i, k := range ocGenKeys(g, 1+g.R.Intn(6), ocKeyPool) {
		es = append(es, []interface{}{ocHexS(k), i})
	}
	return es
}

func ocGenIntSlice(g *Gen) interface{} {
	switch g.R.Intn(3) {
	case 0:
		return nil
	case 1:
		return []interface{}{}
	}
	return []interface{}{1, -2, 3}[:1+g.R.Intn(3)]
}

func ocGenS1(g *Gen, depth int) interface{} {
	d := ocD{"t": "s1"}
	d["Fsl"] = ocGenIntSlice(g)
	d["Fmp"] = ocGenStrIntMap(g)
	if g.R.Intn(2) == 0 {
		d["Fby"] = ocHexS(string(randBytes(g, 5)))
	}
	if g.R.Intn(2) == 0 {
		d["Fso"] = ocGenIntSlice(g)
	}
	if g.R.Intn(2) == 0 {
		d["Fmo"] = ocGenStrIntMap(g)
	}
	fl := func() interface{} {
		if g.R.Intn(3) == 0 {
			return ocGenFloat(g)
		}
		return "1.5"
	}
	d["Ff"], d["Fg"], d["Ffs"] = fl(), fl(), fl()
	d["Fs"] = ocStrDesc(ocGenStr(g))
	d["Fss"] = ocStrDesc(ocGenStr(g))
	d["Ftm"] = ocGenTM(g, false)
	if g.R.Intn(2) == 0 {
		d["Fpt"] = ocGenTM(g, false)
	}
	d["Fjm"] = ocGenJM(g)
	if g.R.Intn(2) == 0 {
		d["Fz"] = g.R.Intn(3)
	}
	if g.R.Intn(3) != 0 {
		arr := []interface{}{}
		for i := g.R.Intn(3); i > 0; i-- {
			arr = append(arr, ocGenVal(g, depth-1))
		}
		d["Fas"] = arr
	}
	if g.R.Intn(3) != 0 {
		d["Fam"] = ocGenMapEntries(g, depth, "str")
	}
	if g.R.Intn(3) != 0 {
		d["Fim"] = ocGenMapEntries(g, depth, "int")
	}
	if g.R.Intn(3) != 0 {
		es := []interface{}{}
		for i, k := range ocGenKeysP(g, g.R.Intn(4), []string{"tm", "tmb", "tma", "tm<", "tm\"", "tm\xff"}, "tm") {
			es = append(es, []interface{}{ocHexS(k), i})
		}
		d["Ftk"] = es
	}
	d["Fb"] = ocGenVal(g, depth-1)
	d["Fa"] = ocGenVal(g, depth-1)
	return d
}

func ocGenS2(g *Gen, depth int) interface{} {
	d := ocD{"t": "s2"}
	d["Fy"] = ocGenVal(g, depth-1)
	if g.R.Intn(2) == 0 {
		d["Fx"] = ocGenFloat(g)
	}
	if g.R.Intn(2) == 0 {
		arr := []interface{}{}
		for i := g.R.Intn(3); i > 0; i-- {
			arr = append(arr, ocStrDesc(ocGenStr(g)))
		}
		d["Fn"] = arr
	}
	if g.R.Intn(3) == 0 {
		d["Fo"] = ocGenMapEntries(g, depth, "str")
	}
	return d
}

func ocGenVal(g *Gen, depth int) interface{} {
	n := g.R.Intn(24)
	if depth <= 0 && n >= 16 {
		n = g.R.Intn(16)
	}
	switch n {
	case 0:
		return nil
	case 1:
		return g.R.Intn(2) == 0
	case 2:
		return []interface{}{0.0, 1.5, -2.0, 1e21, 123456789.0, 1e-7}[g.R.Intn(6)]
	case 3, 4:
		return ocStrDesc(ocGenStr(g))
	case 5:
		return ocD{"t": "int", "v": []int{0, -1, 42, 1 << 40}[g.R.Intn(4)]}
	case 6:
		return ocD{"t": "f64", "v": ocGenFloat(g)}
	case 7:
		return ocD{"t": "f32", "v": ocGenFloat(g)}
	case 8:
		return ocD{"t": "nilsl", "of": ocPick(g, []string{"any", "int", "byte", "str"})}
	case 9:
		return ocD{"t": "nilmap", "k": ocPick(g, []string{"str", "int", "tm"})}
	case 10:
		return ocD{"t": "bytes", "h": ocHexS(string(randBytes(g, 6)))}
	case 11, 12:
		return ocGenTM(g, g.R.Intn(3) == 0)
	case 13, 14:
		return ocGenJM(g)
	case 15:
		return ocD{"t": "sl", "of": "int", "e": []interface{}{}}
	case 16, 17:
		arr := []interface{}{}
		for i := g.R.Intn(4); i > 0; i-- {
			arr = append(arr, ocGenVal(g, depth-1))
		}
		return arr
	case 18, 19, 20:
		k := ocPick(g, []string{"str", "str", "int", "tm"})
		return ocD{"t": "map", "k": k, "e": ocGenMapEntries(g, depth, k)}
	case 21, 22:
		return ocGenS1(g, depth)
	default:
		return ocGenS2(g, depth)
	}
}

func ocDescHex(d interface{}) string {
	b, err := json.Marshal(d)
	if err != nil {
		panic(err)
	}
	return hexArg(b)
}

// ---------------------------------------------------------------------------------- documents

var ocNumPool = []string{"0", "-0", "1", "-1", "12", "1.5", "1.0", "1e2", "1E2", "-2.5e-3", "9223372036854775807", "9223372036854775808",
	"-9223372036854775808", "-9223372036854775809", "123456789012345678901234567890", "0.1", "1e21", "1e-7", "100", "3.0e0", "4e+2", "0e0", "-0.0",
	"18446744073709551615", "255", "256", "9007199254740993"}

var ocDocStrPool = []string{`""`, `"a"`, `"hello world"`, `"\n\t\"\\\/"`, `"é"`, `"中"`, `"😀"`, `"é中😀"`, `"<&>"`, `"<"`,
	`"\u0000"`, `"a\u0001"`, `"12"`, `"null"`}
var ocDocBadStr = []string{`"\ud800"`, `"\udc00"`, `"\ud800x"`, `"\ud800A"`, `"a\udfffb"`, "\"a\x01b\"", "\"\x00\"", "\"\x1f\"", "\"a\xffb\"", "\"\xe2\x80\"", "\"\xc0\x80\"",
	"\"\xed\xa0\x80\"", `"\ud800\ud800"`, `"\udc00\ud800"`}

type ocDocCfg struct {
	bad  int // 1 in `bad` strings is one of the malformed kinds (0 = never)
	ws   bool
	keys []string
}

func ocWs(g *Gen, c *ocDocCfg) string {
	if !c.ws || g.R.Intn(3) != 0 {
		return ""
	}
	return ocPick(g, []string{" ", "\n", "\t", "  ", "\r\n"})
}

func ocDocStr(g *Gen, c *ocDocCfg) string {
	if c.bad > 0 && g.R.Intn(c.bad) == 0 {
		return ocPick(g, ocDocBadStr)
	}
	if g.R.Intn(5) == 0 {
		// printable ASCII body
		n := g.R.Intn(40)
		b := make([]byte, n)
		for i := range b {
			b[i] = byte(0x23 + g.R.Intn(0x5c-0x23)) // excludes " and \
		}
		return `"` + string(b) + `"`
	}
	return ocPick(g, ocDocStrPool)
}

func ocDocKey(g *Gen, c *ocDocCfg) string {
	if len(c.keys) > 0 && g.R.Intn(6) != 0 {
		return `"` + ocPick(g, c.keys) + `"`
	}
	if c.bad > 0 && g.R.Intn(c.bad*2) == 0 {
		return ocPick(g, ocDocBadStr)
	}
	return `"` + ocPick(g, []string{"a", "b", "k", "key", "Key", "KEY", "x", "q", "zz", "unknown", "é", "a\\u0062", "", "N", "n", "S", "sub", "Sub", "X", "Y", "Z"}) + `"`
}

func ocDocVal(g *Gen, c *ocDocCfg, depth int) string {
	n := g.R.Intn(12)
	if depth <= 0 && n >= 8 {
		n = g.R.Intn(8)
	}
	switch n {
	case 0:
		return "null"
	case 1:
		return ocPick(g, []string{"true", "false"})
	case 2, 3, 4:
		return ocPick(g, ocNumPool)
	case 5, 6, 7:
		return ocDocStr(g, c)
	case 8, 9:
		var sb strings.Builder
		sb.WriteString("[" + ocWs(g, c))
		k := g.R.Intn(4)
		for i := 0; i < k; i++ {
			if i > 0 {
				sb.WriteString("," + ocWs(g, c))
			}
			sb.WriteString(ocDocVal(g, c, depth-1) + ocWs(g, c))
		}
		sb.WriteString("]")
		return sb.String()
	default:
		return ocDocObj(g, c, depth)
	}
}

func ocDocObj(g *Gen, c *ocDocCfg, depth int) string {
	var sb strings.Builder
	sb.WriteString("{" + ocWs(g, c))
	k := g.R.Intn(5)
	for i := 0; i < k; i++ {
		if i > 0 {
			sb.WriteString("," + ocWs(g, c))
		}
		sb.WriteString(ocDocKey(g, c) + ocWs(g, c) + ":" + ocWs(g, c) + ocDocVal(g, c, depth-1) + ocWs(g, c))
	}
	sb.WriteString("}")
	return sb.String()
}

var ocFlatKeys = []string{"ab", "AB", "Ab", "aB", "xy", "XY", "Xy", "E", "e", "Gg", "GG", "gg", "gG", "hello_World", "HELLO_WORLD", "hello_world", "H", "h", "-", "unknown", "A", "abc", ""}
var ocNestKeys = []string{"N", "n", "Fl", "fl", "FL", "S", "s", "I", "i", "A", "a", "M", "m", "Sub", "sub", "SUB", "Num", "num", "NUM", "P", "p", "U", "u", "X", "x", "Y", "y", "Z", "z", "extra"}

// a value of the right shape for a field of ocNest / ocSub (sometimes of the wrong one)
func ocNestField(g *Gen, c *ocDocCfg, key string, depth int) string {
	if g.R.Intn(12) == 0 {
		return ocDocVal(g, c, 1)
	}
	switch strings.ToLower(key) {
	case "n":
		return ocPick(g, []string{"0", "-5", "123", "9223372036854775807", "1e2", "1.5"})
	case "u":
		return ocPick(g, []string{"0", "255", "256", "-1", "7"})
	case "fl":
		return ocPick(g, ocNumPool)
	case "s":
		return ocDocStr(g, c)
	case "num", "y":
		return ocPick(g, append([]string{`"12"`, `"x"`}, ocNumPool...))
	case "a", "z":
		return ocDocVal(g, c, 1)
	case "m":
		cc := *c
		cc.keys = nil
		return ocDocObj(g, &cc, 1)
	case "sub", "p":
		if depth <= 0 {
			return "null"
		}
		return ocNestObj(g, c, depth-1, []string{"X", "x", "Y", "y", "Z", "z", "extra", "W"})
	}
	return ocDocVal(g, c, 2)
}

func ocNestObj(g *Gen, c *ocDocCfg, depth int, keys []string) string {
	var sb strings.Builder
	sb.WriteString("{" + ocWs(g, c))
	k := g.R.Intn(6)
	for i := 0; i < k; i++ {
		if i > 0 {
			sb.WriteString("," + ocWs(g, c))
		}
		key := ocPick(g, keys)
		sb.WriteString(`"` + key + `"` + ocWs(g, c) + ":" + ocWs(g, c) + ocNestField(g, c, key, depth) + ocWs(g, c))
	}
	sb.WriteString("}")
	return sb.String()
}

// flat documents: plain ASCII keys from the case-variant pool, values without numbers (the model
// computes the whole expected result for this destination)
func ocFlatVal(g *Gen, depth int) string {
	switch n := g.R.Intn(8); {
	case n < 4:
		b := make([]byte, g.R.Intn(6))
		for i := range b {
			b[i] = byte('a' + g.R.Intn(26))
		}
		return `"` + string(b) + `"`
	case n == 4:
		return ocPick(g, []string{"true", "false"})
	case n == 5:
		return "null"
	case n == 6 && depth > 0:
		return "[" + ocFlatVal(g, depth-1) + "," + ocFlatVal(g, depth-1) + "]"
	case n == 7 && depth > 0:
		return `{"k":` + ocFlatVal(g, depth-1) + `}`
	}
	return `"v"`
}

func ocFlatDoc(g *Gen) string {
	var sb strings.Builder
	sb.WriteString("{")
	k := g.R.Intn(7)
	for i := 0; i < k; i++ {
		if i > 0 {
			sb.WriteString(",")
		}
		sb.WriteString(`"` + ocPick(g, ocFlatKeys) + `":` + ocFlatVal(g, 1))
	}
	sb.WriteString("}")
	return sb.String()
}

func ocMutate(g *Gen, doc string) string {
	b := []byte(doc)
	if len(b) == 0 {
		return "{"
	}
	switch g.R.Intn(6) {
	case 0:
		return string(b[:g.R.Intn(len(b))])
	case 1:
		i := g.R.Intn(len(b))
		return string(b[:i]) + string(b[i+1:])
	case 2:
		i := g.R.Intn(len(b))
		return string(b[:i]) + ocPick(g, []string{",", "]", "}", "\"", ":", "x", "\\", "0"}) + string(b[i:])
	case 3:
		return doc + ocPick(g, []string{"x", "]", " 1", ",", "}"})
	case 4:
		i := g.R.Intn(len(b))
		b[i] = byte(g.R.Intn(256))
		return string(b)
	}
	return ocPick(g, []string{"", " ", "nul", "tru", "-", "1.", "[", "{\"a\"", "\"abc", "[1,]", "{,}", "01"})
}

// (dest, doc) for the unmarshal side of switch `name`
func ocGenDoc(g *Gen, name string, relevant bool) (string, string) {
	c := &ocDocCfg{ws: g.R.Intn(2) == 0}
	switch name {
	case "UseUnicodeErrors", "ValidateString":
		c.bad = 4
	default:
		if g.R.Intn(6) == 0 {
			c.bad = 8
		}
	}
	dest := ocPick(g, []string{"any", "any", "any", "nest", "nest", "flat", "mapany", "slany", "str"})
	if relevant {
		switch name {
		case "CaseSensitive", "DisallowUnknownFields":
			dest = ocPick(g, []string{"flat", "flat", "flat", "nest", "nest", "any"})
		case "UseNumber", "UseInt64":
			dest = ocPick(g, []string{"any", "any", "any", "nest", "nest", "mapany", "slany", "flat"})
		}
	}
	var doc string
	switch dest {
	case "flat":
		doc = ocFlatDoc(g)
		if (name == "UseNumber" || name == "UseInt64") && g.R.Intn(2) == 0 {
			c.keys = ocFlatKeys
			doc = ocDocObj(g, c, 2)
		}
	case "nest":
		doc = ocNestObj(g, c, 2, ocNestKeys)
	case "mapany":
		doc = ocDocObj(g, c, 3)
	case "slany":
		doc = "[" + ocDocVal(g, c, 2) + "," + ocDocVal(g, c, 2) + "]"
	case "str":
		doc = ocDocStr(g, c)
	default:
		doc = ocDocVal(g, c, 3)
	}
	if g.R.Intn(12) == 0 {
		doc = ocMutate(g, doc)
	}
	if c.ws && g.R.Intn(3) == 0 {
		doc = " " + doc + "\n"
	}
	return dest, doc
}

// ---------------------------------------------------------------------------------- configurations

var ocEncSide = map[string]bool{"EscapeHTML": true, "SortMapKeys": true, "CompactMarshaler": true, "NoQuoteTextMarshaler": true, "NoNullSliceOrMap": true,
	"ValidateString": true, "NoValidateJSONMarshaler": true, "NoEncoderNewline": true, "EncodeNullForInfOrNan": true}
var ocDecSide = map[string]bool{"UseInt64": true, "UseNumber": true, "UseUnicodeErrors": true, "DisallowUnknownFields": true, "CopyString": true,
	"ValidateString": true, "NoValidateJSONSkip": true, "CaseSensitive": true}

// random setting of the other switches; UseInt64 and UseNumber are never both on (SetOptions panics,
// see the `both` cases of c18.words)
func ocRandCfg(g *Gen, sw int) uint64 {
	n := len(ocFieldNames)
	var c uint64
	switch g.R.Intn(8) {
	case 0:
		c = 0
	case 1:
		c = (1 << uint(n)) - 1
	case 2:
		c = ocBit("EscapeHTML") | ocBit("SortMapKeys") | ocBit("CompactMarshaler") | ocBit("CopyString") | ocBit("ValidateString") // ConfigStd
	case 3:
		c = ocBit("NoValidateJSONMarshaler") | ocBit("NoValidateJSONSkip") // ConfigFastest
	default:
		c = uint64(g.R.Int63()) & ((1 << uint(n)) - 1)
	}
	// options that turn most outputs into non-JSON are kept rarer so that tree-level relations stay decidable
	if g.R.Intn(3) != 0 {
		c &^= ocBit("NoQuoteTextMarshaler")
	}
	if sw >= 0 {
		c &^= 1 << uint(sw)
	}
	name := ""
	if sw >= 0 {
		name = ocFieldNames[sw]
	}
	if name == "UseInt64" {
		c &^= ocBit("UseNumber")
	} else if name == "UseNumber" {
		c &^= ocBit("UseInt64")
	} else if ocHas(c, "UseInt64") && ocHas(c, "UseNumber") {
		if g.R.Intn(2) == 0 {
			c &^= ocBit("UseInt64")
		} else {
			c &^= ocBit("UseNumber")
		}
	}
	return c
}

// A document that ends in a digit gets a trailing space: what the native number scanner reads one byte
// past such an input (DESIGN 8 #1, property C05) makes `0` / `-0` at the very end decode differently from
// run to run, which is not this property's subject.
func ocPad(doc string) string {
	if n := len(doc); n > 0 && doc[n-1] >= '0' && doc[n-1] <= '9' {
		return doc + " "
	}
	return doc
}

// The stream decoder hands the codec exactly the bytes of one value: a bare number at the top level then ends at
// the end of the codec's input whatever follows it in the stream (see ocPad) - it is put into an array instead.
func ocSdecTop(doc string) string {
	t := strings.TrimLeft(doc, " \t\r\n")
	if len(t) > 0 && (t[0] == '-' || (t[0] >= '0' && t[0] <= '9')) {
		return "[" + doc + "]"
	}
	return doc
}

func ocEmitPair(g *Gen, sw int, cfg uint64, side string) {
	name := ocFieldNames[sw]
	if side == "m" {
		g.Emit("optpair", itoa(sw), fmt.Sprint(cfg), "m", ocDescHex(ocGenVal(g, 3)))
	} else {
		dest, doc := ocGenDoc(g, name, ocDecSide[name])
		g.Emit("optpair", itoa(sw), fmt.Sprint(cfg), "u", dest, hexArg([]byte(ocPad(doc))))
	}
}

// small hand-picked inputs: every single-switch flip is run on each of them (thorough: under several
// settings of the other switches)
var ocSmallVals = []string{
	`null`, `"a<b>& "`, `{"t":"str","h":"ff"}`, `{"t":"f64","v":"nan"}`, `{"t":"f32","v":"+inf"}`, `{"t":"nilsl","of":"int"}`, `{"t":"nilsl","of":"byte"}`,
	`{"t":"nilmap","k":"str"}`, `{"t":"map","k":"str","e":[["62",1],["61",2],["",3]]}`, `{"t":"map","k":"int","e":[[10,1],[9,2],[-1,3]]}`,
	`{"t":"map","k":"tm","e":[["746d62",1],["746d61",2]]}`, `{"t":"tm","h":"746d3c"}`, `{"t":"tm","h":"3132","ptr":true}`, `{"t":"jm","h":"5b312c20325d"}`,
	`{"t":"jm","h":"7b224661223a"}`, `{"t":"jm","h":""}`, `{"t":"jm","h":"6e756c6c","err":true}`, `[{"t":"nilsl","of":"any"},{"t":"f64","v":"-inf"},{"t":"jm","h":"205b205d20"}]`,
	`{"t":"s1"}`, `{"t":"s2","Fx":"nan"}`, `{"t":"s1","Fss":{"t":"str","h":"3cff"},"Ffs":"nan","Ftm":{"t":"tm","h":"3c"},"Fjm":{"t":"jm","h":"7b7d20"}}`,
}
var ocSmallDocs = [][2]string{
	{"any", `1`}, {"any", `-0`}, {"any", `1.0`}, {"any", `1e2`}, {"any", `9223372036854775807`}, {"any", `9223372036854775808`}, {"any", `[1,2.5,"x",{"a":3}]`},
	{"any", `"\ud800"`}, {"any", `"😀"`}, {"any", "\"a\x01\""}, {"any", "\"a\xff\""}, {"any", `{"k":"\udc00"}`}, {"any", `{"\ud800":1}`},
	{"flat", `{"ab":"1","AB":"2","aB":"3","XY":"4"}`}, {"flat", `{"unknown":true}`}, {"flat", `{"E":"x","e":"y","GG":"z"}`}, {"flat", `{"xy":1,"q":"\ud800","r":"` + "\x01" + `"}`},
	{"nest", `{"N":1,"I":2,"A":[3],"M":{"k":4},"Sub":{"X":5,"Y":6},"Num":7,"Fl":8}`}, {"nest", `{"n":1,"sub":{"x":1.5},"extra":[1,{"a":"b"}]}`}, {"nest", `{"S":"\ud800","extra":"\ud800"}`},
	{"nest", `{"N":"x"}`}, {"mapany", `{"a":1,"b":[2]}`}, {"slany", `[1,"1",null]`}, {"str", `"é"`}, {"any", `[1,2`}, {"any", ` {"a" : [ 1 , 2 ] } `},
}

func init() {
	registerGen("c18.pair", func(g *Gen) {
		n := len(ocFieldNames)
		// 1. every switch x every small input, others off (and, thorough, under stock/full settings)
		bases := []uint64{0}
		if g.Tier == "thorough" {
			std := ocBit("EscapeHTML") | ocBit("SortMapKeys") | ocBit("CompactMarshaler") | ocBit("CopyString") | ocBit("ValidateString")
			bases = append(bases, std, ocBit("NoValidateJSONMarshaler")|ocBit("NoValidateJSONSkip"), (1<<uint(n))-1, ocBit("SortMapKeys"))
		}
		for sw := 0; sw < n; sw++ {
			for _, base := range bases {
				c := base &^ (1 << uint(sw))
				if ocFieldNames[sw] == "UseInt64" {
					c &^= ocBit("UseNumber")
				} else if ocHas(c, "UseInt64") && ocHas(c, "UseNumber") {
					c &^= ocBit("UseInt64")
				}
				for _, v := range ocSmallVals {
					g.Emit("optpair", itoa(sw), fmt.Sprint(c), "m", hexArg([]byte(v)))
				}
				for _, d := range ocSmallDocs {
					g.Emit("optpair", itoa(sw), fmt.Sprint(c), "u", d[0], hexArg([]byte(ocPad(d[1]))))
				}
			}
		}
		// 2. pairwise: each switch on/off against random settings of the others
		for i := 0; i < g.N; i++ {
			sw := i % n
			name := ocFieldNames[sw]
			cfg := ocRandCfg(g, sw)
			side := "m"
			switch {
			case ocEncSide[name] && ocDecSide[name]:
				if g.R.Intn(2) == 0 {
					side = "u"
				}
			case ocDecSide[name]:
				if g.R.Intn(5) != 0 {
					side = "u"
				}
			default:
				if g.R.Intn(5) == 0 {
					side = "u"
				}
			}
			ocEmitPair(g, sw, cfg, side)
		}
	})

	registerGen("c18.entry", func(g *Gen) {
		for i := 0; i < g.N; i++ {
			which := []string{"top_m", "top_u", "top_v", "enc", "enc", "dec", "dec", "sdec"}[i%8]
			cfg := ocRandCfg(g, -1)
			desc, dest, doc := "-", "any", "-"
			switch which {
			case "top_m", "enc":
				desc = ocDescHex(ocGenVal(g, 3))
			case "top_v":
				_, d := ocGenDoc(g, "", false)
				if g.R.Intn(3) == 0 {
					d = ocMutate(g, d)
				}
				doc = hexArg([]byte(ocPad(d)))
			case "sdec":
				// one complete value per stream (how a stream treats malformed or trailing input is C17's subject)
				c := &ocDocCfg{ws: true}
				dest = ocPick(g, []string{"any", "nest", "flat", "mapany"})
				var d string
				switch dest {
				case "nest":
					d = ocNestObj(g, c, 2, ocNestKeys)
				case "flat":
					d = ocFlatDoc(g)
				case "mapany":
					d = ocDocObj(g, c, 2)
				default:
					d = ocSdecTop(ocDocVal(g, c, 3))
				}
				doc = hexArg([]byte(ocPad(d)))
			default:
				var d string
				dest, d = ocGenDoc(g, ocFieldNames[g.R.Intn(len(ocFieldNames))], true)
				doc = hexArg([]byte(ocPad(d)))
			}
			g.Emit("entry", which, fmt.Sprint(cfg), desc, dest, doc)
		}
	})

	// Unmarshal side only (run under the other decoder configurations, SONIC_USE_OPTDEC)
	registerGen("c18.pairu", func(g *Gen) {
		n := len(ocFieldNames)
		for sw := 0; sw < n; sw++ {
			c := uint64(0)
			for _, d := range ocSmallDocs {
				g.Emit("optpair", itoa(sw), fmt.Sprint(c), "u", d[0], hexArg([]byte(ocPad(d[1]))))
			}
		}
		for i := 0; i < g.N; i++ {
			sw := i % n
			// decoder switches three times as often as encoder switches (which must change nothing)
			if !ocDecSide[ocFieldNames[sw]] && g.R.Intn(3) != 0 {
				sw = []int{5, 6, 7, 8, 9, 10, 12, 15}[g.R.Intn(8)] % n
			}
			ocEmitPair(g, sw, ocRandCfg(g, sw), "u")
		}
	})

	registerGen("c18.entryu", func(g *Gen) {
		for i := 0; i < g.N; i++ {
			which := []string{"top_u", "dec", "dec", "sdec"}[i%4]
			cfg := ocRandCfg(g, -1)
			dest, doc := "any", "-"
			if which == "sdec" {
				c := &ocDocCfg{ws: true}
				dest = ocPick(g, []string{"any", "nest", "flat", "mapany"})
				var d string
				switch dest {
				case "nest":
					d = ocNestObj(g, c, 2, ocNestKeys)
				case "flat":
					d = ocFlatDoc(g)
				case "mapany":
					d = ocDocObj(g, c, 2)
				default:
					d = ocSdecTop(ocDocVal(g, c, 3))
				}
				doc = hexArg([]byte(ocPad(d)))
			} else {
				var d string
				dest, d = ocGenDoc(g, ocFieldNames[g.R.Intn(len(ocFieldNames))], true)
				doc = hexArg([]byte(ocPad(d)))
			}
			g.Emit("entry", which, fmt.Sprint(cfg), "-", dest, doc)
		}
	})

	registerGen("c18.words", func(g *Gen) {
		n := uint(len(ocFieldNames))
		if g.Tier == "thorough" {
			for c := uint64(0); c < 1<<n; c++ {
				g.Emit("froze", fmt.Sprint(c))
			}
		} else {
			g.Emit("froze", "0")
			g.Emit("froze", fmt.Sprint(uint64(1<<n)-1))
			for i := uint(0); i < n; i++ {
				g.Emit("froze", fmt.Sprint(uint64(1)<<i))
				g.Emit("froze", fmt.Sprint((uint64(1<<n)-1)&^(uint64(1)<<i)&^ocBit("UseInt64")))
				for j := i + 1; j < n; j++ {
					g.Emit("froze", fmt.Sprint(uint64(1)<<i|uint64(1)<<j))
				}
			}
			for i := 0; i < g.N; i++ {
				g.Emit("froze", fmt.Sprint(uint64(g.R.Int63())&(1<<n-1)))
			}
		}
		encM := []string{"SortKeys", "SetEscapeHTML", "SetValidateString", "SetNoValidateJSONMarshaler", "SetNoEncoderNewline", "SetCompactMarshaler", "SetNoQuoteTextMarshaler"}
		decM := []string{"UseInt64", "UseNumber", "UseUnicodeErrors", "DisallowUnknownFields", "CopyString", "ValidateString"}
		for _, r := range []string{"Encoder", "StreamEncoder"} {
			g.Emit("setseq", r, "-")
			for _, m := range encM {
				if m == "SortKeys" {
					g.Emit("setseq", r, m)
				} else {
					g.Emit("setseq", r, m+":1")
					g.Emit("setseq", r, m+":0")
					g.Emit("setseq", r, m+":1,"+m+":0")
				}
			}
		}
		for _, r := range []string{"Decoder", "StreamDecoder"} {
			g.Emit("setseq", r, "-")
			for _, m := range decM {
				g.Emit("setseq", r, m)
			}
			g.Emit("setseq", r, "UseInt64,UseNumber")
			g.Emit("setseq", r, "UseNumber,UseInt64")
		}
		k := g.N / 4
		for i := 0; i < k; i++ {
			var calls []string
			if i%2 == 0 {
				for j := g.R.Intn(8); j >= 0; j-- {
					m := ocPick(g, encM)
					if m != "SortKeys" {
						m += ":" + itoa(g.R.Intn(2))
					}
					calls = append(calls, m)
				}
				g.Emit("setseq", ocPick(g, []string{"Encoder", "StreamEncoder"}), strings.Join(calls, ","))
			} else {
				for j := g.R.Intn(8); j >= 0; j-- {
					calls = append(calls, ocPick(g, decM))
				}
				g.Emit("setseq", ocPick(g, []string{"Decoder", "StreamDecoder"}), strings.Join(calls, ","))
			}
		}
	})
}
