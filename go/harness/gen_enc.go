package main

// Generators of the `enc` work package (C03 / C04 / C12).
//
// Names: enc.<cfg>.<stream>
//   cfg    = std   ConfigStd-shaped option word (op `mar`)
//            opt   option sets pairwise-covered per value (op `rt`)
//            all   all 2^9 encoder option sets for a small value set (op `rt`)
//            be    option sets for the back-end comparison (op `mar`; SortMapKeys forced on when the value
//                  holds a map with more than one entry, since Go's map order is random per process)
//   stream = universe | tags | maps | strings | floats | callbacks | errors
//
// Every random choice comes from g.R.

import (
	"encoding/hex"
	"fmt"
	"math"
	"strconv"
	"strings"
)

var encOptNames = []string{"SortMapKeys", "EscapeHTML", "CompactMarshaler", "NoQuoteTextMarshaler", "NoNullSliceOrMap",
	"ValidateString", "NoValidateJSONMarshaler", "NoEncoderNewline", "EncodeNullForInfOrNan"}

func stdBits() uint64 {
	return cfgBit("EscapeHTML") | cfgBit("SortMapKeys") | cfgBit("CompactMarshaler") | cfgBit("CopyString") | cfgBit("ValidateString")
}

func encMask(m int) uint64 {
	var b uint64
	for i, n := range encOptNames {
		if m&(1<<uint(i)) != 0 {
			b |= cfgBit(n)
		}
	}
	return b
}

// ---------------------------------------------------------------- leaf pools

var hardF64 = func() []uint64 {
	var r []uint64
	add := func(f float64) {
		b := math.Float64bits(f)
		r = append(r, b, b+1, b-1, b^(1<<63))
	}
	for e := -30; e <= 30; e++ {
		add(math.Pow(10, float64(e)))
	}
	for _, f := range []float64{1e21, 1e20, 9.999999999999999e20, 1e-6, 1e-7, 9.999999999999999e-7, 0.000001, 1e22, 1e23, 5e-324, 2.2250738585072014e-308,
		2.225073858507201e-308, math.MaxFloat64, 4.9406564584124654e-324, 9007199254740992, 9007199254740993, 9007199254740991, 0.1, 0.2, 0.3, 1.0 / 3,
		2.0 / 3, 123456789012345678, 1.7976931348623157e308, 8.41e21, 2.0e-5, 1234567.0, 12345678.9, 100, 1e6, 123e18, 4.35, 0.000123, 5e-7, 1.5, 2.5, 8.5e-7,
		9.5e20, 1.2345e-5, 1e15, 1e16, 1e17, 123456789e-15, 3.0000000000000004, 2.9999999999999996, 4503599627370496.5, 1152921504606846976, 9.5367431640625e-07} {
		add(f)
	}
	r = append(r, 0, 1<<63, 1, 1<<63|1, 0x000fffffffffffff, 0x0010000000000000, 0x7fefffffffffffff)
	return r
}()

var hardF32 = func() []uint32 {
	var r []uint32
	add := func(f float32) {
		b := math.Float32bits(f)
		r = append(r, b, b+1, b-1, b^(1<<31))
	}
	for e := -20; e <= 20; e++ {
		add(float32(math.Pow(10, float64(e))))
	}
	for _, f := range []float32{1e21, 1e20, 1e-6, 1e-7, 9.999999e-7, 9.999999e20, 3.4028235e38, 1e-45, 1.1754944e-38, 0.1, 0.3, 16777216, 16777217, 1.5, 8.5e-7, 123456.7, 3.3333333e-6} {
		add(f)
	}
	r = append(r, 0, 1<<31, 1, 0x007fffff, 0x00800000, 0x7f7fffff)
	return r
}()

var hardStrings = []string{"", "a", "\"", "\\", "/", "\b", "\f", "\n", "\r", "\t", "\x00", "\x1f", "\x7f", "<", ">", "&", "<script>&amp;</script>",
	"\u2028", "\u2029", "a\u2028b\u2029c", "é", "中文", "😀", "\xff", "\xc0\x80", "\xed\xa0\x80", "\xf4\x90\x80\x80", "\xe2\x80", "\xe2", "a\xffb", "\xe2\x80\xa8\xff",
	"\xf0\x9f\x98", "\\u0041", "\"\\\"", "tab\there", "null", "true", "123", "\u00a0", "\ufffd", "\ufeff", "\U0010ffff", "\xf4\x8f\xbf\xbf\xf4\x90"}

type valOpts struct {
	special  bool // NaN/Inf, invalid json.Number, invalid RawMessage
	hardStr  bool // strings from randBytes / hardStrings instead of the tame pool
	hardNum  bool // floats from the hard-case pools
	nativeAn bool // interface{} holds only what a decoder produces (bool, float64, string, []interface{}, map[string]interface{})
	noLibPtr bool // no MP/TP library leaves inside interface{} values
}

func evStr(g *Gen, vo valOpts) string {
	if !vo.hardStr {
		return strPool[g.R.Intn(len(strPool))]
	}
	switch g.R.Intn(4) {
	case 0:
		return hardStrings[g.R.Intn(len(hardStrings))]
	case 1:
		return hardStrings[g.R.Intn(len(hardStrings))] + hardStrings[g.R.Intn(len(hardStrings))]
	case 2:
		return string(randBytes(g, 12))
	}
	return string(randBytes(g, 70))
}

func evF64(g *Gen, vo valOpts) uint64 {
	var b uint64
	switch {
	case vo.hardNum && g.R.Intn(4) != 0:
		b = hardF64[g.R.Intn(len(hardF64))]
	case g.R.Intn(3) == 0:
		b = g.R.Uint64()
	case g.R.Intn(2) == 0:
		// few significant digits at a random decimal exponent
		f, _ := strconv.ParseFloat(fmt.Sprintf("%de%d", g.R.Intn(100000), g.R.Intn(60)-30), 64)
		b = math.Float64bits(f)
		if g.R.Intn(2) == 0 {
			b |= 1 << 63
		}
	default:
		b = math.Float64bits(f64Pool[g.R.Intn(len(f64Pool))])
	}
	f := math.Float64frombits(b)
	if !vo.special && (math.IsNaN(f) || math.IsInf(f, 0)) {
		b = math.Float64bits(1.25)
	}
	return b
}

func evF32(g *Gen, vo valOpts) uint32 {
	var b uint32
	switch {
	case vo.hardNum && g.R.Intn(4) != 0:
		b = hardF32[g.R.Intn(len(hardF32))]
	case g.R.Intn(3) == 0:
		b = g.R.Uint32()
	case g.R.Intn(2) == 0:
		f, _ := strconv.ParseFloat(fmt.Sprintf("%de%d", g.R.Intn(10000), g.R.Intn(40)-20), 32)
		b = math.Float32bits(float32(f))
	default:
		b = math.Float32bits(float32(f64Pool[g.R.Intn(len(f64Pool))]))
	}
	f := float64(math.Float32frombits(b))
	if !vo.special && (math.IsNaN(f) || math.IsInf(f, 0)) {
		b = math.Float32bits(1.25)
	}
	return b
}

var rawPool = []string{"null", "1", "\"x\"", "[1, 2]", "{\"a\":1}", " true ", "[]", "{ \"k\" : [ 1 , { } ] }\n", "\"<\\u003c\u2028\"", "-0.0e+1", "[\n\t1\n]", "\"\\ud800\""}
var rawBad = []string{"", "{", "tru", "1 2", "\"", "[1,]", "{\"a\"}", "01", "\"\x01\"", "nul", "[1}", "\"\\x\"", " ", "1,", "\"" + strings.Repeat("x", 32), "\"" + strings.Repeat("y", 64)}

func nativeAny(g *Gen, depth int, vo valOpts) *sx {
	k := g.R.Intn(7)
	if depth <= 0 && k >= 5 {
		k = g.R.Intn(5)
	}
	switch k {
	case 0:
		return atomT("nil")
	case 1:
		return listT("any", atomT("bool"), evalue(g, atomT("bool"), 0, vo))
	case 2, 3:
		return listT("any", atomT("f64"), evalue(g, atomT("f64"), 0, vo))
	case 4:
		return listT("any", atomT("str"), evalue(g, atomT("str"), 0, vo))
	case 5:
		t := listT("sl", atomT("any"))
		return listT("any", t, evalue(g, t, depth-1, vo))
	}
	t := listT("map", atomT("str"), atomT("any"))
	return listT("any", t, evalue(g, t, depth-1, vo))
}

// evalue: value expression of the given type (own leaf pools; containers nil/empty at every position)
func evalue(g *Gen, tn *sx, depth int, vo valOpts) *sx {
	nilV := atomT("nil")
	if !tn.isL {
		switch tn.atom {
		case "str":
			return listT("s", atomT(hexS(evStr(g, vo))))
		case "f64":
			return listT("f64", atomT(fmt.Sprintf("%016x", evF64(g, vo))))
		case "f32":
			return listT("f32", atomT(fmt.Sprintf("%08x", evF32(g, vo))))
		case "raw":
			if g.R.Intn(6) == 0 {
				return nilV
			}
			s := rawPool[g.R.Intn(len(rawPool))]
			if vo.special && g.R.Intn(4) == 0 {
				s = rawBad[g.R.Intn(len(rawBad))]
			}
			return listT("raw", atomT(hexS(s)))
		case "bytes":
			if g.R.Intn(5) == 0 {
				return nilV
			}
			b := make([]byte, g.R.Intn(8))
			g.R.Read(b)
			return listT("b", atomT(hexS(string(b))))
		case "any":
			if vo.nativeAn {
				return nativeAny(g, depth, vo)
			}
			if g.R.Intn(5) == 0 || depth <= 0 {
				if g.R.Intn(2) == 0 {
					return nilV
				}
			}
			it := genType(g, min(depth-1, 1), TypeOpts{NoLib: vo.noLibPtr || g.R.Intn(3) != 0})
			if it.atom == "any" {
				it = atomT("str")
			}
			return listT("any", it, evalue(g, it, depth-1, vo))
		}
		return genValue(g, tn, depth, vo.special)
	}
	switch tn.head() {
	case "sl":
		switch g.R.Intn(6) {
		case 0:
			return nilV
		case 1:
			return listT("sl")
		}
		n := 1 + g.R.Intn(3)
		if depth <= 0 {
			n = g.R.Intn(2)
		}
		v := listT("sl")
		for i := 0; i < n; i++ {
			v.list = append(v.list, evalue(g, tn.list[1], depth-1, vo))
		}
		return v
	case "arr":
		k, _ := strconv.Atoi(tn.list[1].atom)
		v := listT("arr")
		for i := 0; i < k; i++ {
			v.list = append(v.list, evalue(g, tn.list[2], depth-1, vo))
		}
		return v
	case "ptr":
		if g.R.Intn(4) == 0 || depth <= -2 {
			return nilV
		}
		return listT("ptr", evalue(g, tn.list[1], depth-1, vo))
	case "map":
		switch g.R.Intn(6) {
		case 0:
			return nilV
		case 1:
			return listT("map")
		}
		n := 1 + g.R.Intn(4)
		if depth <= 0 {
			n = g.R.Intn(2)
		}
		v := listT("map")
		seen := map[string]bool{}
		for i := 0; i < n; i++ {
			k := evalue(g, tn.list[1], 0, valOpts{hardStr: vo.hardStr})
			if seen[k.String()] {
				continue
			}
			seen[k.String()] = true
			v.list = append(v.list, &sx{isL: true, list: []*sx{k, evalue(g, tn.list[2], depth-1, vo)}})
		}
		return v
	case "st":
		v := listT("st")
		for _, f := range tn.list[1:] {
			// zero values often, so that omitempty / omitzero have something to drop
			if g.R.Intn(3) == 0 {
				v.list = append(v.list, zeroSx(f.list[3]))
			} else {
				v.list = append(v.list, evalue(g, f.list[3], depth-1, vo))
			}
		}
		return v
	case "lib":
		return listT("lib", atomT(hexS(genLibJSON(g, tn.list[1].atom, 3))))
	}
	panic("evalue " + tn.head())
}

// zeroSx: the zero value of a type as a value expression
func zeroSx(tn *sx) *sx {
	if !tn.isL {
		switch tn.atom {
		case "bool":
			return atomT("f")
		case "i8", "i16", "i32", "i64", "int":
			return listT("i", atomT("0"))
		case "u8", "u16", "u32", "u64", "uint", "uptr":
			return listT("u", atomT("0"))
		case "f64":
			return listT("f64", atomT("0000000000000000"))
		case "f32":
			return listT("f32", atomT("00000000"))
		case "str":
			return listT("s", atomT("-"))
		case "num":
			return listT("num", atomT("-"))
		}
		return atomT("nil")
	}
	switch tn.head() {
	case "arr":
		k, _ := strconv.Atoi(tn.list[1].atom)
		v := listT("arr")
		for i := 0; i < k; i++ {
			v.list = append(v.list, zeroSx(tn.list[2]))
		}
		return v
	case "st":
		v := listT("st")
		for _, f := range tn.list[1:] {
			v.list = append(v.list, zeroSx(f.list[3]))
		}
		return v
	case "lib":
		switch tn.list[1].atom {
		case "TV":
			return listT("lib", atomT(hexS(`"tv0"`)))
		case "Tree":
			return listT("lib", atomT(hexS(`{"n":"","kids":null}`)))
		}
		return listT("lib", atomT(hexS(`{}`)))
	}
	return atomT("nil")
}

// ---------------------------------------------------------------- type shapes

var tagNames = []string{"", "a", "b", "A", "name", "é", "k k", "<x>", "a&b", "1", "-", "ÿ", "×", "a\"b", "a\\b", "a,b", "_", "@id", "äö"}
var tagOptSets = []string{"", ",omitempty", ",omitzero", ",string", ",omitempty,string", ",omitzero,omitempty", ",string,omitzero", ",omitempty,omitempty", ",unknown", ",omitempty,unknown", ", string", ",String"}

func tagHex(s string) string {
	if s == "" {
		return "-"
	}
	return hex.EncodeToString([]byte(s))
}

// a struct whose fields run over tag names x option sets x field kinds
func genTagStruct(g *Gen, depth int, o TypeOpts) *sx {
	n := 1 + g.R.Intn(6)
	used := map[string]bool{}
	st := listT("st")
	for i := 0; i < n; i++ {
		name := fieldNames[g.R.Intn(len(fieldNames))]
		if used[name] {
			continue
		}
		used[name] = true
		tag := ""
		switch g.R.Intn(8) {
		case 0:
		case 1:
			tag = "-"
		case 2:
			tag = "-,"
		default:
			tag = tagNames[g.R.Intn(len(tagNames))]
			if tag == "-" {
				tag = ""
			}
			tag += tagOptSets[g.R.Intn(len(tagOptSets))]
		}
		var ft *sx
		switch g.R.Intn(5) {
		case 0:
			ft = genType(g, depth-1, o)
		case 1:
			ft = listT("ptr", genScalarT(g, o))
		default:
			ft = genScalarT(g, o)
		}
		st.list = append(st.list, listT("f", atomT(name), atomT(tagHex(tag)), ft))
	}
	return st
}

func hasMultiMap(v *sx) bool {
	if !v.isL {
		return false
	}
	if v.head() == "map" && len(v.list) > 2 {
		return true
	}
	for _, c := range v.list {
		if hasMultiMap(c) {
			return true
		}
	}
	return false
}

// lib values travel as JSON text; a Tree value holds a map
func mentionsTree(s string) bool { return strings.Contains(s, "Tree") }

// ---------------------------------------------------------------- emission under a configuration mode

type encEmitter struct {
	g    *Gen
	mode string
}

func (e encEmitter) emit(tn, v *sx) {
	g := e.g
	T, V := tn.String(), v.String()
	switch e.mode {
	case "std":
		g.Emit("mar", strconv.FormatUint(stdBits(), 10), T, V)
	case "opt":
		base := g.R.Intn(512)
		g.Emit("rt", strconv.FormatUint(encMask(base), 10), T, V)
		for k := 0; k < 3; k++ {
			g.Emit("rt", strconv.FormatUint(encMask(base^(1<<uint(g.R.Intn(9)))), 10), T, V)
		}
	case "all":
		for m := 0; m < 512; m++ {
			g.Emit("rt", strconv.FormatUint(encMask(m), 10), T, V)
		}
	case "be":
		force := 0
		if hasMultiMap(v) || mentionsTree(T) || mentionsTree(V) {
			force = 1 // SortMapKeys
		}
		g.Emit("mar", strconv.FormatUint(stdBits(), 10), T, V)
		g.Emit("mar", strconv.FormatUint(encMask(force), 10), T, V)
		g.Emit("mar", strconv.FormatUint(encMask(g.R.Intn(512)|force), 10), T, V)
	}
}

// emitForce is emit with the given encoder switches (mask over encOptNames) forced on
func (e encEmitter) emitForce(tn, v *sx, force int) {
	g := e.g
	T, V := tn.String(), v.String()
	switch e.mode {
	case "std":
		g.Emit("mar", strconv.FormatUint(stdBits(), 10), T, V)
	case "opt", "all":
		base := g.R.Intn(512) | force
		g.Emit("rt", strconv.FormatUint(encMask(base), 10), T, V)
		g.Emit("rt", strconv.FormatUint(encMask(force), 10), T, V)
	case "be":
		if hasMultiMap(v) {
			force |= 1
		}
		g.Emit("mar", strconv.FormatUint(stdBits(), 10), T, V)
		g.Emit("mar", strconv.FormatUint(encMask(g.R.Intn(512)|force), 10), T, V)
	}
}

func (e encEmitter) bits() string {
	switch e.mode {
	case "std":
		return strconv.FormatUint(stdBits(), 10)
	}
	return strconv.FormatUint(encMask(e.g.R.Intn(512)), 10)
}

func (e encEmitter) rt() bool { return e.mode == "opt" || e.mode == "all" }

// ---------------------------------------------------------------- streams

func streamUniverse(e encEmitter) {
	g := e.g
	for i := 0; i < g.N; i++ {
		tn := genType(g, 3, TypeOpts{})
		if i%4 == 0 {
			tn = genStructT(g, 3, TypeOpts{})
		}
		vo := valOpts{hardStr: i%3 == 0, hardNum: i%5 == 0, nativeAn: e.rt() && i%2 == 0}
		e.emit(tn, evalue(g, tn, 3, vo))
	}
}

func streamTags(e encEmitter) {
	g := e.g
	for i := 0; i < g.N; i++ {
		tn := genTagStruct(g, 2, TypeOpts{NoLib: i%3 != 0})
		switch g.R.Intn(5) {
		case 0:
			tn = listT("ptr", tn)
		case 1:
			tn = listT("sl", tn)
		}
		e.emit(tn, evalue(g, tn, 3, valOpts{hardStr: i%2 == 0, hardNum: i%2 == 1, nativeAn: e.rt()}))
	}
}

func keyOf(a string, s string, n int64) *sx {
	switch a {
	case "str":
		return listT("s", atomT(hexS(s)))
	case "i8", "i16", "i32", "i64", "int":
		return listT("i", atomT(strconv.FormatInt(clampInt(a, n), 10)))
	}
	return listT("u", atomT(strconv.FormatUint(clampUint(a, uint64(n)), 10)))
}

func streamMaps(e encEmitter) {
	g := e.g
	elems := []string{"int", "str", "bool", "any"}
	for i := 0; i < g.N; i++ {
		ka := keyAtoms[g.R.Intn(len(keyAtoms))]
		et := atomT(elems[g.R.Intn(len(elems))])
		if g.R.Intn(6) == 0 {
			et = listT("map", atomT(keyAtoms[g.R.Intn(len(keyAtoms))]), atomT("int"))
		}
		tn := listT("map", atomT(ka), et)
		v := listT("map")
		seen := map[string]bool{}
		add := func(k *sx) {
			if seen[k.String()] {
				return
			}
			seen[k.String()] = true
			v.list = append(v.list, &sx{isL: true, list: []*sx{k, evalue(g, et, 1, valOpts{nativeAn: true})}})
		}
		var n int
		switch i % 6 {
		case 0:
			n = g.R.Intn(4)
		case 1:
			n = 5 + g.R.Intn(30)
		case 2:
			n = 257 + g.R.Intn(300)
		default:
			n = 2 + g.R.Intn(12)
		}
		if e.mode == "all" && n > 12 {
			n = 12
		}
		if g.Tier == "thorough" && i%97 == 0 {
			n = 2000 + g.R.Intn(3000)
		}
		if ka == "str" {
			prefix := []string{"", "a", "ab", "abc", "key", "key_", "\u2028", "é", "<", "\"", "k\x00", "zz", "\xff"}[g.R.Intn(13)]
			for j := 0; j < n; j++ {
				var s string
				switch g.R.Intn(6) {
				case 0:
					s = prefix
				case 1:
					s = prefix + strings.Repeat("a", g.R.Intn(40))
				case 2:
					s = prefix + string(randBytes(g, 6))
				case 3:
					s = prefix + strconv.Itoa(g.R.Intn(1000))
				case 4:
					s = hardStrings[g.R.Intn(len(hardStrings))]
				default:
					s = prefix + string(rune('a'+g.R.Intn(26))) + prefix
				}
				add(keyOf(ka, s, 0))
			}
		} else {
			for j := 0; j < n; j++ {
				x := intEdges[g.R.Intn(len(intEdges))]
				switch g.R.Intn(4) {
				case 0:
					x = int64(g.R.Intn(2000)) - 1000
				case 1:
					x = g.R.Int63() - g.R.Int63()
				case 2:
					x = int64(j)
				}
				add(keyOf(ka, "", x))
			}
		}
		switch g.R.Intn(4) {
		case 0:
			st := listT("st", listT("f", atomT("M"), atomT(tagHex([]string{"m", "m,omitempty", ""}[g.R.Intn(3)])), tn), listT("f", atomT("Z"), atomT("-"), atomT("int")))
			e.emit(st, listT("st", v, listT("i", atomT("1"))))
		case 1:
			e.emit(listT("ptr", tn), listT("ptr", v))
		default:
			e.emit(tn, v)
		}
	}
}

func streamStrings(e encEmitter) {
	g := e.g
	vo := valOpts{hardStr: true}
	shapes := []func() *sx{
		func() *sx { return atomT("str") },
		func() *sx { return listT("sl", atomT("str")) },
		func() *sx { return listT("map", atomT("str"), atomT("str")) },
		func() *sx {
			return listT("st", listT("f", atomT("S"), atomT(tagHex([]string{"s", "s,string", ",string", "s,omitempty", "s,omitempty,string"}[g.R.Intn(5)])), atomT("str")),
				listT("f", atomT("P"), atomT(tagHex([]string{"p", "p,string", ""}[g.R.Intn(3)])), listT("ptr", atomT("str"))))
		},
		func() *sx { return atomT("any") },
		func() *sx { return listT("arr", atomT("2"), atomT("str")) },
	}
	// every single byte and every hard string first
	if e.mode != "all" {
		for c := 0; c < 256; c++ {
			e.emit(atomT("str"), listT("s", atomT(hexS(string([]byte{byte(c)})))))
		}
		for _, s := range hardStrings {
			e.emit(atomT("str"), listT("s", atomT(hexS(s))))
			st := listT("st", listT("f", atomT("S"), atomT(tagHex("s,string")), atomT("str")))
			e.emit(st, listT("st", listT("s", atomT(hexS(s)))))
		}
	}
	// long strings dense in characters the EscapeHTML / ValidateString post-passes rewrite: the escaped
	// text outgrows its buffer several times (restart logic of the escape loops)
	if e.mode != "all" {
		for _, unit := range []string{"<", "&>", "<a>", "\u2028", "x<"} {
			for _, n := range []int{100, 700, 1500, 5000, 20000} {
				e.emit(atomT("str"), listT("s", atomT(hexS(strings.Repeat(unit, n/len(unit))))))
			}
		}
	}
	// more than 4096 ill-formed bytes in ONE output (the ValidateString post-pass records at most 4096
	// positions per scan and restarts), with well-formed bytes right behind the 4096k-th ill-formed one:
	// one long string, thousands of short strings, map keys
	if e.mode != "all" {
		const vs = 1 << 5 // ValidateString
		str := func(s string) *sx { return listT("s", atomT(hexS(s))) }
		for _, k := range []int{4095, 4096, 4097, 8192, 8193} {
			e.emitForce(atomT("str"), str(strings.Repeat("\x80", k)+"middle\xff"), vs)
			e.emitForce(atomT("str"), str("head"+strings.Repeat("\xff", k)+"tail"), vs)
		}
		e.emitForce(atomT("str"), str(strings.Repeat("k\xffv", 4200)), vs)
		e.emitForce(atomT("str"), str(strings.Repeat("\xe2\x80", 2048)+"<mid>"+strings.Repeat("\xc0z", 2100)), vs)
		for _, n := range []int{4096, 4200, 8300} {
			sl := listT("sl")
			for i := 0; i < n; i++ {
				sl.list = append(sl.list, str("k\xffv"))
			}
			e.emitForce(listT("sl", atomT("str")), sl, vs)
		}
		for _, n := range []int{4097, 4300} {
			m := listT("map")
			for i := 0; i < n; i++ {
				m.list = append(m.list, &sx{isL: true, list: []*sx{str(fmt.Sprintf("k%05d\xffz", i)), listT("i", atomT("1"))}})
			}
			e.emitForce(listT("map", atomT("str"), atomT("int")), m, vs)
		}
		// the 4096k-th ill-formed byte ends a string: what follows is structure and a well-formed string
		for _, k := range []int{4096, 8192} {
			e.emitForce(listT("sl", atomT("str")), listT("sl", str(strings.Repeat("\x80", k)), str("valid tail"), str("z\xff")), vs)
			e.emitForce(listT("st", listT("f", atomT("A"), atomT(tagHex("a")), atomT("str")), listT("f", atomT("B"), atomT(tagHex("b")), atomT("str")), listT("f", atomT("C"), atomT(tagHex("c")), atomT("str"))),
				listT("st", str(strings.Repeat("\xff", k)), str("well-formed"), str("\xfe")), vs)
		}
		// a struct whose values and a later member together pass the boundary
		st := listT("st", listT("f", atomT("A"), atomT(tagHex("a")), atomT("str")), listT("f", atomT("B"), atomT(tagHex("b")), listT("sl", atomT("str"))))
		bs := listT("sl")
		for i := 0; i < 200; i++ {
			bs.list = append(bs.list, str("x\xfey"))
		}
		e.emitForce(st, listT("st", str(strings.Repeat("\xbf", 3990)), bs), vs)
	}
	for i := 0; i < g.N; i++ {
		tn := shapes[g.R.Intn(len(shapes))]()
		e.emit(tn, evalue(g, tn, 2, vo))
	}
}

func streamFloats(e encEmitter) {
	g := e.g
	vo := valOpts{hardNum: true}
	if e.mode != "all" {
		for _, b := range hardF64 {
			f := math.Float64frombits(b)
			if math.IsNaN(f) || math.IsInf(f, 0) {
				continue
			}
			e.emit(atomT("f64"), listT("f64", atomT(fmt.Sprintf("%016x", b))))
		}
		for _, b := range hardF32 {
			f := float64(math.Float32frombits(b))
			if math.IsNaN(f) || math.IsInf(f, 0) {
				continue
			}
			e.emit(atomT("f32"), listT("f32", atomT(fmt.Sprintf("%08x", b))))
		}
	}
	shapes := []func() *sx{
		func() *sx { return atomT("f64") },
		func() *sx { return atomT("f32") },
		func() *sx { return listT("sl", atomT("f64")) },
		func() *sx { return listT("sl", atomT("f32")) },
		func() *sx {
			return listT("st", listT("f", atomT("F"), atomT(tagHex([]string{"f", "f,string", "f,omitempty", "f,omitzero", "f,omitempty,string"}[g.R.Intn(5)])), atomT("f64")),
				listT("f", atomT("G"), atomT(tagHex([]string{"g", "g,string", "g,omitempty"}[g.R.Intn(3)])), atomT("f32")),
				listT("f", atomT("P"), atomT(tagHex([]string{"p", "p,string", "p,omitempty"}[g.R.Intn(3)])), listT("ptr", atomT("f64"))))
		},
		func() *sx { return listT("map", atomT("str"), atomT("f64")) },
		func() *sx { return atomT("any") },
	}
	for i := 0; i < g.N; i++ {
		tn := shapes[g.R.Intn(len(shapes))]()
		v := evalue(g, tn, 2, vo)
		if tn.atom == "any" {
			ft := atomT([]string{"f64", "f32"}[g.R.Intn(2)])
			v = listT("any", ft, evalue(g, ft, 0, vo))
		}
		e.emit(tn, v)
	}
}

// library leaves (value / pointer receiver (Text)Marshaler, recursive, embedded) at every kind of position
func streamCallbacks(e encEmitter) {
	g := e.g
	for i := 0; i < g.N; i++ {
		if i%3 == 0 {
			// programmable callbacks with well-formed output (the ill-formed ones live in the error stream)
			n := []string{"LJ", "LJP", "LT"}[g.R.Intn(3)]
			tn, v := cbPosition(g, listT("lib", atomT(n)), cbValue(cbTexts[g.R.Intn(15)]))
			e.emit(tn, v)
			continue
		}
		if i%7 == 1 {
			// out-of-line struct types (deeper than the inline limit of the compiler) holding a pointer-receiver
			// leaf, reached through a pointer and by value in both orders: the addressability the program was
			// first compiled with must not leak into later calls
			n := []string{"MP", "TP", "LJP", "MV"}[g.R.Intn(4)]
			lt := listT("lib", atomT(n))
			var lv *sx
			if n == "LJP" {
				lv = cbValue(cbTexts[g.R.Intn(10)])
			} else {
				lv = listT("lib", atomT(hexS(genLibJSON(g, n, 1))))
			}
			tn, v := lt, lv
			for k := 3 + g.R.Intn(3); k > 0; k-- {
				fn := fieldNames[g.R.Intn(3)]
				tn, v = listT("st", listT("f", atomT(fn), atomT("-"), tn)), listT("st", v)
			}
			if g.R.Intn(2) == 0 {
				e.emit(listT("ptr", tn), listT("ptr", v))
				e.emit(tn, v)
			} else {
				e.emit(tn, v)
				e.emit(listT("ptr", tn), listT("ptr", v))
			}
			e.emit(atomT("any"), listT("any", tn, v))
			continue
		}
		if i%5 == 2 && !e.rt() {
			// pointer-shaped library types, type and position enumerated (not drawn): every (type, position) pair
			// comes round, the value-receiver TextMarshalers by value first
			tn, v := psCase(g, i/5)
			e.emit(tn, v)
			continue
		}
		name := libNames[g.R.Intn(len(libNames))]
		for name == "LJ" || name == "LJP" || name == "LT" {
			name = libNames[g.R.Intn(len(libNames))]
		}
		if e.rt() && (name == "MP" || name == "TP") && g.R.Intn(4) != 0 {
			name = "MV"
		}
		lt := listT("lib", atomT(name))
		var tn *sx
		switch g.R.Intn(12) {
		case 0:
			tn = lt
		case 1:
			tn = listT("ptr", lt)
		case 2:
			tn = listT("sl", lt)
		case 3:
			tn = listT("arr", atomT("2"), lt)
		case 4:
			tn = listT("map", atomT("str"), lt)
		case 5:
			tn = listT("map", atomT("str"), listT("ptr", lt))
		case 6:
			tn = listT("st", listT("f", atomT("L"), atomT(tagHex([]string{"l", "", "l,omitempty", "l,string", "l,omitzero"}[g.R.Intn(5)])), lt),
				listT("f", atomT("P"), atomT(tagHex([]string{"p", "p,omitempty", "p,string"}[g.R.Intn(3)])), listT("ptr", lt)))
		case 7:
			tn = atomT("any")
		case 8:
			tn = listT("sl", listT("ptr", lt))
		case 9:
			tn = listT("ptr", listT("st", listT("f", atomT("L"), atomT("-"), lt), listT("f", atomT("A"), atomT("-"), listT("arr", atomT("1"), lt))))
		case 10:
			tn = listT("map", listT("lib", atomT("TV")), lt)
		default:
			tn = listT("sl", atomT("raw"))
		}
		var v *sx
		if tn.atom == "any" {
			it := lt
			if g.R.Intn(2) == 0 {
				it = listT("ptr", lt)
			}
			v = listT("any", it, evalue(g, it, 2, valOpts{}))
		} else {
			v = evalue(g, tn, 2, valOpts{special: !e.rt() && g.R.Intn(8) == 0})
		}
		e.emit(tn, v)
	}
}

// ---------------------------------------------------------------- pointer-shaped library types (ops_enc.go)

// order: the value-receiver TextMarshalers first (struct, array, map), then value-receiver Marshalers, then pointer receivers
var psTypes = []string{"PSTV", "PATV", "PMTV", "PSJV", "PAJV", "PMJV", "PSTP", "PATP", "PMTP", "PSJP", "PAJP", "PMJP"}

// psLeaf: the value expression of a pointer-shaped library leaf holding n (the twin's JSON text, see ops_enc.go)
func psLeaf(name string, n int) *sx {
	switch name[2:] {
	case "TV":
		return listT("lib", atomT(hexS(`"tv`+strconv.Itoa(n)+`"`)))
	case "JV":
		return listT("lib", atomT(hexS(`{"mv":`+strconv.Itoa(n)+`}`)))
	}
	return listT("lib", atomT(hexS(`{"V":`+strconv.Itoa(n)+`}`)))
}

const psPositionCount = 16

// psCase: the k-th (type, position) pair.  Positions: by value / by pointer at the top, field of a struct by value and
// behind a pointer (every tag option), slice / array element, map value, map key, interface value (value and pointer),
// nested by-value structs, elements behind pointers, inside []interface{}
func psCase(g *Gen, k int) (*sx, *sx) {
	name := psTypes[k%len(psTypes)]
	pos := (k/len(psTypes) + 5*(k%len(psTypes))) % psPositionCount
	lt := listT("lib", atomT(name))
	n := 1 + g.R.Intn(99) // never 0: `omitzero` means the same for the type and for its twin in the model
	lv := psLeaf(name, n)
	lv2 := psLeaf(name, n+100)
	tag := atomT(tagHex([]string{"l", "", "l,omitempty", "l,string", "l,omitzero", "-"}[g.R.Intn(6)]))
	if tag.atom == tagHex("") {
		tag = atomT("-")
	} else if tag.atom == tagHex("-") {
		tag = atomT(tagHex("-,"))
	}
	entry := func(k, v *sx) *sx { return &sx{isL: true, list: []*sx{k, v}} }
	switch pos {
	case 0:
		return lt, lv
	case 1:
		return listT("ptr", lt), listT("ptr", lv)
	case 2:
		return listT("st", listT("f", atomT("A"), atomT("-"), atomT("int")), listT("f", atomT("L"), tag, lt)), listT("st", listT("i", atomT("1")), lv)
	case 3:
		return listT("ptr", listT("st", listT("f", atomT("L"), tag, lt), listT("f", atomT("B"), atomT("-"), atomT("bool")))), listT("ptr", listT("st", lv, atomT("t")))
	case 4:
		return listT("sl", lt), listT("sl", lv, lv2)
	case 5:
		return listT("arr", atomT("2"), lt), listT("arr", lv, lv2)
	case 6:
		return listT("map", atomT("str"), lt), listT("map", entry(listT("s", atomT(hexS("k"))), lv))
	case 7:
		// map key: comparable TextMarshalers only (a map is not comparable; the pointer receivers and the json.Marshalers
		// are no key types for encoding/json) - the others stand as the map's value type behind a pointer
		if name == "PSTV" || name == "PATV" {
			return listT("map", lt, atomT("int")), listT("map", entry(lv, listT("i", atomT("1"))), entry(lv2, listT("i", atomT("2"))))
		}
		return listT("map", atomT("int"), listT("ptr", lt)), listT("map", entry(listT("i", atomT("7")), listT("ptr", lv)))
	case 8:
		return atomT("any"), listT("any", lt, lv)
	case 9:
		return atomT("any"), listT("any", listT("ptr", lt), listT("ptr", lv))
	case 10:
		in := listT("st", listT("f", atomT("L"), tag, lt))
		return listT("st", listT("f", atomT("In"), atomT("-"), in), listT("f", atomT("S"), atomT("-"), atomT("str"))), listT("st", listT("st", lv), listT("s", atomT(hexS("x"))))
	case 11:
		return listT("sl", listT("ptr", lt)), listT("sl", listT("ptr", lv), atomT("nil"), listT("ptr", lv2))
	case 12:
		return listT("sl", atomT("any")), listT("sl", listT("any", lt, lv), listT("any", listT("ptr", lt), listT("ptr", lv2)))
	case 13:
		return listT("ptr", listT("arr", atomT("1"), lt)), listT("ptr", listT("arr", lv))
	case 14:
		return listT("map", atomT("str"), listT("st", listT("f", atomT("L"), tag, lt))), listT("map", entry(listT("s", atomT(hexS("k"))), listT("st", lv)))
	}
	return listT("st", listT("f", atomT("P"), atomT(tagHex("p,omitempty")), listT("ptr", lt)), listT("f", atomT("L"), tag, lt), listT("f", atomT("A"), atomT("-"), listT("arr", atomT("1"), lt))),
		listT("st", listT("ptr", lv2), lv, listT("arr", lv))
}

var cbTexts = []string{"1", "null", "\"s\"", "{\"a\": 1}", "[1, 2 ,3]", " {} ", "\n[\n]\n", "true", "\"<>&\u2028\"", "-1.5e3", "\"\\u00e9\"", "\"\xff\"", "tv1", "a b", "<&>",
	"", " ", "{", "}", "[1,]", "tru", "1 2", "\"abc", "\"" + strings.Repeat("x", 32), "\"" + strings.Repeat("x", 31), "\"" + strings.Repeat("x", 64), "{\"a\"}", "nul", "01", "+1", "'a'", "[1}", "\"\x01\"", "\"\\q\"", "1.", ".5", "\xef\xbb\xbf1",
	"{\"k\":\"" + strings.Repeat("y", 32), "[\"" + strings.Repeat("z", 96)}

// cbValue: the value expression of a programmable callback leaf returning text t
func cbValue(t string) *sx {
	return listT("lib", atomT(hexS(`"hex:`+hex.EncodeToString([]byte(t))+`"`)))
}

// cbPosition wraps a callback leaf type/value into one of the positions a value can be reached through
func cbPosition(g *Gen, lt *sx, lv *sx) (*sx, *sx) {
	switch g.R.Intn(11) {
	case 0:
		return lt, lv
	case 1:
		return listT("ptr", lt), listT("ptr", lv)
	case 2:
		return listT("sl", lt), listT("sl", lv, lv)
	case 3:
		return listT("arr", atomT("1"), lt), listT("arr", lv)
	case 4:
		return listT("map", atomT("str"), lt), listT("map", &sx{isL: true, list: []*sx{listT("s", atomT(hexS("k"))), lv}})
	case 5:
		return listT("st", listT("f", atomT("A"), atomT("-"), atomT("int")), listT("f", atomT("L"), atomT(tagHex([]string{"l", "l,omitempty", "l,string", "l,omitzero"}[g.R.Intn(4)])), lt)),
			listT("st", listT("i", atomT("1")), lv)
	case 6:
		return atomT("any"), listT("any", lt, lv)
	case 7:
		return atomT("any"), listT("any", listT("ptr", lt), listT("ptr", lv))
	case 8:
		return listT("ptr", listT("st", listT("f", atomT("L"), atomT("-"), lt))), listT("ptr", listT("st", lv))
	case 9:
		return listT("sl", listT("ptr", lt)), listT("sl", listT("ptr", lv), atomT("nil"))
	}
	if lt.list[1].atom == "LT" {
		return listT("map", lt, atomT("int")), listT("map", &sx{isL: true, list: []*sx{lv, listT("i", atomT("1"))}})
	}
	return listT("map", atomT("int"), lt), listT("map", &sx{isL: true, list: []*sx{listT("i", atomT("7")), lv}})
}

func streamErrors(e encEmitter) {
	g := e.g
	// fixed part: kinds without representation, cycles, depth around MaxStack, failing callbacks
	for _, k := range []string{"chan", "func", "complex", "st_chan", "st_func_omitempty", "map_arr_key", "map_st_key_empty", "sl_complex", "any_chan", "ptr_chan_nil", "sl_chan_empty", "unsafe_ptr"} {
		g.Emit("markind", e.bits(), k)
	}
	for _, k := range []string{"ptr", "sl", "map", "tree"} {
		g.Emit("marcyc", e.bits(), k)
	}
	for _, k := range []string{"sl", "map", "rec", "arrst"} {
		for _, n := range []int{1, 100, 1023, 1365, 1366, 2047, 2048, 2049, 4094, 4095, 4096, 4097, 4098, 5000} {
			if e.mode == "all" && n != 4096 {
				continue
			}
			g.Emit("mardeep", e.bits(), k, strconv.Itoa(n))
		}
	}
	for _, k := range []string{"LE", "LE.field", "LTE", "LTE.key", "ikey.bad", "ikey.bad.mixed", "ikey.bad.field", "ikey.bad.ptr", "ikey.ok", "ikey.ok.one", "ikey.nil", "emb.mp", "emb.mp.ptr", "emb.mp.nil", "emb.mp.slice", "emb.mp.any"} {
		b := e.bits()
		if e.mode == "be" && strings.HasPrefix(k, "ikey") {
			// several entries: the order is only defined with SortMapKeys
			b = strconv.FormatUint(encMask(e.g.R.Intn(512)|1), 10)
		}
		g.Emit("marfail", b, k)
		if e.mode != "std" && strings.HasPrefix(k, "ikey.bad") {
			g.Emit("marfail", strconv.FormatUint(stdBits(), 10), k)
		}
	}
	// embedded pointer-shaped (Text)Marshalers (promoted methods), every fixture at every position
	if !e.rt() {
		for _, f := range psFixtures {
			for _, q := range psPositions {
				g.Emit("marps", e.bits(), f+"."+q)
			}
		}
	}
	// programmable callbacks returning every text of the pool, at every kind of position
	for _, n := range []string{"LJ", "LJP", "LT"} {
		for _, t := range cbTexts {
			if e.mode == "all" && g.R.Intn(8) != 0 {
				continue
			}
			lt := listT("lib", atomT(n))
			tn, v := cbPosition(g, lt, cbValue(t))
			e.emit(tn, v)
		}
	}
	// json.Number texts: every proper prefix and every single-character deletion of a few valid
	// literals (most are invalid: a sign, a dot or an exponent marker left hanging), at three positions
	if e.mode != "all" {
		seen := map[string]bool{}
		for _, lit := range []string{"-12.5e+10", "0.5E-3", "1e5", "-0", "10.25", "3E+7"} {
			var cands []string
			for i := 0; i <= len(lit); i++ {
				cands = append(cands, lit[:i])
				if i < len(lit) {
					cands = append(cands, lit[:i]+lit[i+1:])
				}
			}
			for _, c := range cands {
				if seen[c] {
					continue
				}
				seen[c] = true
				nv := listT("num", atomT(hexS(c)))
				switch len(seen) % 3 {
				case 0:
					e.emit(atomT("num"), nv)
				case 1:
					e.emit(listT("sl", atomT("num")), listT("sl", listT("num", atomT(hexS("1"))), nv))
				default:
					e.emit(listT("st", listT("f", atomT("N"), atomT(tagHex("n")), atomT("num"))), listT("st", nv))
				}
			}
		}
	}
	// generated part: NaN/Inf, invalid json.Number, invalid RawMessage, map keys encoding/json rejects
	for i := 0; i < g.N; i++ {
		var tn *sx
		switch g.R.Intn(8) {
		case 0:
			tn = atomT([]string{"f64", "f32", "num", "raw"}[g.R.Intn(4)])
		case 1:
			tn = listT("sl", atomT([]string{"f64", "f32", "num", "raw"}[g.R.Intn(4)]))
		case 2:
			tn = listT("map", atomT([]string{"f64", "f32", "bool"}[g.R.Intn(3)]), atomT("int"))
		case 3:
			tn = listT("st", listT("f", atomT("F"), atomT(tagHex([]string{"f", "f,omitempty", "f,string"}[g.R.Intn(3)])), atomT([]string{"f64", "num", "raw"}[g.R.Intn(3)])),
				listT("f", atomT("M"), atomT(tagHex([]string{"m", "m,omitempty"}[g.R.Intn(2)])), listT("map", atomT("f64"), atomT("int"))))
		default:
			tn = genType(g, 2, TypeOpts{NoLib: true})
		}
		var v *sx
		if tn.head() == "map" && (tn.list[1].atom == "f64" || tn.list[1].atom == "f32" || tn.list[1].atom == "bool") {
			v = listT("map")
			if g.R.Intn(4) == 0 {
				v = atomT("nil")
			} else if g.R.Intn(3) != 0 {
				k := evalue(g, tn.list[1], 0, valOpts{})
				v.list = append(v.list, &sx{isL: true, list: []*sx{k, listT("i", atomT("1"))}})
			}
		} else if tn.head() == "st" && len(tn.list) == 3 && tn.list[2].list[1].atom == "M" {
			fv := evalue(g, tn.list[1].list[3], 1, valOpts{special: true})
			mv := atomT("nil")
			if g.R.Intn(2) == 0 {
				mv = listT("map")
			}
			v = listT("st", fv, mv)
		} else {
			v = evalue(g, tn, 2, valOpts{special: true, hardNum: true})
		}
		// force an unrepresentable float now and then
		if tn.atom == "f64" && g.R.Intn(2) == 0 {
			v = listT("f64", atomT([]string{"7ff0000000000000", "fff0000000000000", "7ff8000000000001", "fff8000000000000", "7ff0000000000001"}[g.R.Intn(5)]))
		}
		if tn.atom == "f32" && g.R.Intn(2) == 0 {
			v = listT("f32", atomT([]string{"7f800000", "ff800000", "7fc00000", "7f800001"}[g.R.Intn(4)]))
		}
		e.emit(tn, v)
	}
}

func init() {
	streams := map[string]func(encEmitter){
		"universe": streamUniverse, "tags": streamTags, "maps": streamMaps, "strings": streamStrings,
		"floats": streamFloats, "callbacks": streamCallbacks, "errors": streamErrors,
	}
	for _, mode := range []string{"std", "opt", "all", "be"} {
		for name, f := range streams {
			mode, f := mode, f
			registerGen("enc."+mode+"."+name, func(g *Gen) { f(encEmitter{g: g, mode: mode}) })
		}
	}
}
