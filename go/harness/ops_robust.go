package main

// C07 - robustness operations.  Every case runs in its own goroutine under recover and a
// per-case deadline; a fatal runtime error (stack overflow, fault) kills the worker, which the
// runner records as sonic=CRASH.  Every error value that any call returns is formatted
// (Error(), Description()) under recover, and its length / position are reported.
//
//   crash  <api> <doc hex>                       one public entry point on one document
//   deep   <api> <open hex> <depth> <core hex> <close hex>   doc = open^depth core close^depth
//   big    <api> <kind> <n>                      1 MiB-class scalars (string / number / blanks / keys)
//   mar    <kind> <n> <cfg>                      encoder on cyclic / deep / non-encodable values
//   fmterr <dec|mis|ast> <size> <pos>            error formatting on a hand-made error value
//                                                (cross-check of the translated index arithmetic)

import (
	"bytes"
	"encoding/json"
	"errors"
	"fmt"
	"io"
	"math"
	"os"
	"os/exec"
	"reflect"
	"regexp"
	"strconv"
	"strings"
	"time"
	"unsafe"

	"github.com/bytedance/sonic"
	"github.com/bytedance/sonic/ast"
	"github.com/bytedance/sonic/decoder"
	"github.com/bytedance/sonic/encoder"
)

// ---------------------------------------------------------------- destination types

type rbUM struct{ b []byte }

func (u *rbUM) UnmarshalJSON(b []byte) error { u.b = append(u.b[:0], b...); return nil }

type rbTU struct{ s string }

func (u *rbTU) UnmarshalText(b []byte) error { u.s = string(b); return nil }

type rbBig struct {
	A    int                    `json:"a"`
	B    string                 `json:"b"`
	C    []int                  `json:"c"`
	D    map[string]interface{} `json:"d"`
	E    *rbBig                 `json:"e"`
	F    float64                `json:"f"`
	G    bool
	H    json.RawMessage  `json:"h"`
	I    interface{}      `json:"i"`
	J    rbUM             `json:"j"`
	K    json.Number      `json:"k"`
	L    [2]int           `json:"l"`
	M    map[string]*rbBig `json:"m"`
	N    []byte           `json:"n"`
	S    int              `json:"s,string"`
	T    rbTU             `json:"t"`
	X    []rbBig          `json:"x"`
	Name string
	Id   uint8 `json:"id"`
}

type rbRecL []rbRecL
type rbRecM map[string]rbRecM
type rbRecS struct {
	A *rbRecS  `json:"a"`
	B []rbRecS `json:"b"`
	I int      `json:"i"`
}

func rbDest(name string) interface{} {
	switch name {
	case "iface":
		return new(interface{})
	case "struct":
		return new(rbBig)
	case "map":
		return new(map[string]interface{})
	case "slice":
		return new([]interface{})
	case "int":
		return new(int)
	case "pint":
		return new(*int)
	case "raw":
		return new(json.RawMessage)
	case "um":
		return new(rbUM)
	case "str":
		return new(string)
	case "num":
		return new(json.Number)
	case "f64":
		return new(float64)
	case "bytes":
		return new([]byte)
	case "recl":
		return new(rbRecL)
	case "recm":
		return new(rbRecM)
	case "recs":
		return new(rbRecS)
	case "mapint":
		return new(map[int]string)
	case "maptu":
		return new(map[rbTU]int)
	case "arr":
		return new([3]interface{})
	case "node":
		return new(ast.Node)
	}
	panic("unknown dest " + name)
}

func rbCfg(name string) sonic.API {
	switch name {
	case "def":
		return sonic.ConfigDefault
	case "std":
		return sonic.ConfigStd
	case "fast":
		return sonic.ConfigFastest
	}
	panic("unknown config " + name)
}

// ---------------------------------------------------------------- error examination

type rbRec struct {
	inLen   int
	nerr    int
	maxLen  int
	first   string // type of the first error
	posSeen bool
	minPos  int
	maxPos  int
	eofPos  int // largest position reported by an eof-class error, -1 if none
	noneof  int // largest position reported by a non-eof error, -1 if none
	fmtPan  string
	extra   []string
	bounds  string
	uvStr   string   // Str of the first *json.UnsupportedValueError met (hex), as "uvstr=..."
	recs    []string // distinct "pos:srclen:e|n:type" of errors that expose a position (first 12)
	recSeen map[string]bool
}

func newRec(inLen int) *rbRec { return &rbRec{inLen: inLen, eofPos: -1, noneof: -1} }

var rbIndexRe = regexp.MustCompile(`at index (-?[0-9]+):`)

func safeCall(f func() string) (s string, pan string) {
	defer func() {
		if r := recover(); r != nil {
			pan = fmt.Sprint(r)
			if len(pan) > 100 {
				pan = pan[:100]
			}
			pan = strings.Map(func(r rune) rune {
				if r < 32 {
					return ' '
				}
				return r
			}, pan)
			if pan == "" {
				pan = "?"
			}
		}
	}()
	return f(), ""
}

func intField(v reflect.Value, name string) (int, bool) {
	for v.Kind() == reflect.Ptr || v.Kind() == reflect.Interface {
		if v.IsNil() {
			return 0, false
		}
		v = v.Elem()
	}
	if v.Kind() != reflect.Struct {
		return 0, false
	}
	f := v.FieldByName(name)
	if !f.IsValid() {
		return 0, false
	}
	switch f.Kind() {
	case reflect.Int, reflect.Int64, reflect.Int32:
		return int(f.Int()), true
	}
	return 0, false
}

func robustStrField(v reflect.Value, name string) (string, bool) {
	for v.Kind() == reflect.Ptr || v.Kind() == reflect.Interface {
		if v.IsNil() {
			return "", false
		}
		v = v.Elem()
	}
	if v.Kind() != reflect.Struct {
		return "", false
	}
	f := v.FieldByName(name)
	if !f.IsValid() || f.Kind() != reflect.String {
		return "", false
	}
	return f.String(), true
}

// excerptFields parses the "...\n\n\t<excerpt>\n\t<dots>^<dots>\n" tail of a description and
// reports excerpt length, dot counts and the offsets near pos at which the excerpt occurs in src.
func excerptFields(desc, src string, pos int) (string, bool) {
	if !strings.HasSuffix(desc, "\n") {
		return "", false
	}
	k := strings.LastIndex(desc[:len(desc)-1], "\n\t")
	if k < 0 {
		return "", false
	}
	caret := desc[k+2 : len(desc)-1]
	c := strings.IndexByte(caret, '^')
	if c < 0 || strings.Trim(caret[:c], ".") != "" || strings.Trim(caret[c+1:], ".") != "" {
		return "", false
	}
	h := strings.Index(desc, "\n\n\t")
	if h < 0 || h+3 > k {
		return "", false
	}
	exc := desc[h+3 : k]
	var offs []string
	c0 := pos
	if c0 > len(src) {
		c0 = len(src)
	}
	if c0 < 0 {
		c0 = 0
	}
	lo, hi := c0-80, c0+80
	if lo < 0 {
		lo = 0
	}
	if len(exc) == len(src) {
		lo, hi = 0, 0
	}
	for o := lo; o <= hi && o+len(exc) <= len(src); o++ {
		if src[o:o+len(exc)] == exc {
			offs = append(offs, itoa(o))
			if len(offs) >= 170 {
				break
			}
		}
	}
	o := strings.Join(offs, ",")
	if o == "" {
		o = "none"
	}
	return fmt.Sprintf("belen=%d\tbx=%d\tby=%d\tboffs=%s\tbsize=%d\tbpos=%d", len(exc), c, len(caret)-c-1, o, len(src), pos), true
}

// check formats one returned error and records what the property speaks about.
func (r *rbRec) check(err error) {
	if err == nil {
		return
	}
	r.nerr++
	tn := fmt.Sprintf("%T", err)
	if r.first == "" {
		r.first = tn
	}
	msg, pan := safeCall(err.Error)
	if pan != "" && r.fmtPan == "" {
		r.fmtPan = tn + ".Error: " + pan
	}
	if len(msg) > r.maxLen {
		r.maxLen = len(msg)
	}
	if uv, ok := err.(*json.UnsupportedValueError); ok && r.uvStr == "" {
		str, p3 := safeCall(func() string { return uv.Str })
		if p3 != "" {
			str = "PANIC"
		}
		r.uvStr = "uvstr=" + hexArg([]byte(str))
		if len(str) > 64 {
			r.uvStr = "uvstr=" + hexArg([]byte(str[:64]))
		}
	}
	desc := ""
	if d, ok := err.(interface{ Description() string }); ok {
		var p2 string
		desc, p2 = safeCall(d.Description)
		if p2 != "" && r.fmtPan == "" {
			r.fmtPan = tn + ".Description: " + p2
		}
		if len(desc) > r.maxLen {
			r.maxLen = len(desc)
		}
	}
	if _, isNode := err.(ast.Node); isNode {
		desc = msg
	}
	if _, isNode := err.(*ast.Node); isNode {
		desc = msg
	}
	// position
	pos, has := 0, false
	rv := reflect.ValueOf(err)
	if p, ok := intField(rv, "Pos"); ok {
		pos, has = p, true
	} else if p, ok := intField(rv, "Offset"); ok && strings.Contains(tn, "SyntaxError") {
		pos, has = p, true
	} else {
		text := msg
		if m := rbIndexRe.FindStringSubmatch(text); m != nil {
			pos, _ = strconv.Atoi(m[1])
			has = true
			if desc == "" && strings.HasPrefix(text, "\"") {
				if u, e := strconv.Unquote(text); e == nil {
					desc = u
				}
			}
		}
	}
	if has {
		srclen := -1
		if src, ok := robustStrField(rv, "Src"); ok {
			srclen = len(src)
		}
		cls := "n"
		lowm := strings.ToLower(msg)
		if strings.Contains(lowm, ": eof") || strings.Contains(lowm, "unexpected end") || strings.Contains(lowm, "unexpected eof") {
			cls = "e"
		}
		short := tn
		if k := strings.LastIndexByte(short, '.'); k >= 0 {
			short = strings.TrimLeft(tn[:k], "*")
			if j := strings.LastIndexByte(short, '/'); j >= 0 {
				short = short[j+1:]
			}
			short = short + "." + tn[k+1:]
		}
		rec := fmt.Sprintf("%d:%d:%s:%s", pos, srclen, cls, short)
		if r.recSeen == nil {
			r.recSeen = map[string]bool{}
		}
		if !r.recSeen[rec] && (len(r.recs) < 12 || pos < 0 || pos > r.inLen) && len(r.recs) < 40 {
			r.recSeen[rec] = true
			r.recs = append(r.recs, rec)
		}
		if !r.posSeen || pos < r.minPos {
			r.minPos = pos
		}
		if !r.posSeen || pos > r.maxPos {
			r.maxPos = pos
		}
		r.posSeen = true
		low := strings.ToLower(msg)
		if strings.Contains(low, ": eof") || strings.Contains(low, "unexpected end") || strings.Contains(low, "unexpected eof") {
			if pos > r.eofPos {
				r.eofPos = pos
			}
		} else if pos > r.noneof {
			r.noneof = pos
		}
	}
	// behavioural cross-check of the excerpt arithmetic: decoder errors carry their source
	if r.bounds == "" && has && desc != "" && (strings.HasSuffix(tn, "errors.SyntaxError") || strings.HasSuffix(tn, "errors.MismatchTypeError")) {
		if src, ok := robustStrField(rv, "Src"); ok && src != "" {
			if b, ok := excerptFields(desc, src, pos); ok {
				r.bounds = "bkind=dec\t" + b
			} else {
				r.bounds = "bkind=dec\tbparse=fail"
			}
		}
	}
}

func (r *rbRec) add(kv string) { r.extra = append(r.extra, kv) }

func (r *rbRec) line(status string) string {
	var sb strings.Builder
	if status == "" {
		status = "ok"
		if r.nerr > 0 {
			status = "err"
		}
	}
	sb.WriteString("sonic=" + status)
	fmt.Fprintf(&sb, "\tlen=%d\tnerr=%d\terrlen=%d", r.inLen, r.nerr, r.maxLen)
	if r.first != "" {
		sb.WriteString("\tet=" + strings.ReplaceAll(r.first, "\t", " "))
	}
	if r.posSeen {
		fmt.Fprintf(&sb, "\tminpos=%d\tmaxpos=%d\teofpos=%d\tnoneofpos=%d", r.minPos, r.maxPos, r.eofPos, r.noneof)
	}
	if len(r.recs) > 0 {
		sb.WriteString("\tperr=" + strings.Join(r.recs, ";"))
	}
	if r.fmtPan != "" {
		sb.WriteString("\tfmtpanic=" + r.fmtPan)
	}
	if r.uvStr != "" {
		sb.WriteString("\t" + r.uvStr)
	}
	for _, e := range r.extra {
		sb.WriteString("\t" + e)
	}
	if r.bounds != "" {
		sb.WriteString("\t" + r.bounds)
	}
	return sb.String()
}

// ---------------------------------------------------------------- deadline

// deadlines are deliberately far above the normal running time (milliseconds; seconds for 10^6-deep inputs): the
// machine may be heavily loaded, and a slow answer must never be mistaken for a hang
var rbLimit = 60 * time.Second
var rbSelfLimit = 8 * time.Second

// guarded runs f in a fresh goroutine; a panic becomes sonic=PANIC, a missed deadline sonic=HANG.
func robustGuarded(limit time.Duration, f func() string) string {
	ch := make(chan string, 1)
	t0 := time.Now()
	go func() {
		defer func() {
			if r := recover(); r != nil {
				msg := fmt.Sprint(r)
				if len(msg) > 120 {
					msg = msg[:120]
				}
				msg = strings.Map(func(r rune) rune {
					if r < 32 {
						return ' '
					}
					return r
				}, msg)
				ch <- "sonic=PANIC\tpanic=" + msg
			}
		}()
		ch <- f()
	}()
	select {
	case s := <-ch:
		return s + "\tms=" + strconv.FormatInt(time.Since(t0).Milliseconds(), 10)
	case <-time.After(limit):
		// the stuck goroutine cannot be stopped; the worker keeps answering (the runner attributes a
		// process death to the NEXT case, so exiting here would blame the wrong input)
		return "sonic=HANG\tlimit=" + limit.String()
	}
}

// ---------------------------------------------------------------- visitor

type rbVisitor struct{ n, depth, maxDepth int }

func (v *rbVisitor) OnNull() error                            { v.n++; return nil }
func (v *rbVisitor) OnBool(bool) error                        { v.n++; return nil }
func (v *rbVisitor) OnString(string) error                    { v.n++; return nil }
func (v *rbVisitor) OnInt64(int64, json.Number) error         { v.n++; return nil }
func (v *rbVisitor) OnFloat64(float64, json.Number) error     { v.n++; return nil }
func (v *rbVisitor) OnObjectKey(string) error                 { v.n++; return nil }
func (v *rbVisitor) OnObjectEnd() error                       { v.depth--; return nil }
func (v *rbVisitor) OnArrayEnd() error                        { v.depth--; return nil }
func (v *rbVisitor) OnObjectBegin(int) error                  { v.push(); return nil }
func (v *rbVisitor) OnArrayBegin(int) error                   { v.push(); return nil }
func (v *rbVisitor) push() {
	v.depth++
	if v.depth > v.maxDepth {
		v.maxDepth = v.depth
	}
}

type rbChunkReader struct {
	b []byte
	n int
}

func (c *rbChunkReader) Read(p []byte) (int, error) {
	if len(c.b) == 0 {
		return 0, io.EOF
	}
	n := c.n
	if n > len(p) {
		n = len(p)
	}
	if n > len(c.b) {
		n = len(c.b)
	}
	copy(p, c.b[:n])
	c.b = c.b[n:]
	return n, nil
}

// ---------------------------------------------------------------- node walking

var rbPaths = [][]interface{}{
	{}, {"a"}, {0}, {"a", 0}, {0, "a"}, {"a", "a", "a"}, {1}, {"b"}, {"d", "x"}, {2, 1, 0}, {"e", "e"}, {""}, {"x", 0, "x"}, {1 << 40},
	{"a", "b", "c", "d"}, {0, 0, 0, 0, 0, 0}, {"Name"}, {"id"}, {"é"}, {"k\\u0061"},
}

func (r *rbRec) nodeUse(n *ast.Node, depth int) {
	if n == nil {
		return
	}
	r.check(n.Check())
	_ = n.Type()
	_ = n.TypeSafe()
	_ = n.Exists()
	_ = n.Valid()
	_, e := n.Raw()
	r.check(e)
	_, e = n.Len()
	r.check(e)
	_, e = n.Cap()
	r.check(e)
	if depth <= 0 {
		return
	}
	for i := 0; i < 3; i++ {
		r.nodeUse(n.Index(i), depth-1)
	}
	for _, k := range []string{"a", "b", "x", ""} {
		r.nodeUse(n.Get(k), depth-1)
	}
}

func (r *rbRec) nodeConv(n *ast.Node) {
	_, e := n.Bool()
	r.check(e)
	_, e = n.Int64()
	r.check(e)
	_, e = n.StrictInt64()
	r.check(e)
	_, e = n.Float64()
	r.check(e)
	_, e = n.StrictFloat64()
	r.check(e)
	_, e = n.String()
	r.check(e)
	_, e = n.StrictString()
	r.check(e)
	_, e = n.Number()
	r.check(e)
	_, e = n.StrictNumber()
	r.check(e)
	_, e = n.StrictBool()
	r.check(e)
}

type rbScanner struct {
	r *rbRec
	n int
}

// ---------------------------------------------------------------- the entry points

// rbAPIs lists every api name `crash`/`deep` understand (generators iterate over it).
var rbDests = []string{"iface", "struct", "map", "slice", "int", "pint", "raw", "um", "str", "num", "f64", "bytes", "recl", "recm", "recs", "mapint", "maptu", "arr", "node"}
var rbCfgs = []string{"def", "std", "fast"}
var rbPlain = []string{"valid", "valids", "validstd", "get", "gets", "getopt", "searcher", "loads", "loadsnum", "parse", "parsenolazy",
	"raw_check", "raw_load", "raw_loadall", "raw_iface", "raw_ifacenum", "raw_ifacenode", "raw_marshal", "raw_walk", "raw_conv", "raw_iter", "raw_foreach",
	"raw_sort", "raw_map", "raw_arr", "raw_edit", "raw_unsetpop", "rawcr_walk", "node_unmarshal", "preorder", "preordernum", "stream1", "stream7", "streamall", "streamstd", "streambuf",
	"skip", "dec_opts:0", "dec_opts:1", "dec_opts:2", "dec_opts:3", "dec_opts:4", "dec_opts:5", "dec_opts:6", "dec_opts:7", "dec_multi"}

func rbAPIs() []string {
	var a []string
	for _, d := range rbDests {
		for _, c := range rbCfgs {
			a = append(a, "um:"+d+":"+c, "ums:"+d+":"+c)
		}
	}
	return append(a, rbPlain...)
}

func rbRun(api string, doc []byte) string {
	r := newRec(len(doc))
	s := string(doc)
	if strings.HasPrefix(api, "um:") || strings.HasPrefix(api, "ums:") {
		p := strings.Split(api, ":")
		dst := rbDest(p[1])
		cfg := rbCfg(p[2])
		var err error
		if p[0] == "um" {
			// the library may keep references into buf: hand it a private copy
			err = cfg.Unmarshal(append([]byte(nil), doc...), dst)
		} else {
			err = cfg.UnmarshalFromString(s, dst)
		}
		r.check(err)
		return r.line("")
	}
	switch api {
	case "valid":
		r.add("v=" + b01(sonic.Valid(doc)))
	case "valids":
		r.add("v=" + b01(sonic.ValidString(s)))
	case "validstd":
		r.add("v=" + b01(sonic.ConfigStd.Valid(doc)))
	case "get", "gets", "getopt":
		for i, path := range rbPaths {
			var n ast.Node
			var e error
			switch api {
			case "get":
				n, e = sonic.Get(doc, path...)
			case "gets":
				if i%2 == 0 {
					n, e = sonic.GetFromString(s, path...)
				} else {
					n, e = sonic.GetCopyFromString(s, path...)
				}
			default:
				n, e = sonic.GetWithOptions(doc, ast.SearchOptions{ValidateJSON: i%2 == 0, CopyReturn: i%3 == 0, ConcurrentRead: i%4 < 2}, path...)
			}
			r.check(e)
			if e == nil {
				r.nodeUse(&n, 1)
				_, e = n.Interface()
				r.check(e)
				_, e = n.MarshalJSON()
				r.check(e)
			}
		}
	case "searcher":
		for i, path := range rbPaths {
			sr := ast.NewSearcher(s)
			sr.ValidateJSON = i%2 == 1
			sr.ConcurrentRead = i%3 == 1
			sr.CopyReturn = i%5 == 1
			n, e := sr.GetByPath(path...)
			r.check(e)
			if e == nil {
				r.check(n.LoadAll())
			}
			n, e = sr.GetByPathCopy(path...)
			r.check(e)
		}
	case "loads":
		_, _, e := ast.Loads(s)
		r.check(e)
	case "loadsnum":
		_, _, e := ast.LoadsUseNumber(s)
		r.check(e)
	case "parse":
		p := ast.NewParser(s)
		n, pe := p.Parse()
		if pe != 0 {
			r.check(p.ExportError(pe))
			r.check(pe)
		} else {
			r.nodeUse(&n, 3)
			r.check(n.LoadAll())
		}
		pos := p.Pos()
		r.add("ppos=" + itoa(pos))
	case "parsenolazy":
		// NewParserObj + noLazy is not reachable from outside; LoadAll on the parsed node and
		// Interface() are the public routes into the eager Go-recursive parser
		p := ast.NewParserObj(s)
		n, pe := p.Parse()
		if pe != 0 {
			r.check(p.ExportError(pe))
		} else {
			r.check(n.LoadAll())
			_, e := n.Interface()
			r.check(e)
		}
	case "raw_check", "raw_load", "raw_loadall", "raw_iface", "raw_ifacenum", "raw_ifacenode", "raw_marshal", "raw_walk", "raw_conv", "raw_iter",
		"raw_foreach", "raw_sort", "raw_map", "raw_arr", "raw_edit", "raw_unsetpop", "rawcr_walk":
		var n ast.Node
		if api == "rawcr_walk" {
			n = ast.NewRawConcurrentRead(s)
		} else {
			n = ast.NewRaw(s)
		}
		switch api {
		case "raw_check":
			r.check(n.Check())
			_, e := n.Raw()
			r.check(e)
		case "raw_load":
			r.check(n.Load())
			r.nodeUse(&n, 1)
		case "raw_loadall":
			r.check(n.LoadAll())
			r.nodeUse(&n, 2)
		case "raw_iface":
			_, e := n.Interface()
			r.check(e)
		case "raw_ifacenum":
			_, e := n.InterfaceUseNumber()
			r.check(e)
		case "raw_ifacenode":
			_, e := n.InterfaceUseNode()
			r.check(e)
		case "raw_marshal":
			_, e := n.MarshalJSON()
			r.check(e)
			r.check(n.LoadAll())
			_, e = n.MarshalJSON()
			r.check(e)
			_, e = sonic.Marshal(&n)
			r.check(e)
		case "raw_walk", "rawcr_walk":
			r.nodeUse(&n, 3)
			for _, path := range rbPaths {
				c := n.GetByPath(path...)
				r.check(c.Check())
			}
		case "raw_conv":
			r.nodeConv(&n)
			r.nodeConv(n.Index(0))
			r.nodeConv(n.Get("a"))
		case "raw_iter":
			if it, e := n.Values(); e != nil {
				r.check(e)
			} else {
				var v ast.Node
				for k := 0; it.HasNext() && k < 1<<16; k++ {
					if !it.Next(&v) {
						break
					}
					r.check(v.Check())
				}
			}
			if it, e := n.Properties(); e != nil {
				r.check(e)
			} else {
				var v ast.Pair
				for k := 0; it.HasNext() && k < 1<<16; k++ {
					if !it.Next(&v) {
						break
					}
					r.check(v.Value.Check())
				}
			}
		case "raw_foreach":
			cnt := 0
			r.check(n.ForEach(func(path ast.Sequence, node *ast.Node) bool {
				cnt++
				r.check(node.Check())
				_ = path.String()
				return cnt < 1<<16
			}))
		case "raw_sort":
			r.check(n.SortKeys(true))
			_, e := n.MarshalJSON()
			r.check(e)
		case "raw_map":
			_, e := n.Map()
			r.check(e)
			_, e = n.MapUseNumber()
			r.check(e)
			_, e = n.MapUseNode()
			r.check(e)
		case "raw_arr":
			_, e := n.Array()
			r.check(e)
			_, e = n.ArrayUseNumber()
			r.check(e)
			_, e = n.ArrayUseNode()
			r.check(e)
		case "raw_unsetpop":
			// soft-delete the last member, pop, then look the key up again (objects only)
			if n.TypeSafe() == ast.V_OBJECT {
				r.check(n.LoadAll())
				ln, e := n.Len()
				r.check(e)
				if e == nil && ln > 0 {
					if p := n.IndexPair(ln - 1); p != nil {
						key := p.Key
						_, e = n.Unset(key)
						r.check(e)
						r.check(n.Pop())
						r.check(n.Get(key).Check())
						_, e = n.MarshalJSON()
						r.check(e)
					}
				}
			}
		case "raw_edit":
			_, e := n.Set("zz", ast.NewNull())
			r.check(e)
			_, e = n.Unset("a")
			r.check(e)
			_, e = n.SetByIndex(0, ast.NewBool(true))
			r.check(e)
			r.check(n.Add(ast.NewNumber("1")))
			_, e = n.UnsetByIndex(0)
			r.check(e)
			r.check(n.Pop())
			r.check(n.Move(0, 1))
			_, e = n.MarshalJSON()
			r.check(e)
		}
	case "node_unmarshal":
		var n ast.Node
		r.check(n.UnmarshalJSON(doc))
		r.nodeUse(&n, 2)
	case "preorder", "preordernum":
		v := &rbVisitor{}
		r.check(ast.Preorder(s, v, &ast.VisitorOptions{OnlyNumber: api == "preordernum"}))
		r.add("vd=" + itoa(v.maxDepth))
	case "stream1", "stream7", "streamall", "streamstd":
		chunk := len(doc) + 1
		if api == "stream1" {
			chunk = 1
		} else if api == "stream7" {
			chunk = 7
		}
		rd := &rbChunkReader{b: append([]byte(nil), doc...), n: chunk}
		var dec interface {
			Decode(interface{}) error
			InputOffset() int64
			More() bool
		}
		if api == "streamstd" {
			dec = sonic.ConfigStd.NewDecoder(rd).(*decoder.StreamDecoder)
		} else {
			dec = decoder.NewStreamDecoder(rd)
		}
		limit := len(doc) + 8
		if limit > 5000 {
			limit = 5000
		}
		stuck, okc := 0, 0
		status := ""
		for k := 0; k < limit; k++ {
			off := dec.InputOffset()
			var v interface{}
			e := dec.Decode(&v)
			if e != nil {
				if e != io.EOF {
					r.check(e)
				}
				break
			}
			okc++
			if dec.InputOffset() == off {
				stuck++
				if stuck >= 3 {
					status = "noprogress"
					r.add("stuckat=" + strconv.FormatInt(off, 10))
					break
				}
			} else {
				stuck = 0
			}
		}
		r.add("decoded=" + itoa(okc))
		if status != "" {
			return r.line(status)
		}
	case "streambuf":
		// Buffered() after every Decode, successful or not
		dec := decoder.NewStreamDecoder(&rbChunkReader{b: append([]byte(nil), doc...), n: len(doc) + 1})
		for k := 0; k < 8; k++ {
			var v interface{}
			e := dec.Decode(&v)
			b, _ := io.ReadAll(dec.Buffered())
			r.add("buf" + itoa(k) + "=" + itoa(len(b)))
			_ = dec.InputOffset()
			_ = dec.More()
			if e != nil {
				if e != io.EOF {
					r.check(e)
				}
				b, _ = io.ReadAll(dec.Buffered())
				break
			}
		}
	case "skip":
		st, end := decoder.Skip(doc)
		r.add("skst=" + itoa(st))
		r.add("skend=" + itoa(end))
	case "dec_opts:0", "dec_opts:1", "dec_opts:2", "dec_opts:3", "dec_opts:4", "dec_opts:5", "dec_opts:6", "dec_opts:7":
		for k := int(api[9] - '0'); k >= 0; k = -1 {
			d := decoder.NewDecoder(s)
			if k&1 != 0 {
				d.UseNumber()
			}
			if k&2 != 0 {
				d.ValidateString()
				d.DisallowUnknownFields()
			}
			if k&4 != 0 {
				d.UseInt64()
				d.CopyString()
				d.UseUnicodeErrors()
			}
			var v interface{}
			var b rbBig
			var e error
			if k%2 == 0 {
				e = d.Decode(&v)
			} else {
				e = d.Decode(&b)
			}
			r.check(e)
			if e == nil {
				r.check(d.CheckTrailings())
			}
		}
	case "dec_multi":
		// repeated Decode on one Decoder: must make progress or fail
		d := decoder.NewDecoder(s)
		stuck := 0
		for k := 0; k < 2000; k++ {
			p0 := d.Pos()
			var v interface{}
			e := d.Decode(&v)
			if e != nil {
				r.check(e)
				break
			}
			if d.Pos() == p0 {
				stuck++
				if stuck >= 3 {
					r.add("stuckat=" + itoa(p0))
					return r.line("noprogress")
				}
			}
		}
	default:
		return "sonic=unsupported"
	}
	return r.line("")
}

// ---------------------------------------------------------------- encoder values

type rbList struct {
	V    int     `json:"v"`
	Next *rbList `json:"n"`
}
type rbTree struct {
	Kids []rbTree          `json:"k"`
	M    map[string]rbTree `json:"m"`
	P    *rbTree           `json:"p"`
	I    interface{}       `json:"i"`
}
type rbBadMarshaler struct{ out string }

func (b rbBadMarshaler) MarshalJSON() ([]byte, error) { return []byte(b.out), nil }

type rbErrMarshaler struct{}

func (rbErrMarshaler) MarshalJSON() ([]byte, error) { return nil, errors.New("no") }

type rbErrText struct{}

func (rbErrText) MarshalText() ([]byte, error) { return nil, errors.New("no text") }

func rbValue(kind string, n int) (interface{}, int) {
	switch kind {
	case "cyc_ptr": // ring of n list cells
		if n < 1 {
			n = 1
		}
		head := &rbList{}
		cur := head
		for i := 1; i < n; i++ {
			cur.Next = &rbList{V: i}
			cur = cur.Next
		}
		cur.Next = head
		return head, 0
	case "cyc_map":
		m := map[string]interface{}{}
		cur := m
		for i := 0; i < n; i++ {
			nx := map[string]interface{}{}
			cur["a"] = nx
			cur = nx
		}
		cur["a"] = m
		return m, 0
	case "cyc_slice":
		s := make([]interface{}, 1)
		cur := s
		for i := 0; i < n; i++ {
			nx := make([]interface{}, 1)
			cur[0] = nx
			cur = nx
		}
		cur[0] = s
		return s, 0
	case "cyc_iface":
		var x interface{}
		x = &x
		return x, 0
	case "cyc_tree":
		t := &rbTree{}
		t.P = t
		return t, 0
	case "cyc_treemap":
		t := &rbTree{M: map[string]rbTree{}}
		t.M["a"] = rbTree{P: t}
		return t, 0
	case "cyc_recm":
		m := rbRecM{}
		m["a"] = m
		return m, 0
	case "cyc_recl":
		l := make(rbRecL, 1)
		l[0] = l
		return l, 0
	case "deep_ptr":
		var head *rbList
		for i := 0; i < n; i++ {
			head = &rbList{V: i, Next: head}
		}
		return head, 0
	case "deep_slice":
		var v interface{} = 1
		for i := 0; i < n; i++ {
			v = []interface{}{v}
		}
		return v, 0
	case "deep_map":
		var v interface{} = 1
		for i := 0; i < n; i++ {
			v = map[string]interface{}{"a": v}
		}
		return v, 0
	case "deep_mixed":
		var v interface{} = 1
		for i := 0; i < n; i++ {
			switch i % 3 {
			case 0:
				v = []interface{}{v}
			case 1:
				v = map[string]interface{}{"a": v}
			default:
				x := v
				v = &x
			}
		}
		return v, 0
	case "deep_recl":
		var v rbRecL
		for i := 0; i < n; i++ {
			v = rbRecL{v}
		}
		return v, 0
	case "deep_recm":
		var v rbRecM
		for i := 0; i < n; i++ {
			v = rbRecM{"a": v}
		}
		return v, 0
	case "deep_tree":
		var v rbTree
		for i := 0; i < n; i++ {
			switch i % 3 {
			case 0:
				v = rbTree{Kids: []rbTree{v}}
			case 1:
				v = rbTree{M: map[string]rbTree{"a": v}}
			default:
				c := v
				v = rbTree{P: &c}
			}
		}
		return v, 0
	case "deep_node":
		nd := ast.NewNumber("1")
		for i := 0; i < n; i++ {
			if i%2 == 0 {
				nd = ast.NewArray([]ast.Node{nd})
			} else {
				nd = ast.NewObject([]ast.Pair{ast.NewPair("a", nd)})
			}
		}
		return &nd, 5*n + 8 // size of the node's own MarshalJSON output, which the encoder validates (and may echo)
	case "nonenc":
		vals := []interface{}{
			make(chan int), func() {}, complex(1, 2), math.NaN(), math.Inf(1), float32(math.Inf(-1)), unsafe.Pointer(nil),
			[]interface{}{make(chan int)}, map[string]interface{}{"a": func() {}}, struct{ C chan int }{}, struct{ F func() }{},
			map[string]float64{"a": math.NaN()}, []float32{float32(math.NaN())}, map[complex128]int{1: 1}, map[struct{ A int }]int{{1}: 1},
			&struct{ X interface{} }{X: complex64(1)}, map[bool]int{true: 1}, [1]chan int{}, struct {
				A int
				B *chan int
			}{}, map[float64]int{math.NaN(): 1}, json.Number("1e"), json.Number("not a number"), map[string]json.Number{"a": "--1"},
			rbErrMarshaler{}, &rbErrMarshaler{}, map[string]interface{}{"a": rbErrMarshaler{}}, map[rbErrText]int{{}: 1}, rbErrText{},
			rbBadMarshaler{"{"}, rbBadMarshaler{""}, rbBadMarshaler{"[1,]"}, rbBadMarshaler{"\"\x00\""}, rbBadMarshaler{"1 2"}, []interface{}{rbBadMarshaler{"nul"}},
			json.RawMessage("{"), json.RawMessage(""), []json.RawMessage{json.RawMessage("[")}, (*rbErrMarshaler)(nil), error(nil),
			ast.NewRaw("{"), ast.NewRaw(""), ast.NewAny(make(chan int)),
		}
		v := vals[((n%len(vals))+len(vals))%len(vals)]
		return v, 0
	case "badmar_big": // marshaler returning n bytes of invalid JSON
		return rbBadMarshaler{"[" + strings.Repeat("1,", n) + "x"}, 2*n + 2
	case "big_str":
		return strings.Repeat("a\"\\\x00\xffé<", n/8+1), 0
	case "big_bytes":
		return bytes.Repeat([]byte{0xff}, n), 0
	case "big_slice":
		s := make([]int, n)
		return s, 0
	case "keys_prefix": // n map keys sharing a long common prefix (radix/heap-sort fallbacks of the key sorter)
		m := map[string]int{}
		for i := 0; i < n; i++ {
			suf := strings.Repeat(string(rune('a'+i%7)), i%5) + itoa(i*7919%1000)
			m["commonprefix-"+strings.Repeat("p", 3+i%3*4)+suf] = i
		}
		return m, 0
	case "big_map":
		m := map[string]int{}
		for i := 0; i < n; i++ {
			m["k"+itoa(i)] = i
		}
		return m, 0
	}
	panic("unknown value kind " + kind)
}

var rbMarKinds = []string{"cyc_ptr", "cyc_map", "cyc_slice", "cyc_iface", "cyc_tree", "cyc_treemap", "cyc_recm", "cyc_recl", "deep_ptr", "deep_slice", "deep_map",
	"deep_mixed", "deep_recl", "deep_recm", "deep_tree", "deep_node", "nonenc", "badmar_big", "big_str", "big_bytes", "big_slice", "big_map", "keys_prefix"}
var rbMarCfgs = []string{"def", "std", "fast", "indent", "enc_sort", "stream", "enc_all", "tostring"}

func rbMarshal(kind string, n int, cfg string) string {
	v, inl := rbValue(kind, n)
	r := newRec(inl)
	var out []byte
	var err error
	switch cfg {
	case "def", "std", "fast":
		out, err = rbCfg(cfg).Marshal(v)
	case "tostring":
		var s string
		s, err = sonic.MarshalString(v)
		out = []byte(s)
	case "indent":
		out, err = sonic.ConfigStd.MarshalIndent(v, "", "  ")
	case "enc_sort":
		out, err = encoder.Encode(v, encoder.SortMapKeys|encoder.EscapeHTML|encoder.ValidateString)
	case "enc_all":
		out, err = encoder.Encode(v, encoder.SortMapKeys|encoder.EscapeHTML|encoder.CompactMarshaler|encoder.NoQuoteTextMarshaler|encoder.NoNullSliceOrMap|encoder.ValidateString|encoder.NoValidateJSONMarshaler|encoder.NoEncoderNewline)
	case "stream":
		var w bytes.Buffer
		e := encoder.NewStreamEncoder(&w)
		err = e.Encode(v)
		if err == nil {
			err = e.Encode(v)
		}
		out = w.Bytes()
	default:
		panic("unknown marshal cfg " + cfg)
	}
	r.check(err)
	r.add("outlen=" + itoa(len(out)))
	return r.line("")
}

// ---------------------------------------------------------------- hand-made error values

// rbSrc: a source whose windows identify their offset (period 89 > 2*32+16).
func rbSrc(size int) string {
	b := make([]byte, size)
	for i := range b {
		b[i] = byte(33 + i%89)
	}
	return string(b)
}

func rbFmtErr(kind string, size, pos int) string {
	src := rbSrc(size)
	var err error
	switch kind {
	case "dec":
		err = decoder.SyntaxError{Pos: pos, Src: src, Msg: "m"}
	case "mis":
		err = &decoder.MismatchTypeError{Pos: pos, Src: src, Type: reflect.TypeOf(0)}
	case "ast":
		err = ast.SyntaxError{Pos: pos, Src: src, Msg: "m"}
	default:
		return "sonic=unsupported"
	}
	msg, pan := safeCall(err.Error)
	desc, pan2 := safeCall(err.(interface{ Description() string }).Description)
	if pan != "" || pan2 != "" {
		return "sonic=PANIC\tpanic=" + pan + "|" + pan2
	}
	if size == 0 {
		return "sonic=nosrc\terrlen=" + itoa(len(msg))
	}
	b, ok := excerptFields(desc, src, pos)
	if !ok {
		return "sonic=ok\tbparse=fail\terrlen=" + itoa(len(msg))
	}
	return "sonic=ok\t" + b + "\terrlen=" + itoa(len(msg))
}

// ---------------------------------------------------------------- big scalars

func rbBigDoc(kind string, n int) []byte {
	switch kind {
	case "str":
		return []byte(`"` + strings.Repeat("a", n) + `"`)
	case "str_open":
		return []byte(`"` + strings.Repeat("a", n))
	case "str_esc":
		return []byte(`"` + strings.Repeat(`é\n`, n/8) + `"`)
	case "str_badesc":
		return []byte(`"` + strings.Repeat("a", n) + `\q"`)
	case "str_utf8":
		return []byte(`"` + strings.Repeat("\xff", n) + `"`)
	case "digits":
		return []byte(strings.Repeat("9", n))
	case "frac":
		return []byte("0." + strings.Repeat("0", n) + "1")
	case "exp":
		return []byte("1e" + strings.Repeat("9", n))
	case "minus":
		return []byte(strings.Repeat("-", n))
	case "blanks":
		return []byte(strings.Repeat(" ", n) + "1")
	case "blanks_only":
		return []byte(strings.Repeat("\n", n))
	case "key":
		return []byte(`{"` + strings.Repeat("k", n) + `":1}`)
	case "wide_arr":
		return []byte("[" + strings.Repeat("1,", n/2) + "1]")
	case "wide_arr_open":
		return []byte("[" + strings.Repeat("1,", n/2))
	case "wide_obj":
		var sb strings.Builder
		sb.WriteByte('{')
		for i := 0; i < n/8; i++ {
			if i > 0 {
				sb.WriteByte(',')
			}
			sb.WriteString(`"k` + itoa(i) + `":0`)
		}
		sb.WriteByte('}')
		return []byte(sb.String())
	case "wide_obj_dup":
		return []byte("{" + strings.Repeat(`"a":1,`, n/6) + `"a":2}`)
	case "colons":
		return []byte(strings.Repeat(":", n))
	case "commas":
		return []byte("[" + strings.Repeat(",", n))
	case "closers":
		return []byte(strings.Repeat("]", n))
	case "nul":
		return make([]byte, n)
	case "b64":
		return []byte(`"` + strings.Repeat("QUJD", n/4) + `="`)
	}
	panic("unknown big kind " + kind)
}

var rbBigKinds = []string{"str", "str_open", "str_esc", "str_badesc", "str_utf8", "digits", "frac", "exp", "minus", "blanks", "blanks_only", "key",
	"wide_arr", "wide_arr_open", "wide_obj", "wide_obj_dup", "colons", "commas", "closers", "nul", "b64"}

func rbDeepDoc(open []byte, depth int, core, cl []byte) []byte {
	b := make([]byte, 0, depth*(len(open)+len(cl))+len(core))
	for i := 0; i < depth; i++ {
		b = append(b, open...)
	}
	b = append(b, core...)
	for i := 0; i < depth; i++ {
		b = append(b, cl...)
	}
	return b
}

// ---------------------------------------------------------------- destination / source TYPES

type rbSelfPtr *rbSelfPtr
type rbMutA *rbMutB
type rbMutB *rbMutA
type rbSelfHolder struct {
	A int        `json:"a"`
	P rbSelfPtr  `json:"p"`
	Q *rbSelfPtr `json:"q"`
}

// rbType builds a type nested n levels (reflect), or one of the self-referential pointer types.
func rbType(kind string, n int) reflect.Type {
	switch kind {
	case "selfptr":
		return reflect.TypeOf(rbSelfPtr(nil))
	case "mutptr":
		return reflect.TypeOf(rbMutA(nil))
	case "selfholder":
		return reflect.TypeOf(rbSelfHolder{})
	case "selfslice":
		return reflect.TypeOf([]rbSelfPtr(nil))
	case "selfmap":
		return reflect.TypeOf(map[string]rbSelfPtr(nil))
	}
	t := reflect.TypeOf(0)
	for i := 0; i < n; i++ {
		switch kind {
		case "arr":
			t = reflect.ArrayOf(1, t)
		case "slice":
			t = reflect.SliceOf(t)
		case "ptr":
			t = reflect.PtrTo(t)
		case "map":
			t = reflect.MapOf(reflect.TypeOf(""), t)
		case "struct":
			t = reflect.StructOf([]reflect.StructField{{Name: "A", Type: t, Tag: `json:"a"`}})
		case "ptrstruct":
			t = reflect.PtrTo(reflect.StructOf([]reflect.StructField{{Name: "A", Type: t, Tag: `json:"a"`}}))
		case "arrptr":
			t = reflect.PtrTo(reflect.ArrayOf(1, t))
		default:
			panic("unknown type kind " + kind)
		}
	}
	return t
}

var rbTypeKinds = []string{"arr", "slice", "ptr", "map", "struct", "ptrstruct", "arrptr"}
var rbSelfKinds = []string{"selfptr", "mutptr", "selfholder", "selfslice", "selfmap"}

func rbTypeOp(op, kind string, n int) string {
	t := rbType(kind, n)
	docs := map[string]string{"unmnull": "null", "unm1": "1", "unmobj": `{"a":1,"p":null,"q":1}`}
	r := newRec(len(docs[op]))
	// error texts name the type: its printed length is part of what bounds the message
	r.add("tlen=" + itoa(len(t.String())))
	switch op {
	case "mar":
		out, err := sonic.Marshal(reflect.New(t).Interface())
		r.check(err)
		r.add("outlen=" + itoa(len(out)))
	case "marstd":
		out, err := sonic.ConfigStd.Marshal(reflect.New(t).Elem().Interface())
		r.check(err)
		r.add("outlen=" + itoa(len(out)))
	case "unmnull":
		r.check(sonic.Unmarshal([]byte(docs[op]), reflect.New(t).Interface()))
	case "unm1":
		r.check(sonic.Unmarshal([]byte(docs[op]), reflect.New(t).Interface()))
	case "unmobj":
		r.check(sonic.ConfigStd.Unmarshal([]byte(docs[op]), reflect.New(t).Interface()))
	case "pre":
		r.check(sonic.Pretouch(t))
	case "predec":
		r.check(decoder.Pretouch(t))
	case "preenc":
		r.check(encoder.Pretouch(t))
	default:
		return "sonic=unsupported"
	}
	return r.line("")
}

var rbTypeOps = []string{"mar", "marstd", "unmnull", "unm1", "unmobj", "pre", "predec", "preenc"}

func init() {
	registerOp("rtype", func(a []string) string {
		n, _ := strconv.Atoi(a[2])
		self := false
		for _, k := range rbSelfKinds {
			self = self || k == a[1]
		}
		if self && os.Getenv("VH_RTYPE_CHILD") == "" {
			// a compile that never ends cannot be stopped in-process: run the case in a child worker and kill it
			// after rbSelfLimit (a compile takes milliseconds)
			cmd := exec.Command(os.Args[0], "run")
			cmd.Env = append(os.Environ(), "VH_RTYPE_CHILD=1")
			cmd.Stdin = strings.NewReader("rtype\t" + strings.Join(a, "\t") + "\n")
			var out bytes.Buffer
			cmd.Stdout = &out
			if err := cmd.Start(); err != nil {
				return "sonic=unsupported\twhy=cannot start child"
			}
			done := make(chan error, 1)
			go func() { done <- cmd.Wait() }()
			select {
			case err := <-done:
				line := strings.TrimRight(out.String(), "\r\n")
				if err != nil || !strings.HasPrefix(line, "sonic=") {
					return "sonic=CRASH\tcrash=child worker died"
				}
				return line
			case <-time.After(rbSelfLimit):
				cmd.Process.Kill()
				<-done
				return "sonic=HANG\tlimit=" + rbSelfLimit.String()
			}
		}
		return robustGuarded(rbLimit, func() string { return rbTypeOp(a[0], a[1], n) })
	})
	registerOp("crash", func(a []string) string {
		doc := unhexArg(a[1])
		return robustGuarded(rbLimit, func() string { return rbRun(a[0], doc) })
	})
	registerOp("deep", func(a []string) string {
		depth, _ := strconv.Atoi(a[2])
		doc := rbDeepDoc(unhexArg(a[1]), depth, unhexArg(a[3]), unhexArg(a[4]))
		return robustGuarded(10*rbLimit, func() string { return rbRun(a[0], doc) })
	})
	registerOp("big", func(a []string) string {
		n, _ := strconv.Atoi(a[2])
		doc := rbBigDoc(a[1], n)
		return robustGuarded(5*rbLimit, func() string { return rbRun(a[0], doc) })
	})
	registerOp("rmar", func(a []string) string {
		n, _ := strconv.Atoi(a[1])
		return robustGuarded(10*rbLimit, func() string { return rbMarshal(a[0], n, a[2]) })
	})
	registerOp("fmterr", func(a []string) string {
		size, _ := strconv.Atoi(a[1])
		pos, _ := strconv.Atoi(a[2])
		return rbFmtErr(a[0], size, pos)
	})
}
