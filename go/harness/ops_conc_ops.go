package main

// C09, group `ops`: "the result of an operation on a type does not depend on which OTHER operations ran on the
// same type before".  Struct types with tag options (,string / omitempty / renamed) over named basic kinds that
// carry value- and pointer-receiver (Text)Marshalers / (Text)Unmarshalers; the operation set per type is
//
//	<T>.val  Marshal(v)        <T>.ptr  Marshal(&v)       <T>.iface Marshal(struct{I interface{}}{v})
//	<T>.slice Marshal([]T{v})  <T>.map  Marshal(map[string]T{"k": v})   <T>.pmap Marshal(map[string]*T)
//	<T>.u    Unmarshal(doc, *T)  <T>.us  Unmarshal(doc, *[]T)
//
// and Pretouch (type sets ops<T>, ops).  phist runs every operation alone in a fresh process and after other
// operations of the same type (shared field metadata: internal/resolver fieldCache, caching.FieldMap, optcaching).

import (
	"fmt"
	"reflect"
	"strconv"
	"strings"
)

// pointer-receiver json.Marshaler on an integer kind
type oNum int64

func (n *oNum) MarshalJSON() ([]byte, error) { return []byte(`"via-ptr-MarshalJSON"`), nil }

// pointer-receiver encoding.TextMarshaler on a string kind
type oTxt string

func (t *oTxt) MarshalText() ([]byte, error) { return []byte("via-ptr-MarshalText"), nil }

// value-receiver json.Marshaler on a float kind
type oVal float64

func (v oVal) MarshalJSON() ([]byte, error) {
	return []byte(strconv.FormatFloat(float64(v)*2, 'f', -1, 64)), nil
}

// pointer-receiver json.Unmarshaler on an integer kind
type oUnm int

func (u *oUnm) UnmarshalJSON(b []byte) error { *u = oUnm(1000 + len(b)); return nil }

// pointer-receiver TextUnmarshaler + value-receiver TextMarshaler on a bool kind
type oFlag bool

func (f *oFlag) UnmarshalText(b []byte) error { *f = len(b)%2 == 0; return nil }
func (f oFlag) MarshalText() ([]byte, error) {
	if f {
		return []byte("yes"), nil
	}
	return []byte("no"), nil
}

type oS1 struct {
	N oNum `json:"n,string"`
}
type oS2 struct {
	T oTxt   `json:"t,string"`
	O int    `json:"o,omitempty"`
	R string `json:"renamed"`
	K oTxt   `json:"k,omitempty"`
}
type oS3 struct {
	V oVal  `json:"v,string"`
	W *oVal `json:"w,string"`
}
type oS4 struct {
	U oUnm  `json:"u,string"`
	P *oNum `json:"p,string"`
	Q int64 `json:"q,string"`
}
type oS5 struct {
	X oFlag `json:"x"`
	Y oFlag `json:"y,omitempty"`
	Z int   `json:"z,string"`
}
type oS6 struct {
	A int     `json:"a,string"`
	B float64 `json:"b,string"`
	C bool    `json:"c,string"`
	D string  `json:"d,string"`
	E *int    `json:"e,string"`
	F uint8   `json:"f,string,omitempty"`
}
type oS7 struct { // the `,string` leaf below an embedded struct and a nested struct
	oS1
	In struct {
		M oNum `json:"m,string"`
		Z int  `json:"z,string"`
	} `json:"in"`
}

// oDump prints a decoded value without going through any Marshaler
func oDump(v reflect.Value) string {
	switch v.Kind() {
	case reflect.Ptr:
		if v.IsNil() {
			return "nil"
		}
		return "&" + oDump(v.Elem())
	case reflect.Struct:
		var sb strings.Builder
		sb.WriteByte('{')
		for i := 0; i < v.NumField(); i++ {
			if i > 0 {
				sb.WriteByte(' ')
			}
			sb.WriteString(v.Type().Field(i).Name + ":" + oDump(v.Field(i)))
		}
		sb.WriteByte('}')
		return sb.String()
	case reflect.Slice:
		var ss []string
		for i := 0; i < v.Len(); i++ {
			ss = append(ss, oDump(v.Index(i)))
		}
		return "[" + strings.Join(ss, " ") + "]"
	case reflect.Int, reflect.Int64:
		return strconv.FormatInt(v.Int(), 10)
	case reflect.Uint8:
		return strconv.FormatUint(v.Uint(), 10)
	case reflect.Float64:
		return strconv.FormatFloat(v.Float(), 'g', -1, 64)
	case reflect.Bool:
		return strconv.FormatBool(v.Bool())
	case reflect.String:
		return strconv.Quote(v.String())
	}
	return fmt.Sprint(v.Interface())
}

type oHold struct{ I interface{} }

var histExtra []histProbe

func oRegister(name string, mk func() reflect.Value, doc string) {
	t := mk().Type()
	val := func() interface{} { return mk().Interface() }
	ptr := func() interface{} { p := reflect.New(t); p.Elem().Set(mk()); return p.Interface() }
	udump := func(target reflect.Type, d string) histProbe {
		return histProbe{"", func(std bool) string {
			p := reflect.New(target)
			var err error
			if std {
				err = stdUnmarshal(d, p.Interface())
			} else {
				err = sonicUnmarshal(d, p.Interface())
			}
			return oDump(p.Elem()) + errStr(err)
		}}
	}
	u := udump(t, doc)
	u.name = "ops." + name + ".u"
	us := udump(reflect.SliceOf(t), "["+doc+","+doc+"]")
	us.name = "ops." + name + ".us"
	histExtra = append(histExtra,
		mprobe("ops."+name+".val", val),
		mprobe("ops."+name+".ptr", ptr),
		mprobe("ops."+name+".iface", func() interface{} { return oHold{I: val()} }),
		mprobe("ops."+name+".slice", func() interface{} {
			s := reflect.MakeSlice(reflect.SliceOf(t), 1, 1)
			s.Index(0).Set(mk())
			return s.Interface()
		}),
		mprobe("ops."+name+".map", func() interface{} {
			m := reflect.MakeMap(reflect.MapOf(reflect.TypeOf(""), t))
			m.SetMapIndex(reflect.ValueOf("k"), mk())
			return m.Interface()
		}),
		mprobe("ops."+name+".pmap", func() interface{} {
			m := reflect.MakeMap(reflect.MapOf(reflect.TypeOf(""), reflect.PtrTo(t)))
			p := reflect.New(t)
			p.Elem().Set(mk())
			m.SetMapIndex(reflect.ValueOf("k"), p)
			return m.Interface()
		}),
		u, us)
	histTypeSets["ops"+name] = []reflect.Type{t}
	histTypeSets["ops"+name+"p"] = []reflect.Type{reflect.PtrTo(t), reflect.SliceOf(t)}
	histTypeSets["ops"] = append(histTypeSets["ops"], t)
}

func init() {
	seven, w := 7, oVal(1.5)
	pn := oNum(5)
	oRegister("S1", func() reflect.Value { return reflect.ValueOf(oS1{N: 12}) }, `{"n":"34"}`)
	oRegister("S2", func() reflect.Value { return reflect.ValueOf(oS2{T: "txt", R: "r", K: "k"}) }, `{"t":"\"quoted\"","o":3,"renamed":"x","k":"kk"}`)
	oRegister("S3", func() reflect.Value { return reflect.ValueOf(oS3{V: 2.25, W: &w}) }, `{"v":"4.5","w":"0.5"}`)
	oRegister("S4", func() reflect.Value { return reflect.ValueOf(oS4{U: 3, P: &pn, Q: -9}) }, `{"u":"17","p":"6","q":"-8"}`)
	oRegister("S5", func() reflect.Value { return reflect.ValueOf(oS5{X: true, Z: 4}) }, `{"x":"ab","y":"abc","z":"5"}`)
	oRegister("S6", func() reflect.Value {
		return reflect.ValueOf(oS6{A: -1, B: 2.5, C: true, D: "d\"q", E: &seven})
	}, `{"a":"5","b":"1.25","c":"true","d":"\"s\"","e":"8","f":"9"}`)
	oRegister("S7", func() reflect.Value {
		v := oS7{oS1: oS1{N: 1}}
		v.In.M, v.In.Z = 2, 3
		return reflect.ValueOf(v)
	}, `{"n":"4","in":{"m":"5","z":"6"}}`)
}
