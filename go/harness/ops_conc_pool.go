package main

// C08: pool recycling.  `pool <seed> <goroutines> <iters>`
//
//	phase 0 (alone): the expected result of every call the goroutines will make is computed sequentially
//	phase 1 (alone): a seeded sequence of calls that leave buffers / stacks in the sync.Pools in every
//	                 way the API has: Marshal with the EscapeHTML and ValidateString post-passes actually
//	                 rewriting the output, MarshalIndent, error exits, user-buffer EncodeInto, Unmarshal errors
//	phase 2 (racing): the goroutines repeat their calls (mixed with more post-pass calls) and compare every
//	                 result with what the call returned alone
//
//	answer: sonic=<digest of racing results>  seq=<digest of the results alone>  ref=<digest of encoding/json's>
//	        calls=<n>  bad=<first racing result that differs from the call alone>

import (
	"bytes"
	"encoding/json"
	"errors"
	"fmt"
	"math/rand"
	"strconv"
	"strings"
	"sync"

	"github.com/bytedance/sonic"
	"github.com/bytedance/sonic/encoder"
)

type poolRec struct {
	ID   int               `json:"id"`
	Name string            `json:"name"`
	Tags []string          `json:"tags"`
	Attr map[string]string `json:"attr"`
	Body string            `json:"body"`
	Next *poolRec          `json:"next,omitempty"`
}

// failWriter fails after `after` bytes (0: at once) - a broken connection under a stream encoder
type failWriter struct{ after int }

var errBroken = errors.New("broken writer")

func (w *failWriter) Write(p []byte) (int, error) {
	if len(p) <= w.after {
		w.after -= len(p)
		return len(p), nil
	}
	n := w.after
	w.after = 0
	return n, errBroken
}

type poolCall struct {
	kind int // 0 Marshal(string) 1 Marshal(rec) 2 ConfigStd.Marshal(rec) 3 MarshalIndent(rec) 4 Unmarshal(rec) 5 MarshalString 6 ConfigStd.Marshal(html string)
	// 7 indenting StreamEncoder into a bytes.Buffer  8 encoder.EncodeIndented
	s   string
	rec *poolRec
	doc []byte
}

var (
	poolCfgValidate = sonic.Config{ValidateString: true}.Froze()
	poolCfgHTML     = sonic.Config{EscapeHTML: true}.Froze()
)

func poolDo(c *poolCall, std bool) string {
	switch c.kind {
	case 0:
		if std {
			b, err := json.Marshal(c.s)
			return string(b) + errStr(err)
		}
		b, err := sonic.Marshal(c.s)
		return string(b) + errStr(err)
	case 1:
		if std {
			b, err := json.Marshal(c.rec)
			return string(b) + errStr(err)
		}
		b, err := sonic.Marshal(c.rec)
		return string(b) + errStr(err)
	case 2:
		if std {
			b, err := json.Marshal(c.rec)
			return string(b) + errStr(err)
		}
		b, err := sonic.ConfigStd.Marshal(c.rec)
		return string(b) + errStr(err)
	case 3:
		if std {
			b, err := json.MarshalIndent(c.rec, "", "  ")
			return string(b) + errStr(err)
		}
		b, err := sonic.MarshalIndent(c.rec, "", "  ")
		return string(b) + errStr(err)
	case 4:
		var r poolRec
		var err error
		if std {
			err = json.Unmarshal(c.doc, &r)
		} else {
			err = sonic.Unmarshal(c.doc, &r)
		}
		return stdDump(&r) + errStr(err)
	case 5:
		if std {
			b, err := json.Marshal(c.rec)
			return string(b) + errStr(err)
		}
		s, err := sonic.MarshalString(c.rec)
		return s + errStr(err)
	case 7:
		var w bytes.Buffer
		if std {
			e := json.NewEncoder(&w)
			e.SetEscapeHTML(false)
			e.SetIndent(">", "  ")
			err := e.Encode(c.rec)
			return w.String() + errStr(err)
		}
		e := encoder.NewStreamEncoder(&w)
		e.SetIndent(">", "  ")
		err := e.Encode(c.rec)
		return w.String() + errStr(err)
	case 8:
		if std {
			b, err := json.MarshalIndent(c.rec, "", "\t")
			return string(b) + errStr(err)
		}
		b, err := encoder.EncodeIndented(c.rec, "", "\t", 0)
		return string(b) + errStr(err)
	default:
		if std {
			b, err := json.Marshal(c.s)
			return string(b) + errStr(err)
		}
		b, err := sonic.ConfigStd.Marshal(c.s)
		return string(b) + errStr(err)
	}
}

// poolBrokenIndent: an indenting stream encoder whose writer fails (at once / in the middle)
func poolBrokenIndent(r *rand.Rand) {
	w := &failWriter{after: r.Intn(3) * r.Intn(200)}
	if r.Intn(2) == 0 {
		e := encoder.NewStreamEncoder(w)
		e.SetIndent("", " ")
		e.Encode(map[string][]string{"k": {"a", "b", strings.Repeat("c", r.Intn(300))}})
	} else {
		e := sonic.ConfigDefault.NewEncoder(w)
		e.SetIndent("p", "\t")
		e.Encode([]interface{}{1, "two", map[string]int{"three": 3}})
	}
}

// poolDisturb makes one call that returns buffers to the pools through a less common path.
func poolDisturb(r *rand.Rand) {
	switch r.Intn(10) {
	case 8, 9:
		poolBrokenIndent(r)
	case 0: // ValidateString post-pass rewriting invalid UTF-8, small output
		poolCfgValidate.Marshal("ab\xffcd" + strings.Repeat("x", r.Intn(40)))
	case 1: // the same through ConfigStd (EscapeHTML + ValidateString), both post-passes rewrite
		sonic.ConfigStd.Marshal("<a&b>\xfe\xff" + strings.Repeat("y", r.Intn(200)))
	case 2: // EscapeHTML post-pass
		poolCfgHTML.Marshal(map[string]string{"k": "<script>&</script>" + strings.Repeat("z", r.Intn(100))})
	case 3:
		sonic.MarshalIndent(map[string][]int{"a": {1, 2, 3}}, ">", "\t")
	case 4: // error exit of Marshal
		sonic.Marshal(map[string]interface{}{"c": make(chan int)})
	case 5: // error exit of Unmarshal in the middle of nested containers
		var v interface{}
		sonic.UnmarshalString(`{"a":[1,2,{"b":[`, &v)
	case 6: // caller supplied buffer
		buf := make([]byte, 0, 16)
		encoder.EncodeInto(&buf, []string{"user", "buffer"}, 0)
	default: // ValidateString on an output larger than the pooled buffer
		poolCfgValidate.Marshal(strings.Repeat("\xff", 3000+r.Intn(3000)))
	}
}

func opPool(a []string) string {
	seed, _ := strconv.ParseInt(a[0], 10, 64)
	ng, _ := strconv.Atoi(a[1])
	iters, _ := strconv.Atoi(a[2])
	indentMode := len(a) > 3 && a[3] == "indent"
	r := rand.New(rand.NewSource(seed))
	// distinct, recognisable payloads per goroutine
	calls := make([][]*poolCall, ng)
	for g := range calls {
		letter := string(rune('a' + g%26))
		for k := 0; k < 4; k++ {
			n := 200 + r.Intn(3000)
			if indentMode {
				n = 2000 + r.Intn(30000)
			}
			body := strings.Repeat(letter, n) + strconv.Itoa(g)
			rec := &poolRec{ID: g*10 + k, Name: letter + "-rec", Tags: []string{letter, body[:20]}, Attr: map[string]string{"k": letter}, Body: body}
			if r.Intn(2) == 0 {
				rec.Next = &poolRec{ID: -g, Body: strings.Repeat(strings.ToUpper(letter), 50+r.Intn(500))}
			}
			doc, _ := json.Marshal(rec)
			kind := r.Intn(9)
			if indentMode {
				kind = []int{3, 7, 8}[r.Intn(3)]
			}
			c := &poolCall{kind: kind, s: body, rec: rec, doc: doc}
			if kind == 6 {
				c.s = "<" + body[:100+r.Intn(100)] + "&>"
			}
			calls[g] = append(calls[g], c)
		}
	}
	// phase 0: alone
	alone := make([][]string, ng)
	var seq, ref []string
	for g := range calls {
		for _, c := range calls[g] {
			s := poolDo(c, false)
			alone[g] = append(alone[g], s)
			seq = append(seq, s)
			ref = append(ref, poolDo(c, true))
		}
	}
	// phase 1: disturb the pools, alone
	for i := 0; i < 6+r.Intn(10); i++ {
		poolDisturb(r)
	}
	// phase 2: racing
	var mu sync.Mutex
	bad := ""
	got := make([][]string, ng)
	start := make(chan struct{})
	var wg sync.WaitGroup
	for g := 0; g < ng; g++ {
		got[g] = make([]string, len(calls[g]))
		copy(got[g], alone[g])
		gr := rand.New(rand.NewSource(seed*1000 + int64(g)))
		wg.Add(1)
		go func(g int, gr *rand.Rand) {
			defer wg.Done()
			<-start
			for it := 0; it < iters; it++ {
				if gr.Intn(16) == 0 {
					poolDisturb(gr)
				}
				k := gr.Intn(len(calls[g]))
				s := poolDo(calls[g][k], false)
				if s != alone[g][k] {
					got[g][k] = s
					mu.Lock()
					if bad == "" {
						bad = fmt.Sprintf("goroutine %d iteration %d call kind %d: racing %s alone %s", g, it, calls[g][k].kind, poolDiff(s, alone[g][k]), clip(alone[g][k], 60))
					}
					mu.Unlock()
				}
			}
		}(g, gr)
	}
	// indent mode: meanwhile a connection keeps breaking under an indenting stream encoder
	stop := make(chan struct{})
	var dwg sync.WaitGroup
	if indentMode {
		dwg.Add(1)
		dr := rand.New(rand.NewSource(seed ^ 0x5eed))
		go func() {
			defer dwg.Done()
			<-start
			for {
				select {
				case <-stop:
					return
				default:
					poolBrokenIndent(dr)
				}
			}
		}()
	}
	close(start)
	wg.Wait()
	close(stop)
	dwg.Wait()
	var conc []string
	for g := range got {
		conc = append(conc, got[g]...)
	}
	out := "sonic=" + digestStrings(conc) + "\tseq=" + digestStrings(seq) + "\tref=" + digestStrings(ref) + "\tcalls=" + itoa(ng*iters)
	if bad != "" {
		out += "\tbad=" + clip(bad, 400)
	}
	for i := range seq {
		if seq[i] != ref[i] {
			out += "\tbadref=" + clip(fmt.Sprintf("call %d: alone %s std %s", i, poolDiff(seq[i], ref[i]), clip(ref[i], 60)), 300)
			break
		}
	}
	return out
}

// poolDiff describes where s departs from want
func poolDiff(s, want string) string {
	n := len(s)
	if len(want) < n {
		n = len(want)
	}
	i := 0
	for i < n && s[i] == want[i] {
		i++
	}
	j := i + 40
	if j > len(s) {
		j = len(s)
	}
	return fmt.Sprintf("len %d (want %d), first difference at %d: %q", len(s), len(want), i, bytes.ToValidUTF8([]byte(s[i:j]), []byte("?")))
}

func init() {
	registerOp("pool", opPool)
}
