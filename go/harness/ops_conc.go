package main

// C08 / C09 operations on the public API.
//
//	rcu  <seed> <ntypes> <goroutines>   N goroutines race the first use of never-seen types
//	hist <prelude> <probes> <tags>      the same probes after a prelude, each in a FRESH PROCESS
//	histchild <prelude> <probes>        (internal) body of one fresh process

import (
	"bytes"
	"encoding/hex"
	"encoding/json"
	"fmt"
	"hash/fnv"
	"math/rand"
	"os"
	"os/exec"
	"reflect"
	"sort"
	"strconv"
	"strings"
	"sync"
	"sync/atomic"
	"time"
	"unsafe"

	"github.com/bytedance/sonic"
	"github.com/bytedance/sonic/option"

	pkga "verifharness/pkga"
	pkgb "verifharness/pkgb"
)

// ---------------------------------------------------------------------------------------------
// fresh types

var concUniq uint64 // process-wide: a type built with it has never been seen by any cache

var concLeafTypes = []reflect.Type{
	reflect.TypeOf(int(0)), reflect.TypeOf(int64(0)), reflect.TypeOf(uint8(0)), reflect.TypeOf(""),
	reflect.TypeOf(false), reflect.TypeOf(float64(0)), reflect.TypeOf([]int(nil)), reflect.TypeOf([]string(nil)),
	reflect.TypeOf((*int)(nil)), reflect.TypeOf(map[string]int(nil)), reflect.TypeOf([2]int{}),
	reflect.TypeOf((*interface{})(nil)).Elem(), reflect.TypeOf(uint32(0)), reflect.TypeOf(int16(0)),
}

// freshStruct builds a struct type that no earlier call has produced (unique field names).
func freshStruct(r *rand.Rand, depth int) reflect.Type {
	u := atomic.AddUint64(&concUniq, 1)
	n := 1 + r.Intn(6)
	fs := make([]reflect.StructField, 0, n)
	for i := 0; i < n; i++ {
		var ft reflect.Type
		switch k := r.Intn(20); {
		case k < 14 || depth <= 0:
			ft = concLeafTypes[r.Intn(len(concLeafTypes))]
		case k < 16:
			ft = freshStruct(r, depth-1)
		case k < 17:
			ft = reflect.PtrTo(freshStruct(r, depth-1))
		case k < 18:
			ft = reflect.SliceOf(freshStruct(r, depth-1))
		default:
			ft = reflect.MapOf(reflect.TypeOf(""), freshStruct(r, depth-1))
		}
		name := fmt.Sprintf("F%d_%d", u, i)
		tag := ""
		switch r.Intn(5) {
		case 0:
			tag = fmt.Sprintf(`json:"k%d"`, i)
		case 1:
			tag = fmt.Sprintf(`json:"o%d,omitempty"`, i)
		}
		fs = append(fs, reflect.StructField{Name: name, Type: ft, Tag: reflect.StructTag(tag)})
	}
	return reflect.StructOf(fs)
}

const concAlpha = "abcdefghijklmnopqrstuvwxyz ABCXYZ0123456789_-.,:"

func concString(r *rand.Rand) string {
	n := r.Intn(12)
	b := make([]byte, n)
	for i := range b {
		b[i] = concAlpha[r.Intn(len(concAlpha))]
	}
	return string(b)
}

// fillValue sets v to a deterministic pseudo-random value inside the domain where sonic's default
// configuration and encoding/json print the same text (maps ≤ 1 entry, no HTML characters).
func fillValue(r *rand.Rand, v reflect.Value, depth int) {
	switch v.Kind() {
	case reflect.Int, reflect.Int64, reflect.Int16:
		x := int64(r.Intn(2001) - 1000)
		if v.Kind() == reflect.Int64 && r.Intn(4) == 0 {
			x = r.Int63() - (1 << 62)
		}
		v.SetInt(x)
	case reflect.Uint8, reflect.Uint32:
		v.SetUint(uint64(r.Intn(256)))
	case reflect.String:
		v.SetString(concString(r))
	case reflect.Bool:
		v.SetBool(r.Intn(2) == 0)
	case reflect.Float64:
		v.SetFloat(float64(r.Intn(4001)-2000) / 8)
	case reflect.Slice:
		if r.Intn(5) == 0 {
			return // nil
		}
		n := r.Intn(4)
		if depth <= 0 {
			n = 0
		}
		s := reflect.MakeSlice(v.Type(), n, n)
		for i := 0; i < n; i++ {
			fillValue(r, s.Index(i), depth-1)
		}
		v.Set(s)
	case reflect.Array:
		for i := 0; i < v.Len(); i++ {
			fillValue(r, v.Index(i), depth-1)
		}
	case reflect.Ptr:
		if r.Intn(3) == 0 || depth <= 0 {
			return
		}
		p := reflect.New(v.Type().Elem())
		fillValue(r, p.Elem(), depth-1)
		v.Set(p)
	case reflect.Map:
		if r.Intn(4) == 0 {
			return
		}
		m := reflect.MakeMap(v.Type())
		if r.Intn(3) != 0 && depth > 0 {
			e := reflect.New(v.Type().Elem()).Elem()
			fillValue(r, e, depth-1)
			m.SetMapIndex(reflect.ValueOf("k"+concString(r)), e)
		}
		v.Set(m)
	case reflect.Interface:
		switch r.Intn(4) {
		case 0:
			v.Set(reflect.ValueOf(concString(r)))
		case 1:
			v.Set(reflect.ValueOf(float64(r.Intn(1000))))
		case 2:
			v.Set(reflect.ValueOf(r.Intn(2) == 0))
		}
	case reflect.Struct:
		for i := 0; i < v.NumField(); i++ {
			fillValue(r, v.Field(i), depth-1)
		}
	}
}

func errStr(err error) string {
	if err == nil {
		return ""
	}
	return "err"
}

func stdDump(v interface{}) string {
	b, err := json.Marshal(v)
	if err != nil {
		return "dumperr"
	}
	return string(b)
}

// ---------------------------------------------------------------------------------------------
// rcu: concurrent rounds

type rcuType struct {
	t      reflect.Type
	val    interface{} // a value of type t
	ptr    interface{} // pointer to an addressable copy
	doc    []byte      // encoding/json text of val
	path   string      // name of the first JSON member, "" when the object is empty
	folded []byte      // doc with the letters of every object key in random upper/lower case
}

// concFoldKeys flips the case of letters inside object keys (strings followed by ':'); same length, ASCII only
func concFoldKeys(r *rand.Rand, doc []byte) []byte {
	out := append([]byte(nil), doc...)
	for i := 0; i < len(out); i++ {
		if out[i] != '"' {
			continue
		}
		j := i + 1
		for j < len(out) && out[j] != '"' {
			if out[j] == '\\' {
				j++
			}
			j++
		}
		if j+1 < len(out) && out[j+1] == ':' {
			for k := i + 1; k < j; k++ {
				c := out[k]
				if r.Intn(2) == 0 {
					if c >= 'a' && c <= 'z' {
						out[k] = c - 32
					} else if c >= 'A' && c <= 'Z' {
						out[k] = c + 32
					}
				}
			}
		}
		i = j
	}
	return out
}

type rcuCall struct {
	kind int // 0 Marshal(val) 1 Marshal(ptr) 2 Unmarshal 3 UnmarshalString 4 Pretouch 5 Get 6 Valid 7 ConfigStd.Marshal 8 MarshalString
	ty   int
}

const rcuKinds = 11

func rcuFirstKey(doc []byte) string {
	var m map[string]json.RawMessage
	if json.Unmarshal(doc, &m) != nil || len(m) == 0 {
		return ""
	}
	// the first member in document order
	dec := json.NewDecoder(bytes.NewReader(doc))
	dec.Token()
	if tok, err := dec.Token(); err == nil {
		if s, ok := tok.(string); ok {
			return s
		}
	}
	return ""
}

func rcuDoSonic(c rcuCall, ty *rcuType) string {
	switch c.kind {
	case 0:
		b, err := sonic.Marshal(ty.val)
		return "m:" + string(b) + errStr(err)
	case 1:
		b, err := sonic.Marshal(ty.ptr)
		return "m:" + string(b) + errStr(err)
	case 2:
		p := reflect.New(ty.t)
		err := sonic.Unmarshal(ty.doc, p.Interface())
		return "u:" + stdDump(p.Interface()) + errStr(err)
	case 3:
		p := reflect.New(ty.t)
		err := sonic.UnmarshalString(string(ty.doc), p.Interface())
		return "u:" + stdDump(p.Interface()) + errStr(err)
	case 4:
		err := sonic.Pretouch(ty.t)
		return "p:" + errStr(err)
	case 5:
		if ty.path == "" {
			return "g:-"
		}
		n, err := sonic.Get(ty.doc, ty.path)
		if err != nil {
			return "g:err"
		}
		raw, err := n.Raw()
		return "g:" + raw + errStr(err)
	case 6:
		return "v:" + b01(sonic.Valid(ty.doc))
	case 7:
		b, err := sonic.ConfigStd.Marshal(ty.val)
		return "m:" + string(b) + errStr(err)
	case 9, 10:
		p := reflect.New(ty.t)
		err := sonic.Unmarshal(ty.folded, p.Interface())
		return "u:" + stdDump(p.Interface()) + errStr(err)
	default:
		s, err := sonic.MarshalString(ty.val)
		return "m:" + s + errStr(err)
	}
}

func rcuDoStd(c rcuCall, ty *rcuType) string {
	switch c.kind {
	case 0, 7, 8:
		b, err := json.Marshal(ty.val)
		return "m:" + string(b) + errStr(err)
	case 1:
		b, err := json.Marshal(ty.ptr)
		return "m:" + string(b) + errStr(err)
	case 2, 3:
		p := reflect.New(ty.t)
		err := json.Unmarshal(ty.doc, p.Interface())
		return "u:" + stdDump(p.Interface()) + errStr(err)
	case 9, 10:
		p := reflect.New(ty.t)
		err := json.Unmarshal(ty.folded, p.Interface())
		return "u:" + stdDump(p.Interface()) + errStr(err)
	case 4:
		return "p:"
	case 5:
		if ty.path == "" {
			return "g:-"
		}
		var m map[string]json.RawMessage
		if err := json.Unmarshal(ty.doc, &m); err != nil {
			return "g:err"
		}
		return "g:" + string(m[ty.path])
	default:
		return "v:" + b01(json.Valid(ty.doc))
	}
}

func digestStrings(ss []string) string {
	h := fnv.New64a()
	for _, s := range ss {
		h.Write([]byte(s))
		h.Write([]byte{0})
	}
	return strconv.FormatUint(h.Sum64(), 16)
}

func clip(s string, n int) string {
	s = strings.Map(func(r rune) rune {
		if r == '\t' || r == '\n' || r == '\r' {
			return ' '
		}
		return r
	}, s)
	if len(s) > n {
		return s[:n] + "..."
	}
	return s
}

// rcu <seed> <ntypes> <goroutines>
func opRCU(a []string) string {
	seed, _ := strconv.ParseInt(a[0], 10, 64)
	ntypes, _ := strconv.Atoi(a[1])
	ng, _ := strconv.Atoi(a[2])
	r := rand.New(rand.NewSource(seed))
	types := make([]*rcuType, ntypes)
	for i := range types {
		t := freshStruct(r, 2)
		v := reflect.New(t)
		fillValue(r, v.Elem(), 4)
		doc, err := json.Marshal(v.Interface())
		if err != nil {
			return "sonic=unsupported"
		}
		types[i] = &rcuType{t: t, val: v.Elem().Interface(), ptr: v.Interface(), doc: doc, path: rcuFirstKey(doc), folded: concFoldKeys(r, doc)}
	}
	// every goroutine gets every type once, in its own order, with its own call kind per type; the
	// first goroutines start on the same type so that first-use compilation is raced
	plans := make([][]rcuCall, ng)
	for g := range plans {
		perm := r.Perm(ntypes)
		if g%2 == 0 {
			perm = append([]int(nil), perm...)
			sort.Ints(perm)
		}
		for _, ti := range perm {
			plans[g] = append(plans[g], rcuCall{kind: r.Intn(rcuKinds), ty: ti})
		}
	}
	results := make([][]string, ng)
	start := make(chan struct{})
	var wg sync.WaitGroup
	for g := 0; g < ng; g++ {
		results[g] = make([]string, len(plans[g]))
		wg.Add(1)
		go func(g int) {
			defer wg.Done()
			<-start
			for i, c := range plans[g] {
				results[g][i] = rcuDoSonic(c, types[c.ty])
			}
		}(g)
	}
	close(start)
	wg.Wait()
	var conc, seq, ref []string
	bad, badref := "", ""
	ncalls := 0
	for g := 0; g < ng; g++ {
		for i, c := range plans[g] {
			s := rcuDoSonic(c, types[c.ty]) // the same call, alone, afterwards
			d := rcuDoStd(c, types[c.ty])
			conc = append(conc, results[g][i])
			seq = append(seq, s)
			ref = append(ref, d)
			ncalls++
			if results[g][i] != s && bad == "" {
				bad = fmt.Sprintf("g%d call%d kind%d type%d: concurrent %s alone %s", g, i, c.kind, c.ty, clip(results[g][i], 200), clip(s, 200))
			}
			if results[g][i] != d && badref == "" {
				badref = fmt.Sprintf("g%d call%d kind%d type%d: concurrent %s std %s", g, i, c.kind, c.ty, clip(results[g][i], 200), clip(d, 200))
			}
		}
	}
	out := "sonic=" + digestStrings(conc) + "\tseq=" + digestStrings(seq) + "\tref=" + digestStrings(ref) + "\tcalls=" + itoa(ncalls)
	if bad != "" {
		out += "\tbad=" + bad
	}
	if badref != "" {
		out += "\tbadref=" + badref
	}
	return out
}

// ---------------------------------------------------------------------------------------------
// hist: library types

// pointer-receiver json.Marshaler below several struct layers (DESIGN §8 #8 / #14)
type hP struct{ V int }

func (p *hP) MarshalJSON() ([]byte, error) { return []byte(`"ptr-method"`), nil }

type hT struct{ F hP }
type hL4 struct{ D hT }
type hL3 struct{ C hL4 }
type hL2 struct{ B hL3 }
type hL1 struct{ A hL2 }
type hK1 struct{ B hL4 }
type hK0 struct{ A hK1 }

// pointer-receiver encoding.TextMarshaler
type hQ struct{ V int }

func (q *hQ) MarshalText() ([]byte, error) { return []byte("ptr-text"), nil }

type hU struct{ F hQ }
type hM4 struct{ D hU }
type hM3 struct{ C hM4 }
type hM2 struct{ B hM3 }
type hM1 struct{ A hM2 }
type hN1 struct{ B hM4 }
type hN0 struct{ A hN1 }

type hHold struct{ I interface{} }

// value-receiver marshaler: no addressability dependence
type hVM struct{ V int }

func (v hVM) MarshalJSON() ([]byte, error) { return []byte(`{"vm":` + strconv.Itoa(v.V) + `}`), nil }

type hVW struct {
	A hVM
	P *hVM
	S []hVM
}

// recursive types
type hList struct {
	V    int
	Next *hList
}
type hTree struct {
	K    string
	L, R *hTree
	Kids []hTree
	M    map[string]*hTree
}
type hMutA struct {
	N int
	B *hMutB
}
type hMutB struct {
	S string
	A *hMutA
}

// nesting deeper than every inline depth used by the preludes
type hD6 struct {
	Z int
	S string
}
type hD5 struct {
	E hD6
	Y []hD6
}
type hD4 struct {
	D hD5
	X *hD5
}
type hD3 struct {
	C hD4
	W map[string]hD4
}
type hD2 struct {
	B hD3
	V int
}
type hD1 struct {
	A hD2
	U string
}

type hPlain struct {
	I  int
	S  string
	F  float64
	B  bool
	P  *int
	L  []string
	M  map[string]int
	A  [3]uint8
	E  interface{}
	O  int    `json:"o,omitempty"`
	N  string `json:"name"`
	I8 int8
	U  uint64
}

// struct holding both same-named types below the inline depth
type hSameOuter struct {
	P struct {
		Q struct {
			A pkga.T
			B pkgb.T
		}
	}
}

func hListVal(n int) *hList {
	var l *hList
	for i := n; i > 0; i-- {
		l = &hList{V: i, Next: l}
	}
	return l
}

func hTreeVal() hTree {
	return hTree{K: "root", L: &hTree{K: "l", Kids: []hTree{{K: "lk"}}}, R: &hTree{K: "r", M: map[string]*hTree{"m": {K: "rm"}}},
		Kids: []hTree{{K: "k1"}, {K: "k2", L: &hTree{K: "k2l"}}}}
}

func hD1Val() hD1 {
	d6 := hD6{Z: 6, S: "six"}
	d5 := hD5{E: d6, Y: []hD6{d6, {Z: 7}}}
	d4 := hD4{D: d5, X: &d5}
	return hD1{A: hD2{B: hD3{C: d4, W: map[string]hD4{"w": d4}}, V: 2}, U: "one"}
}

func hPlainVal() hPlain {
	p := 5
	return hPlain{I: -3, S: "plain text", F: 2.5, B: true, P: &p, L: []string{"a", "b"}, M: map[string]int{"one": 1},
		A: [3]uint8{1, 2, 3}, E: "iface", N: "n", I8: -8, U: 1 << 63}
}

// two function-local types that both print as `main.hRec` (same layout, different JSON keys)
func hLocA() (reflect.Type, func() interface{}, func() interface{}) {
	type hRec struct {
		ID   int    `json:"id"`
		Name string `json:"name"`
	}
	return reflect.TypeOf(hRec{}), func() interface{} { return hRec{ID: 1, Name: "loc-a"} }, func() interface{} { return new(hRec) }
}

func hLocB() (reflect.Type, func() interface{}, func() interface{}) {
	type hRec struct {
		Key   int    `json:"key"`
		Label string `json:"label"`
	}
	return reflect.TypeOf(hRec{}), func() interface{} { return hRec{Key: 2, Label: "loc-b"} }, func() interface{} { return new(hRec) }
}

const hLocDoc = `{"id":11,"name":"n","key":22,"label":"l"}`

// typeHash reads abi.Type.Hash (offset 16 on 64-bit) of a type descriptor.
func typeHash(t reflect.Type) uint32 {
	p := (*[2]unsafe.Pointer)(unsafe.Pointer(&t))[1]
	return *(*uint32)(unsafe.Pointer(uintptr(p) + 16))
}

// hCollide builds two DISTINCT struct types with the same layout and the same 32-bit runtime type hash:
// reflect.StructOf hashes name|hash(type)|tag of consecutive fields without separators, so bytes can be
// moved between a tag and the next field (JSON keys a,b versus a,c).  ok=false if reflect changed.
func hCollide() (x, y reflect.Type, ok bool) {
	it := reflect.TypeOf(int(0))
	h := typeHash(it)
	H := string([]byte{byte(h >> 24), byte(h >> 16), byte(h >> 8), byte(h)})
	x = reflect.StructOf([]reflect.StructField{
		{Name: "A", Type: it, Tag: reflect.StructTag(`json:"a"`)},
		{Name: "B", Type: it, Tag: reflect.StructTag(`json:"b" ` + "C" + H + `json:"c"`)},
	})
	y = reflect.StructOf([]reflect.StructField{
		{Name: "A", Type: it, Tag: reflect.StructTag(`json:"a"` + "B" + H + `json:"b" `)},
		{Name: "C", Type: it, Tag: reflect.StructTag(`json:"c"`)},
	})
	return x, y, x != y && typeHash(x) == typeHash(y)
}

func hCollideVal(t reflect.Type, a, b int64) reflect.Value {
	v := reflect.New(t)
	v.Elem().Field(0).SetInt(a)
	v.Elem().Field(1).SetInt(b)
	return v
}

const hCollideDoc = `{"a":10,"b":20,"c":30}`

// defined pointer type whose element has a pointer-receiver Unmarshaler (issue 379 rule of the decoders):
// encoding/json and both sonic decoders decode the element of `hRef` field by field, never through the method
type hItem struct {
	Name string
	Qty  int
}

func (p *hItem) UnmarshalJSON(b []byte) error {
	p.Name, p.Qty = "via-UnmarshalJSON", -1
	return nil
}

type hRef *hItem

type hTItem struct{ V string }

func (p *hTItem) UnmarshalText(b []byte) error { p.V = "via-UnmarshalText"; return nil }

type hTRef *hTItem

type hRefL1 struct {
	ID    int
	Items []hRef
}
type hRefL3 struct {
	A struct {
		B struct {
			Items []hRef
			M     map[string]hRef
		}
	}
}
type hRefL5 struct {
	A struct {
		B struct {
			C struct {
				D struct {
					Items [][]hRef
					T     []hTRef
					Own   []*hItem
				}
			}
		}
	}
}

const hItemsDoc = `[{"Name":"bolt","Qty":3},{"Name":"nut","Qty":4}]`

// structs with >= 50 fields (the decoders' width cutoff), built once
var hWideA, hWideB, hWideHolder reflect.Type

func hWide(prefix string, n int, kind reflect.Type) reflect.Type {
	fs := make([]reflect.StructField, n)
	for i := range fs {
		fs[i] = reflect.StructField{Name: fmt.Sprintf("%s%02d", prefix, i), Type: kind}
	}
	return reflect.StructOf(fs)
}

const hWideDoc = `{"F00":1,"F07":7,"F51":51,"G00":"g0","G33":"g33","g51":"fold"}`

type histProbe struct {
	name string
	run  func(std bool) string
}

func hMarshal(std bool, v interface{}) string {
	var b []byte
	var err error
	if std {
		b, err = json.Marshal(v)
	} else {
		b, err = sonic.Marshal(v)
	}
	return string(b) + errStr(err)
}

func hUnmarshal(std bool, doc string, p interface{}) string {
	var err error
	if std {
		err = json.Unmarshal([]byte(doc), p)
	} else {
		err = sonic.UnmarshalString(doc, p)
	}
	return stdDump(p) + errStr(err)
}

func stdUnmarshal(doc string, p interface{}) error   { return json.Unmarshal([]byte(doc), p) }
func sonicUnmarshal(doc string, p interface{}) error { return sonic.UnmarshalString(doc, p) }

func mprobe(name string, mk func() interface{}) histProbe {
	return histProbe{name, func(std bool) string { return hMarshal(std, mk()) }}
}

func uprobe(name string, doc string, mk func() interface{}) histProbe {
	return histProbe{name, func(std bool) string { return hUnmarshal(std, doc, mk()) }}
}

var histProbes []histProbe

func init() {
	pv := hPlainVal()
	plainDoc := stdDump(pv)
	d1Doc := stdDump(hD1Val())
	treeDoc := stdDump(hTreeVal())
	listDoc := stdDump(hListVal(5))
	histProbes = []histProbe{
		// group core: plain / deep / recursive types, value and pointer, both directions
		mprobe("core.plain", func() interface{} { return hPlainVal() }),
		mprobe("core.plainptr", func() interface{} { v := hPlainVal(); return &v }),
		uprobe("core.plain.u", plainDoc, func() interface{} { return new(hPlain) }),
		mprobe("core.deep", func() interface{} { return hD1Val() }),
		mprobe("core.deepptr", func() interface{} { v := hD1Val(); return &v }),
		uprobe("core.deep.u", d1Doc, func() interface{} { return new(hD1) }),
		mprobe("core.deep4", func() interface{} { return hD1Val().A.B.C }),
		uprobe("core.deep4.u", stdDump(hD1Val().A.B.C), func() interface{} { return new(hD4) }),
		mprobe("core.tree", func() interface{} { return hTreeVal() }),
		uprobe("core.tree.u", treeDoc, func() interface{} { return new(hTree) }),
		mprobe("core.list", func() interface{} { return hListVal(5) }),
		uprobe("core.list.u", listDoc, func() interface{} { return new(hList) }),
		mprobe("core.mut", func() interface{} { return hMutA{N: 1, B: &hMutB{S: "b", A: &hMutA{N: 2}}} }),
		uprobe("core.mut.u", `{"N":1,"B":{"S":"b","A":{"N":2,"B":null}}}`, func() interface{} { return new(hMutA) }),
		mprobe("core.valmarsh", func() interface{} { return hVW{A: hVM{1}, P: &hVM{2}, S: []hVM{{3}}} }),
		mprobe("core.slice", func() interface{} { return []hD6{{Z: 1}, {S: "x"}} }),
		mprobe("core.mapdeep", func() interface{} { return map[string]hD5{"k": {E: hD6{Z: 1}}} }),
		uprobe("core.mapdeep.u", `{"k":{"E":{"Z":1,"S":"s"},"Y":[{"Z":2,"S":""}]}}`, func() interface{} { return new(map[string]hD5) }),
		mprobe("core.iface", func() interface{} { return hHold{I: hD6{Z: 9}} }),
		// group samename: two distinct types that print identically
		mprobe("samename.a", func() interface{} { return pkga.New() }),
		mprobe("samename.b", func() interface{} { return pkgb.New() }),
		mprobe("samename.aptr", func() interface{} { v := pkga.New(); return &v }),
		mprobe("samename.bptr", func() interface{} { v := pkgb.New(); return &v }),
		uprobe("samename.a.u", pkga.JSON, func() interface{} { return new(pkga.T) }),
		uprobe("samename.b.u", pkgb.JSON, func() interface{} { return new(pkgb.T) }),
		mprobe("samename.outer", func() interface{} {
			var o hSameOuter
			o.P.Q.A = pkga.New()
			o.P.Q.B = pkgb.New()
			return o
		}),
		// group ptrrecv: single-probe sets (each probe is its own history)
		mprobe("ptrrecv.K0ptr", func() interface{} { return &hK0{} }),
		mprobe("ptrrecv.K0val", func() interface{} { return hK0{} }),
		mprobe("ptrrecv.L1val", func() interface{} { return hL1{} }),
		mprobe("ptrrecv.L1ptr", func() interface{} { return &hL1{} }),
		mprobe("ptrrecv.L4val", func() interface{} { return hL4{} }),
		mprobe("ptrrecv.L4ptr", func() interface{} { return &hL4{} }),
		mprobe("ptrrecv.Tval", func() interface{} { return hT{} }),
		mprobe("ptrrecv.Tptr", func() interface{} { return &hT{} }),
		mprobe("ptrrecv.iface", func() interface{} { return hHold{I: hT{}} }),
		mprobe("ptrrecv.ifaceptr", func() interface{} { return hHold{I: &hT{}} }),
		mprobe("ptrrecv.ifaceL4", func() interface{} { return hHold{I: hL4{}} }),
		mprobe("ptrrecv.sliceval", func() interface{} { return []hT{{}} }),
		mprobe("ptrrecv.N0ptr", func() interface{} { return &hN0{} }),
		mprobe("ptrrecv.M1val", func() interface{} { return hM1{} }),
		mprobe("ptrrecv.Uval", func() interface{} { return hU{} }),
		mprobe("ptrrecv.Uptr", func() interface{} { return &hU{} }),
	}
}

func init() {
	ta, mka, newa := hLocA()
	tb, mkb, newb := hLocB()
	histProbes = append(histProbes,
		mprobe("samename.loca", mka), mprobe("samename.locb", mkb),
		uprobe("samename.loca.u", hLocDoc, newa), uprobe("samename.locb.u", hLocDoc, newb))
	histTypeSets["sameloc"] = []reflect.Type{ta, tb}
	histTypeSets["samelocr"] = []reflect.Type{tb, ta}
	histTypeSets["sameall"] = []reflect.Type{ta, reflect.TypeOf(pkga.T{}), tb, reflect.TypeOf(pkgb.T{})}
	hWideA = hWide("F", 52, reflect.TypeOf(int(0)))
	hWideB = hWide("G", 52, reflect.TypeOf(""))
	hWideHolder = reflect.StructOf([]reflect.StructField{
		{Name: "P", Type: reflect.TypeOf(hPlain{})}, {Name: "W", Type: hWideA}, {Name: "X", Type: reflect.PtrTo(hWideB)},
		{Name: "L", Type: reflect.SliceOf(hWideA)}, {Name: "D", Type: reflect.TypeOf(hD4{})}})
	wideHolderDoc := `{"P":{"I":1,"S":"s"},"W":` + hWideDoc + `,"X":` + hWideDoc + `,"L":[` + hWideDoc + `],"D":{"D":{"E":{"Z":1,"S":"z"}}}}`
	newOf := func(t reflect.Type) func() interface{} {
		return func() interface{} { return reflect.New(t).Interface() }
	}
	histProbes = append(histProbes,
		// groups nref, wide: defined pointer types with Unmarshaler elements at several depths, wide structs (Unmarshal)
		uprobe("nref.ref0.u", hItemsDoc, func() interface{} { return new([]hRef) }),
		uprobe("nref.ref1.u", `{"ID":7,"Items":`+hItemsDoc+`}`, func() interface{} { return new(hRefL1) }),
		uprobe("nref.ref3.u", `{"A":{"B":{"Items":`+hItemsDoc+`,"M":{"k":{"Name":"m","Qty":9}}}}}`, func() interface{} { return new(hRefL3) }),
		uprobe("nref.ref5.u", `{"A":{"B":{"C":{"D":{"Items":[`+hItemsDoc+`],"T":[{"V":"t"}],"Own":`+hItemsDoc+`}}}}}`, func() interface{} { return new(hRefL5) }),
		uprobe("nref.refmap.u", `{"a":`+hItemsDoc+`}`, func() interface{} { return new(map[string][]hRef) }),
		uprobe("nref.refptr.u", `[`+hItemsDoc+`]`, func() interface{} { return new([]*[]hRef) }),
		uprobe("nref.item.u", `{"Name":"own","Qty":1}`, func() interface{} { return new(hItem) }),
		uprobe("wide.a.u", hWideDoc, newOf(hWideA)),
		uprobe("wide.b.u", hWideDoc, newOf(hWideB)),
		uprobe("wide.holder.u", wideHolderDoc, newOf(hWideHolder)),
		uprobe("wide.slice.u", `[`+hWideDoc+`,`+hWideDoc+`]`, newOf(reflect.SliceOf(hWideB))),
		mprobe("wide.a.m", func() interface{} { v := reflect.New(hWideA); v.Elem().Field(7).SetInt(7); return v.Elem().Interface() }))
	histTypeSets["nptr"] = []reflect.Type{reflect.TypeOf(hRefL1{}), reflect.TypeOf([]hRef{}), reflect.TypeOf(hRefL3{}), reflect.TypeOf(hRefL5{}),
		reflect.TypeOf(map[string][]hRef{}), reflect.TypeOf([]*[]hRef{})}
	histTypeSets["nptrr"] = []reflect.Type{reflect.TypeOf(hRefL5{}), reflect.TypeOf(hItem{}), reflect.TypeOf(hRefL1{}), reflect.TypeOf([]hRef{})}
	histTypeSets["wide"] = []reflect.Type{hWideA, hWideB}
	histTypeSets["wider"] = []reflect.Type{hWideB, hWideA}
	histTypeSets["widemix"] = []reflect.Type{reflect.TypeOf(hPlain{}), hWideA, reflect.TypeOf(hD1{}), hWideB, reflect.TypeOf(hTree{}), reflect.SliceOf(hWideB)}
	histTypeSets["wideholder"] = []reflect.Type{hWideHolder}
	histTypeSets["widea"] = []reflect.Type{hWideA}
	x, y, ok := hCollide()
	if ok {
		histProbes = append(histProbes,
			mprobe("collide.x", func() interface{} { return hCollideVal(x, 1, 2).Elem().Interface() }),
			mprobe("collide.y", func() interface{} { return hCollideVal(y, 1, 2).Elem().Interface() }),
			mprobe("collide.xptr", func() interface{} { return hCollideVal(x, 3, 4).Interface() }),
			mprobe("collide.yptr", func() interface{} { return hCollideVal(y, 3, 4).Interface() }),
			uprobe("collide.x.u", hCollideDoc, func() interface{} { return reflect.New(x).Interface() }),
			uprobe("collide.y.u", hCollideDoc, func() interface{} { return reflect.New(y).Interface() }))
		histTypeSets["collide"] = []reflect.Type{x, y}
		histTypeSets["collider"] = []reflect.Type{y, x}
	}
}

func histSelect(sel string) []histProbe {
	var out []histProbe
	for _, want := range strings.Split(sel, ",") {
		for _, p := range append(append([]histProbe(nil), histProbes...), histExtra...) {
			if p.name == want || strings.HasPrefix(p.name, want+".") {
				out = append(out, p)
			}
		}
	}
	return out
}

func histCompileOpts(spec string) []option.CompileOption {
	// "i<depth>r<depth>", either part optional
	var opts []option.CompileOption
	if i := strings.IndexByte(spec, 'i'); i >= 0 {
		j := i + 1
		for j < len(spec) && spec[j] >= '0' && spec[j] <= '9' {
			j++
		}
		if d, err := strconv.Atoi(spec[i+1 : j]); err == nil && d > 0 {
			opts = append(opts, option.WithCompileMaxInlineDepth(d))
		}
	}
	if i := strings.IndexByte(spec, 'r'); i >= 0 {
		j := i + 1
		for j < len(spec) && spec[j] >= '0' && spec[j] <= '9' {
			j++
		}
		if d, err := strconv.Atoi(spec[i+1 : j]); err == nil {
			opts = append(opts, option.WithCompileRecursiveDepth(d))
		}
	}
	return opts
}

var histTypeSets = map[string][]reflect.Type{
	"core": {reflect.TypeOf(hPlain{}), reflect.TypeOf(hD1{}), reflect.TypeOf(hD4{}), reflect.TypeOf(hTree{}), reflect.TypeOf(&hList{}),
		reflect.TypeOf(hMutA{}), reflect.TypeOf(hVW{}), reflect.TypeOf([]hD6{}), reflect.TypeOf(map[string]hD5{}), reflect.TypeOf(hHold{})},
	"deep":     {reflect.TypeOf(hD1{})},
	"deeprev":  {reflect.TypeOf(hD6{}), reflect.TypeOf(hD5{}), reflect.TypeOf(hD4{}), reflect.TypeOf(hD3{}), reflect.TypeOf(hD2{}), reflect.TypeOf(hD1{})},
	"rec":      {reflect.TypeOf(hTree{}), reflect.TypeOf(hList{}), reflect.TypeOf(hMutA{}), reflect.TypeOf(hMutB{})},
	"samea":    {reflect.TypeOf(pkga.T{})},
	"sameb":    {reflect.TypeOf(pkgb.T{})},
	"sameab":   {reflect.TypeOf(pkga.T{}), reflect.TypeOf(pkgb.T{})},
	"sameba":   {reflect.TypeOf(pkgb.T{}), reflect.TypeOf(pkga.T{})},
	"sameout":  {reflect.TypeOf(hSameOuter{})},
	"ptrrecvL": {reflect.TypeOf(hL4{}), reflect.TypeOf(hM4{})},
	"ptrrecvT": {reflect.TypeOf(hT{}), reflect.TypeOf(hU{})},
	"ptrrecvK": {reflect.TypeOf(&hK0{}), reflect.TypeOf(&hN0{})},
}

// histPrelude executes one prelude step.  Steps are joined by '+'.
//
//	none
//	use:<probes>[:<seed>]          run the selected probes first (permuted by seed when given)
//	pt:<set>[:<opts>]              sonic.Pretouch of every type of the set, one call per type
//	ptm:<set>[:<opts>]             sonic.PretouchMany of the set in one call
//	fill:<n>:<seed>                n never-seen filler types, marshalled and unmarshalled (cache growth / rehash)
func histPrelude(step string) error {
	f := strings.Split(step, ":")
	switch f[0] {
	case "none", "":
		return nil
	case "use":
		ps := histSelect(f[1])
		if len(f) > 2 {
			seed, _ := strconv.ParseInt(f[2], 10, 64)
			r := rand.New(rand.NewSource(seed))
			r.Shuffle(len(ps), func(i, j int) { ps[i], ps[j] = ps[j], ps[i] })
		}
		for _, p := range ps {
			fmt.Fprintln(os.Stderr, "@prelude-probe "+p.name)
			p.run(false)
		}
	case "pt", "ptm":
		set, ok := histTypeSets[f[1]]
		if !ok {
			return fmt.Errorf("unknown type set")
		}
		var opts []option.CompileOption
		if len(f) > 2 {
			opts = histCompileOpts(f[2])
		}
		if f[0] == "ptm" {
			return sonic.PretouchMany(set, opts...)
		}
		for _, t := range set {
			if err := sonic.Pretouch(t, opts...); err != nil {
				return err
			}
		}
	case "fill":
		n, _ := strconv.Atoi(f[1])
		seed := int64(1)
		if len(f) > 2 {
			seed, _ = strconv.ParseInt(f[2], 10, 64)
		}
		r := rand.New(rand.NewSource(seed))
		for i := 0; i < n; i++ {
			t := freshStruct(r, 0)
			v := reflect.New(t)
			fillValue(r, v.Elem(), 2)
			b, err := sonic.Marshal(v.Elem().Interface())
			if err != nil {
				return err
			}
			if err := sonic.Unmarshal(b, reflect.New(t).Interface()); err != nil {
				return err
			}
		}
	default:
		return fmt.Errorf("unknown prelude")
	}
	return nil
}

// histchild <prelude> <probes>: runs in a fresh process (see opHist)
func opHistChild(a []string) string {
	for _, step := range strings.Split(a[0], "+") {
		fmt.Fprintln(os.Stderr, "@prelude "+step)
		if err := histPrelude(step); err != nil {
			return "sonic=prelude-error\tdetail=" + clip(err.Error(), 100)
		}
	}
	var so, re []string
	for _, p := range histSelect(a[1]) {
		fmt.Fprintln(os.Stderr, "@probe "+p.name)
		so = append(so, p.name+":"+hex.EncodeToString([]byte(p.run(false))))
		re = append(re, p.name+":"+hex.EncodeToString([]byte(p.run(true))))
	}
	fmt.Fprintln(os.Stderr, "@done")
	return "sonic=" + strings.Join(so, "|") + "\tref=" + strings.Join(re, "|")
}

type histResult struct {
	sonic, ref map[string]string
	order      []string
	crash      string // "" or where the child died
	raw        string
}

func histSpawn(prelude, probes string) histResult {
	cmd := exec.Command(os.Args[0], "run")
	cmd.Stdin = strings.NewReader("histchild\t" + prelude + "\t" + probes + "\n")
	var stdout, stderr bytes.Buffer
	cmd.Stdout = &stdout
	cmd.Stderr = &stderr
	cmd.Env = os.Environ()
	done := make(chan error, 1)
	if err := cmd.Start(); err != nil {
		return histResult{crash: "spawn-failed"}
	}
	go func() { done <- cmd.Wait() }()
	timedOut := false
	select {
	case <-done:
	case <-time.After(300 * time.Second):
		cmd.Process.Kill()
		<-done
		timedOut = true
	}
	res := histResult{sonic: map[string]string{}, ref: map[string]string{}}
	line := strings.TrimRight(stdout.String(), "\r\n")
	res.raw = line
	where := "start"
	for _, l := range strings.Split(stderr.String(), "\n") {
		if strings.HasPrefix(l, "@") {
			where = strings.TrimSpace(l[1:])
		}
	}
	if timedOut {
		res.crash = "hang@" + where
		return res
	}
	if strings.HasPrefix(line, "sonic=PANIC") {
		res.crash = "panic@" + where + " " + clip(line, 100)
		return res
	}
	if !strings.HasPrefix(line, "sonic=") || where != "done" {
		sig := ""
		for _, l := range strings.Split(stderr.String(), "\n") {
			if strings.Contains(l, "SIGSEGV") || strings.HasPrefix(l, "fatal error") || strings.HasPrefix(l, "panic:") || strings.Contains(l, "DATA RACE") {
				sig = clip(l, 80)
				break
			}
		}
		res.crash = "crash@" + where + " " + sig
		return res
	}
	for _, part := range strings.Split(line, "\t") {
		k, v, _ := strings.Cut(part, "=")
		if k != "sonic" && k != "ref" {
			if k == "detail" {
				res.crash = "prelude-error " + v
			}
			continue
		}
		if v == "prelude-error" {
			res.crash = "prelude-error"
			continue
		}
		for _, e := range strings.Split(v, "|") {
			n, h, _ := strings.Cut(e, ":")
			if k == "sonic" {
				res.sonic[n] = h
				res.order = append(res.order, n)
			} else {
				res.ref[n] = h
			}
		}
	}
	return res
}

var (
	histBaseMu sync.Mutex
	histBase   = map[string]histResult{}
)

func histDigest(m map[string]string, order []string) string {
	var ss []string
	for _, n := range order {
		ss = append(ss, n+":"+m[n])
	}
	return digestStrings(ss)
}

// hist <prelude>[|<prelude>...] <probes> [tags]
//
//	every prelude of the family is executed in its own fresh process (in parallel), followed by the probes;
//	answer: sonic=<digest over the family's probe outputs>  base=<the same digest if every member printed what a
//	        fresh process without prelude prints>  ref=<... what encoding/json prints>  n=<probes>  members=<preludes>
//	        bad=<prelude>@@diff:<probes whose output depends on the prelude> | <prelude>@@crash:<where the child died>  (joined by ;;)
//	        diffref=<probes that differ from encoding/json>
func opHist(a []string) string {
	preludes := strings.Split(a[0], "|")
	probes := a[1]
	histBaseMu.Lock()
	base, ok := histBase[probes]
	histBaseMu.Unlock()
	if !ok {
		base = histSpawn("none", probes)
		histBaseMu.Lock()
		histBase[probes] = base
		histBaseMu.Unlock()
	}
	if base.crash != "" {
		return "sonic=BASECRASH\tcrashat=" + clip(base.crash, 160)
	}
	par := 6
	if v, err := strconv.Atoi(os.Getenv("VERIF_HIST_PAR")); err == nil && v > 0 {
		par = v
	}
	results := make([]histResult, len(preludes))
	sem := make(chan struct{}, par)
	var wg sync.WaitGroup
	for i, p := range preludes {
		if p == "none" {
			results[i] = base
			continue
		}
		wg.Add(1)
		go func(i int, p string) {
			defer wg.Done()
			sem <- struct{}{}
			results[i] = histSpawn(p, probes)
			<-sem
		}(i, p)
	}
	wg.Wait()
	baseD := histDigest(base.sonic, base.order)
	var gotDs, baseDs, refDs, bad []string
	diffref := map[string]bool{}
	detail := ""
	for i, got := range results {
		baseDs = append(baseDs, baseD)
		if got.crash != "" {
			gotDs = append(gotDs, "CRASH")
			refDs = append(refDs, histDigest(base.ref, base.order))
			bad = append(bad, preludes[i]+"@@crash:"+clip(got.crash, 160))
			continue
		}
		gotDs = append(gotDs, histDigest(got.sonic, base.order))
		refDs = append(refDs, histDigest(got.ref, base.order))
		var diff []string
		for _, n := range base.order {
			if got.sonic[n] != base.sonic[n] {
				diff = append(diff, n)
				if detail == "" {
					x, _ := hex.DecodeString(got.sonic[n])
					y, _ := hex.DecodeString(base.sonic[n])
					detail = fmt.Sprintf("%s after prelude %s prints %s, in a fresh process %s", n, preludes[i], clip(string(x), 120), clip(string(y), 120))
				}
			}
			if got.sonic[n] != got.ref[n] {
				diffref[n] = true
			}
		}
		if len(diff) > 0 {
			bad = append(bad, preludes[i]+"@@diff:"+strings.Join(diff, ","))
		}
	}
	out := "sonic=" + digestStrings(gotDs) + "\tbase=" + digestStrings(baseDs) + "\tref=" + digestStrings(refDs) +
		"\tn=" + itoa(len(base.order)) + "\tmembers=" + itoa(len(preludes))
	if len(bad) > 0 {
		out += "\tbad=" + strings.Join(bad, ";;")
	}
	if detail != "" {
		out += "\tdetail=" + detail
	}
	if len(diffref) > 0 {
		var ns []string
		for n := range diffref {
			ns = append(ns, n)
		}
		sort.Strings(ns)
		out += "\tdiffref=" + strings.Join(ns, ",")
	}
	return out
}

func init() {
	registerOp("rcu", opRCU)
	registerOp("phist", opHist)
	registerOp("histchild", opHistChild)
}
