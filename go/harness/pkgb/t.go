// Package dup (import path .../pkgb): see pkga.  Same type name, different layout.
package dup

type T struct {
	X []string
	Y *T
	Z map[string]int
	W float64
}

type Inner struct {
	S []int
}

func New() T {
	return T{X: []string{"pkgb", "x"}, Y: &T{X: []string{"inner"}, W: 2.5}, Z: map[string]int{"k": 9}, W: 1.5}
}

const JSON = `{"X":["q"],"Y":{"X":null,"Y":null,"Z":null,"W":0.5},"Z":{"z":1},"W":3}`
