package main

// Protocol vocabulary for Go types and values (DESIGN.md Appendix A).
//
//	T ::= bool|i8|i16|i32|i64|int|u8|u16|u32|u64|uint|uptr|f32|f64|str|num|bytes|raw|any
//	    | (sl T) | (arr N T) | (ptr T) | (map K T) | (st F*) | (lib NAME)
//	F ::= (f GoName TAGHEX T)          TAGHEX = hex of the json tag value, "-" = no tag at all
//	V ::= t | f | (i N) | (u N) | (f64 HEX16) | (f32 HEX8) | (s HEX) | (num HEX) | (b HEX) | (raw HEX)
//	    | nil | (sl V*) | (arr V*) | (ptr V) | (map (K V)*) | (any T V) | (st V*) | (lib HEX)
//
// Types are built with reflect (StructOf/SliceOf/...); named types with methods and recursive
// types come from the fixed library below, mirrored in the Lean model.

import (
	"encoding/hex"
	"encoding/json"
	"fmt"
	"math"
	"reflect"
	"sort"
	"strconv"
	"strings"
)

// ---------------------------------------------------------------- s-expressions

type sx struct {
	atom string
	list []*sx
	isL  bool
}

func parseSx(s string) *sx {
	toks := tokenize(s)
	pos := 0
	var rec func() *sx
	rec = func() *sx {
		if pos >= len(toks) {
			panic("sexpr: unexpected end")
		}
		t := toks[pos]
		pos++
		if t == "(" {
			n := &sx{isL: true}
			for pos < len(toks) && toks[pos] != ")" {
				n.list = append(n.list, rec())
			}
			if pos >= len(toks) {
				panic("sexpr: missing )")
			}
			pos++
			return n
		}
		if t == ")" {
			panic("sexpr: unexpected )")
		}
		return &sx{atom: t}
	}
	r := rec()
	if pos != len(toks) {
		panic("sexpr: trailing tokens")
	}
	return r
}

func tokenize(s string) []string {
	var out []string
	i := 0
	for i < len(s) {
		c := s[i]
		switch {
		case c == ' ':
			i++
		case c == '(' || c == ')':
			out = append(out, string(c))
			i++
		default:
			j := i
			for j < len(s) && s[j] != ' ' && s[j] != '(' && s[j] != ')' {
				j++
			}
			out = append(out, s[i:j])
			i = j
		}
	}
	return out
}

func (n *sx) String() string {
	if !n.isL {
		return n.atom
	}
	p := make([]string, len(n.list))
	for i, c := range n.list {
		p[i] = c.String()
	}
	return "(" + strings.Join(p, " ") + ")"
}

func (n *sx) head() string {
	if n.isL && len(n.list) > 0 && !n.list[0].isL {
		return n.list[0].atom
	}
	return ""
}

// ---------------------------------------------------------------- library of named types

// MV: value-receiver json.Marshaler, pointer-receiver json.Unmarshaler
type MV struct{ V int }

func (m MV) MarshalJSON() ([]byte, error) { return []byte(fmt.Sprintf(`{"mv":%d}`, m.V)), nil }
func (m *MV) UnmarshalJSON(b []byte) error {
	var x struct{ Mv int }
	if err := json.Unmarshal(b, &x); err != nil {
		return err
	}
	m.V = x.Mv
	return nil
}

// MP: pointer-receiver json.Marshaler
type MP struct{ V int }

func (m *MP) MarshalJSON() ([]byte, error) { return []byte(fmt.Sprintf(`{"mp":%d}`, m.V)), nil }

// TV: value-receiver TextMarshaler, pointer-receiver TextUnmarshaler (usable as map key)
type TV struct{ V int }

func (t TV) MarshalText() ([]byte, error) { return []byte("tv" + strconv.Itoa(t.V)), nil }
func (t *TV) UnmarshalText(b []byte) error {
	s := string(b)
	if !strings.HasPrefix(s, "tv") {
		return fmt.Errorf("bad TV text")
	}
	n, err := strconv.Atoi(s[2:])
	if err != nil {
		return err
	}
	t.V = n
	return nil
}

// TP: pointer-receiver TextMarshaler
type TP struct{ V int }

func (t *TP) MarshalText() ([]byte, error) { return []byte("tp" + strconv.Itoa(t.V)), nil }

// Rec: recursive through a pointer
type Rec struct {
	V    int  `json:"v"`
	Next *Rec `json:"next,omitempty"`
}

// Tree: recursive through slice and map
type Tree struct {
	N    string           `json:"n"`
	Kids []Tree           `json:"kids"`
	M    map[string]*Tree `json:"m,omitempty"`
}

// Embedding fixtures (field promotion, dominance, embedded pointers)
type EmbInner struct {
	A int
	B string `json:"b"`
}
type EmbPtr struct {
	C int
	A int // shadowed by EmbInner.A? no: same depth => both dropped
}
type EmbOuter struct {
	EmbInner
	*EmbPtr
	B int `json:"bb"`
	D int
}

var libTypes = map[string]reflect.Type{
	"MV":       reflect.TypeOf(MV{}),
	"MP":       reflect.TypeOf(MP{}),
	"TV":       reflect.TypeOf(TV{}),
	"TP":       reflect.TypeOf(TP{}),
	"Rec":      reflect.TypeOf(Rec{}),
	"Tree":     reflect.TypeOf(Tree{}),
	"EmbOuter": reflect.TypeOf(EmbOuter{}),
}

var libNames = func() []string {
	var n []string
	for k := range libTypes {
		n = append(n, k)
	}
	sort.Strings(n)
	return n
}()

// ---------------------------------------------------------------- types

var basicTypes = map[string]reflect.Type{
	"bool": reflect.TypeOf(false),
	"i8":   reflect.TypeOf(int8(0)), "i16": reflect.TypeOf(int16(0)), "i32": reflect.TypeOf(int32(0)), "i64": reflect.TypeOf(int64(0)), "int": reflect.TypeOf(int(0)),
	"u8": reflect.TypeOf(uint8(0)), "u16": reflect.TypeOf(uint16(0)), "u32": reflect.TypeOf(uint32(0)), "u64": reflect.TypeOf(uint64(0)), "uint": reflect.TypeOf(uint(0)), "uptr": reflect.TypeOf(uintptr(0)),
	"f32": reflect.TypeOf(float32(0)), "f64": reflect.TypeOf(float64(0)),
	"str": reflect.TypeOf(""), "num": reflect.TypeOf(json.Number("")),
	"bytes": reflect.TypeOf([]byte(nil)), "raw": reflect.TypeOf(json.RawMessage(nil)),
	"any": reflect.TypeOf((*interface{})(nil)).Elem(),
}

func buildType(n *sx) reflect.Type {
	if !n.isL {
		t, ok := basicTypes[n.atom]
		if !ok {
			panic("type: unknown atom " + n.atom)
		}
		return t
	}
	switch n.head() {
	case "sl":
		return reflect.SliceOf(buildType(n.list[1]))
	case "arr":
		k, _ := strconv.Atoi(n.list[1].atom)
		return reflect.ArrayOf(k, buildType(n.list[2]))
	case "ptr":
		return reflect.PtrTo(buildType(n.list[1]))
	case "map":
		return reflect.MapOf(buildType(n.list[1]), buildType(n.list[2]))
	case "lib":
		t, ok := libTypes[n.list[1].atom]
		if !ok {
			panic("type: unknown lib type " + n.list[1].atom)
		}
		return t
	case "st":
		var fs []reflect.StructField
		for _, f := range n.list[1:] {
			if f.head() != "f" || len(f.list) != 4 {
				panic("type: bad field")
			}
			sf := reflect.StructField{Name: f.list[1].atom, Type: buildType(f.list[3])}
			if f.list[2].atom != "-" {
				tag, err := hex.DecodeString(f.list[2].atom)
				if err != nil {
					panic("type: bad tag hex")
				}
				sf.Tag = reflect.StructTag(`json:` + strconv.Quote(string(tag)))
			}
			fs = append(fs, sf)
		}
		return reflect.StructOf(fs)
	}
	panic("type: unknown constructor " + n.head())
}

func parseType(s string) (*sx, reflect.Type) {
	n := parseSx(s)
	return n, buildType(n)
}

// ---------------------------------------------------------------- values: dump

func hx(b []byte) string {
	if len(b) == 0 {
		return "-"
	}
	return hex.EncodeToString(b)
}

// dumpValue prints a reflect.Value in the canonical V grammar, directed by the type expression.
func dumpValue(n *sx, v reflect.Value) string {
	if !n.isL {
		switch n.atom {
		case "bool":
			if v.Bool() {
				return "t"
			}
			return "f"
		case "i8", "i16", "i32", "i64", "int":
			return "(i " + strconv.FormatInt(v.Int(), 10) + ")"
		case "u8", "u16", "u32", "u64", "uint", "uptr":
			return "(u " + strconv.FormatUint(v.Uint(), 10) + ")"
		case "f64":
			return fmt.Sprintf("(f64 %016x)", math.Float64bits(v.Float()))
		case "f32":
			return fmt.Sprintf("(f32 %08x)", math.Float32bits(float32(v.Float())))
		case "str":
			return "(s " + hx([]byte(v.String())) + ")"
		case "num":
			return "(num " + hx([]byte(v.String())) + ")"
		case "bytes":
			if v.IsNil() {
				return "nil"
			}
			return "(b " + hx(v.Bytes()) + ")"
		case "raw":
			if v.IsNil() {
				return "nil"
			}
			return "(raw " + hx(v.Bytes()) + ")"
		case "any":
			return dumpAny(v)
		}
		panic("dump: atom " + n.atom)
	}
	switch n.head() {
	case "sl":
		if v.IsNil() {
			return "nil"
		}
		p := []string{"sl"}
		for i := 0; i < v.Len(); i++ {
			p = append(p, dumpValue(n.list[1], v.Index(i)))
		}
		return "(" + strings.Join(p, " ") + ")"
	case "arr":
		p := []string{"arr"}
		for i := 0; i < v.Len(); i++ {
			p = append(p, dumpValue(n.list[2], v.Index(i)))
		}
		return "(" + strings.Join(p, " ") + ")"
	case "ptr":
		if v.IsNil() {
			return "nil"
		}
		return "(ptr " + dumpValue(n.list[1], v.Elem()) + ")"
	case "map":
		if v.IsNil() {
			return "nil"
		}
		var es []string
		for _, k := range v.MapKeys() {
			es = append(es, "("+dumpValue(n.list[1], k)+" "+dumpValue(n.list[2], v.MapIndex(k))+")")
		}
		sort.Strings(es)
		return "(" + strings.Join(append([]string{"map"}, es...), " ") + ")"
	case "st":
		p := []string{"st"}
		for i, f := range n.list[1:] {
			p = append(p, dumpValue(f.list[3], v.Field(i)))
		}
		return "(" + strings.Join(p, " ") + ")"
	case "lib":
		// library values are dumped through their Go-syntax representation (pointer targets followed)
		return "(lib " + hx([]byte(dumpLib(v, 0))) + ")"
	}
	panic("dump: " + n.head())
}

func dumpLib(v reflect.Value, depth int) string {
	if depth > 64 {
		return "<deep>"
	}
	switch v.Kind() {
	case reflect.Ptr:
		if v.IsNil() {
			return "nil"
		}
		return "&" + dumpLib(v.Elem(), depth+1)
	case reflect.Struct:
		var p []string
		for i := 0; i < v.NumField(); i++ {
			p = append(p, v.Type().Field(i).Name+":"+dumpLib(v.Field(i), depth+1))
		}
		return "{" + strings.Join(p, ",") + "}"
	case reflect.Slice:
		if v.IsNil() {
			return "nil"
		}
		var p []string
		for i := 0; i < v.Len(); i++ {
			p = append(p, dumpLib(v.Index(i), depth+1))
		}
		return "[" + strings.Join(p, ",") + "]"
	case reflect.Map:
		if v.IsNil() {
			return "nil"
		}
		var p []string
		for _, k := range v.MapKeys() {
			p = append(p, fmt.Sprintf("%q:%s", fmt.Sprint(k.Interface()), dumpLib(v.MapIndex(k), depth+1)))
		}
		sort.Strings(p)
		return "map[" + strings.Join(p, ",") + "]"
	case reflect.String:
		return strconv.Quote(v.String())
	default:
		return fmt.Sprint(v.Interface())
	}
}

// dumpAny prints what landed in an interface{}: the dynamic type is part of the observation
func dumpAny(v reflect.Value) string {
	if v.Kind() == reflect.Interface {
		if v.IsNil() {
			return "nil"
		}
		v = v.Elem()
	}
	switch x := v.Interface().(type) {
	case bool:
		if x {
			return "(any bool t)"
		}
		return "(any bool f)"
	case float64:
		return fmt.Sprintf("(any f64 (f64 %016x))", math.Float64bits(x))
	case int64:
		return "(any i64 (i " + strconv.FormatInt(x, 10) + "))"
	case json.Number:
		return "(any num (num " + hx([]byte(x)) + "))"
	case string:
		return "(any str (s " + hx([]byte(x)) + "))"
	case []interface{}:
		p := []string{"sl"}
		for _, e := range x {
			p = append(p, dumpAny(reflect.ValueOf(&e).Elem()))
		}
		return "(any (sl any) (" + strings.Join(p, " ") + "))"
	case map[string]interface{}:
		var es []string
		for k, e := range x {
			e := e
			es = append(es, "((s "+hx([]byte(k))+") "+dumpAny(reflect.ValueOf(&e).Elem())+")")
		}
		sort.Strings(es)
		return "(any (map str any) (" + strings.Join(append([]string{"map"}, es...), " ") + "))"
	}
	// any other dynamic type (only produced by Marshal-side generators)
	return "(any ? " + hx([]byte(fmt.Sprintf("%T:%v", v.Interface(), v.Interface()))) + ")"
}

// ---------------------------------------------------------------- values: parse (for Marshal inputs)

func unhx(s string) []byte {
	if s == "-" {
		return []byte{}
	}
	b, err := hex.DecodeString(s)
	if err != nil {
		panic("value: bad hex")
	}
	return b
}

// buildValue constructs a settable reflect.Value of type t from a V expression.
func buildValue(tn *sx, t reflect.Type, vn *sx) reflect.Value {
	out := reflect.New(t).Elem()
	if !vn.isL && vn.atom == "nil" {
		return out // zero value: nil pointer / slice / map / interface
	}
	if !tn.isL {
		switch tn.atom {
		case "bool":
			out.SetBool(vn.atom == "t")
		case "i8", "i16", "i32", "i64", "int":
			x, _ := strconv.ParseInt(vn.list[1].atom, 10, 64)
			out.SetInt(x)
		case "u8", "u16", "u32", "u64", "uint", "uptr":
			x, _ := strconv.ParseUint(vn.list[1].atom, 10, 64)
			out.SetUint(x)
		case "f64":
			x, _ := strconv.ParseUint(vn.list[1].atom, 16, 64)
			out.SetFloat(math.Float64frombits(x))
		case "f32":
			x, _ := strconv.ParseUint(vn.list[1].atom, 16, 32)
			out.SetFloat(float64(math.Float32frombits(uint32(x))))
		case "str", "num":
			out.SetString(string(unhx(vn.list[1].atom)))
		case "bytes", "raw":
			out.SetBytes(unhx(vn.list[1].atom))
		case "any":
			// (any T V)
			in, it := vn.list[1], buildType(vn.list[1])
			out.Set(buildValue(in, it, vn.list[2]))
		default:
			panic("value: atom " + tn.atom)
		}
		return out
	}
	switch tn.head() {
	case "sl":
		s := reflect.MakeSlice(t, 0, len(vn.list)-1)
		for _, e := range vn.list[1:] {
			s = reflect.Append(s, buildValue(tn.list[1], t.Elem(), e))
		}
		out.Set(s)
	case "arr":
		for i, e := range vn.list[1:] {
			out.Index(i).Set(buildValue(tn.list[2], t.Elem(), e))
		}
	case "ptr":
		p := reflect.New(t.Elem())
		p.Elem().Set(buildValue(tn.list[1], t.Elem(), vn.list[1]))
		out.Set(p)
	case "map":
		m := reflect.MakeMap(t)
		for _, e := range vn.list[1:] {
			m.SetMapIndex(buildValue(tn.list[1], t.Key(), e.list[0]), buildValue(tn.list[2], t.Elem(), e.list[1]))
		}
		out.Set(m)
	case "st":
		for i, f := range tn.list[1:] {
			out.Field(i).Set(buildValue(f.list[3], t.Field(i).Type, vn.list[1+i]))
		}
	case "lib":
		// library values travel as JSON decoded by encoding/json into the library type
		if err := json.Unmarshal(unhx(vn.list[1].atom), out.Addr().Interface()); err != nil {
			panic("value: lib json: " + err.Error())
		}
	default:
		panic("value: " + tn.head())
	}
	return out
}
