package main

// Generators for C08 / C09 (core `Conc`).  Every random choice comes from g.R.

import (
	"fmt"
	"strings"
)

// one pmap script: `nk` distinct keys under a hash mode, adds interleaved with gets of present and
// absent keys; dupRate>0 re-adds present keys (outside the theorem's hypothesis, inside the model).
func genPMapScript(g *Gen, nk int, mode int, nops int, dupRate int, explicitRehash bool) (string, bool) {
	type key struct{ id, h uint32 }
	hashOf := func(id uint32) uint32 {
		switch mode {
		case 0:
			return id
		case 1:
			return 7
		case 2:
			return id % 4
		case 3:
			return g.R.Uint32()
		case 4:
			return id * 4096
		case 5:
			return ^uint32(0) - id%3 // top of the uint32 range: wrap-around of the probe index
		default:
			return uint32(g.R.Intn(16)) * 0x01000100
		}
	}
	keys := make([]key, nk)
	for i := range keys {
		keys[i] = key{uint32(i + 1), hashOf(uint32(i + 1))}
	}
	order := g.R.Perm(nk)
	var ops []string
	added := []key{}
	dup := false
	next := 0
	for len(ops) < nops && (next < nk || len(ops) < nk) {
		c := g.R.Intn(10)
		switch {
		case c < 6 && next < nk:
			k := keys[order[next]]
			next++
			ops = append(ops, fmt.Sprintf("a%d.%d.%d", k.id, k.h, g.R.Intn(100000)))
			added = append(added, k)
		case c < 8 && len(added) > 0:
			k := added[g.R.Intn(len(added))]
			ops = append(ops, fmt.Sprintf("g%d.%d", k.id, k.h))
		case c < 9:
			// absent key: unused id, or a used id with another hash (a different key)
			if g.R.Intn(2) == 0 || len(added) == 0 {
				ops = append(ops, fmt.Sprintf("g%d.%d", nk+1+g.R.Intn(50), hashOf(uint32(g.R.Intn(nk+1)))))
			} else {
				k := added[g.R.Intn(len(added))]
				ops = append(ops, fmt.Sprintf("g%d.%d", k.id, k.h+1))
			}
		default:
			if dupRate > 0 && len(added) > 0 && g.R.Intn(dupRate) == 0 {
				k := added[g.R.Intn(len(added))]
				ops = append(ops, fmt.Sprintf("a%d.%d.%d", k.id, k.h, g.R.Intn(100000)))
				dup = true
			} else if explicitRehash && g.R.Intn(4) == 0 {
				ops = append(ops, "r")
			} else if len(added) > 0 {
				k := added[g.R.Intn(len(added))]
				ops = append(ops, fmt.Sprintf("g%d.%d", k.id, k.h))
			}
		}
	}
	// finally look every key up
	for _, k := range keys {
		ops = append(ops, fmt.Sprintf("g%d.%d", k.id, k.h))
	}
	return strings.Join(ops, ","), dup
}

func tagOf(dup bool) string {
	if dup {
		return "dup"
	}
	return "-"
}

func init() {
	// C08: sequential scripts on the real _ProgramMap vs the model
	registerGen("c08.pmap", func(g *Gen) {
		g.Emit("pmap", "2", "-", "-")
		g.Emit("pmap", "1", "a1.0.5,g1.0,a2.0.6,g2.0,g1.0", "-")
		caps := []int{1, 2, 4, 8, 16, 64}
		for i := 0; i < g.N; i++ {
			c := caps[g.R.Intn(len(caps))]
			nk := 1 + g.R.Intn(40)
			if i%7 == 0 {
				nk = 60 + g.R.Intn(200)
			}
			mode := g.R.Intn(7)
			dupRate := 0
			if i%9 == 0 {
				dupRate = 2
			}
			s, dup := genPMapScript(g, nk, mode, 3*nk, dupRate, i%5 == 0)
			g.Emit("pmap", itoa(c), s, tagOf(dup))
		}
		// the production capacity: one rehash in the quick tier, three in the thorough tier
		big := 2100
		if g.Tier == "thorough" {
			big = 8300
		}
		s, _ := genPMapScript(g, big, 3, big*3/2, 0, false)
		g.Emit("pmap", "0", s, "-")
		s, _ = genPMapScript(g, 150, 4, 300, 0, false)
		g.Emit("pmap", "0", s, "-")
		s, _ = genPMapScript(g, 150, 1, 300, 0, false)
		g.Emit("pmap", "0", s, "-")
	})

	// C08: goroutines racing Get/Compute on one real ProgramCache with fabricated keys
	registerGen("c08.pcrace", func(g *Gen) {
		caps := []int{1, 2, 4, 16, 64}
		for i := 0; i < g.N; i++ {
			c := caps[g.R.Intn(len(caps))]
			threads := 2 + g.R.Intn(15)
			nk := 5 + g.R.Intn(200)
			mode := g.R.Intn(5)
			if mode == 1 || mode == 2 || mode == 4 {
				nk = 5 + g.R.Intn(80)
			}
			g.Emit("pcrace", itoa(c), itoa(threads), itoa(nk), itoa(mode), itoa(g.R.Intn(1<<30)))
		}
	})

	// C08: the production capacity (4096): racing across one (quick) or two (thorough) rehashes
	registerGen("c08.pcbig", func(g *Gen) {
		big := 2200
		if g.Tier == "thorough" {
			big = 4300
		}
		for i := 0; i < g.N; i++ {
			g.Emit("pcrace", "0", itoa(4+g.R.Intn(13)), itoa(big+g.R.Intn(100)), itoa([]int{0, 3}[g.R.Intn(2)]), itoa(g.R.Intn(1<<30)))
			g.Emit("pcrace", "0", "16", itoa(60+g.R.Intn(100)), itoa([]int{1, 2, 4}[g.R.Intn(3)]), itoa(g.R.Intn(1<<30)))
		}
	})

	// C08: rounds of goroutines racing the first use of never-seen types on the public API
	registerGen("c08.rcu", func(g *Gen) {
		for i := 0; i < g.N; i++ {
			nt := 2 + g.R.Intn(10)
			ng := 2 + g.R.Intn(10)
			if g.Tier == "thorough" && i%10 == 0 {
				nt = 20 + g.R.Intn(30)
				ng = 16 + g.R.Intn(17)
			}
			g.Emit("rcu", itoa(g.R.Intn(1<<30)), itoa(nt), itoa(ng))
		}
	})

	// C08: pool recycling: goroutines racing Marshal/Unmarshal after calls that hand buffers back through
	// the post-pass / error / indent paths, every result compared with the same call alone
	registerGen("c08.pool", func(g *Gen) {
		for i := 0; i < g.N; i++ {
			ng := 4 + g.R.Intn(9)
			iters := 100 + g.R.Intn(200)
			if g.Tier == "thorough" && i%5 == 0 {
				ng, iters = 16+g.R.Intn(17), 400
			}
			g.Emit("pool", itoa(g.R.Intn(1<<30)), itoa(ng), itoa(iters))
		}
	})

	// the same, sized for the -race build (where every Marshal is shadowed by encoding/json inside sonic)
	registerGen("c08.poolsmall", func(g *Gen) {
		for i := 0; i < g.N; i++ {
			g.Emit("pool", itoa(g.R.Intn(1<<30)), itoa(4+g.R.Intn(4)), itoa(30+g.R.Intn(50)))
		}
	})

	// indenting encoders only, bigger documents, while an indenting stream encoder keeps failing on a broken writer
	registerGen("c08.poolindent", func(g *Gen) {
		for i := 0; i < g.N; i++ {
			g.Emit("pool", itoa(g.R.Intn(1<<30)), itoa(6+g.R.Intn(8)), itoa(80+g.R.Intn(120)), "indent")
		}
	})

	// concurrent decodes of keys that match the fields only case-insensitively (both decoders)
	registerGen("c08.fold", func(g *Gen) {
		for i := 0; i < g.N; i++ {
			g.Emit("fold", itoa(g.R.Intn(1<<30)), itoa(2+g.R.Intn(7)), itoa(6+g.R.Intn(11)), itoa(150+g.R.Intn(250)))
		}
	})
	registerGen("c08.foldsmall", func(g *Gen) {
		for i := 0; i < g.N; i++ {
			g.Emit("fold", itoa(g.R.Intn(1<<30)), itoa(2+g.R.Intn(3)), itoa(4+g.R.Intn(5)), itoa(30+g.R.Intn(40)))
		}
	})

	// C09: one key set inserted in different orders into tables of different initial capacity
	registerGen("c09.order", func(g *Gen) {
		for i := 0; i < g.N; i++ {
			nk := 2 + g.R.Intn(60)
			mode := g.R.Intn(7)
			s, _ := genPMapScript(g, nk, mode, nk, 0, false)
			g.Emit("pmap", itoa(1<<uint(g.R.Intn(7))), s, "-")
		}
	})

	// families shared by both decoder configurations: defined pointer types whose element has a pointer-receiver
	// Unmarshaler at several nesting depths (decoded after Pretouch with different inline / recursion depths and
	// PretouchMany orders), and structs with >= 50 fields pretouched alone, together, nested
	emitDecoderFamilies := func(g *Gen, emit func(pre []string, probes, tag string, chunk int)) {
		seed := func() string { return itoa(g.R.Intn(1 << 20)) }
		thorough := g.Tier == "thorough"
		tagged := []string{"pt:nptr:i8", "pt:nptr:i1", "ptm:nptr:i8r3", "pt:nptrr:i2", "ptm:nptrr:i10r2", "pt:nptr:i4r0"}
		plain := []string{"none", "use:nref:" + seed(), "pt:nptr", "ptm:nptrr", "use:core:" + seed() + "+use:nref:" + seed()}
		wide := []string{"none", "ptm:wide", "ptm:wider", "ptm:widemix", "ptm:widemix:i1r3", "pt:wideholder", "pt:wideholder:r3",
			"pt:wideholder:i1r5", "pt:widea", "use:wide:" + seed(), "pt:core+ptm:wider"}
		if thorough {
			for i := 0; i < 12; i++ {
				tagged = append(tagged, fmt.Sprintf("%s:nptr%s:i%dr%d", []string{"pt", "ptm"}[g.R.Intn(2)], []string{"", "r"}[g.R.Intn(2)], 1+g.R.Intn(9), g.R.Intn(5)))
				wide = append(wide, fmt.Sprintf("ptm:%s:i%dr%d", []string{"wide", "wider", "widemix", "wideholder"}[g.R.Intn(4)], 1+g.R.Intn(6), g.R.Intn(5)))
			}
		}
		emit(tagged, "nref", "named_ptr_unmarshaler_elem", 12)
		emit(plain, "nref", "-", 12)
		emit(wide, "wide", "-", 12)
	}

	// group `ops` (ops_conc_ops.go): every operation of a type after other operations on the SAME type.
	// whole-set families (all eight operations in a fixed order after one earlier operation / Pretouch) for every
	// type; single-operation families (the operation alone vs after each other operation) for a sample of types
	// in the quick tier and for all of them in the thorough tier
	emitOpsFamilies := func(g *Gen, emit func(pre []string, probes, tag string, chunk int), singles bool) {
		thorough := g.Tier == "thorough"
		types := []string{"S1", "S2", "S3", "S4", "S5", "S6", "S7"}
		opsOf := []string{"val", "ptr", "iface", "slice", "map", "pmap", "u", "us"}
		for _, T := range types {
			pre := []string{"none", "use:ops." + T + ".ptr", "use:ops." + T + ".slice", "use:ops." + T + ".u", "use:ops." + T + ".val",
				"pt:ops" + T, "pt:ops" + T + "p:i1r2", "ptm:ops", "use:ops." + T + ".pmap+use:ops." + T + ".us"}
			if thorough {
				pre = append(pre, "use:ops."+T+".map+use:ops."+T+".ptr", "use:ops."+T+".iface", "ptm:ops:i1r3+use:ops."+T+".ptr", "use:ops:"+itoa(g.R.Intn(1<<20)))
			}
			emit(pre, "ops."+T, "-", 12)
		}
		if !singles {
			return
		}
		pick := map[string]bool{types[g.R.Intn(len(types))]: true, types[g.R.Intn(3)]: true}
		for _, T := range types {
			if !thorough && !pick[T] {
				continue
			}
			for _, op := range opsOf {
				if !thorough && op != "val" && op != "u" && op != "map" {
					continue
				}
				fam := []string{"none", "pt:ops" + T}
				for _, q := range opsOf {
					if q != op && (thorough || q == "ptr" || q == "slice" || q == "u" || q == "val") {
						fam = append(fam, "use:ops."+T+"."+q)
					}
				}
				emit(fam, "ops."+T+"."+op, "-", 12)
			}
		}
	}

	// C09, VM encoder + alternative decoder (SONIC_ENCODER_USE_VM=1 SONIC_USE_OPTDEC=1): the `ops` families
	registerGen("c09.histops", func(g *Gen) {
		emit := func(pre []string, probes, tag string, chunk int) {
			for len(pre) > 0 {
				n := chunk
				if n > len(pre) {
					n = len(pre)
				}
				g.Emit("phist", strings.Join(pre[:n], "|"), probes, tag)
				pre = pre[n:]
			}
		}
		emitOpsFamilies(g, emit, g.Tier == "thorough")
	})

	// C09, alternative decoder (worker and children run with SONIC_USE_OPTDEC=1): decoder-relevant families only
	registerGen("c09.histopt", func(g *Gen) {
		thorough := g.Tier == "thorough"
		seed := func() string { return itoa(g.R.Intn(1 << 20)) }
		emit := func(pre []string, probes, tag string, chunk int) {
			for len(pre) > 0 {
				n := chunk
				if n > len(pre) {
					n = len(pre)
				}
				g.Emit("phist", strings.Join(pre[:n], "|"), probes, tag)
				pre = pre[n:]
			}
		}
		emitDecoderFamilies(g, emit)
		pre := []string{"none", "use:core:" + seed(), "pt:core:i1", "pt:core:i10r10", "ptm:core:i1r5", "pt:deep:i1r10", "ptm:deeprev:i2r2",
			"ptm:rec:r3", "use:core.deep.u+ptm:core:i1"}
		if thorough {
			pre = append(pre, "fill:2100:"+seed(), "pt:core", "ptm:core", "pt:rec:i1r4", "pt:deeprev")
			for i := 0; i < 20; i++ {
				pre = append(pre, "use:core:"+seed(), fmt.Sprintf("ptm:core:i%dr%d", 1+g.R.Intn(5), g.R.Intn(6)))
			}
		}
		emit(pre, "core", "-", 12)
		emit([]string{"none", "use:samename:" + seed(), "pt:sameab", "ptm:sameab", "ptm:sameba", "ptm:sameloc", "ptm:samelocr", "ptm:sameall",
			"ptm:sameall:i1r2", "pt:sameout:i1r5", "ptm:sameout:r3", "use:samename.b.u+ptm:sameba"}, "samename", "same_name_two_pkgs", 12)
		collide := []string{"collide.x.u", "collide.y.u"}
		for i, p := range collide {
			emit([]string{"none", "pt:collide", "ptm:collider", "use:" + collide[1-i], "use:" + strings.TrimSuffix(collide[1-i], ".u")}, p, "-", 12)
		}
	})

	// C09: probe sets after families of preludes; every member of a family runs in its own fresh process
	registerGen("c09.hist", func(g *Gen) {
		thorough := g.Tier == "thorough"
		seed := func() string { return itoa(g.R.Intn(1 << 20)) }
		fill := "fill:2100:" + seed()
		emit := func(pre []string, probes, tag string, chunk int) {
			for len(pre) > 0 {
				n := chunk
				if n > len(pre) {
					n = len(pre)
				}
				g.Emit("phist", strings.Join(pre[:n], "|"), probes, tag)
				pre = pre[n:]
			}
		}
		// ---- core probes
		pre := []string{"none", "use:core:" + seed(), "use:core:" + seed(), "use:samename+use:ptrrecv+use:core:" + seed(),
			"pt:core", "pt:core:i1", "pt:core:i2r3", "pt:core:i10r10", "pt:core:r0", "ptm:core", "ptm:core:i1r5", "ptm:core:i3r0",
			"pt:deep:i1r10", "pt:deep:i2", "pt:deeprev", "ptm:deeprev:i2r2", "pt:rec", "ptm:rec:r3", "pt:rec:i1r4",
			"pt:deep:i1+use:core:" + seed(), "use:core.deep4+pt:deep:i1r3", "use:core.deep.u+ptm:core:i1", fill}
		if thorough {
			pre = append(pre, fill+"+ptm:core:i1r3", "pt:core:i2+"+fill, "fill:4200:"+seed(), "fill:8300:"+seed(), "fill:4200:"+seed()+"+pt:core:i1r9")
			for i := 0; i < 40; i++ {
				pre = append(pre, "use:core:"+seed(), fmt.Sprintf("ptm:core:i%dr%d", 1+g.R.Intn(5), g.R.Intn(6)),
					fmt.Sprintf("pt:deep:i%dr%d+use:core:%s", 1+g.R.Intn(4), g.R.Intn(8), seed()))
			}
		}
		emit(pre, "core", "-", 12)
		// ---- two distinct types that print identically
		pre = []string{"none", "use:samename:" + seed(), "use:samename:" + seed(), "pt:samea", "pt:sameb", "pt:sameab", "pt:sameba",
			"pt:samea:i1r3+pt:sameb:i1r3", "use:samename.a+pt:sameb", "use:samename.b.u+pt:samea", "use:core:" + seed(), "fill:300:" + seed()}
		if thorough {
			pre = append(pre, fill)
			for i := 0; i < 10; i++ {
				pre = append(pre, "use:samename:"+seed())
			}
		}
		emit(pre, "samename", "-", 12)
		pre = []string{"ptm:sameab", "ptm:sameba", "ptm:sameab:i1r3", "pt:sameout", "pt:sameout:i1r5", "ptm:sameout:r3",
			"use:samename.a+ptm:sameab", "use:samename.b.u+ptm:sameba", "ptm:sameloc", "ptm:samelocr", "ptm:sameall", "ptm:sameall:i1r2"}
		if thorough {
			pre = append(pre, fill+"+ptm:sameab")
		}
		emit(pre, "samename", "same_name_two_pkgs", 12)
		// ---- defined pointer types with Unmarshaler elements, wide structs
		emitDecoderFamilies(g, emit)
		// ---- operations on one type in different orders (shared field metadata)
		emitOpsFamilies(g, emit, true)
		// ---- two distinct reflect.StructOf types with the same runtime hash and layout: every probe alone
		// after the other type was used / pretouched first
		collide := []string{"collide.x", "collide.y", "collide.xptr", "collide.yptr", "collide.x.u", "collide.y.u"}
		for ci, p := range collide {
			if !thorough && ci%2 == 1 {
				continue
			}
			fam := []string{"none", "pt:collide", "ptm:collider"}
			for _, q := range collide {
				if q != p && (thorough || g.R.Intn(2) == 0 || q[:9] != p[:9]) {
					fam = append(fam, "use:"+q)
				}
			}
			emit(fam, p, "-", 12)
		}
		// ---- pointer-receiver marshaler leaves: every probe alone, after other probes / pretouch
		var names []string
		for _, p := range histProbes {
			if strings.HasPrefix(p.name, "ptrrecv.") {
				names = append(names, p.name)
			}
		}
		for _, p := range names {
			if !thorough && g.R.Intn(5) != 0 && p != "ptrrecv.K0ptr" {
				continue
			}
			plain := []string{"none", "use:core:" + seed()}
			if thorough {
				plain = append(plain, "fill:300:"+seed(), "pt:core:i1r3")
			}
			emit(plain, p, "-", 12)
			var tagged []string
			for _, q := range names {
				if q != p && (thorough || g.R.Intn(3) == 0 || (p == "ptrrecv.K0ptr" && q == "ptrrecv.L1val")) {
					tagged = append(tagged, "use:"+q)
				}
			}
			for _, s := range []string{"pt:ptrrecvL", "pt:ptrrecvT", "pt:ptrrecvK", "ptm:ptrrecvL:i1r3"} {
				if thorough || g.R.Intn(2) == 0 {
					tagged = append(tagged, s)
				}
			}
			emit(tagged, p, "ptr_recv_marshaler_leaf", 12)
		}
	})
}
