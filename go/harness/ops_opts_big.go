package main

// C18 - an option's effect must not depend on the size of the document / the internal buffer regime.
//
//   optbig <sw> <cfg> <dest> <tmpl> <elem-hex> <n>
//
// The document is built by repetition: template <tmpl> for destination <dest> with an array of <n> copies
// of the element (and the same template with ocBigSmall copies).  The small document is run exactly like
// an `optpair ... u` case (full dumps, judged by the same model relation); the big one is decoded under the
// same two Configs - through UnmarshalFromString and through the stream decoder fed in chunks - and dumped
// with runs of equal array elements collapsed ({"#":count,"v":dump}), so that the model can decide "the big
// result is the small result with the repetition count scaled" on a few hundred bytes.
//
// Thresholds the generator straddles (see gen_opts_big.go): optdec's pooled node buffer
// (internal/decoder/optdec/native.go defaultNodesCap = 1 MiB / sizeof(node) = 65536 nodes), the stream decoder's
// buffer (option.DefaultDecoderBufferSize, doubling) and option.LimitBufferSize.

import (
	"bytes"
	"encoding/hex"
	"fmt"
	"io"
	"reflect"
	"strconv"
	"strings"

	"github.com/bytedance/sonic/option"
)

const ocBigSmall = 5

// ocBigDoc: the document for (dest, tmpl) with n copies of elem in the repeated array
func ocBigDoc(dest, tmpl, elem string, n int) string {
	var sb strings.Builder
	sb.Grow(n*(len(elem)+1) + 256)
	rep := func(k int) {
		sb.WriteByte('[')
		for i := 0; i < k; i++ {
			if i > 0 {
				sb.WriteByte(',')
			}
			sb.WriteString(elem)
		}
		sb.WriteByte(']')
	}
	switch dest + "/" + tmpl {
	case "any/arr", "slany/arr":
		rep(n)
	case "any/obj", "mapany/obj":
		sb.WriteString(`{"a":`)
		rep(n)
		sb.WriteString(`,"z":` + elem + `,"m":{"k":` + elem + `}}`)
	case "nest/A": // the repeated array lands in a []interface{} field, interface{} / map fields follow it
		sb.WriteString(`{"N":7,"A":`)
		rep(n)
		sb.WriteString(`,"I":` + elem + `,"M":{"k":` + elem + `,"l":[` + elem + `]},"Sub":{"X":` + elem + `,"Z":[` + elem + `]},"Num":12.50}`)
	case "nest/I": // ... in an interface{} field, after the others
		sb.WriteString(`{"M":{"k":` + elem + `},"Sub":{"X":` + elem + `},"Fl":2.5,"I":`)
		rep(n)
		sb.WriteString(`,"A":[` + elem + `,` + elem + `]}`)
	case "nest/M": // ... inside a map[string]interface{} field
		sb.WriteString(`{"I":` + elem + `,"M":{"k":`)
		rep(n)
		sb.WriteString(`,"l":` + elem + `},"A":[` + elem + `]}`)
	case "nest/skip": // ... in a field the destination does not have (skipped, or an error under DisallowUnknownFields)
		sb.WriteString(`{"I":` + elem + `,"extra":`)
		rep(n)
		sb.WriteString(`,"A":[` + elem + `],"M":{"k":` + elem + `}}`)
	case "nest/case": // ... under a key that matches its field only without regard to case
		sb.WriteString(`{"a":`)
		rep(n)
		sb.WriteString(`,"i":` + elem + `,"I":` + elem + `,"m":{"k":` + elem + `}}`)
	case "flat/ab":
		sb.WriteString(`{"ab":`)
		rep(n)
		sb.WriteString(`,"AB":` + elem + `,"aB":` + elem + `,"XY":[` + elem + `],"unknown":` + elem + `}`)
	case "flat/tail": // the repeated array last, selected case-insensitively
		sb.WriteString(`{"E":` + elem + `,"unknown":[` + elem + `],"GG":`)
		rep(n)
		sb.WriteString(`}`)
	default:
		panic("unknown big template " + dest + "/" + tmpl)
	}
	return sb.String()
}

// ocDumpRuns: ocDump with runs of equal consecutive elements of a slice collapsed
func ocDumpRuns(w *bytes.Buffer, v reflect.Value, under bool) {
	if !v.IsValid() {
		w.WriteString("null")
		return
	}
	switch v.Kind() {
	case reflect.Interface:
		if v.IsNil() {
			w.WriteString("null")
			return
		}
		ocDumpRuns(w, v.Elem(), true)
	case reflect.Ptr:
		if v.IsNil() {
			w.WriteString("null")
			return
		}
		w.WriteString(`{"*":`)
		ocDumpRuns(w, v.Elem(), false)
		w.WriteString("}")
	case reflect.Slice:
		if v.IsNil() {
			w.WriteString("null")
			return
		}
		w.WriteString("[")
		var prev, cur bytes.Buffer
		count, first := 0, true
		flush := func() {
			if count == 0 {
				return
			}
			if !first {
				w.WriteString(",")
			}
			first = false
			w.WriteString(`{"#":` + strconv.Itoa(count) + `,"v":`)
			w.Write(prev.Bytes())
			w.WriteString("}")
		}
		for i := 0; i < v.Len(); i++ {
			cur.Reset()
			ocDumpRuns(&cur, v.Index(i), false)
			if count > 0 && bytes.Equal(cur.Bytes(), prev.Bytes()) {
				count++
				continue
			}
			flush()
			prev.Reset()
			prev.Write(cur.Bytes())
			count = 1
		}
		flush()
		w.WriteString("]")
	case reflect.Map:
		if v.IsNil() {
			w.WriteString("null")
			return
		}
		keys := make([]string, 0, v.Len())
		vals := map[string]reflect.Value{}
		it := v.MapRange()
		for it.Next() {
			k := hex.EncodeToString([]byte(it.Key().String()))
			keys = append(keys, k)
			vals[k] = it.Value()
		}
		ocSortStrings(keys)
		w.WriteString("{")
		for i, k := range keys {
			if i > 0 {
				w.WriteString(",")
			}
			w.WriteString(`"k` + k + `":`)
			ocDumpRuns(w, vals[k], false)
		}
		w.WriteString("}")
	case reflect.Struct:
		w.WriteString("{")
		for i := 0; i < v.NumField(); i++ {
			if i > 0 {
				w.WriteString(",")
			}
			w.WriteString(`"` + v.Type().Field(i).Name + `":`)
			ocDumpRuns(w, v.Field(i), false)
		}
		w.WriteString("}")
	default:
		ocDump(w, v, under) // scalars: as in the full dump
	}
}

func ocSortStrings(a []string) {
	for i := 1; i < len(a); i++ {
		for j := i; j > 0 && a[j] < a[j-1]; j-- {
			a[j], a[j-1] = a[j-1], a[j]
		}
	}
}

func ocRunsOf(dest interface{}, err error) string {
	if err != nil {
		return "E:" + ocErrKind(err)
	}
	var w bytes.Buffer
	ocDumpRuns(&w, reflect.ValueOf(dest).Elem(), false)
	return "O:" + hex.EncodeToString(w.Bytes())
}

// chunked reader: hands the document over in pieces of the given size (so that the stream decoder has to
// grow and refill its buffer)
type ocChunkReader struct {
	s     string
	chunk int
}

func (r *ocChunkReader) Read(p []byte) (int, error) {
	if len(r.s) == 0 {
		return 0, io.EOF
	}
	n := r.chunk
	if n > len(p) {
		n = len(p)
	}
	if n > len(r.s) {
		n = len(r.s)
	}
	copy(p, r.s[:n])
	r.s = r.s[n:]
	return n, nil
}

func ocBigRun(c uint64, kind, doc string, stream bool) (res string) {
	defer func() {
		if r := recover(); r != nil {
			if fmt.Sprint(r) == ocBothMsg {
				res = "P:both_number_modes"
				return
			}
			panic(r)
		}
	}()
	dest := ocNewDest(kind)
	api := ocConfig(c).Froze()
	var err error
	if stream {
		// a chunk a little larger than the initial buffer: the first refill already has to grow
		err = api.NewDecoder(&ocChunkReader{s: doc, chunk: ocBigChunk(len(doc))}).Decode(dest)
	} else {
		err = api.UnmarshalFromString(doc, dest)
	}
	return ocRunsOf(dest, err)
}

func ocBig(sw int, cfg uint64, kind, tmpl, elemHex string, n int) string {
	c0 := cfg &^ (1 << uint(sw))
	c1 := c0 | 1<<uint(sw)
	elem := string(unhexArg(elemHex))
	small := ocBigDoc(kind, tmpl, elem, ocBigSmall)
	big := ocBigDoc(kind, tmpl, elem, n)
	// the small document: exactly an `optpair ... u` case
	out := []string{ocPairUnmarshal(sw, cfg, kind, hexArg([]byte(small))), "doc=" + hexArg([]byte(small)),
		"ns=" + itoa(ocBigSmall), "nb=" + itoa(n), "bytes=" + itoa(len(big)),
		"ca=" + ocBigRun(c0, kind, small, false), "cb=" + ocBigRun(c1, kind, small, false),
		"CA=" + ocBigRun(c0, kind, big, false), "CB=" + ocBigRun(c1, kind, big, false),
		"SA=" + ocBigRun(c0, kind, big, true), "SB=" + ocBigRun(c1, kind, big, true)}
	return strings.Join(out, "\t")
}

func init() {
	registerOp("optbig", func(a []string) string {
		sw, _ := strconv.Atoi(a[0])
		cfg, _ := strconv.ParseUint(a[1], 10, 64)
		n, _ := strconv.Atoi(a[5])
		if sw < 0 || sw >= len(ocFieldNames) || n < 0 || n > 4000000 {
			return "sonic=unsupported"
		}
		return ocBig(sw, cfg, a[2], a[3], a[4], n)
	})
}

// chunk size of the stream feed: a little more than the decoder's initial buffer for documents up to 256 KiB (many
// refills, every growth step taken), 64 KiB + 1 beyond (the buffer still has to double up to the document size)
func ocBigChunk(docLen int) int {
	if docLen <= 256<<10 {
		return int(option.DefaultDecoderBufferSize) + 1
	}
	return 64<<10 + 1
}
