package main

// C15: operation sequences on a real ast.Node.
//
//   ast <mode> <doc hex> <op>...        one op per tab field
//   mode ::= raw (ast.NewRaw) | get (sonic.Get, empty path) | cr (ast.NewRawConcurrentRead)
//   op   ::= <path>:<name>[:<arg>[:<arg>]]
//   path ::= "." | sel("/"sel)*      sel ::= k<hex key, "-" = empty> | i<n>
//   name ::= get k | idx i | len | iter | set k V | seti i V | add V | unset k | unseti i | pop
//          | move dst src | sort r | load | raw | mar          (k, V hex; V is JSON text -> ast.NewRaw)
//
// The operations are applied in order to ONE node (the "main line"); only the direct return value of
// every call is recorded there, so nothing but the listed operations ever touches the node and its lazy
// state survives between steps.  Value observations that would themselves load the node (Raw() of a
// returned child, the values met by an iteration, MarshalJSON of the root after the step) are taken on
// a fresh node on which the same prefix of operations has been replayed, and which is then thrown away.
//
// answer: sonic=<step>;<step>...   step = <ret>~<val>~<mar>
//   ret: v (child exists) | nx | e:<kind> | n:<int> | b:0|1 | ok | it:<keys/types> | notarget | PANIC
//   val: canonical value text (get/idx/iter/raw/mar), full:<n> = Len() after complete loading (len), or "_" ; mar: canonical MarshalJSON of the root or "_"
//   long canonical texts are replaced by #<astFnv64>/<len>.

import (
	"bytes"
	"encoding/hex"
	"encoding/json"
	"fmt"
	"strconv"
	"strings"

	"github.com/bytedance/sonic"
	"github.com/bytedance/sonic/ast"
)

// ---------------------------------------------------------------- canonical form

// canonJSON parses text with encoding/json (token stream, numbers as literals, duplicate keys kept)
// and prints it compactly with every string as the hex of its decoded bytes.
func canonJSON(text []byte) (string, bool) {
	dec := json.NewDecoder(bytes.NewReader(text))
	dec.UseNumber()
	var sb strings.Builder
	if !astCanonValue(dec, &sb) {
		return "", false
	}
	if _, err := dec.Token(); err == nil {
		return "", false // trailing value
	}
	// only white space may follow
	rest := text[dec.InputOffset():]
	if len(bytes.TrimSpace(rest)) != 0 {
		return "", false
	}
	return sb.String(), true
}

func canonStr(sb *strings.Builder, s string) {
	sb.WriteByte('"')
	sb.WriteString(hex.EncodeToString([]byte(s)))
	sb.WriteByte('"')
}

func astCanonValue(dec *json.Decoder, sb *strings.Builder) bool {
	tok, err := dec.Token()
	if err != nil {
		return false
	}
	switch t := tok.(type) {
	case nil:
		sb.WriteString("null")
	case bool:
		if t {
			sb.WriteString("true")
		} else {
			sb.WriteString("false")
		}
	case json.Number:
		sb.WriteString(string(t))
	case string:
		canonStr(sb, t)
	case json.Delim:
		switch t {
		case '[':
			sb.WriteByte('[')
			first := true
			for dec.More() {
				if !first {
					sb.WriteByte(',')
				}
				first = false
				if !astCanonValue(dec, sb) {
					return false
				}
			}
			if tok, err := dec.Token(); err != nil || tok != json.Delim(']') {
				return false
			}
			sb.WriteByte(']')
		case '{':
			sb.WriteByte('{')
			first := true
			for dec.More() {
				if !first {
					sb.WriteByte(',')
				}
				first = false
				k, err := dec.Token()
				ks, ok := k.(string)
				if err != nil || !ok {
					return false
				}
				canonStr(sb, ks)
				sb.WriteByte(':')
				if !astCanonValue(dec, sb) {
					return false
				}
			}
			if tok, err := dec.Token(); err != nil || tok != json.Delim('}') {
				return false
			}
			sb.WriteByte('}')
		default:
			return false
		}
	default:
		return false
	}
	return true
}

func astFnv64(s string) uint64 {
	h := uint64(14695981039346656037)
	for i := 0; i < len(s); i++ {
		h ^= uint64(s[i])
		h *= 1099511628211
	}
	return h
}

// cv shortens a canonical text for the wire
func cv(s string) string {
	if len(s) <= 60 {
		return s
	}
	return fmt.Sprintf("#%016x/%d", astFnv64(s), len(s))
}

func astCanonOf(text string, err error) string {
	if err != nil {
		return "e:" + astErrKind(err)
	}
	c, ok := canonJSON([]byte(text))
	if !ok {
		p := text
		if len(p) > 24 {
			p = p[:24]
		}
		return "INVALID:" + hex.EncodeToString([]byte(p))
	}
	return cv(c)
}

func astErrKind(err error) string {
	if err == nil {
		return "none"
	}
	if err == ast.ErrNotExist {
		return "notfound"
	}
	if err == ast.ErrUnsupportType {
		return "unsupported"
	}
	m := err.Error()
	switch {
	case strings.Contains(m, "value not exists"):
		return "notfound"
	case strings.Contains(m, "unsupported type"):
		return "unsupported"
	case strings.Contains(m, "Syntax error"), strings.Contains(m, "syntax"):
		return "syntax"
	}
	return "other"
}

// ---------------------------------------------------------------- one operation

type astOp struct {
	path []string
	name string
	args []string
}

func parseAstOp(s string) astOp {
	f := strings.Split(s, ":")
	if len(f) < 2 {
		panic("bad ast op " + s)
	}
	op := astOp{name: f[1], args: f[2:]}
	if f[0] != "." && f[0] != "" {
		op.path = strings.Split(f[0], "/")
	}
	return op
}

func selKey(s string) string { return string(unhexArg(s)) }

// childState classifies what Get/Index returned: "v" exists, "nx" absent, "e:<kind>" error node
func childState(c *ast.Node) string {
	if c == nil {
		return "nx"
	}
	if c.Exists() {
		return "v"
	}
	if err := c.Check(); err != nil {
		k := astErrKind(err)
		if k == "notfound" {
			return "nx"
		}
		return "e:" + k
	}
	return "nx" // V_NONE
}

func resolve(root *ast.Node, path []string) *ast.Node {
	cur := root
	for _, sel := range path {
		if len(sel) == 0 {
			return nil
		}
		switch sel[0] {
		case 'k':
			cur = cur.Get(selKey(sel[1:]))
		case 'i':
			n, err := strconv.Atoi(sel[1:])
			if err != nil {
				panic("bad selector")
			}
			cur = cur.Index(n)
		default:
			panic("bad selector")
		}
		if cur == nil || !cur.Exists() {
			return nil
		}
	}
	return cur
}

func retBool(b bool, err error) string {
	if err != nil {
		return "e:" + astErrKind(err)
	}
	return "b:" + b01(b)
}

func retErr(err error) string {
	if err != nil {
		return "e:" + astErrKind(err)
	}
	return "ok"
}

func typeTag(t int) string {
	switch t {
	case ast.V_NULL:
		return "z"
	case ast.V_TRUE, ast.V_FALSE:
		return "b"
	case ast.V_ARRAY:
		return "a"
	case ast.V_OBJECT:
		return "o"
	case ast.V_STRING:
		return "s"
	case ast.V_NUMBER:
		return "n"
	case ast.V_NONE:
		return "-"
	case ast.V_ERROR:
		return "!"
	}
	return "?"
}

func argInt(s string) int {
	n, err := strconv.Atoi(s)
	if err != nil {
		panic("bad int arg")
	}
	return n
}

// applyAst applies one operation; wantVal asks for the value observation too (may load the node)
func applyAst(root *ast.Node, op astOp, wantVal bool) (ret string, val string) {
	val = "_"
	t := resolve(root, op.path)
	if t == nil {
		return "notarget", val
	}
	newVal := func(h string) ast.Node { return ast.NewRaw(string(unhexArg(h))) }
	switch op.name {
	case "get":
		c := t.Get(selKey(op.args[0]))
		ret = childState(c)
		if wantVal && ret == "v" {
			val = astCanonOf(c.Raw())
		}
	case "idx":
		c := t.Index(argInt(op.args[0]))
		ret = childState(c)
		if wantVal && ret == "v" {
			val = astCanonOf(c.Raw())
		}
	case "len":
		n, err := t.Len()
		if err != nil {
			ret = "e:" + astErrKind(err)
		} else {
			ret = "n:" + itoa(n)
			if wantVal {
				// replayed copy only: the length once the node has been loaded completely
				// (tells "counted only what was parsed so far" from a wrong count)
				t.Load()
				if n2, err2 := t.Len(); err2 == nil {
					val = "full:" + itoa(n2)
				} else {
					val = "full:e:" + astErrKind(err2)
				}
			}
		}
	case "iter":
		// main line: Values()/Properties() + Next, reading only key and type of what Next copies out
		// (a copied child shares its parser state with the original, so nothing is called on it)
		isObj := t.Type() == ast.V_OBJECT
		var sb strings.Builder
		if isObj {
			it, err := t.Properties()
			if err != nil {
				return "e:" + astErrKind(err), val
			}
			var p ast.Pair
			for it.Next(&p) {
				sb.WriteString(hexArg([]byte(p.Key)))
				sb.WriteString(typeTag(p.Value.Type()))
				sb.WriteByte('.')
			}
		} else {
			it, err := t.Values()
			if err != nil {
				return "e:" + astErrKind(err), val
			}
			var v ast.Node
			for it.Next(&v) {
				sb.WriteString(typeTag(v.Type()))
			}
		}
		ret = "it:" + cv(sb.String())
		if wantVal {
			// replayed copy only: the values met, through ForEach (pointers to the children themselves)
			var vb strings.Builder
			first := true
			if isObj {
				vb.WriteByte('{')
			} else {
				vb.WriteByte('[')
			}
			t.ForEach(func(path ast.Sequence, node *ast.Node) bool {
				if !first {
					vb.WriteByte(',')
				}
				first = false
				if isObj && path.Key != nil {
					canonStr(&vb, *path.Key)
					vb.WriteByte(':')
				}
				raw, err := node.Raw()
				if err != nil {
					vb.WriteString("!" + astErrKind(err))
				} else if c, ok := canonJSON([]byte(raw)); ok {
					vb.WriteString(c)
				} else {
					vb.WriteString("!invalid")
				}
				return true
			})
			if isObj {
				vb.WriteByte('}')
			} else {
				vb.WriteByte(']')
			}
			val = cv(vb.String())
		}
	case "set":
		ret = retBool(t.Set(selKey(op.args[0]), newVal(op.args[1])))
	case "seti":
		ret = retBool(t.SetByIndex(argInt(op.args[0]), newVal(op.args[1])))
	case "add":
		ret = retErr(t.Add(newVal(op.args[0])))
	case "unset":
		ret = retBool(t.Unset(selKey(op.args[0])))
	case "unseti":
		ret = retBool(t.UnsetByIndex(argInt(op.args[0])))
	case "pop":
		ret = retErr(t.Pop())
	case "move":
		ret = retErr(t.Move(argInt(op.args[0]), argInt(op.args[1])))
	case "sort":
		ret = retErr(t.SortKeys(op.args[0] == "1"))
	case "load":
		ret = retErr(t.Load())
	case "raw":
		// a user-level read that may load the node: part of the main line
		s, err := t.Raw()
		ret = "v"
		val = astCanonOf(s, err)
	case "mar":
		b, err := t.MarshalJSON()
		ret = "v"
		val = astCanonOf(string(b), err)
	default:
		panic("unknown ast op " + op.name)
	}
	return ret, val
}

func newAstRoot(mode, doc string) (ast.Node, string) {
	switch mode {
	case "raw":
		return ast.NewRaw(doc), ""
	case "cr":
		return ast.NewRawConcurrentRead(doc), ""
	case "get":
		n, err := sonic.Get([]byte(doc))
		if err != nil {
			return n, "e:" + astErrKind(err)
		}
		return n, ""
	}
	panic("unknown ast mode " + mode)
}

func safeApply(root *ast.Node, op astOp, wantVal bool) (ret, val string, panicked bool) {
	defer func() {
		if r := recover(); r != nil {
			msg := fmt.Sprint(r)
			if len(msg) > 60 {
				msg = msg[:60]
			}
			msg = strings.Map(func(r rune) rune {
				if r == '\t' || r == '\n' || r == '\r' || r == ';' || r == '~' || r == '=' {
					return ' '
				}
				return r
			}, msg)
			ret, val, panicked = "PANIC:"+msg, "_", true
		}
	}()
	ret, val = applyAst(root, op, wantVal)
	return
}

func astSampled(n, i int) bool {
	if n <= 48 {
		return true
	}
	return i%((n+39)/40) == 0 || i == n-1
}

func init() {
	registerOp("ast", func(a []string) string {
		mode := a[0]
		doc := string(unhexArg(a[1]))
		opsS := a[2:]
		opsP := make([]astOp, len(opsS))
		for i, s := range opsS {
			opsP[i] = parseAstOp(s)
		}
		root, e := newAstRoot(mode, doc)
		if e != "" || !root.Valid() {
			if e == "" {
				e = "e:" + astErrKind(root.Check())
			}
			return "sonic=" + e + "\tsteps=0"
		}
		if !root.Exists() {
			return "sonic=nx\tsteps=0"
		}
		var sb strings.Builder
		n := len(opsP)
		// observation of the untouched document first (step 0 = nothing applied)
		{
			clone, _ := newAstRoot(mode, doc)
			b, err := clone.MarshalJSON()
			sb.WriteString("init~_~" + astCanonOf(string(b), err))
		}
		for i, op := range opsP {
			ret, val, pan := safeApply(&root, op, false)
			mar := "_"
			if !pan && (astSampled(n, i) || op.name == "len") {
				clone, _ := newAstRoot(mode, doc)
				bad := false
				for j := 0; j <= i; j++ {
					r2, v2, p2 := safeApply(&clone, opsP[j], j == i)
					if p2 {
						bad = true
						mar = "PANIC"
						break
					}
					if j == i {
						if r2 != ret {
							// the replay must reproduce the main line (determinism check)
							mar = "NONDET:" + r2
							bad = true
						} else if v2 != "_" {
							val = v2
						}
					}
				}
				if !bad {
					b, err := clone.MarshalJSON()
					mar = astCanonOf(string(b), err)
				}
			}
			sb.WriteByte(';')
			sb.WriteString(ret + "~" + val + "~" + mar)
			if pan {
				break
			}
		}
		return "sonic=" + sb.String() + "\tsteps=" + itoa(n)
	})
}
