module verifharness

go 1.18

require (
	github.com/bytedance/sonic v0.0.0
	github.com/bytedance/sonic/loader v0.5.1
	github.com/klauspost/cpuid/v2 v2.2.9
)

require (
	github.com/bytedance/gopkg v0.1.3 // indirect
	github.com/cloudwego/base64x v0.1.6 // indirect
	github.com/twitchyliquid64/golang-asm v0.15.1 // indirect
	golang.org/x/arch v0.0.0-20210923205945-b76863e36670 // indirect
)

replace github.com/bytedance/sonic => /repo

replace github.com/bytedance/sonic/loader => /repo/loader
