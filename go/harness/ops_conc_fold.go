package main

// C08: `fold <seed> <ntypes> <goroutines> <iters>` - goroutines decode, at the same time, documents whose keys
// match the struct fields only case-insensitively (fresh random upper/lower-case spellings every time) into the
// same never-seen struct types (racing first use too); every decoded value is compared with encoding/json's.
//
//	answer: sonic=ok | bad:<first wrong result>   seq=ok | bad:... (one pass alone, before the race)   calls=<n>

import (
	"encoding/json"
	"fmt"
	"math/rand"
	"reflect"
	"strconv"
	"strings"
	"sync"
	"sync/atomic"

	"github.com/bytedance/sonic"
)

var foldUniq uint64

func foldSpell(r *rand.Rand, name string) string {
	b := []byte(name)
	for i, c := range b {
		if r.Intn(2) == 0 {
			if c >= 'a' && c <= 'z' {
				b[i] = c - 32
			} else if c >= 'A' && c <= 'Z' {
				b[i] = c + 32
			}
		}
	}
	return string(b)
}

func foldDoc(r *rand.Rand, names []string, salt int) string {
	var sb strings.Builder
	sb.WriteByte('{')
	for i, n := range r.Perm(len(names)) {
		if i > 0 {
			sb.WriteByte(',')
		}
		fmt.Fprintf(&sb, "%q:\"v%d_%d\"", foldSpell(r, names[n]), n, salt)
	}
	sb.WriteByte('}')
	return sb.String()
}

func foldCheck(t reflect.Type, doc string) string {
	ps := reflect.New(t)
	pe := reflect.New(t)
	es := sonic.UnmarshalString(doc, ps.Interface())
	ee := json.Unmarshal([]byte(doc), pe.Interface())
	if (es == nil) != (ee == nil) {
		return "error mismatch on " + clip(doc, 80)
	}
	a, b := stdDump(ps.Interface()), stdDump(pe.Interface())
	if a != b {
		return "sonic " + clip(a, 120) + " std " + clip(b, 120)
	}
	return ""
}

func opFold(a []string) string {
	seed, _ := strconv.ParseInt(a[0], 10, 64)
	nt, _ := strconv.Atoi(a[1])
	ng, _ := strconv.Atoi(a[2])
	iters, _ := strconv.Atoi(a[3])
	r := rand.New(rand.NewSource(seed))
	types := make([]reflect.Type, nt)
	names := make([][]string, nt)
	for i := range types {
		u := atomic.AddUint64(&foldUniq, 1)
		nf := 8 + r.Intn(12)
		fs := make([]reflect.StructField, nf)
		for k := range fs {
			n := fmt.Sprintf("Field%sAlpha%d_%d", string(rune('A'+k%26)), u, k)
			fs[k] = reflect.StructField{Name: n, Type: reflect.TypeOf("")}
			names[i] = append(names[i], n)
		}
		types[i] = reflect.StructOf(fs)
	}
	var bad atomic.Value
	start := make(chan struct{})
	var wg sync.WaitGroup
	for g := 0; g < ng; g++ {
		gr := rand.New(rand.NewSource(seed*977 + int64(g)))
		wg.Add(1)
		go func(g int, gr *rand.Rand) {
			defer wg.Done()
			<-start
			for it := 0; it < iters; it++ {
				ti := (it + g%2*gr.Intn(nt)) % nt
				if msg := foldCheck(types[ti], foldDoc(gr, names[ti], g*100000+it)); msg != "" {
					bad.Store(fmt.Sprintf("goroutine %d iteration %d: %s", g, it, msg))
				}
			}
		}(g, gr)
	}
	close(start)
	wg.Wait()
	// the same kind of call alone, afterwards
	seq := "ok"
	for ti := range types {
		if msg := foldCheck(types[ti], foldDoc(r, names[ti], -1)); msg != "" {
			seq = "bad:" + msg
			break
		}
	}
	res := "ok"
	if b := bad.Load(); b != nil {
		res = "bad:" + clip(b.(string), 400)
	}
	return "sonic=" + res + "\tseq=" + seq + "\tcalls=" + itoa(ng*iters)
}

func init() {
	registerOp("fold", opFold)
}
