package main

// Generators of property C10 (loader tables and run-time stress).

import (
	"sort"
	"strconv"
	"strings"
)

type pcEnt struct {
	pc  uint64
	val int64
}

func tableStr(t []pcEnt) string {
	if len(t) == 0 {
		return "-"
	}
	s := make([]string, len(t))
	for i, e := range t {
		s[i] = strconv.FormatUint(e.pc, 10) + ":" + strconv.FormatInt(e.val, 10)
	}
	return strings.Join(s, ",")
}

func probesFor(g *Gen, t []pcEnt, limit uint64) string {
	set := map[uint64]bool{0: true}
	add := func(p uint64) {
		if p < limit {
			set[p] = true
		}
	}
	var max uint64
	for _, e := range t {
		if e.pc > 0 {
			add(e.pc - 1)
		}
		add(e.pc)
		add(e.pc + 1)
		if e.pc > max {
			max = e.pc
		}
	}
	for i := 0; i < 4; i++ {
		add(uint64(g.R.Int63n(int64(max + 4))))
	}
	add(max + 2)
	add(max + 3)
	var l []uint64
	for p := range set {
		l = append(l, p)
	}
	sort.Slice(l, func(i, j int) bool { return l[i] < l[j] })
	s := make([]string, len(l))
	for i, p := range l {
		s[i] = strconv.FormatUint(p, 10)
	}
	return strings.Join(s, ",")
}

func randVal(g *Gen) int64 {
	switch g.R.Intn(10) {
	case 0:
		return int64(int32(g.R.Uint32())) // anywhere in int32
	case 1:
		return []int64{-2147483648, 2147483647, -1, 0, -2, 1, 63, 64, -64, -65, 8191, 8192}[g.R.Intn(12)]
	case 2:
		return int64(g.R.Intn(1<<20)) - 1<<19
	default:
		return int64(g.R.Intn(64)) * 8 // stack depths
	}
}

func randGap(g *Gen, small bool) uint64 {
	switch k := g.R.Intn(12); {
	case k == 0 && !small:
		return uint64(g.R.Intn(1 << 28))
	case k == 1:
		return []uint64{1, 127, 128, 129, 16383, 16384, 16385}[g.R.Intn(7)] // varint length boundaries
	case k == 2 && !small:
		return []uint64{2097151, 2097152, 268435455, 268435456}[g.R.Intn(4)]
	case k < 6:
		return uint64(1 + g.R.Intn(8))
	default:
		return uint64(1 + g.R.Intn(300))
	}
}

// wellFormed: strictly increasing pcs (> 0), no value repeats its predecessor (-1 before the first)
func wellFormed(g *Gen, maxLen int, small bool) []pcEnt {
	n := g.R.Intn(maxLen + 1)
	var t []pcEnt
	pc := uint64(0)
	prev := int64(-1)
	for i := 0; i < n; i++ {
		gap := randGap(g, small)
		if small && pc+gap > 3000 {
			break
		}
		if pc+gap > 4294967295 {
			break
		}
		pc += gap
		v := randVal(g)
		for v == prev {
			v = randVal(g)
		}
		t = append(t, pcEnt{pc, v})
		prev = v
	}
	return t
}

// pcspLike: the shape GetPcspTable produces: pushes, a frame, pops, RET, tail
func pcspLike(g *Gen) []pcEnt {
	var t []pcEnt
	pc := uint64(0)
	sp := int64(0)
	push := g.R.Intn(6)
	for i := 0; i < push; i++ {
		pc += uint64(1 + g.R.Intn(2))
		t = append(t, pcEnt{pc, sp})
		sp += 8
	}
	frame := int64(8 * (1 + g.R.Intn(60)))
	pc += uint64(4 + g.R.Intn(4))
	t = append(t, pcEnt{pc, sp})
	sp += frame
	max := sp
	pc += uint64(1 + g.R.Intn(40000))
	t = append(t, pcEnt{pc, sp})
	sp -= frame
	for i := 0; i < push; i++ {
		pc += uint64(1 + g.R.Intn(2))
		t = append(t, pcEnt{pc, sp})
		sp -= 8
	}
	pc++
	t = append(t, pcEnt{pc, 0}) // RET
	if g.R.Intn(2) == 0 {
		pc += uint64(1 + g.R.Intn(5000))
		t = append(t, pcEnt{pc, max})
	}
	return t
}

// mutate: the ways a table can leave the precondition
func mutatePcTable(g *Gen, t []pcEnt, small bool) []pcEnt {
	t = append([]pcEnt(nil), t...)
	if len(t) == 0 {
		return []pcEnt{{uint64(g.R.Intn(40)), -1}}
	}
	i := g.R.Intn(len(t))
	switch g.R.Intn(7) {
	case 0: // repeated value (dv == 0)
		if i > 0 {
			t[i].val = t[i-1].val
		} else {
			t[0].val = -1
		}
	case 1: // repeated pc (dp == 0)
		if i > 0 {
			t[i].pc = t[i-1].pc
		} else {
			t[0].pc = 0
		}
	case 2: // first value -1
		t[0].val = -1
	case 3: // all values -1: nothing is emitted
		for k := range t {
			t[k].val = -1
		}
	case 4: // descending pc: MarshalBinary panics
		if small {
			t[0].val = -1
		} else if i > 0 && t[i-1].pc > 0 {
			t[i].pc = t[i-1].pc - 1
		} else {
			t = append(t, pcEnt{0, 5})
		}
	case 5: // a run of equal values
		for k := i; k < len(t) && k < i+3; k++ {
			t[k].val = t[i].val
		}
	case 6: // int32 wrap between neighbours
		t[i].val = 2147483647
		if i+1 < len(t) {
			t[i+1].val = -2147483648
		}
	}
	return t
}

func randBits(g *Gen, max int) string {
	n := g.R.Intn(max + 1)
	if n == 0 {
		if g.R.Intn(2) == 0 {
			return "nil"
		}
		return "-"
	}
	b := make([]byte, n)
	for i := range b {
		b[i] = '0' + byte(g.R.Intn(2))
	}
	return string(b)
}

func init() {
	registerGen("c10.pcdata", func(g *Gen) {
		for i := 0; i < g.N; i++ {
			var t []pcEnt
			switch g.R.Intn(4) {
			case 0:
				t = pcspLike(g)
			default:
				t = wellFormed(g, 24, false)
			}
			g.Emit("pcdata", tableStr(t), probesFor(g, t, 1<<33))
		}
	})
	registerGen("c10.pcdata.bad", func(g *Gen) {
		for i := 0; i < g.N; i++ {
			t := mutatePcTable(g, wellFormed(g, 10, false), false)
			if g.R.Intn(4) == 0 {
				t = mutatePcTable(g, t, false)
			}
			g.Emit("pcdata", tableStr(t), probesFor(g, t, 1<<33))
		}
	})
	registerGen("c10.pcline", func(g *Gen) {
		for i := 0; i < g.N; i++ {
			t := wellFormed(g, 12, true)
			if i%3 == 0 {
				t = mutatePcTable(g, t, true)
			}
			var max uint64
			for _, e := range t {
				if e.pc > max {
					max = e.pc
				}
			}
			g.Emit("pcline", tableStr(t), probesFor(g, t, max+3))
		}
	})
	registerGen("c10.loadone", func(g *Gen) {
		for i := 0; i < g.N; i++ {
			size := []int{1, 2, 16, 127, 128, 129, 4095, 4096, 4097, 16383, 16384, 70000}[g.R.Intn(12)]
			if g.R.Intn(2) == 0 {
				size = 1 + g.R.Intn(20000)
			}
			t := []pcEnt{{uint64(size), 0}}
			g.Emit("loadone", strconv.Itoa(size), probesFor(g, t, uint64(size)+2))
		}
	})
	registerGen("c10.stackmap", func(g *Gen) {
		g.Emit("stackmap", "-")
		// the maps sonic really builds
		g.Emit("stackmap", "f1,f0,f0,f1,f1,f0,f1,f0,f1")
		g.Emit("stackmap", "f1,f1,f1,f0")
		g.Emit("stackmap", "f1")
		g.Emit("stackmap", "f0")
		for n := 0; n <= 33; n++ { // every length across byte boundaries, all set / all clear
			g.Emit("stackmap", strconv.Itoa(n)+"x1")
			g.Emit("stackmap", strconv.Itoa(n)+"x0")
		}
		for i := 0; i < g.N; i++ {
			if i%4 == 3 {
				np := strconv.Itoa(g.R.Intn(2))
				size := 1 + g.R.Intn(5000)
				t := wellFormed(g, 8, true)
				if g.R.Intn(5) == 0 {
					t = mutatePcTable(g, t, false)
				}
				g.Emit("loadtabs", np, strconv.Itoa(size), randBits(g, 40), randBits(g, 40), tableStr(t))
				continue
			}
			k := 1 + g.R.Intn(12)
			ops := make([]string, k)
			for j := range ops {
				if g.R.Intn(2) == 0 {
					ops[j] = "f" + strconv.Itoa(g.R.Intn(2))
				} else {
					ops[j] = strconv.Itoa(g.R.Intn(20)) + "x" + strconv.Itoa(g.R.Intn(2))
				}
			}
			g.Emit("stackmap", strings.Join(ops, ","))
		}
	})
	kinds := []string{"marshaler", "textmarshaler", "unmarshaler", "textunmarshaler", "mixedenc", "mixeddec", "iface", "bg"}
	registerGen("c10.gcstress", func(g *Gen) {
		for i := 0; i < g.N; i++ {
			size := 1 + g.R.Intn(6)
			if i%16 == 15 {
				size = 20 + g.R.Intn(40)
			}
			g.Emit("gcstress", kinds[i%len(kinds)], strconv.Itoa(g.R.Intn(1<<30)), strconv.Itoa(size))
		}
	})
	// failing-input search aimed at single pointer slots (vk argument word, _Stack.ep, receivers, encoder buffer)
	slotKinds := []string{"vk", "ep", "recv", "vkreuse", "ep", "encbuf", "vk", "enckey"}
	registerGen("c10.gcslot", func(g *Gen) {
		for i := 0; i < g.N; i++ {
			k := slotKinds[i%len(slotKinds)]
			n := 1 + g.R.Intn(4)
			if k == "recv" {
				n = 1 + g.R.Intn(3)
			}
			g.Emit("gcslot", k, strconv.Itoa(g.R.Intn(1<<30)), strconv.Itoa(n))
		}
	})
	// un-zeroed pointer-typed arenas (optdec fast-map mode) and stale stack addresses in heap state (VM encoder)
	registerGen("c10.nullarena", func(g *Gen) {
		sizes := []int{4, 8, 32, 64, 200, 5, 16, 100}
		for i := 0; i < g.N; i++ {
			n := sizes[i%len(sizes)]
			if i >= len(sizes) && g.R.Intn(2) == 0 {
				n = 1 + g.R.Intn(300)
			}
			g.Emit("nullarena", strconv.Itoa(g.R.Intn(1<<30)), strconv.Itoa(n))
		}
	})
	registerGen("c10.vmrecurse", func(g *Gen) {
		for i := 0; i < g.N; i++ {
			g.Emit("vmrecurse", strconv.Itoa(g.R.Intn(1<<30)), strconv.Itoa(g.R.Intn(3)))
		}
	})
	// with SONIC_SYNC_GC every opcode of a generated decoder collects twice: keep the documents small
	registerGen("c10.gcstress.sync", func(g *Gen) {
		for i := 0; i < g.N; i++ {
			g.Emit("gcstress", kinds[i%6], strconv.Itoa(g.R.Intn(1<<30)), strconv.Itoa(1+g.R.Intn(2)))
		}
	})
}
