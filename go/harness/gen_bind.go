package main

// Generators for C01 / C11 (typed Unmarshal against encoding/json, decoder implementations against
// each other).  Streams:
//
//	bind.valid      value-directed documents: a random value of a random type is marshalled with
//	                encoding/json, then mutated (kinds, key case incl. non-ASCII folds, duplicate keys,
//	                nulls, out-of-range and non-integer numbers, unknown fields, escapes, member order),
//	                then padded with whitespace so that tokens cross 16/32/64-byte block boundaries
//	bind.malformed  the same documents damaged (token deletion, truncation, junk tail, bad escapes,
//	                stray separators)
//
// Every case carries the tags of what was put into it (last field).

import (
	"bytes"
	"encoding/base64"
	"encoding/hex"
	"encoding/json"
	"sort"
	"strconv"
	"strings"
	"unicode"
)

// ---------------------------------------------------------------- ordered JSON trees

type jn struct {
	kind  byte // 'n' null, 'b' bool, '0' number, 's' string, 'a' array, 'o' object
	lit   string
	elems []*jn
	keys  []string // raw key literals (with quotes), parallel to elems for objects
}

func jlit(kind byte, lit string) *jn { return &jn{kind: kind, lit: lit} }

type jparser struct {
	b []byte
	i int
}

func (p *jparser) ws() {
	for p.i < len(p.b) && (p.b[p.i] == ' ' || p.b[p.i] == '\t' || p.b[p.i] == '\n' || p.b[p.i] == '\r') {
		p.i++
	}
}

func (p *jparser) str() string {
	s := p.i
	p.i++
	for p.i < len(p.b) && p.b[p.i] != '"' {
		if p.b[p.i] == '\\' {
			p.i++
		}
		p.i++
	}
	p.i++
	if p.i > len(p.b) {
		p.i = len(p.b)
	}
	return string(p.b[s:p.i])
}

// parse a VALID document (output of json.Marshal or a RawMessage from the pool)
func (p *jparser) val() *jn {
	p.ws()
	if p.i >= len(p.b) {
		return jlit('n', "null")
	}
	switch c := p.b[p.i]; {
	case c == '"':
		return jlit('s', p.str())
	case c == '[':
		p.i++
		n := &jn{kind: 'a'}
		for {
			p.ws()
			if p.i >= len(p.b) {
				return n
			}
			if p.b[p.i] == ']' {
				p.i++
				return n
			}
			if p.b[p.i] == ',' {
				p.i++
				continue
			}
			n.elems = append(n.elems, p.val())
		}
	case c == '{':
		p.i++
		n := &jn{kind: 'o'}
		for {
			p.ws()
			if p.i >= len(p.b) {
				return n
			}
			if p.b[p.i] == '}' {
				p.i++
				return n
			}
			if p.b[p.i] == ',' {
				p.i++
				continue
			}
			if p.b[p.i] != '"' {
				p.i++
				continue
			}
			k := p.str()
			p.ws()
			if p.i < len(p.b) && p.b[p.i] == ':' {
				p.i++
			}
			n.keys = append(n.keys, k)
			n.elems = append(n.elems, p.val())
		}
	default:
		s := p.i
		for p.i < len(p.b) && !strings.ContainsRune(",]} \t\r\n", rune(p.b[p.i])) {
			p.i++
		}
		lit := string(p.b[s:p.i])
		if p.i == s {
			p.i++
		}
		switch lit {
		case "null":
			return jlit('n', lit)
		case "true", "false":
			return jlit('b', lit)
		}
		return jlit('0', lit)
	}
}

// token list of a tree (separators are tokens of their own), joined by the caller with padding
func (n *jn) tokens(out []string) []string {
	switch n.kind {
	case 'a':
		out = append(out, "[")
		for i, e := range n.elems {
			if i > 0 {
				out = append(out, ",")
			}
			out = e.tokens(out)
		}
		return append(out, "]")
	case 'o':
		out = append(out, "{")
		for i, e := range n.elems {
			if i > 0 {
				out = append(out, ",")
			}
			out = append(out, n.keys[i], ":")
			out = e.tokens(out)
		}
		return append(out, "}")
	}
	return append(out, n.lit)
}

func (n *jn) clone() *jn {
	c := &jn{kind: n.kind, lit: n.lit, keys: append([]string(nil), n.keys...)}
	for _, e := range n.elems {
		c.elems = append(c.elems, e.clone())
	}
	return c
}

func (n *jn) nodes(acc []*jn) []*jn {
	acc = append(acc, n)
	for _, e := range n.elems {
		acc = e.nodes(acc)
	}
	return acc
}

// ---------------------------------------------------------------- types

// tags whose JSON names fold onto ASCII or Latin-1 names in encoding/json (simple folding):
// ſ (U+017F) ~ S/s, K (U+212A, Kelvin) ~ K/k, Å (U+212B, Angstrom) ~ Å/å, µ (U+00B5) ~ Μ/μ
var foldTags = []string{"s", "S", "ſ", "k", "K", "K", "é", "É", "å", "Å", "µ", "μ", "ß", "ẞ", "ÿ", "Ÿ", "ks", "KS", "Kſ", "name", "NAME", "Name", "nAME",
	// names whose letters are all outside ASCII, or mixed: Latin-1, Cyrillic, Greek, in several casings
	"ärger", "Ärger", "ÄRGER", "été", "Été", "öl", "ÖL", "имя", "Имя", "ИМЯ", "год", "ГОД", "αλφα", "Αλφα", "ΑΛΦΑ", "βητα", "ΒΗΤΑ", "ключ1", "x-ключ"}

func retag(g *Gen, tn *sx, tags *[]string) {
	if !tn.isL {
		return
	}
	if tn.head() == "st" {
		for _, f := range tn.list[1:] {
			if g.R.Intn(4) == 0 {
				t := foldTags[g.R.Intn(len(foldTags))]
				if g.R.Intn(6) == 0 {
					t += ",string"
				}
				f.list[2] = atomT(hex.EncodeToString([]byte(t)))
				*tags = append(*tags, "foldtag")
			}
			retag(g, f.list[3], tags)
		}
		return
	}
	for _, c := range tn.list[1:] {
		retag(g, c, tags)
	}
}

// deepStruct nests structs `depth` levels (sonic inlines at most 3 levels, deeper ones are separate programs)
func deepStruct(g *Gen, depth int) *sx {
	st := listT("st", listT("f", atomT("A"), atomT("-"), atomT([]string{"int", "bool", "str", "i8"}[g.R.Intn(4)])))
	if depth > 0 {
		st.list = append(st.list, listT("f", atomT("B"), atomT("-"), deepStruct(g, depth-1)))
	}
	if g.R.Intn(2) == 0 {
		st.list = append(st.list, listT("f", atomT("C"), atomT("-"), atomT("u16")))
	}
	return st
}

// nestedProgramType: scalar fields first, then members whose decoders are separately compiled programs
// (recursive library types, structs nested deeper than the inline limit)
func nestedProgramType(g *Gen) *sx {
	st := listT("st")
	st.list = append(st.list, listT("f", atomT("A"), atomT("-"), atomT([]string{"int", "bool", "str", "u8", "f64"}[g.R.Intn(5)])))
	if g.R.Intn(2) == 0 {
		st.list = append(st.list, listT("f", atomT("S"), atomT("-"), atomT("str")))
	}
	var inner *sx
	switch g.R.Intn(6) {
	case 0:
		inner = listT("lib", atomT("Rec"))
	case 1:
		inner = listT("ptr", listT("lib", atomT("Rec")))
	case 2:
		inner = listT("sl", listT("lib", atomT("Rec")))
	case 3:
		inner = listT("lib", atomT("Tree"))
	default:
		inner = deepStruct(g, 3+g.R.Intn(3))
	}
	st.list = append(st.list, listT("f", atomT("Name"), atomT("-"), inner))
	if g.R.Intn(2) == 0 {
		st.list = append(st.list, listT("f", atomT("K"), atomT("-"), atomT("int")))
	}
	return st
}

func bindType(g *Gen, tags *[]string) *sx {
	o := TypeOpts{NoLib: g.R.Intn(12) != 0}
	var tn *sx
	if g.R.Intn(10) == 0 {
		*tags = append(*tags, "nested_program_type")
		if g.R.Intn(5) == 0 {
			return listT("lib", atomT([]string{"Rec", "Tree"}[g.R.Intn(2)]))
		}
		return nestedProgramType(g)
	}
	switch g.R.Intn(10) {
	case 0:
		tn = genType(g, 1, o)
	case 1, 2:
		tn = genStructT(g, 2, o)
	case 3, 4, 5:
		tn = genStructT(g, 3, o)
	case 6:
		tn = genType(g, 4, o)
	default:
		tn = genType(g, 3, o)
	}
	retag(g, tn, tags)
	return tn
}

// ---------------------------------------------------------------- documents

func marshalRandom(g *Gen, tn *sx) []byte {
	defer func() { recover() }()
	t := buildType(tn)
	v := genValue(g, tn, 3, false)
	b, err := json.Marshal(buildValue(tn, t, v).Interface())
	if err != nil {
		return []byte("null")
	}
	return b
}

var numMut = []string{"0", "-0", "1", "-1", "127", "128", "-128", "-129", "255", "256", "32767", "32768", "-32769", "65535", "65536",
	"2147483647", "2147483648", "-2147483648", "-2147483649", "4294967295", "4294967296", "9223372036854775807", "9223372036854775808",
	"-9223372036854775808", "-9223372036854775809", "18446744073709551615", "18446744073709551616", "123456789012345678901234567890",
	"1.0", "1.5", "1e2", "1E2", "1e-2", "0.0", "-0.0", "0e0", "1e400", "-1e400", "3.4028236e38", "1e39", "1e-400", "0.1", "12.5e1"}

var strMut = []string{`""`, `"a"`, `"12"`, `"-1"`, `"true"`, `"null"`, `"1.5"`, `"é"`, `"😀"`, `"\ud800"`, `"\ud800x"`, `"\udc00\ud800"`,
	`"\ud83dé"`, `"a\"b\\c\/d\b\f\n\r\t"`, `"é中😀"`, `"AQID"`, `"AQI="`, `"AQ=="`, `"AQI"`, `"A?=="`, `"tv7"`, `"\u0000"`, `"<>&"`, `" "`,
	`"\"12\""`, `"\"x\""`, `" 1"`, `"1 "`, `"0x10"`, `"+1"`, `"01"`, `"1e2"`, `"1."`, `"AQID\n"`, `"=AQI"`, `"AQ=I"`}

func randJSON(g *Gen, depth int) *jn {
	switch k := g.R.Intn(8); {
	case k == 0:
		return jlit('n', "null")
	case k == 1:
		return jlit('b', []string{"true", "false"}[g.R.Intn(2)])
	case k == 2:
		return jlit('0', numMut[g.R.Intn(len(numMut))])
	case k == 3:
		return jlit('s', strMut[g.R.Intn(len(strMut))])
	case k <= 5 && depth > 0:
		n := &jn{kind: 'a'}
		for i := g.R.Intn(4); i > 0; i-- {
			n.elems = append(n.elems, randJSON(g, depth-1))
		}
		return n
	case depth > 0:
		n := &jn{kind: 'o'}
		for i := g.R.Intn(4); i > 0; i-- {
			n.keys = append(n.keys, []string{`"a"`, `"b"`, `"A"`, `"x y"`, `""`, `"1"`, `"-5"`, `"é"`, `"a"`}[g.R.Intn(9)])
			n.elems = append(n.elems, randJSON(g, depth-1))
		}
		return n
	}
	return jlit('0', "7")
}

func swapCase(s string) string {
	b := []byte(s)
	for i, c := range b {
		if c >= 'a' && c <= 'z' {
			b[i] = c - 32
		} else if c >= 'A' && c <= 'Z' {
			b[i] = c + 32
		}
	}
	return string(b)
}

// mutateKey rewrites a raw key literal: ASCII case, non-ASCII fold partners, escapes
// caseNonASCII changes the case of the letters outside ASCII only (mode 0 upper, 1 lower, 2 first one
// upper and the rest lower), leaving ASCII letters alone: "ärger" -> "Ärger", "имя" -> "ИМЯ"
func caseNonASCII(s string, mode int) string {
	first := true
	return strings.Map(func(r rune) rune {
		if r < 0x80 || !unicode.IsLetter(r) {
			return r
		}
		up := mode == 0 || (mode == 2 && first)
		first = false
		if up {
			return unicode.ToUpper(r)
		}
		return unicode.ToLower(r)
	}, s)
}

func hasNonASCII(s string) bool {
	for i := 0; i < len(s); i++ {
		if s[i] >= 0x80 {
			return true
		}
	}
	return false
}

func mutateKey(g *Gen, k string, tags *[]string) string {
	body := k
	if len(k) >= 2 {
		body = k[1 : len(k)-1]
	}
	if hasNonASCII(body) && !strings.Contains(body, "\\") && g.R.Intn(2) == 0 {
		n := caseNonASCII(body, g.R.Intn(3))
		if n != body {
			*tags = append(*tags, "key_case_nonascii")
			return `"` + n + `"`
		}
	}
	switch g.R.Intn(8) {
	case 0:
		*tags = append(*tags, "key_upper")
		return `"` + strings.ToUpper(body) + `"`
	case 1:
		*tags = append(*tags, "key_lower")
		return `"` + strings.ToLower(body) + `"`
	case 2:
		*tags = append(*tags, "key_swapcase")
		return `"` + swapCase(body) + `"`
	case 3, 4:
		// fold partners outside ASCII
		r := strings.NewReplacer("s", "ſ", "S", "ſ", "k", "K", "K", "K", "å", "Å", "Å", "Å", "é", "É", "É", "é", "µ", "μ", "ß", "ẞ", "ÿ", "Ÿ", "ſ", "s", "K", "k")
		n := r.Replace(body)
		if n != body {
			*tags = append(*tags, "key_fold_nonascii")
		}
		return `"` + n + `"`
	case 5:
		// first character as \u escape (same key after unquoting)
		if len(body) > 0 && body[0] < 0x80 && body[0] != '\\' && body[0] != '"' {
			*tags = append(*tags, "key_escaped")
			return `"` + "\\u00" + hex.EncodeToString([]byte{body[0]}) + body[1:] + `"`
		}
	case 6:
		*tags = append(*tags, "key_other")
		return []string{`""`, `"zz"`, `"unknown"`, `"A"`, `"a"`, `"-1"`, `"300"`, `"1e2"`, `"+5"`, `"05"`, `" 1"`}[g.R.Intn(11)]
	}
	return k
}

// foldKeys: every object key with letters outside ASCII gets, with probability 1/2, another casing of those
// letters (the case-insensitive fallback must find the field; the ASCII letters keep their case)
func foldKeys(g *Gen, root *jn, tags *[]string) {
	for _, n := range root.nodes(nil) {
		if n.kind != 'o' {
			continue
		}
		for i, k := range n.keys {
			if len(k) >= 2 && hasNonASCII(k) && !strings.Contains(k, "\\") && g.R.Intn(2) == 0 {
				c := `"` + caseNonASCII(k[1:len(k)-1], g.R.Intn(3)) + `"`
				if c != k {
					n.keys[i] = c
					*tags = append(*tags, "key_case_nonascii")
				}
			}
		}
	}
}

// mismatchBefore puts a value of the wrong kind into a scalar member that precedes, in document order, a
// member holding a container: the decoder must remember the type error while it runs the (possibly
// separately compiled) decoder of the later member
func mismatchBefore(g *Gen, root *jn, tags *[]string) {
	var objs []*jn
	for _, n := range root.nodes(nil) {
		if n.kind == 'o' && len(n.elems) >= 2 {
			objs = append(objs, n)
		}
	}
	g.R.Shuffle(len(objs), func(i, j int) { objs[i], objs[j] = objs[j], objs[i] })
	for _, n := range objs {
		last := -1
		for i, e := range n.elems {
			if (e.kind == 'o' || e.kind == 'a') && len(e.elems) > 0 {
				last = i
			}
		}
		for i := 0; i < last; i++ {
			e := n.elems[i]
			var wrong string
			switch e.kind {
			case '0', 'b':
				wrong = []string{`"oops"`, `{"a":1}`, `[1]`}[g.R.Intn(3)]
			case 's':
				wrong = []string{`12`, `true`, `{"a":1}`}[g.R.Intn(3)]
			default:
				continue
			}
			p := &jparser{b: []byte(wrong)}
			*e = *p.val()
			*tags = append(*tags, "mismatch_before_container")
			return
		}
	}
}

func mutateDoc(g *Gen, root *jn, allowBadStrings bool, tags *[]string) *jn {
	if g.R.Intn(3) != 0 {
		foldKeys(g, root, tags)
	}
	if g.R.Intn(6) == 0 {
		mismatchBefore(g, root, tags)
	}
	nm := 0
	switch g.R.Intn(10) {
	case 0:
		nm = 0
	case 1, 2, 3:
		nm = 1
	case 4, 5, 6:
		nm = 2
	default:
		nm = 1 + g.R.Intn(5)
	}
	for ; nm > 0; nm-- {
		all := root.nodes(nil)
		n := all[g.R.Intn(len(all))]
		switch m := g.R.Intn(14); {
		case m == 0: // kind swap
			*tags = append(*tags, "kind_swap")
			*n = *randJSON(g, 2)
		case m == 1: // null
			*tags = append(*tags, "null")
			*n = *jlit('n', "null")
		case m == 2: // number edge
			if n.kind == '0' || g.R.Intn(3) == 0 {
				*tags = append(*tags, "num_edge")
				l := numMut[g.R.Intn(len(numMut))]
				if l == "-0" || l == "-0.0" {
					*tags = append(*tags, "neg_zero_literal")
				}
				*n = *jlit('0', l)
			}
		case m == 3: // string content
			if n.kind == 's' || g.R.Intn(3) == 0 {
				*tags = append(*tags, "str_mut")
				*n = *jlit('s', strMut[g.R.Intn(len(strMut))])
			}
		case m == 4 && allowBadStrings: // raw control character or ill-formed UTF-8 inside a literal
			if n.kind == 's' {
				*tags = append(*tags, "str_raw_bad")
				bad := []string{"\x01", "\x1f", "\t", "\xff", "\xc0\x80", "\xed\xa0\x80", "\xe2\x82", "\xf4\x90\x80\x80"}[g.R.Intn(8)]
				n.lit = n.lit[:len(n.lit)-1] + bad + `"`
			}
		case m <= 6: // key mutation
			if n.kind == 'o' && len(n.keys) > 0 {
				i := g.R.Intn(len(n.keys))
				n.keys[i] = mutateKey(g, n.keys[i], tags)
			}
		case m <= 8: // duplicate a member (copy, possibly with another value or another spelling of the key)
			if n.kind == 'o' && len(n.keys) > 0 {
				i := g.R.Intn(len(n.keys))
				k, v := n.keys[i], n.elems[i].clone()
				*tags = append(*tags, "dup_key")
				if g.R.Intn(3) == 0 {
					k = mutateKey(g, k, tags)
				}
				switch g.R.Intn(4) {
				case 0:
					v = randJSON(g, 2)
				case 1:
					sub := v.nodes(nil)
					*sub[g.R.Intn(len(sub))] = *randJSON(g, 1)
				}
				at := g.R.Intn(len(n.keys) + 1)
				n.keys = append(n.keys[:at], append([]string{k}, n.keys[at:]...)...)
				n.elems = append(n.elems[:at], append([]*jn{v}, n.elems[at:]...)...)
			}
		case m <= 10: // unknown field
			if n.kind == 'o' {
				*tags = append(*tags, "unknown_field")
				k := []string{`"zz"`, `"unknown"`, `"_"`, `"Zz9"`, `""`}[g.R.Intn(5)]
				at := g.R.Intn(len(n.keys) + 1)
				n.keys = append(n.keys[:at], append([]string{k}, n.keys[at:]...)...)
				n.elems = append(n.elems[:at], append([]*jn{randJSON(g, 3)}, n.elems[at:]...)...)
			}
		case m == 11: // array length
			if n.kind == 'a' {
				*tags = append(*tags, "arr_len")
				if g.R.Intn(2) == 0 && len(n.elems) > 0 {
					n.elems = n.elems[:g.R.Intn(len(n.elems))]
				} else {
					for i := 1 + g.R.Intn(3); i > 0; i-- {
						if len(n.elems) > 0 && g.R.Intn(2) == 0 {
							n.elems = append(n.elems, n.elems[g.R.Intn(len(n.elems))].clone())
						} else {
							n.elems = append(n.elems, randJSON(g, 1))
						}
					}
				}
			}
		case m == 12: // member order
			if n.kind == 'o' && len(n.keys) > 1 {
				*tags = append(*tags, "shuffle")
				g.R.Shuffle(len(n.keys), func(i, j int) {
					n.keys[i], n.keys[j] = n.keys[j], n.keys[i]
					n.elems[i], n.elems[j] = n.elems[j], n.elems[i]
				})
			}
		default: // wrap: scalar <-> container
			*tags = append(*tags, "wrap")
			c := n.clone()
			if g.R.Intn(2) == 0 {
				*n = jn{kind: 'a', elems: []*jn{c}}
			} else {
				*n = jn{kind: 'o', keys: []string{`"a"`}, elems: []*jn{c}}
			}
		}
	}
	return root
}

var wsPool = []string{" ", "\n", "\t", "\r", "  ", " \n "}

// render joins the tokens with padding; one or two long runs of blanks move what follows across
// 16/32/64-byte boundaries
func render(g *Gen, root *jn, tags *[]string) []byte {
	toks := root.tokens(nil)
	var b bytes.Buffer
	mode := g.R.Intn(4) // 0 compact, 1 light, 2 boundary runs, 3 both
	runAt := map[int]int{}
	if mode >= 2 {
		*tags = append(*tags, "ws_block")
		for k := 1 + g.R.Intn(2); k > 0; k-- {
			runAt[g.R.Intn(len(toks)+1)] = []int{15, 16, 17, 31, 32, 33, 63, 64, 65, 47, 48, 95, 96, 128}[g.R.Intn(14)] - g.R.Intn(3)
		}
	}
	for i := 0; i <= len(toks); i++ {
		if n, ok := runAt[i]; ok {
			b.WriteString(strings.Repeat(" ", n))
		}
		if (mode == 1 || mode == 3) && g.R.Intn(3) == 0 {
			b.WriteString(wsPool[g.R.Intn(len(wsPool))])
		}
		if i < len(toks) {
			b.WriteString(toks[i])
		}
	}
	return b.Bytes()
}

// ---------------------------------------------------------------- configurations

func bindConfigs() (std uint64, all []uint64, names map[uint64]string) {
	std = cfgBit("EscapeHTML") | cfgBit("SortMapKeys") | cfgBit("CompactMarshaler") | cfgBit("CopyString") | cfgBit("ValidateString")
	names = map[uint64]string{}
	for _, base := range []uint64{std, 0} {
		for _, extra := range []string{"", "UseNumber", "UseInt64", "DisallowUnknownFields", "CaseSensitive"} {
			c := base
			n := "default"
			if base != 0 {
				n = "std"
			}
			if extra != "" {
				c |= cfgBit(extra)
				n += "+" + extra
			}
			all = append(all, c)
			names[c] = n
		}
	}
	return
}

func pickConfig(g *Gen) (uint64, string) {
	_, all, names := bindConfigs()
	var c uint64
	switch k := g.R.Intn(20); {
	case k < 7:
		c = all[0] // std
	case k < 13:
		c = all[5] // default
	default:
		c = all[g.R.Intn(len(all))]
	}
	return c, names[c]
}

func hasValidate(c uint64) bool { return c&cfgBit("ValidateString") != 0 }

func tagStr(tags []string) string {
	if len(tags) == 0 {
		return "plain"
	}
	seen := map[string]bool{}
	var u []string
	for _, t := range tags {
		if !seen[t] {
			seen[t] = true
			u = append(u, t)
		}
	}
	sort.Strings(u)
	return strings.Join(u, ",")
}

// typeCache: a destination type is used for a few consecutive cases (every new type costs sonic a JIT
// compilation, which would dominate the run time of the large tiers)
var curType *sx
var curTypeTags []string
var curTypeLeft int

func validCase(g *Gen) (cfg uint64, tn *sx, root *jn, tags []string) {
	cfg, cname := pickConfig(g)
	tags = append(tags, "cfg:"+cname)
	if curTypeLeft <= 0 || curType == nil {
		curTypeTags = nil
		curType = bindType(g, &curTypeTags)
		curTypeLeft = 1 + g.R.Intn(4)
	}
	curTypeLeft--
	tn = curType
	tags = append(tags, curTypeTags...)
	p := &jparser{b: marshalRandom(g, tn)}
	root = p.val()
	for _, t := range curTypeTags {
		if t == "nested_program_type" && g.R.Intn(2) == 0 {
			mismatchBefore(g, root, &tags)
		}
	}
	root = mutateDoc(g, root, hasValidate(cfg), &tags)
	return
}

// ---------------------------------------------------------------- damage

func damage(g *Gen, doc []byte, tags *[]string) []byte {
	d := append([]byte(nil), doc...)
	if len(d) == 0 {
		return []byte("{")
	}
	switch g.R.Intn(12) {
	case 0: // truncation
		*tags = append(*tags, "truncate")
		return d[:g.R.Intn(len(d))]
	case 1: // junk tail
		*tags = append(*tags, "junk_tail")
		return append(d, []string{"x", "]", "}", ",", " 1", "null", "\"", "{}", "\x00", " ,"}[g.R.Intn(10)]...)
	case 2: // delete one byte
		*tags = append(*tags, "del_byte")
		i := g.R.Intn(len(d))
		return append(d[:i], d[i+1:]...)
	case 3: // delete a structural byte
		*tags = append(*tags, "del_struct")
		var idx []int
		for i, c := range d {
			if strings.IndexByte("{}[],:\"", c) >= 0 {
				idx = append(idx, i)
			}
		}
		if len(idx) > 0 {
			i := idx[g.R.Intn(len(idx))]
			return append(d[:i], d[i+1:]...)
		}
	case 4: // insert a stray separator
		*tags = append(*tags, "ins_struct")
		i := g.R.Intn(len(d) + 1)
		c := "{}[],:\""[g.R.Intn(7)]
		return append(d[:i], append([]byte{c}, d[i:]...)...)
	case 5: // bad escape inside some string
		*tags = append(*tags, "bad_escape")
		var idx []int
		for i, c := range d {
			if c == '"' {
				idx = append(idx, i)
			}
		}
		if len(idx) > 0 {
			i := idx[g.R.Intn(len(idx))] + 1
			esc := []string{`\q`, `\u00t1`, `\x41`, `\u12`, `\`, `\U0041`, `\'`, `\0`}[g.R.Intn(8)]
			return append(d[:i], append([]byte(esc), d[i:]...)...)
		}
	case 6: // replace one byte
		*tags = append(*tags, "flip_byte")
		i := g.R.Intn(len(d))
		pool := []byte("0-+.eE\"\\{}[],:tfn x\x00\x7f\xff")
		d[i] = pool[g.R.Intn(len(pool))]
		return d
	case 7: // literal damage
		*tags = append(*tags, "bad_literal")
		r := strings.NewReplacer("true", "tru", "false", "fals", "null", "nul")
		if g.R.Intn(2) == 0 {
			r = strings.NewReplacer("true", "True", "false", "falsey", "null", "nulll")
		}
		n := r.Replace(string(d))
		if n != string(d) {
			return []byte(n)
		}
		return append(d, 'x')
	case 8: // number damage
		*tags = append(*tags, "bad_number")
		for tries := 0; tries < 8; tries++ {
			i := g.R.Intn(len(d))
			if d[i] >= '0' && d[i] <= '9' {
				ins := []string{"0", ".", "e", "-", "+", "E+", ".e", "x"}[g.R.Intn(8)]
				if g.R.Intn(2) == 0 {
					return append(d[:i], append([]byte(ins), d[i:]...)...)
				}
				return append(d[:i+1], append([]byte(ins), d[i+1:]...)...)
			}
		}
		return append([]byte("01"), d...)
	case 9: // trailing comma / empty slot
		*tags = append(*tags, "comma")
		for tries := 0; tries < 8; tries++ {
			i := g.R.Intn(len(d))
			if d[i] == ']' || d[i] == '}' || d[i] == ',' {
				return append(d[:i], append([]byte{','}, d[i:]...)...)
			}
		}
		return append(d, ',')
	case 10: // unterminated string with a chosen body length (SIMD residues)
		*tags = append(*tags, "unterminated_string")
		n := []int{0, 1, 15, 16, 17, 31, 32, 33, 63, 64, 65, 96}[g.R.Intn(12)]
		i := bytes.LastIndexAny(d, "]}")
		tail := `"` + strings.Repeat("x", n)
		if i >= 0 && g.R.Intn(2) == 0 {
			return append(d[:i], []byte(","+tail)...)
		}
		return []byte(tail)
	default: // raw control character in a string
		*tags = append(*tags, "raw_control")
		var idx []int
		for i, c := range d {
			if c == '"' {
				idx = append(idx, i)
			}
		}
		if len(idx) > 0 {
			i := idx[g.R.Intn(len(idx))] + 1
			return append(d[:i], append([]byte{byte(g.R.Intn(32))}, d[i:]...)...)
		}
	}
	return append(d, '!')
}

// ---------------------------------------------------------------- interface{} destinations

var anyDests = []string{"any", "any", "(map str any)", "(sl any)", "(ptr any)", "(arr 2 any)", "(map str (sl any))", "(sl (map str any))",
	"(st (f A - any) (f B - (map str any)) (f C - int) (f D - (sl any)))", "(st (f X - str) (f A 612c6f6d6974656d707479 any))", "(map i16 any)"}

var anyNums = []string{"0", "1", "-1", "7", "12", "255", "65536", "2147483648", "9223372036854775807", "-9223372036854775808", "9223372036854775808",
	"18446744073709551615", "123456789012345678901234567890", "0.5", "1.5", "-2.25", "1e2", "1E-2", "3.14159", "1e21", "1e-7", "100", "0.1", "6.02e23"}

var anyStrs = []string{`""`, `"a"`, `"x"`, `"hello"`, `"12"`, `"A B"`, `"é中😀"`, `"q\"q"`, `"back\\slash"`, `"line\nbreak"`, `"\u00e9"`, `"\ud83d\ude00"`, `"<&>"`, `"0123456789abcdef0123456789abcdef"`}

// anyDoc builds a document with about `budget` scalars: numbers, strings (some empty, some escaped), literals,
// nested arrays and objects; `flat` keeps it one level deep
func anyDoc(g *Gen, budget *int, depth int) *jn {
	if *budget <= 0 || depth <= 0 || g.R.Intn(3) != 0 {
		*budget--
		switch k := g.R.Intn(10); {
		case k < 5:
			return jlit('0', anyNums[g.R.Intn(len(anyNums))])
		case k < 8:
			return jlit('s', anyStrs[g.R.Intn(len(anyStrs))])
		case k == 8:
			return jlit('b', []string{"true", "false"}[g.R.Intn(2)])
		default:
			return jlit('n', "null")
		}
	}
	n := 1 + g.R.Intn(6)
	if g.R.Intn(2) == 0 {
		a := &jn{kind: 'a'}
		for i := 0; i < n; i++ {
			a.elems = append(a.elems, anyDoc(g, budget, depth-1))
		}
		return a
	}
	o := &jn{kind: 'o'}
	for i := 0; i < n; i++ {
		o.keys = append(o.keys, `"k`+strconv.Itoa(g.R.Intn(12))+`"`)
		o.elems = append(o.elems, anyDoc(g, budget, depth-1))
	}
	return o
}

// anyContainer: a top-level array or object holding documents until `scalars` scalars are spent
func anyContainer(g *Gen, obj bool, scalars int) *jn {
	budget := scalars
	root := &jn{kind: 'a'}
	if obj {
		root.kind = 'o'
	}
	for i := 0; budget > 0; i++ {
		if obj {
			root.keys = append(root.keys, `"m`+strconv.Itoa(i)+`"`)
		}
		root.elems = append(root.elems, anyDoc(g, &budget, 3))
	}
	return root
}

func anyConfigs() (cs []uint64, names []string) {
	std, _, _ := bindConfigs()
	for _, base := range []struct {
		c uint64
		n string
	}{{0, "default"}, {std, "std"}, {cfgBit("CopyString"), "copystring"}, {cfgBit("ValidateString"), "validatestring"}} {
		for _, extra := range []string{"", "UseNumber", "UseNumber", "UseInt64"} {
			c, n := base.c, base.n
			if extra != "" {
				c |= cfgBit(extra)
				n += "+" + extra
			}
			cs = append(cs, c)
			names = append(names, n)
		}
	}
	return
}

// ---------------------------------------------------------------- bulk ill-formed UTF-8, escaped base64

func base64Std(b []byte) string { return base64.StdEncoding.EncodeToString(b) }

// badPieces: ill-formed UTF-8 (every byte of a piece is replaced on its own by encoding/json)
var badPieces = []string{"\xff", "\x80", "\xfe", "\xc0\x80", "\xe2\x82", "\xed\xa0\x80", "\xf0\x9f"}

func badCount(s string) int { return len(s) } // every byte of these pieces is ill-formed

// bulkCounts: numbers of ill-formed bytes around the multiples of 4096 (the capacity of the table of
// invalid positions one native validate call can fill)
var bulkCounts = []int{4095, 4096, 4097, 4097, 4098, 4100, 8191, 8192, 8193, 8194, 12289, 5000}

func init() {
	// ConfigStd (ValidateString): more than 4096 ill-formed bytes in one document, with valid bytes right
	// behind the 4096k-th one; in one long string, spread over thousands of strings, or over keys
	registerGen("bind.utf8bulk", func(g *Gen) {
		std, _, _ := bindConfigs()
		cfgs := []uint64{std, std, std | cfgBit("UseNumber"), cfgBit("ValidateString"), cfgBit("ValidateString") | cfgBit("CopyString")}
		for i := 0; i < g.N; i++ {
			cfg := cfgs[g.R.Intn(len(cfgs))]
			want := bulkCounts[g.R.Intn(len(bulkCounts))]
			if g.R.Intn(4) == 0 {
				want += g.R.Intn(7) - 3
			}
			shape := g.R.Intn(6)
			if shape >= 3 && want > 4200 {
				want = 4096 + g.R.Intn(4) // the wordier shapes stay just above one table
			}
			gap := func() string {
				return []string{"a", "", "", "b", "é", " "}[g.R.Intn(6)]
			}
			var doc bytes.Buffer
			var dest string
			n := 0
			switch shape {
			case 0: // one long string
				dest = []string{"str", "any", "(st (f A - str))", "(ptr str)", "raw"}[g.R.Intn(5)]
				if strings.HasPrefix(dest, "(st") {
					doc.WriteString(`{"A":`)
				}
				doc.WriteByte('"')
				for n < want {
					p := badPieces[g.R.Intn(len(badPieces))]
					if g.R.Intn(3) != 0 {
						p = badPieces[0]
					}
					doc.WriteString(gap())
					doc.WriteString(p)
					n += badCount(p)
				}
				doc.WriteString(gap())
				doc.WriteByte('"')
				if strings.HasPrefix(dest, "(st") {
					doc.WriteByte('}')
				}
			case 1, 2: // thousands of short strings
				dest = []string{"(sl str)", "any", "(sl any)", "(st (f A - (sl str)) (f B - str))", "(sl (ptr str))"}[g.R.Intn(5)]
				if strings.HasPrefix(dest, "(st") {
					doc.WriteString(`{"B":"x","A":`)
				}
				doc.WriteByte('[')
				for j := 0; n < want; j++ {
					if j > 0 {
						doc.WriteByte(',')
					}
					p := badPieces[0]
					if shape == 2 {
						p = badPieces[g.R.Intn(len(badPieces))]
					}
					doc.WriteString(`"` + gap() + p + gap() + `"`)
					n += badCount(p)
				}
				doc.WriteByte(']')
				if strings.HasPrefix(dest, "(st") {
					doc.WriteByte('}')
				}
			case 3: // keys
				dest = []string{"(map str int)", "any", "(map str any)", "(map str str)"}[g.R.Intn(4)]
				doc.WriteByte('{')
				for j := 0; n < want; j++ {
					if j > 0 {
						doc.WriteByte(',')
					}
					doc.WriteString(`"k` + strconv.Itoa(j) + badPieces[0] + `":`)
					n++
					if dest == "(map str str)" {
						doc.WriteString(`"v` + badPieces[0] + `"`)
						n++
					} else {
						doc.WriteString(strconv.Itoa(j % 100))
					}
				}
				doc.WriteByte('}')
			case 4: // valid strings, then a tail of ill-formed ones: the table fills in the middle of the document
				dest = []string{"(sl str)", "any"}[g.R.Intn(2)]
				doc.WriteByte('[')
				for j := 0; j < 50; j++ {
					doc.WriteString(`"ok é",`)
				}
				for j := 0; n < want; j++ {
					if j > 0 {
						doc.WriteByte(',')
					}
					doc.WriteString(`"` + badPieces[0] + `x"`)
					n++
				}
				doc.WriteByte(']')
			default: // nested: array of small objects
				dest = []string{"(sl (st (f A - str) (f N - int)))", "any", "(sl (map str str))"}[g.R.Intn(3)]
				doc.WriteByte('[')
				for j := 0; n < want; j++ {
					if j > 0 {
						doc.WriteByte(',')
					}
					doc.WriteString(`{"A":"` + gap() + badPieces[0] + `"`)
					n++
					if dest != "(sl (map str str))" {
						doc.WriteString(`,"N":` + strconv.Itoa(j))
					}
					doc.WriteByte('}')
				}
				doc.WriteByte(']')
			}
			tags := []string{"cfg:validate", "utf8bulk", "shape:" + strconv.Itoa(shape), "bad:" + strconv.Itoa(n)}
			g.Emit("bind", strconv.FormatUint(cfg, 10), dest, hexArg(doc.Bytes()), tagStr(tags))
		}
	})

	// []byte destinations whose base64 text is spelled with JSON escapes, with right and wrong padding
	registerGen("bind.b64esc", func(g *Gen) {
		dests := []string{"bytes", "bytes", "(sl bytes)", "(map str bytes)", "(ptr bytes)", "(st (f A - bytes) (f B - (sl u8)) (f C - int))", "(arr 2 bytes)", "(sl u8)", "any"}
		for i := 0; i < g.N; i++ {
			cfg, cname := pickConfig(g)
			tags := []string{"cfg:" + cname, "b64esc"}
			lit := func() string {
				raw := make([]byte, g.R.Intn(12))
				if g.R.Intn(8) == 0 {
					raw = make([]byte, 30+g.R.Intn(70))
				}
				g.R.Read(raw)
				if g.R.Intn(3) == 0 { // force '/' and '+' characters
					for k := range raw {
						raw[k] |= 0xfb
					}
				}
				t := base64Std(raw)
				switch g.R.Intn(10) { // padding damage
				case 0:
					t = strings.TrimRight(t, "=")
					tags = append(tags, "b64_nopad")
				case 1:
					t += "="
					tags = append(tags, "b64_extrapad")
				case 2:
					if len(t) > 2 {
						k := g.R.Intn(len(t))
						t = t[:k] + "=" + t[k:]
						tags = append(tags, "b64_midpad")
					}
				case 3:
					if len(t) > 1 {
						t = t[:len(t)-1]
						tags = append(tags, "b64_cut")
					}
				}
				var b strings.Builder
				b.WriteByte('"')
				esc := g.R.Intn(4) // 0: none, 1: only \/ and \u003d, 2: any character sometimes, 3: plus line breaks
				if esc > 0 {
					tags = append(tags, "b64_escaped")
				}
				for k := 0; k < len(t); k++ {
					c := t[k]
					switch {
					case esc >= 1 && c == '/' && g.R.Intn(4) != 0:
						b.WriteString(`\/`)
					case esc >= 1 && c == '=' && g.R.Intn(2) == 0:
						b.WriteString(`\u003d`)
					case esc >= 1 && c == '+' && g.R.Intn(2) == 0:
						b.WriteString(`\u002b`)
					case esc >= 2 && g.R.Intn(6) == 0:
						b.WriteString(`\u00` + hex.EncodeToString([]byte{c}))
					default:
						b.WriteByte(c)
					}
					if esc == 3 && g.R.Intn(10) == 0 {
						b.WriteString([]string{`\n`, `\r\n`, `\r`}[g.R.Intn(3)])
						tags = append(tags, "b64_linebreak")
					}
				}
				b.WriteByte('"')
				return b.String()
			}
			dest := dests[g.R.Intn(len(dests))]
			var doc string
			switch {
			case dest == "(sl bytes)":
				parts := []string{}
				for k := g.R.Intn(5); k >= 0; k-- {
					parts = append(parts, lit())
				}
				doc = "[" + strings.Join(parts, ",") + "]"
			case dest == "(arr 2 bytes)":
				doc = "[" + lit() + "," + lit() + "]"
			case dest == "(map str bytes)":
				doc = `{"a":` + lit() + `,"b\/":` + lit() + `}`
			case strings.HasPrefix(dest, "(st"):
				doc = `{"A":` + lit() + `,"C":5,"B":` + lit() + `}`
			case dest == "any":
				doc = `[` + lit() + `]`
			default:
				doc = lit()
			}
			if g.R.Intn(3) == 0 {
				doc = strings.Repeat(" ", []int{1, 15, 31, 63}[g.R.Intn(4)]) + doc
			}
			g.Emit("bind", strconv.FormatUint(cfg, 10), dest, hexArg([]byte(doc)), tagStr(tags))
		}
	})
}

func init() {
	// interface{} destinations under the number options, documents with 1 .. 1000 scalars (the sizes of the
	// value pools of the generic decoders)
	registerGen("bind.any", func(g *Gen) {
		cs, names := anyConfigs()
		sizes := []int{1, 1, 3, 3, 17, 17, 100, 100, 1000}
		for i := 0; i < g.N; i++ {
			k := g.R.Intn(len(cs))
			dest := anyDests[g.R.Intn(len(anyDests))]
			size := sizes[g.R.Intn(len(sizes))]
			tags := []string{"cfg:" + names[k], "anydest", "scalars:" + strconv.Itoa(size)}
			var root *jn
			switch {
			case strings.HasPrefix(dest, "(sl") || strings.HasPrefix(dest, "(arr"):
				root = anyContainer(g, false, size)
			case strings.HasPrefix(dest, "(map str") || strings.HasPrefix(dest, "(map i16"):
				root = anyContainer(g, true, size)
				if strings.HasPrefix(dest, "(map i16") {
					for j := range root.keys {
						root.keys[j] = `"` + strconv.Itoa(j-3) + `"`
					}
				}
			case strings.HasPrefix(dest, "(st"):
				root = &jn{kind: 'o'}
				for _, key := range []string{`"A"`, `"B"`, `"C"`, `"D"`, `"X"`, `"a"`} {
					if g.R.Intn(3) != 0 {
						var v *jn
						switch key {
						case `"B"`:
							v = anyContainer(g, true, 1+size/3)
						case `"D"`:
							v = anyContainer(g, false, 1+size/3)
						case `"C"`:
							v = jlit('0', "7")
						case `"X"`:
							v = jlit('s', anyStrs[g.R.Intn(len(anyStrs))])
						default:
							v = anyContainer(g, g.R.Intn(2) == 0, 1+size/3)
						}
						root.keys = append(root.keys, key)
						root.elems = append(root.elems, v)
					}
				}
			default:
				switch g.R.Intn(4) {
				case 0:
					b := 1
					root = anyDoc(g, &b, 0)
				default:
					root = anyContainer(g, g.R.Intn(2) == 0, size)
				}
			}
			doc := render(g, root, &tags)
			g.Emit("bind", strconv.FormatUint(cs[k], 10), dest, hexArg(doc), tagStr(tags))
		}
	})
	registerGen("bind.valid", func(g *Gen) {
		for i := 0; i < g.N; i++ {
			cfg, tn, root, tags := validCase(g)
			doc := render(g, root, &tags)
			g.Emit("bind", strconv.FormatUint(cfg, 10), tn.String(), hexArg(doc), tagStr(tags))
		}
	})
	registerGen("bind.malformed", func(g *Gen) {
		for i := 0; i < g.N; i++ {
			cfg, tn, root, tags := validCase(g)
			doc := damage(g, render(g, root, &tags), &tags)
			tags = append(tags, "damaged")
			g.Emit("bind", strconv.FormatUint(cfg, 10), tn.String(), hexArg(doc), tagStr(tags))
		}
	})
}
