package main

// C02: every API of sonic that consumes a JSON document, asked one question:
// "do you accept these bytes?"  Reference: encoding/json.Valid.
//
//	valid <api|all> <doc hex> [t:<tags>] [tail=<hex>]
//
// Result fields (all apis with `all`, one with a single api name):
//
//	sonic=<accept bits in the order of c02APIs>   ref=<0|1 encoding/json.Valid>
//	<api>=<0|1|m>    1 = accepted (nil error), 0 = rejected, m = type-mismatch error (says nothing about syntax)
//	e_<api>=<kind>   canonical error kind when not accepted (syntax|eof|depth|mismatch|other)
//	skip_end=<n>     end offset decoder.Skip reported (when it returned start >= 0)
//	rawcap=<0|1>     (captured bytes of RawMessage / Unmarshaler / Get / NewRaw == document without
//	                  surrounding JSON space) for every capturing api that accepted; 1 when none accepted
//	get_raw=<hex>    what sonic.Get(doc) / ast.NewRaw(doc) returned as raw text when they differ from the
//	                 space-trimmed document (only then; used to describe the trailing-junk finding)
//	getp_raw=<hex>   raw text of sonic.Get(`{"r":`+doc+`}`, "r") when it returned a node
//	geti_raw=<hex>   raw text of sonic.Get(`[0,`+doc+`]`, 1) when it returned a node
import (
	"bytes"
	"encoding/json"
	"errors"
	"fmt"
	"strings"
	"unsafe"

	"github.com/bytedance/sonic"
	"github.com/bytedance/sonic/ast"
	"github.com/bytedance/sonic/decoder"
	"github.com/bytedance/sonic/encoder"
)

// c02Struct is the destination of unm_struct: keys a..h hit typed fields, everything else is skipped
// by the native skipper (skip_one), which is the point.
type c02Struct struct {
	A interface{}            `json:"a"`
	B *c02Struct             `json:"b"`
	C []interface{}          `json:"c"`
	D map[string]interface{} `json:"d"`
	E string                 `json:"e"`
	F float64                `json:"f"`
	G json.Number            `json:"g"`
	H bool                   `json:"h"`
}

type c02RawField struct {
	R json.RawMessage `json:"r"`
}

// c02Capture implements json.Unmarshaler and keeps a copy of what it was handed.
type c02Capture struct {
	got   []byte
	calls int
}

func (c *c02Capture) UnmarshalJSON(b []byte) error {
	c.got = append([]byte(nil), b...)
	c.calls++
	return nil
}

type c02CapField struct {
	R c02Capture `json:"r"`
}

// canonical error kind
func c02Kind(err error) string {
	if err == nil {
		return "-"
	}
	var se decoder.SyntaxError
	if errors.As(err, &se) {
		return c02Code(int(se.Code))
	}
	var ae ast.SyntaxError
	if errors.As(err, &ae) {
		return c02Code(int(ae.Code))
	}
	var me *decoder.MismatchTypeError
	if errors.As(err, &me) {
		return "mismatch"
	}
	if n, ok := err.(*ast.Node); ok && n != nil {
		// ast error node: message only; classify by text of the fixed table in types.go
		return c02Msg(n.Error())
	}
	if n, ok := err.(ast.Node); ok {
		return c02Msg(n.Error())
	}
	if err == ast.ErrNotExist {
		return "not_found"
	}
	return c02Msg(err.Error())
}

func c02Code(c int) string {
	switch c {
	case 1:
		return "eof"
	case 7:
		return "depth"
	case 9:
		return "mismatch"
	case 5, 8: // integer overflow, float infinity: the literal is well-formed, the destination cannot hold it
		return "range"
	case 2, 3, 4, 6, 10:
		return "syntax"
	}
	return "other"
}

func c02Msg(m string) string {
	switch {
	case strings.Contains(m, "recursion exceeded"):
		return "depth"
	case strings.Contains(m, "eof"):
		return "eof"
	case strings.Contains(m, "invalid char"), strings.Contains(m, "invalid escape"), strings.Contains(m, "invalid unicode"),
		strings.Contains(m, "invalid number"), strings.Contains(m, "invalid UTF8"):
		return "syntax"
	case strings.Contains(m, "mismatch"):
		return "mismatch"
	case strings.Contains(m, "infinity"), strings.Contains(m, "overflow"), strings.Contains(m, "out of range"):
		return "range"
	}
	return "other"
}

// c02Str: the same bytes as a string, not copied (so that whatever lies behind the document in memory
// stays behind it; UnmarshalFromString / ValidString / NewRaw take strings)
func c02Str(b []byte) string {
	return *(*string)(unsafe.Pointer(&b))
}

func c02IsSpace(c byte) bool { return c == ' ' || c == '\t' || c == '\n' || c == '\r' }

func c02Trim(b []byte) []byte {
	i, j := 0, len(b)
	for i < j && c02IsSpace(b[i]) {
		i++
	}
	for j > i && c02IsSpace(b[j-1]) {
		j--
	}
	return b[i:j]
}

// Unmarshal answers three ways: nil = the document was accepted; a type mismatch = an error that says
// nothing about the syntax (sonic stops checking trailing bytes then, and a well-formed document that
// does not fit the destination gets it too): neither an acceptance nor a rejection, reported as "m";
// anything else = rejected.
func c02Unm(err error) c02Res {
	if err == nil {
		return c02Res{acc: true}
	}
	var me *decoder.MismatchTypeError
	if errors.As(err, &me) {
		return c02Res{mismatch: true, kind: "mismatch"}
	}
	if k := c02Kind(err); k == "range" || k == "mismatch" {
		return c02Res{mismatch: true, kind: k}
	} else {
		return c02Res{kind: k}
	}
}

// c02Echo is a json.Marshaler that hands the document out as its encoding
type c02Echo struct{ b []byte }

func (e c02Echo) MarshalJSON() ([]byte, error) { return e.b, nil }

func c02RefFlag(err error) string {
	if err == nil {
		return "1"
	}
	var te *json.UnmarshalTypeError
	if errors.As(err, &te) {
		return "m"
	}
	return "0"
}

type c02Res struct {
	acc      bool
	mismatch bool
	panicked bool
	skipped  bool
	kind     string
	extra    []string
}

func (r c02Res) flag() string {
	if r.skipped {
		return "-"
	}
	if r.panicked {
		return "P"
	}
	if r.acc {
		return "1"
	}
	if r.mismatch {
		return "m"
	}
	return "0"
}

type c02API struct {
	name string
	run  func(doc []byte, st *c02State) c02Res
}

type c02State struct {
	trim   []byte
	rawcap bool
}

func (st *c02State) captured(b []byte) {
	if !bytes.Equal(b, st.trim) {
		st.rawcap = false
	}
}

func c02Wrap(pre string, doc []byte, post string) []byte {
	b := make([]byte, 0, len(pre)+len(doc)+len(post))
	b = append(b, pre...)
	b = append(b, doc...)
	b = append(b, post...)
	return b
}

// Order fixes the bit order of the `sonic=` summary.  APIs whose name starts with "w" see the document
// wrapped as `{"r":DOC}`, "i" as `[0,DOC]`; the model judges the wrapped text for those.
var c02APIs = []c02API{
	{"valid", func(doc []byte, st *c02State) c02Res { // sonic.Valid
		return c02Res{acc: sonic.Valid(doc)}
	}},
	{"validstr", func(doc []byte, st *c02State) c02Res { // sonic.ValidString
		return c02Res{acc: sonic.ValidString(c02Str(doc))}
	}},
	{"valid_std", func(doc []byte, st *c02State) c02Res { // ConfigStd.Valid
		return c02Res{acc: sonic.ConfigStd.Valid(doc)}
	}},
	{"unm_any", func(doc []byte, st *c02State) c02Res { // default Unmarshal into interface{}
		var v interface{}
		err := sonic.ConfigDefault.UnmarshalFromString(c02Str(doc), &v)
		return c02Unm(err)
	}},
	{"unm_any_std", func(doc []byte, st *c02State) c02Res { // ConfigStd (validate-string) into interface{}
		var v interface{}
		err := sonic.ConfigStd.UnmarshalFromString(c02Str(doc), &v)
		return c02Unm(err)
	}},
	{"unm_struct", func(doc []byte, st *c02State) c02Res {
		var v c02Struct
		err := sonic.ConfigDefault.UnmarshalFromString(c02Str(doc), &v)
		return c02Unm(err)
	}},
	{"unm_struct_std", func(doc []byte, st *c02State) c02Res {
		var v c02Struct
		err := sonic.ConfigStd.UnmarshalFromString(c02Str(doc), &v)
		return c02Unm(err)
	}},
	{"unm_empty", func(doc []byte, st *c02State) c02Res { // struct{}: every member is skipped natively
		var v struct{}
		err := sonic.ConfigDefault.UnmarshalFromString(c02Str(doc), &v)
		return c02Unm(err)
	}},
	{"unm_raw", func(doc []byte, st *c02State) c02Res { // top-level json.RawMessage
		var v json.RawMessage
		err := sonic.ConfigDefault.UnmarshalFromString(c02Str(doc), &v)
		if err == nil {
			st.captured(v)
		}
		return c02Unm(err)
	}},
	{"unm_raw_std", func(doc []byte, st *c02State) c02Res {
		var v json.RawMessage
		err := sonic.ConfigStd.UnmarshalFromString(c02Str(doc), &v)
		return c02Unm(err)
	}},
	{"unm_unmarshaler", func(doc []byte, st *c02State) c02Res { // top-level json.Unmarshaler capture
		var v c02Capture
		err := sonic.ConfigDefault.UnmarshalFromString(c02Str(doc), &v)
		if err == nil && v.calls == 1 {
			st.captured(v.got)
		}
		return c02Unm(err)
	}},
	{"unm_unmarshaler_std", func(doc []byte, st *c02State) c02Res {
		var v c02Capture
		err := sonic.ConfigStd.UnmarshalFromString(c02Str(doc), &v)
		return c02Unm(err)
	}},
	{"node_unm", func(doc []byte, st *c02State) c02Res { // Unmarshal into *ast.Node (Node.UnmarshalJSON)
		var n ast.Node
		err := sonic.ConfigDefault.UnmarshalFromString(c02Str(doc), &n)
		r := c02Res{acc: err == nil, kind: c02Kind(err)}
		if err == nil {
			// then Load/Check: the second consumer of the same bytes
			lerr := n.LoadAll()
			if lerr == nil {
				lerr = n.Check()
			}
			r.extra = append(r.extra, "node_load="+b01(lerr == nil))
			if lerr != nil {
				r.extra = append(r.extra, "e_node_load="+c02Kind(lerr))
			}
		}
		return r
	}},
	{"get", func(doc []byte, st *c02State) c02Res { // sonic.Get with an empty path
		n, err := sonic.Get(doc)
		if err == nil {
			err = n.Check()
		}
		r := c02Res{acc: err == nil, kind: c02Kind(err)}
		if err == nil {
			if raw, e2 := n.Raw(); e2 == nil && raw != string(st.trim) {
				r.extra = append(r.extra, "get_raw="+hexArg([]byte(raw)))
			}
		}
		return r
	}},
	{"newraw_check", func(doc []byte, st *c02State) c02Res { // ast.NewRaw(doc).Check()
		n := ast.NewRaw(c02Str(doc))
		err := n.Check()
		r := c02Res{acc: err == nil, kind: c02Kind(err)}
		if err == nil {
			if raw, e2 := n.Raw(); e2 == nil && raw != string(st.trim) {
				r.extra = append(r.extra, "newraw_raw="+hexArg([]byte(raw)))
			}
		}
		return r
	}},
	{"skip", func(doc []byte, st *c02State) c02Res { // decoder.Skip: one value, caller gets the end offset
		start, end := decoder.Skip(doc)
		if start < 0 {
			return c02Res{acc: false, kind: c02Code(-start)}
		}
		full := end <= len(doc)
		for i := end; full && i < len(doc); i++ {
			if !c02IsSpace(doc[i]) {
				full = false
			}
		}
		// accept = "Skip said a value ends at `end`, and nothing but space follows"
		r := c02Res{acc: full, kind: "trailing", extra: []string{"skip_end=" + itoa(end), "skip_start=" + itoa(start)}}
		return r
	}},
	// ---- further public entry points that take a whole JSON text (wave 3)
	{"enc_valid", func(doc []byte, st *c02State) c02Res { // encoder.Valid
		ok, _ := encoder.Valid(doc)
		return c02Res{acc: ok}
	}},
	{"get_str", func(doc []byte, st *c02State) c02Res { // sonic.GetFromString, empty path
		n, err := sonic.GetFromString(c02Str(doc))
		if err == nil {
			err = n.Check()
		}
		return c02Res{acc: err == nil, kind: c02Kind(err)}
	}},
	{"newraw_cr", func(doc []byte, st *c02State) c02Res { // ast.NewRawConcurrentRead(doc).Check()
		n := ast.NewRawConcurrentRead(c02Str(doc))
		err := n.Check()
		return c02Res{acc: err == nil, kind: c02Kind(err)}
	}},
	{"loads", func(doc []byte, st *c02State) c02Res { // ast.Loads: Go-side parse of the whole text into interface{}
		// (the offset it returns is the end of the value only for scalars - for a container it is the offset
		//  after the opening bracket - so it cannot be used to look at what follows; accepted = no error)
		_, _, err := ast.Loads(c02Str(doc))
		return c02Unm(err)
	}},
	{"dec_decode", func(doc []byte, st *c02State) c02Res { // decoder.NewDecoder(doc).Decode + CheckTrailings
		var v interface{}
		d := decoder.NewDecoder(c02Str(doc))
		err := d.Decode(&v)
		if err == nil {
			err = d.CheckTrailings()
		}
		return c02Unm(err)
	}},
	{"dec_usenumber", func(doc []byte, st *c02State) c02Res { // numbers go through skip_number instead of vnumber
		var v interface{}
		d := decoder.NewDecoder(c02Str(doc))
		d.UseNumber()
		err := d.Decode(&v)
		if err == nil {
			err = d.CheckTrailings()
		}
		return c02Unm(err)
	}},
	{"dec_useint64", func(doc []byte, st *c02State) c02Res {
		var v interface{}
		d := decoder.NewDecoder(c02Str(doc))
		d.UseInt64()
		err := d.Decode(&v)
		if err == nil {
			err = d.CheckTrailings()
		}
		return c02Unm(err)
	}},
	// the encoder validates what a json.Marshaler hands it (alg.ValidStrict: validate_one with the string-
	// validating scanner; json.Compact under CompactMarshaler): an acceptor of JSON text too
	{"mar_marshaler", func(doc []byte, st *c02State) c02Res {
		_, err := sonic.ConfigDefault.Marshal(c02Echo{doc})
		return c02Res{acc: err == nil, kind: "marshaler"}
	}},
	{"mar_marshaler_std", func(doc []byte, st *c02State) c02Res {
		_, err := sonic.ConfigStd.Marshal(c02Echo{doc})
		return c02Res{acc: err == nil, kind: "marshaler"}
	}},
	{"mar_raw", func(doc []byte, st *c02State) c02Res { // json.RawMessage field value
		if len(doc) == 0 {
			return c02Res{skipped: true}
		}
		_, err := sonic.ConfigDefault.Marshal(json.RawMessage(doc))
		return c02Res{acc: err == nil, kind: "marshaler"}
	}},
	// ---- the document as a member value: {"r":DOC}
	{"w_raw", func(doc []byte, st *c02State) c02Res { // json.RawMessage field
		var v c02RawField
		err := sonic.ConfigDefault.UnmarshalFromString(c02Str(c02Wrap(`{"r":`, doc, `}`)), &v)
		if err == nil {
			st.captured(v.R)
		}
		return c02Unm(err)
	}},
	{"w_raw_std", func(doc []byte, st *c02State) c02Res {
		var v c02RawField
		err := sonic.ConfigStd.UnmarshalFromString(c02Str(c02Wrap(`{"r":`, doc, `}`)), &v)
		return c02Unm(err)
	}},
	{"w_unmarshaler", func(doc []byte, st *c02State) c02Res { // json.Unmarshaler field
		var v c02CapField
		err := sonic.ConfigDefault.UnmarshalFromString(c02Str(c02Wrap(`{"r":`, doc, `}`)), &v)
		if err == nil && v.R.calls == 1 {
			st.captured(v.R.got)
		}
		return c02Unm(err)
	}},
	{"w_skipped", func(doc []byte, st *c02State) c02Res { // unknown member: skipped natively
		var v struct {
			X int `json:"x"`
		}
		err := sonic.ConfigDefault.UnmarshalFromString(c02Str(c02Wrap(`{"r":`, doc, `}`)), &v)
		return c02Unm(err)
	}},
	{"w_skipped_std", func(doc []byte, st *c02State) c02Res {
		var v struct {
			X int `json:"x"`
		}
		err := sonic.ConfigStd.UnmarshalFromString(c02Str(c02Wrap(`{"r":`, doc, `}`)), &v)
		return c02Unm(err)
	}},
}

// Get with a path: not an accept bit (see vlib/props/C02.py for the reading of the property); the
// located raw text goes to the model, which decides whether it is one structural value.
func c02GetPath(doc []byte, out *[]string) {
	n, err := sonic.Get(c02Wrap(`{"r":`, doc, `}`), "r")
	if err == nil {
		err = n.Check()
	}
	*out = append(*out, "getp="+b01(err == nil))
	if err == nil {
		if raw, e2 := n.Raw(); e2 == nil {
			*out = append(*out, "getp_raw="+hexArg([]byte(raw)))
		}
	} else {
		*out = append(*out, "e_getp="+c02Kind(err))
	}
	n, err = sonic.Get(c02Wrap(`[0,`, doc, `]`), 1)
	if err == nil {
		err = n.Check()
	}
	*out = append(*out, "geti="+b01(err == nil))
	if err == nil {
		if raw, e2 := n.Raw(); e2 == nil {
			*out = append(*out, "geti_raw="+hexArg([]byte(raw)))
		}
	} else {
		*out = append(*out, "e_geti="+c02Kind(err))
	}
}

// ---- typed destinations: the compiled (JIT) decoders do their own blank skipping and separator handling
// (inlined lspace, _OP_* instructions), none of which the interface{} / RawMessage / Valid paths touch.
//
//	valid typed <doc hex>      every destination below, default and std config:  t_<name>=<0|1|m|P>,
//	                           rt_<name>=<0|1|m> (encoding/json into the same type)
type c02TInner struct {
	E bool    `json:"e"`
	X []int   `json:"x"`
	S *string `json:"s"`
}

type c02TStruct struct {
	A int            `json:"a"`
	B string         `json:"b"`
	C []int          `json:"c"`
	D c02TInner      `json:"d"`
	F *int           `json:"f"`
	G float64        `json:"g"`
	H map[string]int `json:"h"`
	I [2]int         `json:"i"`
	J *c02TInner     `json:"j"`
	K []c02TInner    `json:"k"`
	L bool           `json:"l"`
	U uint8          `json:"u"`
}

type c02TDest struct {
	name string
	mk   func() interface{}
}

var c02TDests = []c02TDest{
	{"struct", func() interface{} { return new(c02TStruct) }},
	{"pstruct", func() interface{} { return new(*c02TStruct) }},
	{"slice", func() interface{} { return new([]int) }},
	{"array", func() interface{} { return new([2]int) }},
	{"map", func() interface{} { return new(map[string]int) }},
	{"mapstruct", func() interface{} { return new(map[string]c02TInner) }},
	{"slice2", func() interface{} { return new([][]int) }},
	{"slicestruct", func() interface{} { return new([]c02TInner) }},
	{"sliceany", func() interface{} { return new([]interface{}) }},
	{"mapany", func() interface{} { return new(map[string]interface{}) }},
	{"int", func() interface{} { return new(int) }},
	{"string", func() interface{} { return new(string) }},
	{"bool", func() interface{} { return new(bool) }},
	{"float", func() interface{} { return new(float64) }},
	{"any", func() interface{} { return new(interface{}) }},
}

// prev (optional, `prev=<hex>`): a document decoded into the same destination type, in the same process, right
// before `doc` - its verdict is thrown away.  What a decoder answers for `doc` must not depend on it (pooled
// parsers and buffers carry state from one call to the next).
func c02Typed(doc []byte, prev []byte, hasPrev bool) string {
	// compact answer (this stream is large): sonic=<flag per destination: default then std config, in the order
	// of c02TDests>, rt=<encoding/json's flag per destination>; vlib/props/C02.py knows the order
	var bits, rbits []byte
	var extra []string
	for _, d := range c02TDests {
		for ci, cfg := range []sonic.API{sonic.ConfigDefault, sonic.ConfigStd} {
			name := "t_" + d.name
			if ci == 1 {
				name += "_std"
			}
			buf := append(make([]byte, 0, len(doc)), doc...)
			api := c02API{name: name, run: func(b []byte, st *c02State) c02Res {
				if hasPrev {
					_ = cfg.UnmarshalFromString(string(prev), d.mk())
				}
				return c02Unm(cfg.UnmarshalFromString(c02Str(b), d.mk()))
			}}
			r := c02Guard(api, buf, nil)
			bits = append(bits, r.flag()[0])
			extra = append(extra, r.extra...)
		}
		rbits = append(rbits, c02RefFlag(json.Unmarshal(doc, d.mk()))[0])
	}
	out := []string{"sonic=" + string(bits), "ref=" + b01(json.Valid(doc)), "rt=" + string(rbits)}
	return strings.Join(append(out, extra...), "\t")
}

// a panic inside one API is that API's answer ("P"); the others still get asked
func c02Guard(api c02API, d []byte, st *c02State) (r c02Res) {
	defer func() {
		if x := recover(); x != nil {
			msg := fmt.Sprint(x)
			if len(msg) > 80 {
				msg = msg[:80]
			}
			msg = strings.Map(func(c rune) rune {
				if c == '\t' || c == '\n' || c == '\r' || c == '=' {
					return ' '
				}
				return c
			}, msg)
			r = c02Res{panicked: true, kind: "panic", extra: []string{"panic_" + api.name + "=" + msg}}
		}
	}()
	return api.run(d, st)
}

func init() {
	registerOp("valid", func(a []string) string {
		if len(a) < 2 {
			return "sonic=badcase"
		}
		doc := unhexArg(a[1])
		if a[0] == "typed" {
			var prev []byte
			hasPrev := false
			for _, x := range a[2:] {
				if strings.HasPrefix(x, "prev=") {
					prev, hasPrev = unhexArg(x[5:]), true
				}
			}
			return c02Typed(doc, prev, hasPrev)
		}
		// tail=<hex>: the document is the front part of a longer buffer that continues with these bytes
		// (what a caller gets by slicing); no API may look at them
		var tail []byte
		for _, x := range a[2:] {
			if strings.HasPrefix(x, "tail=") {
				tail = unhexArg(x[5:])
			}
		}
		st := &c02State{trim: c02Trim(doc), rawcap: true}
		var out []string
		var bits []byte
		for _, api := range c02APIs {
			if a[0] != "all" && a[0] != api.name {
				continue
			}
			// every API gets its own copy: none may see what another did to the buffer
			d := append(append(make([]byte, 0, len(doc)+len(tail)), doc...), tail...)[:len(doc)]
			r := c02Guard(api, d, st)
			bits = append(bits, r.flag()[0])
			out = append(out, api.name+"="+r.flag())
			if !r.acc && r.kind != "" && r.kind != "-" {
				out = append(out, "e_"+api.name+"="+r.kind)
			}
			out = append(out, r.extra...)
		}
		if a[0] == "all" || a[0] == "getpath" {
			c02GetPath(doc, &out)
		}
		if len(bits) == 0 && a[0] != "getpath" {
			return "sonic=unsupported"
		}
		head := []string{"sonic=" + string(bits), "ref=" + b01(json.Valid(doc)), "rawcap=" + b01(st.rawcap)}
		if a[0] == "all" {
			// typed destinations: encoding/json on the same type says whether a refusal is about types
			// ("m": a rejection by sonic is then not a statement about the syntax either)
			var rs c02Struct
			var re struct{}
			head = append(head, "ref_struct="+c02RefFlag(json.Unmarshal(doc, &rs)), "ref_empty="+c02RefFlag(json.Unmarshal(doc, &re)))
		}
		return strings.Join(append(head, out...), "\t")
	})
}
