package main

// C01 / C11 operation:
//
//	bind <cfgbits> <T> <doc hex> <tags>
//
// = the shared `unm` (sonic + encoding/json on a fresh zero value of T); <tags> = the features the
// generator put into the case (used by the known-finding matchers and the evidence histogram).

func init() {
	registerOp("bind", func(a []string) string {
		return ops["unm"](a[:3])
	})
}
