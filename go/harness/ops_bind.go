package main

// C01 / C11 operation:
//
//	bind <cfgbits> <T> <doc hex> <tags>
//
// = the shared `unm` (sonic + encoding/json on a fresh zero value of T), plus `flt=`: for every
// number-shaped token of the document (inside string literals too, for `,string` fields) what
// strconv.ParseFloat makes of it at 64 and 32 bits.  The Lean model takes this table as its float
// oracle (the exact decimal→binary conversion belongs to C19's model), so it can decide
// error-or-not for float destinations.  <tags> = features the generator put into the case.

import (
	"fmt"
	"math"
	"strconv"
	"strings"
)

func isNumByte(c byte) bool {
	return c >= '0' && c <= '9' || c == '-' || c == '+' || c == '.' || c == 'e' || c == 'E'
}

// floatTable lists "hexlit:bits64|x:bits32|x" for the distinct number-shaped tokens of doc
func floatTable(doc []byte) string {
	seen := map[string]bool{}
	var out []string
	i := 0
	for i < len(doc) && len(out) < 96 {
		if !isNumByte(doc[i]) {
			i++
			continue
		}
		j := i
		for j < len(doc) && isNumByte(doc[j]) {
			j++
		}
		tok := string(doc[i:j])
		i = j
		if seen[tok] || len(tok) > 400 {
			continue
		}
		seen[tok] = true
		hasDigit := false
		for k := 0; k < len(tok); k++ {
			if tok[k] >= '0' && tok[k] <= '9' {
				hasDigit = true
			}
		}
		if !hasDigit {
			continue
		}
		e := hexArg([]byte(tok)) + ":"
		if f, err := strconv.ParseFloat(tok, 64); err == nil {
			e += fmt.Sprintf("%016x", math.Float64bits(f))
		} else {
			e += "x"
		}
		e += ":"
		if f, err := strconv.ParseFloat(tok, 32); err == nil {
			e += fmt.Sprintf("%08x", math.Float32bits(float32(f)))
		} else {
			e += "x"
		}
		out = append(out, e)
	}
	if len(out) == 0 {
		return "-"
	}
	return strings.Join(out, ",")
}

func init() {
	registerOp("bind", func(a []string) string {
		res := ops["unm"](a[:3])
		return res + "\tflt=" + floatTable(unhexArg(a[2]))
	})
}
