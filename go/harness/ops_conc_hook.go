//go:build hook_conc

package main

// Hook-driven cache operations (C08/C09): the real `_ProgramMap` / `ProgramCache` of
// internal/caching driven with fabricated keys whose hashes the case line chooses.
// Needs hooks/internal/caching/verif_hook.go + hooks/verifhook/cache.go in the tree.

import (
	"fmt"
	"math/rand"
	"strconv"
	"strings"
	"sync"
	"sync/atomic"

	"github.com/bytedance/sonic/verifhook"
)

const concDigestP = 2147483647

func concDigest(slots []verifhook.CacheSlot) uint64 {
	d := uint64(0)
	for _, s := range slots {
		d = (d*31 + uint64(s.Index)) % concDigestP
		d = (d*31 + uint64(s.ID)) % concDigestP
		d = (d*31 + uint64(s.Val.(int))) % concDigestP
	}
	return d
}

type concKeyID struct{ id, hash uint32 }

// pmap <cap> <script>
//
//	script: comma separated  a<id>.<hash>.<val> | g<id>.<hash> | r
//	answer: sonic= tokens joined by ';' :  A<n>.<mask>[.<digest> while ≤ 64 buckets] | G<val>|Gnil | R<n>.<mask>.<digest>,
//	        then the final dump  D<idx>:<id>:<val>|...  (≤ 64 buckets) or the final digest F<n>.<mask>.<digest>
//	        ref= the G tokens according to a plain Go map ("-" when the script adds a present key)
func opPMap(a []string) string {
	capacity, _ := strconv.Atoi(a[0])
	pm := verifhook.NewPMap(capacity)
	keys := map[concKeyID]*verifhook.CacheKey{}
	keyOf := func(id, hash uint32) *verifhook.CacheKey {
		k, ok := keys[concKeyID{id, hash}]
		if !ok {
			k = verifhook.NewCacheKey(id, hash)
			keys[concKeyID{id, hash}] = k
		}
		return k
	}
	var out, ref []string
	spec := map[concKeyID]int{}
	dup := false
	if a[1] != "-" {
		for _, op := range strings.Split(a[1], ",") {
			switch op[0] {
			case 'a':
				f := strings.Split(op[1:], ".")
				id, _ := strconv.ParseUint(f[0], 10, 32)
				h, _ := strconv.ParseUint(f[1], 10, 32)
				v, _ := strconv.Atoi(f[2])
				kid := concKeyID{uint32(id), uint32(h)}
				if _, ok := spec[kid]; ok {
					dup = true
				} else {
					spec[kid] = v
				}
				pm.Add(keyOf(kid.id, kid.hash), v)
				n, m, ln := pm.Stats()
				if ln <= 64 {
					_, _, _, slots := pm.Dump()
					out = append(out, fmt.Sprintf("A%d.%d.%d", n, m, concDigest(slots)))
				} else {
					out = append(out, fmt.Sprintf("A%d.%d", n, m))
				}
			case 'g':
				f := strings.Split(op[1:], ".")
				id, _ := strconv.ParseUint(f[0], 10, 32)
				h, _ := strconv.ParseUint(f[1], 10, 32)
				kid := concKeyID{uint32(id), uint32(h)}
				r := pm.Get(keyOf(kid.id, kid.hash))
				if r == nil {
					out = append(out, "Gnil")
				} else {
					out = append(out, "G"+itoa(r.(int)))
				}
				if v, ok := spec[kid]; ok {
					ref = append(ref, "G"+itoa(v))
				} else {
					ref = append(ref, "Gnil")
				}
			case 'r':
				pm.Rehash()
				n, m, _, slots := pm.Dump()
				out = append(out, fmt.Sprintf("R%d.%d.%d", n, m, concDigest(slots)))
			default:
				return "sonic=unsupported"
			}
		}
	}
	n, m, ln, slots := pm.Dump()
	if ln <= 64 {
		var d []string
		for _, s := range slots {
			d = append(d, fmt.Sprintf("%d:%d:%d", s.Index, s.ID, s.Val.(int)))
		}
		out = append(out, "D"+strings.Join(d, "|"))
	} else {
		out = append(out, fmt.Sprintf("F%d.%d.%d", n, m, concDigest(slots)))
	}
	_ = n
	_ = m
	refs := strings.Join(ref, ";")
	if dup || refs == "" {
		refs = "-"
	}
	return "sonic=" + strings.Join(out, ";") + "\tref=" + refs + "\tlen=" + itoa(ln)
}

func concHash(mode int, id uint32, r *rand.Rand) uint32 {
	switch mode {
	case 0:
		return id
	case 1:
		return 0xdeadbeef
	case 2:
		return id % 8
	case 3:
		return r.Uint32()
	default:
		return id * 4096 // all keys on bucket 0 of the production table until it grows past 2^12
	}
}

func concCodec(id uint32) int { return int(id)*7 + 1 }

// pcrace <cap> <threads> <nkeys> <hashmode> <seed>
//
//	`threads` goroutines race Get / Compute (FindOrCompile pattern) for `nkeys` fabricated keys on one
//	real ProgramCache.  answer: sonic=ok | bad:<what>   maxcompiles=<n>   table=<mask>.<n>.<len>|idx:id:hash:val|...
func opPCRace(a []string) string {
	capacity, _ := strconv.Atoi(a[0])
	threads, _ := strconv.Atoi(a[1])
	nkeys, _ := strconv.Atoi(a[2])
	mode, _ := strconv.Atoi(a[3])
	seed, _ := strconv.ParseInt(a[4], 10, 64)
	r := rand.New(rand.NewSource(seed))
	c := verifhook.NewCache(capacity)
	keys := make([]*verifhook.CacheKey, nkeys)
	for i := range keys {
		keys[i] = verifhook.NewCacheKey(uint32(i+1), concHash(mode, uint32(i+1), r))
	}
	compiles := make([]int32, nkeys)
	var bad atomic.Value
	start := make(chan struct{})
	var wg sync.WaitGroup
	for t := 0; t < threads; t++ {
		perm := r.Perm(nkeys)
		style := t % 3
		wg.Add(1)
		go func(perm []int, style int) {
			defer wg.Done()
			<-start
			for _, i := range perm {
				k := keys[i]
				var v interface{}
				if style != 1 {
					v = c.Get(k)
				}
				if v == nil {
					var err error
					v, err = c.Compute(k, func() (interface{}, error) {
						atomic.AddInt32(&compiles[i], 1)
						return concCodec(k.ID), nil
					})
					if err != nil {
						bad.Store("compute error")
						continue
					}
				}
				if v == nil || v.(int) != concCodec(k.ID) {
					bad.Store(fmt.Sprintf("key %d got %v", k.ID, v))
				}
				if style == 2 {
					if w := c.Get(k); w == nil || w.(int) != concCodec(k.ID) {
						bad.Store(fmt.Sprintf("key %d: Get after completed Compute got %v", k.ID, w))
					}
				}
			}
		}(perm, style)
	}
	close(start)
	wg.Wait()
	maxc := int32(0)
	for i, n := range compiles {
		if n > maxc {
			maxc = n
		}
		if n != 1 && bad.Load() == nil {
			bad.Store(fmt.Sprintf("key %d compiled %d times", i+1, n))
		}
	}
	n, m, ln, slots := c.Dump()
	var sb strings.Builder
	fmt.Fprintf(&sb, "%d.%d.%d", m, n, ln)
	for _, s := range slots {
		fmt.Fprintf(&sb, "|%d:%d:%d:%d", s.Index, s.ID, s.Hash, s.Val.(int))
	}
	res := "ok"
	if b := bad.Load(); b != nil {
		res = "bad:" + strings.ReplaceAll(b.(string), "\t", " ")
	}
	return "sonic=" + res + "\tmaxcompiles=" + itoa(int(maxc)) + "\ttable=" + sb.String()
}

func init() {
	registerOp("pmap", opPMap)
	registerOp("pcrace", opPCRace)
}
