package main

// Operations of the `enc` work package (C03 / C04 / C12):
//
//	rt <cfgbits> <T> <V>          Marshal with sonic, then decode the text back with sonic AND with
//	                              encoding/json into a fresh T and compare with the original on bit
//	                              patterns; the same round trip through encoding/json alone is the reference
//	mardeep <cfgbits> <kind> <n>  value nested n levels deep (kind: sl | map | rec | arrst)
//	marcyc <cfgbits> <kind>       cyclic value (kind: ptr | sl | map)
//	markind <cfgbits> <kind>      value of a kind without JSON representation (chan, func, complex, ...)
//	marfail <cfgbits> <name>      Marshaler / TextMarshaler whose method returns an error
//	marps <cfgbits> <name>        hand-built value with an EMBEDDED pointer-shaped (Text)Marshaler (buildPS)
//
// and three more library types for the typed ops: (lib LJ) / (lib LJP) / (lib LT) = value-receiver
// json.Marshaler, pointer-receiver json.Marshaler, value-receiver TextMarshaler returning programmable
// bytes (valid, invalid, indented JSON).
//
// Every answer carries sonic= (ok | error kind) and ref= (encoding/json on the same value).

import (
	"bytes"
	"encoding/hex"
	"encoding/json"
	"fmt"
	"reflect"
	"sort"
	"strconv"
	"strings"
)

// dumpCanon is dumpValue (types.go) with one switch: lenient prints nil slices/maps/[]byte like empty ones.
func dumpCanon(n *sx, v reflect.Value, lenient bool) string {
	if !n.isL {
		switch n.atom {
		case "bytes", "raw":
			if v.IsNil() {
				if lenient && n.atom == "bytes" {
					return "(b -)"
				}
				return "nil"
			}
			return dumpValue(n, v)
		case "any":
			return dumpAnyCanon(v, lenient)
		}
		return dumpValue(n, v)
	}
	switch n.head() {
	case "sl":
		if v.IsNil() {
			if lenient {
				return "(sl)"
			}
			return "nil"
		}
		p := []string{"sl"}
		for i := 0; i < v.Len(); i++ {
			p = append(p, dumpCanon(n.list[1], v.Index(i), lenient))
		}
		return "(" + strings.Join(p, " ") + ")"
	case "arr":
		p := []string{"arr"}
		for i := 0; i < v.Len(); i++ {
			p = append(p, dumpCanon(n.list[2], v.Index(i), lenient))
		}
		return "(" + strings.Join(p, " ") + ")"
	case "ptr":
		if v.IsNil() {
			return "nil"
		}
		return "(ptr " + dumpCanon(n.list[1], v.Elem(), lenient) + ")"
	case "map":
		if v.IsNil() {
			if lenient {
				return "(map)"
			}
			return "nil"
		}
		var es []string
		for _, k := range v.MapKeys() {
			es = append(es, "("+dumpCanon(n.list[1], k, lenient)+" "+dumpCanon(n.list[2], v.MapIndex(k), lenient)+")")
		}
		sort.Strings(es)
		return "(" + strings.Join(append([]string{"map"}, es...), " ") + ")"
	case "st":
		p := []string{"st"}
		for i, f := range n.list[1:] {
			p = append(p, dumpCanon(f.list[3], v.Field(i), lenient))
		}
		return "(" + strings.Join(p, " ") + ")"
	case "lib":
		s := dumpLib(v, 0)
		if lenient {
			s = strings.ReplaceAll(strings.ReplaceAll(s, ":[]", ":nil"), ":map[]", ":nil")
		}
		return "(lib " + hx([]byte(s)) + ")"
	}
	panic("dumpCanon: " + n.head())
}

func dumpAnyCanon(v reflect.Value, lenient bool) string {
	if v.Kind() == reflect.Interface {
		if v.IsNil() {
			return "nil"
		}
		v = v.Elem()
	}
	switch x := v.Interface().(type) {
	case []interface{}:
		if x == nil && !lenient {
			return "(any (sl any) nil)"
		}
		p := []string{"sl"}
		for _, e := range x {
			e := e
			p = append(p, dumpAnyCanon(reflect.ValueOf(&e).Elem(), lenient))
		}
		return "(any (sl any) (" + strings.Join(p, " ") + "))"
	case map[string]interface{}:
		if x == nil && !lenient {
			return "(any (map str any) nil)"
		}
		var es []string
		for k, e := range x {
			e := e
			es = append(es, "((s "+hx([]byte(k))+") "+dumpAnyCanon(reflect.ValueOf(&e).Elem(), lenient)+")")
		}
		sort.Strings(es)
		return "(any (map str any) (" + strings.Join(append([]string{"map"}, es...), " ") + "))"
	}
	return dumpAny(v)
}

// cmpBack: eq = identical on bit patterns, le = identical up to nil-vs-empty containers, ne
func cmpBack(tn *sx, orig, back reflect.Value) string {
	if dumpCanon(tn, orig, false) == dumpCanon(tn, back, false) {
		return "eq"
	}
	if dumpCanon(tn, orig, true) == dumpCanon(tn, back, true) {
		return "le"
	}
	return "ne"
}

func stdEncode(v interface{}, bits uint64) ([]byte, error) {
	var rb bytes.Buffer
	enc := json.NewEncoder(&rb)
	enc.SetEscapeHTML(bits&cfgBit("EscapeHTML") != 0)
	err := enc.Encode(v)
	return bytes.TrimSuffix(rb.Bytes(), []byte("\n")), err
}

// ---------------------------------------------------------------- callback leaves with programmable output

// Programmable callback leaves.  They travel as the JSON string "hex:<hex of the bytes to return>"
// (decoded by their own Unmarshal methods, so that buildValue can construct them anywhere a library
// type may stand); any other JSON text is stored verbatim (what a round trip hands back).

func hexPayload(b []byte) ([]byte, bool) {
	if len(b) >= 6 && string(b[:5]) == `"hex:` && b[len(b)-1] == '"' {
		if d, err := hex.DecodeString(string(b[5 : len(b)-1])); err == nil {
			return d, true
		}
	}
	return nil, false
}

// LJ: value-receiver json.Marshaler returning its bytes verbatim
type LJ struct{ B []byte }

func (l LJ) MarshalJSON() ([]byte, error) { return l.B, nil }
func (l *LJ) UnmarshalJSON(b []byte) error {
	if d, ok := hexPayload(b); ok {
		l.B = d
	} else {
		l.B = append([]byte{}, b...)
	}
	return nil
}

// LJP: pointer-receiver json.Marshaler
type LJP struct{ B []byte }

func (l *LJP) MarshalJSON() ([]byte, error) { return l.B, nil }
func (l *LJP) UnmarshalJSON(b []byte) error {
	if d, ok := hexPayload(b); ok {
		l.B = d
	} else {
		l.B = append([]byte{}, b...)
	}
	return nil
}

// LT: value-receiver TextMarshaler returning its text verbatim (comparable: usable as a map key)
type LT struct{ B string }

func (l LT) MarshalText() ([]byte, error) { return []byte(l.B), nil }
func (l *LT) UnmarshalText(b []byte) error {
	if len(b) >= 4 && string(b[:4]) == "hex:" {
		if d, err := hex.DecodeString(string(b[4:])); err == nil {
			l.B = string(d)
			return nil
		}
	}
	l.B = string(b)
	return nil
}

// LE: Marshaler that fails
type LE struct{}

func (LE) MarshalJSON() ([]byte, error) { return nil, fmt.Errorf("LE fails") }

// LTE: TextMarshaler that fails
type LTE struct{}

func (LTE) MarshalText() ([]byte, error) { return nil, fmt.Errorf("LTE fails") }

// LTK: comparable TextMarshaler whose method fails on demand (keys of interface-kinded map key types)
type LTK struct {
	S   string
	Bad bool
}

func (l LTK) MarshalText() ([]byte, error) {
	if l.Bad {
		return nil, fmt.Errorf("LTK fails")
	}
	return []byte(l.S), nil
}

// TMKey: an interface KIND that implements encoding.TextMarshaler, as a map key type
type TMKey interface {
	MarshalText() ([]byte, error)
}

// embedded-pointer fixtures: a pointer-receiver leaf reached through an embedded pointer is addressable
// even when the outer value is not (DESIGN 8 #14, first half)
type EmbMPInner struct {
	M MP `json:"m"`
	T TP `json:"t"`
}
type EmbMPOuter struct {
	*EmbMPInner
	X int `json:"x"`
}

// ---------------------------------------------------------------- pointer-shaped ("direct interface") library types

// Library types whose value is ONE pointer word (a struct with a single pointer field, a [1]*T array, a map): when
// such a value is boxed into an interface the data word is the pointer itself, not the address of the slot
// (reflect: !Indirect()).  Each comes with a value-receiver and a pointer-receiver MarshalText and MarshalJSON.
// What they print is what their twins MV / MP / TV / TP of types.go print (`{"mv":n}`, `{"mp":n}`, "tvn", "tpn"; the
// pointer-receiver struct and map variants printed plainly are `{"V":n}` like MP / TP), so the Lean driver models
// them by their twins (Driver/Enc.lean twinName); the pointer-receiver arrays (plain form `[n]`) have no twin and are
// judged against encoding/json only.  They travel as the twin's JSON text and are built by their Unmarshal methods.
//
//	PSTV PSTP PSJV PSJP   struct{ V *int64 }     PATV PATP PAJV PAJP   [1]*int64     PMTV PMTP PMJV PMJP   map[string]int64

func psN(p *int64) int64 {
	if p == nil {
		return 0
	}
	return *p
}

func psParseText(b []byte, pre string) (int64, error) {
	s := string(b)
	if !strings.HasPrefix(s, pre) {
		return 0, fmt.Errorf("bad %s text", pre)
	}
	return strconv.ParseInt(s[len(pre):], 10, 64)
}

// psParseObj reads {"mv":n} / {"mp":n} / {"V":n} (whichever is present; {} is 0)
func psParseObj(b []byte) (int64, error) {
	var x struct {
		Mv *int64 `json:"mv"`
		Mp *int64 `json:"mp"`
		V  *int64 `json:"V"`
	}
	if err := json.Unmarshal(b, &x); err != nil {
		return 0, err
	}
	for _, p := range []*int64{x.Mv, x.Mp, x.V} {
		if p != nil {
			return *p, nil
		}
	}
	return 0, nil
}

type PSTV struct{ V *int64 }

func (p PSTV) MarshalText() ([]byte, error) {
	return []byte("tv" + strconv.FormatInt(psN(p.V), 10)), nil
}
func (p *PSTV) UnmarshalText(b []byte) error {
	n, err := psParseText(b, "tv")
	p.V = &n
	return err
}

type PSTP struct{ V *int64 }

func (p *PSTP) MarshalText() ([]byte, error) {
	return []byte("tp" + strconv.FormatInt(psN(p.V), 10)), nil
}
func (p *PSTP) UnmarshalJSON(b []byte) error {
	n, err := psParseObj(b)
	p.V = &n
	return err
}

type PSJV struct{ V *int64 }

func (p PSJV) MarshalJSON() ([]byte, error) { return []byte(fmt.Sprintf(`{"mv":%d}`, psN(p.V))), nil }
func (p *PSJV) UnmarshalJSON(b []byte) error {
	n, err := psParseObj(b)
	p.V = &n
	return err
}

type PSJP struct{ V *int64 }

func (p *PSJP) MarshalJSON() ([]byte, error) { return []byte(fmt.Sprintf(`{"mp":%d}`, psN(p.V))), nil }
func (p *PSJP) UnmarshalJSON(b []byte) error {
	n, err := psParseObj(b)
	p.V = &n
	return err
}

type PATV [1]*int64

func (p PATV) String() string { return fmt.Sprintf("PATV(%d)", psN(p[0])) }
func (p PATV) MarshalText() ([]byte, error) {
	return []byte("tv" + strconv.FormatInt(psN(p[0]), 10)), nil
}
func (p *PATV) UnmarshalText(b []byte) error {
	n, err := psParseText(b, "tv")
	p[0] = &n
	return err
}

type PATP [1]*int64

func (p PATP) String() string { return fmt.Sprintf("PATP(%d)", psN(p[0])) }
func (p *PATP) MarshalText() ([]byte, error) {
	return []byte("tp" + strconv.FormatInt(psN(p[0]), 10)), nil
}
func (p *PATP) UnmarshalJSON(b []byte) error {
	n, err := psParseObj(b)
	p[0] = &n
	return err
}

type PAJV [1]*int64

func (p PAJV) String() string               { return fmt.Sprintf("PAJV(%d)", psN(p[0])) }
func (p PAJV) MarshalJSON() ([]byte, error) { return []byte(fmt.Sprintf(`{"mv":%d}`, psN(p[0]))), nil }
func (p *PAJV) UnmarshalJSON(b []byte) error {
	n, err := psParseObj(b)
	p[0] = &n
	return err
}

type PAJP [1]*int64

func (p PAJP) String() string                { return fmt.Sprintf("PAJP(%d)", psN(p[0])) }
func (p *PAJP) MarshalJSON() ([]byte, error) { return []byte(fmt.Sprintf(`{"mp":%d}`, psN(p[0]))), nil }
func (p *PAJP) UnmarshalJSON(b []byte) error {
	n, err := psParseObj(b)
	p[0] = &n
	return err
}

type PMTV map[string]int64

func (p PMTV) MarshalText() ([]byte, error) { return []byte("tv" + strconv.FormatInt(p["V"], 10)), nil }
func (p *PMTV) UnmarshalText(b []byte) error {
	n, err := psParseText(b, "tv")
	*p = PMTV{"V": n}
	return err
}

type PMTP map[string]int64

func (p *PMTP) MarshalText() ([]byte, error) {
	return []byte("tp" + strconv.FormatInt((*p)["V"], 10)), nil
}
func (p *PMTP) UnmarshalJSON(b []byte) error {
	n, err := psParseObj(b)
	*p = PMTP{"V": n}
	return err
}

type PMJV map[string]int64

func (p PMJV) MarshalJSON() ([]byte, error) { return []byte(fmt.Sprintf(`{"mv":%d}`, p["V"])), nil }
func (p *PMJV) UnmarshalJSON(b []byte) error {
	n, err := psParseObj(b)
	*p = PMJV{"V": n}
	return err
}

type PMJP map[string]int64

func (p *PMJP) MarshalJSON() ([]byte, error) { return []byte(fmt.Sprintf(`{"mp":%d}`, (*p)["V"])), nil }
func (p *PMJP) UnmarshalJSON(b []byte) error {
	n, err := psParseObj(b)
	*p = PMJP{"V": n}
	return err
}

// embedding: the methods of an embedded pointer-shaped type are promoted; `struct{ PSTV }` is pointer-shaped itself
type EmbPSTV struct{ PSTV }
type EmbPSTVWide struct {
	PSTV
	X int `json:"x"`
}
type EmbPtrPSTV struct{ *PSTV }
type EmbPATV struct{ PATV }
type EmbPMTV struct{ PMTV }
type EmbPSJV struct{ PSJV }
type EmbPAJV struct{ PAJV }
type EmbPSTP struct{ PSTP }
type EmbPSJP struct{ PSJP }
type EmbPATP struct{ PATP }
type EmbPSTVIn struct {
	A int `json:"a"`
	E EmbPSTV
}

func psI(n int64) *int64 { return &n }

// buildPS: hand-built values with embedded pointer-shaped marshalers, `<fixture>` or `<fixture>.<position>`
// (position: val | ptr | any | sl | arr | mapv | field)
func buildPS(name string) interface{} {
	fix, pos := name, "val"
	if i := strings.LastIndex(name, "."); i >= 0 {
		for _, q := range psPositions {
			if name[i+1:] == q {
				fix, pos = name[:i], q
			}
		}
	}
	var v reflect.Value
	switch fix {
	case "emb.pstv":
		v = reflect.ValueOf(EmbPSTV{PSTV{psI(42)}})
	case "emb.pstv.wide":
		v = reflect.ValueOf(EmbPSTVWide{PSTV{psI(42)}, 7})
	case "emb.ptr.pstv":
		v = reflect.ValueOf(EmbPtrPSTV{&PSTV{psI(42)}})
	case "emb.patv":
		v = reflect.ValueOf(EmbPATV{PATV{psI(42)}})
	case "emb.pmtv":
		v = reflect.ValueOf(EmbPMTV{PMTV{"V": 42}})
	case "emb.psjv":
		v = reflect.ValueOf(EmbPSJV{PSJV{psI(42)}})
	case "emb.pajv":
		v = reflect.ValueOf(EmbPAJV{PAJV{psI(42)}})
	case "emb.pstp":
		v = reflect.ValueOf(EmbPSTP{PSTP{psI(42)}})
	case "emb.psjp":
		v = reflect.ValueOf(EmbPSJP{PSJP{psI(42)}})
	case "emb.patp":
		v = reflect.ValueOf(EmbPATP{PATP{psI(42)}})
	case "emb.pstv.in":
		v = reflect.ValueOf(EmbPSTVIn{1, EmbPSTV{PSTV{psI(42)}}})
	default:
		panic("marps: " + name)
	}
	t := v.Type()
	switch pos {
	case "val":
		return v.Interface()
	case "ptr":
		p := reflect.New(t)
		p.Elem().Set(v)
		return p.Interface()
	case "any":
		return []interface{}{v.Interface()}
	case "sl":
		s := reflect.MakeSlice(reflect.SliceOf(t), 2, 2)
		s.Index(0).Set(v)
		s.Index(1).Set(v)
		return s.Interface()
	case "arr":
		a := reflect.New(reflect.ArrayOf(1, t)).Elem()
		a.Index(0).Set(v)
		return a.Interface()
	case "mapv":
		m := reflect.MakeMap(reflect.MapOf(reflect.TypeOf(""), t))
		m.SetMapIndex(reflect.ValueOf("k"), v)
		return m.Interface()
	case "field":
		st := reflect.StructOf([]reflect.StructField{{Name: "A", Type: reflect.TypeOf(0)}, {Name: "F", Type: t}})
		x := reflect.New(st).Elem()
		x.Field(0).SetInt(1)
		x.Field(1).Set(v)
		return x.Interface()
	}
	panic("marps: position " + pos)
}

var psFixtures = []string{"emb.pstv", "emb.pstv.wide", "emb.ptr.pstv", "emb.patv", "emb.pmtv", "emb.psjv", "emb.pajv", "emb.pstp", "emb.psjp", "emb.patp", "emb.pstv.in"}
var psPositions = []string{"val", "ptr", "any", "sl", "arr", "mapv", "field"}

type deepRec struct {
	Next *deepRec `json:"n,omitempty"`
}

type arrSt struct {
	A [1]*arrSt `json:"a"`
}

func buildDeep(kind string, n int) interface{} {
	switch kind {
	case "sl":
		var v interface{} = "x"
		for i := 0; i < n; i++ {
			v = []interface{}{v}
		}
		return v
	case "map":
		var v interface{} = "x"
		for i := 0; i < n; i++ {
			v = map[string]interface{}{"k": v}
		}
		return v
	case "rec":
		var p *deepRec
		for i := 0; i < n; i++ {
			p = &deepRec{Next: p}
		}
		return p
	case "arrst":
		var p *arrSt
		for i := 0; i < n; i++ {
			p = &arrSt{A: [1]*arrSt{p}}
		}
		return p
	}
	panic("mardeep: kind " + kind)
}

func buildCyclic(kind string) interface{} {
	switch kind {
	case "ptr":
		r := &Rec{V: 1}
		r.Next = &Rec{V: 2, Next: r}
		return r
	case "sl":
		s := make([]interface{}, 1)
		s[0] = s
		return s
	case "map":
		m := map[string]interface{}{}
		m["self"] = m
		return m
	case "tree":
		t := &Tree{N: "a"}
		t.M = map[string]*Tree{"me": t}
		return t
	}
	panic("marcyc: kind " + kind)
}

func buildKind(kind string) interface{} {
	switch kind {
	case "chan":
		return make(chan int)
	case "func":
		return func() {}
	case "complex":
		return complex(1, 2)
	case "st_chan":
		return struct{ C chan int }{make(chan int)}
	case "st_func_omitempty":
		return struct {
			A int
			F func() `json:",omitempty"`
		}{A: 1}
	case "map_arr_key":
		return map[[2]int]int{{1, 2}: 3}
	case "map_st_key_empty":
		return map[struct{ A int }]int{}
	case "sl_complex":
		return []complex64{1}
	case "any_chan":
		return []interface{}{1, make(chan bool)}
	case "ptr_chan_nil":
		var p *chan int
		return struct{ P *chan int }{p}
	case "sl_chan_empty":
		return []chan int{}
	case "unsafe_ptr":
		return struct{ U uintptr }{7}
	}
	panic("markind: kind " + kind)
}

func init() {
	libTypes["LJ"] = reflect.TypeOf(LJ{})
	libTypes["LJP"] = reflect.TypeOf(LJP{})
	libTypes["LT"] = reflect.TypeOf(LT{})
	for n, v := range map[string]interface{}{"PSTV": PSTV{}, "PSTP": PSTP{}, "PSJV": PSJV{}, "PSJP": PSJP{}, "PATV": PATV{}, "PATP": PATP{},
		"PAJV": PAJV{}, "PAJP": PAJP{}, "PMTV": PMTV{}, "PMTP": PMTP{}, "PMJV": PMJV{}, "PMJP": PMJP{}} {
		libTypes[n] = reflect.TypeOf(v)
	}
	registerOp("rt", func(a []string) string {
		bits, _ := strconv.ParseUint(a[0], 10, 64)
		tn, t := parseType(a[1])
		v := buildValue(tn, t, parseSx(a[2]))
		api := apiOf(bits)
		sb, serr := api.Marshal(v.Interface())
		eo := 0
		for i, n := range encOptNames {
			if bits&cfgBit(n) != 0 {
				eo |= 1 << uint(i)
			}
		}
		out := "sonic=" + encErrKind(serr) + "\teo=" + strconv.Itoa(eo)
		if serr == nil {
			out += "\tout=" + hexArg(sb) + "\tvalid=" + b01(json.Valid(sb))
			// decode back with sonic (same frozen configuration)
			sp := reflect.New(t)
			if err := api.Unmarshal(append([]byte(nil), sb...), sp.Interface()); err != nil {
				out += "\trts=err"
			} else {
				out += "\trts=" + cmpBack(tn, v, sp.Elem())
			}
			jp := reflect.New(t)
			if err := json.Unmarshal(sb, jp.Interface()); err != nil {
				out += "\trtj=err"
			} else {
				out += "\trtj=" + cmpBack(tn, v, jp.Elem())
			}
		}
		// reference: the same round trip through encoding/json alone
		rb, rerr := stdEncode(v.Interface(), bits)
		out += "\tref=" + encErrKind(rerr)
		if rerr == nil {
			out += "\trout=" + hexArg(rb)
			rp := reflect.New(t)
			if err := json.Unmarshal(rb, rp.Interface()); err != nil {
				out += "\trrt=err"
			} else {
				out += "\trrt=" + cmpBack(tn, v, rp.Elem())
				// both texts read by the same decoder: do they denote the same value?  (what remains to be
				// said when the original holds ill-formed UTF-8, which no text can carry byte for byte)
				if serr == nil {
					xp := reflect.New(t)
					if err := json.Unmarshal(sb, xp.Interface()); err != nil {
						out += "\trtx=err"
					} else {
						out += "\trtx=" + cmpBack(tn, rp.Elem(), xp.Elem())
					}
				}
			}
		}
		return out
	})
	simple := func(v interface{}, bits uint64) string {
		sb, serr := apiOf(bits).Marshal(v)
		rb, rerr := stdEncode(v, bits)
		eo := 0
		for i, n := range encOptNames {
			if bits&cfgBit(n) != 0 {
				eo |= 1 << uint(i)
			}
		}
		out := "sonic=" + encErrKind(serr) + "\tref=" + encErrKind(rerr) + "\teo=" + strconv.Itoa(eo)
		if serr == nil {
			out += "\tvalid=" + b01(json.Valid(sb))
			if len(sb) <= 4096 {
				out += "\tout=" + hexArg(sb)
			}
		}
		if serr == nil && rerr == nil {
			out += "\tsame=" + b01(bytes.Equal(sb, rb))
			if len(rb) <= 4096 {
				out += "\trout=" + hexArg(rb)
			}
		}
		return out
	}
	registerOp("mardeep", func(a []string) string {
		bits, _ := strconv.ParseUint(a[0], 10, 64)
		n, _ := strconv.Atoi(a[2])
		return simple(buildDeep(a[1], n), bits)
	})
	registerOp("marcyc", func(a []string) string {
		bits, _ := strconv.ParseUint(a[0], 10, 64)
		return simple(buildCyclic(a[1]), bits)
	})
	registerOp("markind", func(a []string) string {
		bits, _ := strconv.ParseUint(a[0], 10, 64)
		return simple(buildKind(a[1]), bits)
	})
	registerOp("marps", func(a []string) string {
		bits, _ := strconv.ParseUint(a[0], 10, 64)
		return simple(buildPS(a[1]), bits)
	})
	registerOp("marfail", func(a []string) string {
		bits, _ := strconv.ParseUint(a[0], 10, 64)
		var v interface{}
		switch a[1] {
		case "LE":
			v = []interface{}{LE{}}
		case "LE.field":
			v = struct{ X LE }{}
		case "LTE":
			v = struct{ X LTE }{}
		case "LTE.key":
			v = map[LTE]int{{}: 1}
		case "emb.mp":
			v = EmbMPOuter{&EmbMPInner{MP{3}, TP{4}}, 1}
		case "emb.mp.ptr":
			v = &EmbMPOuter{&EmbMPInner{MP{3}, TP{4}}, 1}
		case "emb.mp.nil":
			v = EmbMPOuter{nil, 1}
		case "emb.mp.slice":
			v = []EmbMPOuter{{&EmbMPInner{MP{5}, TP{6}}, 2}}
		case "emb.mp.any":
			v = []interface{}{EmbMPOuter{&EmbMPInner{MP{7}, TP{8}}, 3}}
		case "ikey.bad":
			v = map[TMKey]int{LTK{"x", true}: 1}
		case "ikey.bad.mixed":
			v = map[TMKey]int{LTK{"a", false}: 1, LTK{"b", true}: 2, LTK{"c", false}: 3, TV{4}: 4}
		case "ikey.bad.field":
			v = struct {
				M map[TMKey]string `json:"m"`
			}{map[TMKey]string{LTE{}: "v"}}
		case "ikey.bad.ptr":
			v = &map[TMKey][]int{LTK{"", true}: nil}
		case "ikey.ok":
			v = map[TMKey]int{LTK{"b", false}: 1, LTK{"a<", false}: 2, TV{3}: 3, LT{"\u2028"}: 4}
		case "ikey.ok.one":
			v = []interface{}{map[TMKey]bool{TV{7}: true}, map[TMKey]bool{}}
		case "ikey.nil":
			v = map[TMKey]int(nil)
		default:
			panic("marfail: " + a[1])
		}
		return simple(v, bits)
	})
}
