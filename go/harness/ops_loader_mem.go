package main

// Property C10, wave 3: memory that unsafe code hands to the runtime as pointer-typed, and addresses of
// locals parked in heap state.
//
//	nullarena <seed> <n>   dirties the heap with freed, non-zero, pointer-typed memory, then decodes documents
//	                       whose arrays contain nulls into interface{} and checks every element against
//	                       encoding/json's answer, with collections forced in between.  Meant for the
//	                       worker started with SONIC_USE_OPTDEC=1 SONIC_USE_FASTMAP=1 (the arena from which
//	                       every []interface{} of a document is carved), same expectation in every mode.
//	vmrecurse <seed> <n>   pointer-shaped wrapper structs (struct{*Inner}) reached through recursion, with
//	                       several promoted fields, where encoding an earlier field calls a Marshaler /
//	                       TextMarshaler that grows (moves) the goroutine stack, lets other goroutines reuse
//	                       the released segment and collects.  Meant for SONIC_ENCODER_USE_VM=1 (the
//	                       interpreter keeps value addresses in the pooled state stack), same expectation
//	                       for the JIT.  Output compared with encoding/json's.

import (
	"encoding/json"
	"fmt"
	"math/rand"
	"reflect"
	"runtime"
	"strconv"
	"strings"
	"sync"
	"sync/atomic"

	"github.com/bytedance/sonic"
)

var naSink [][]interface{}

type naMarker struct{ a, b uint64 }

//go:noinline
func naDirty(elems int) {
	if elems < 1 {
		elems = 1
	}
	m1 := interface{}("DIRTY")
	m2 := interface{}(&naMarker{0xdeaddeaddeaddead, 0xdeaddeaddeaddead})
	cnt := 1024
	if elems > 512 {
		cnt = 128
	}
	for _, e := range []int{elems, elems + 1, 2 * elems} {
		for i := 0; i < cnt; i++ {
			s := make([]interface{}, e)
			for j := range s {
				if j&1 == 0 {
					s[j] = m1
				} else {
					s[j] = m2
				}
			}
			naSink = append(naSink, s)
		}
	}
	naSink = nil
	runtime.GC()
	runtime.GC()
}

func naNulls(n int) string {
	if n <= 0 {
		return ""
	}
	return strings.TrimSuffix(strings.Repeat("null,", n), ",")
}

func naDoc(r *rand.Rand, n int) string {
	switch r.Intn(4) {
	case 0:
		return "[" + naNulls(n) + "]"
	case 1:
		k := n - 4
		if k < 1 {
			k = 1
		}
		return `{"a":[1,null,"x",null],"b":[` + naNulls(k) + `]}`
	case 2:
		// nulls between other values, nested arrays
		var parts []string
		for i := 0; i < n; i++ {
			switch r.Intn(5) {
			case 0:
				parts = append(parts, strconv.Itoa(r.Intn(1000)))
			case 1:
				parts = append(parts, `"s`+strconv.Itoa(i)+`"`)
			case 2:
				parts = append(parts, "[null,"+strconv.Itoa(i)+",null]")
			default:
				parts = append(parts, "null")
			}
		}
		return "[" + strings.Join(parts, ",") + "]"
	default:
		var parts []string
		for i := 0; i < 1+n/8; i++ {
			parts = append(parts, `"k`+strconv.Itoa(i)+`":[`+naNulls(1+r.Intn(8))+`,true,`+naNulls(1+r.Intn(3))+`]`)
		}
		return "{" + strings.Join(parts, ",") + "}"
	}
}

func naCountElems(v interface{}) int {
	switch x := v.(type) {
	case []interface{}:
		c := len(x)
		for _, e := range x {
			c += naCountElems(e)
		}
		return c
	case map[string]interface{}:
		c := 0
		for _, e := range x {
			c += naCountElems(e)
		}
		return c
	}
	return 0
}

// naFirstBad: first place where got differs from want, described without touching got's payload
func naFirstBad(want, got interface{}, path string) string {
	switch w := want.(type) {
	case nil:
		if got != nil {
			return path + ":null-decoded-as-non-nil"
		}
	case []interface{}:
		g, ok := got.([]interface{})
		if !ok || len(g) != len(w) {
			return path + ":array-shape"
		}
		for i := range w {
			if s := naFirstBad(w[i], g[i], path+"["+strconv.Itoa(i)+"]"); s != "" {
				return s
			}
		}
	case map[string]interface{}:
		g, ok := got.(map[string]interface{})
		if !ok || len(g) != len(w) {
			return path + ":object-shape"
		}
		for k := range w {
			if s := naFirstBad(w[k], g[k], path+"."+k); s != "" {
				return s
			}
		}
	default:
		if !reflect.DeepEqual(want, got) {
			return path + ":value"
		}
	}
	return ""
}

// ---- vmrecurse ------------------------------------------------------------------------------------

var vrActive int32
var vrBurns int32

type vrGrow struct{ N int }

func (g vrGrow) MarshalJSON() ([]byte, error) {
	if g.N < 0 && atomic.LoadInt32(&vrActive) != 0 {
		vrBurn(96)
		vrScribble()
		runtime.GC()
		atomic.AddInt32(&vrBurns, 1)
	}
	return []byte(strconv.Itoa(g.N)), nil
}

type vrGrowT struct{ N int }

func (g vrGrowT) MarshalText() ([]byte, error) {
	if g.N < 0 && atomic.LoadInt32(&vrActive) != 0 {
		vrBurn(96)
		vrScribble()
		runtime.GC()
		atomic.AddInt32(&vrBurns, 1)
	}
	return []byte("t" + strconv.Itoa(g.N)), nil
}

//go:noinline
func vrBurn(n int) byte {
	var pad [1024]byte
	pad[n%len(pad)] = byte(n)
	if n == 0 {
		return pad[0]
	}
	return vrBurn(n-1) + pad[(n*7)%len(pad)]
}

type vrInner struct {
	A    vrGrow  `json:"a"`
	B    int     `json:"b"`
	C    string  `json:"c"`
	Next vrOuter `json:"next"`
}

// pointer-shaped: a struct whose only field is a pointer; it contains itself through vrInner.Next, so
// the nested value is encoded by a recursive call of the encoder
type vrOuter struct {
	*vrInner
}

type vrInnerT struct {
	K    vrGrowT         `json:"k"`
	M    map[vrGrowT]int `json:"m"`
	B    int             `json:"b"`
	C    string          `json:"c"`
	D    []int           `json:"d"`
	Next [1]*vrInnerT    `json:"-"`
	N2   vrOuterT        `json:"next"`
}

type vrOuterT struct {
	*vrInnerT
}

var vrDecoy = &vrInner{A: vrGrow{7777}, B: -2, C: "DECOY"}

//go:noinline
func vrFill(n int) *vrInner {
	var pad [48]*vrInner
	for i := range pad {
		pad[i] = vrDecoy
	}
	if n == 0 {
		return pad[0]
	}
	r := vrFill(n - 1)
	runtime.KeepAlive(&pad)
	return r
}

func vrScribble() {
	var wg sync.WaitGroup
	for i := 0; i < 32; i++ {
		wg.Add(1)
		go func() {
			defer wg.Done()
			vrFill(160)
		}()
	}
	wg.Wait()
}

// vrValue: a chain of `depth` nested wrappers; the element at level `hot` has the field whose callback
// moves the stack (negative N)
func vrValue(r *rand.Rand, depth, hot int) vrOuter {
	var cur vrOuter
	for lvl := depth - 1; lvl >= 0; lvl-- {
		n := 1 + r.Intn(1000)
		if lvl == hot {
			n = -n
		}
		cur = vrOuter{&vrInner{A: vrGrow{n}, B: r.Intn(1000), C: "c" + strconv.Itoa(r.Intn(1000)), Next: cur}}
	}
	return cur
}

func vrValueT(r *rand.Rand, depth, hot int) vrOuterT {
	var cur vrOuterT
	for lvl := depth - 1; lvl >= 0; lvl-- {
		n := 1 + r.Intn(1000)
		if lvl == hot {
			n = -n
		}
		cur = vrOuterT{&vrInnerT{K: vrGrowT{n}, M: map[vrGrowT]int{{n}: lvl}, B: r.Intn(1000), C: "c" + strconv.Itoa(r.Intn(1000)),
			D: []int{lvl, r.Intn(9)}, N2: cur}}
	}
	return cur
}

func init() {
	registerOp("nullarena", func(a []string) string {
		seed, _ := strconv.ParseInt(a[0], 10, 64)
		n, _ := strconv.Atoi(a[1])
		if n < 1 {
			n = 1
		}
		r := rand.New(rand.NewSource(seed))
		doc := naDoc(r, n)
		var want interface{}
		if err := json.Unmarshal([]byte(doc), &want); err != nil {
			return "sonic=unsupported"
		}
		elems := naCountElems(want)
		decodes := 0
		for round := 0; round < 3; round++ {
			naDirty(elems)
			for k := 0; k < 25; k++ {
				var v interface{}
				if err := sonic.UnmarshalString(doc, &v); err != nil {
					return "sonic=corrupt:error\tbytes=" + strconv.Itoa(len(doc))
				}
				decodes++
				if s := naFirstBad(want, v, "$"); s != "" {
					return fmt.Sprintf("sonic=corrupt:%s\tround=%d\tdecode=%d\telems=%d\tbytes=%d", s, round, k, elems, len(doc))
				}
				if k%8 == 7 {
					// a collection has to be able to walk what the decoder built
					runtime.GC()
					if s := naFirstBad(want, v, "$"); s != "" {
						return fmt.Sprintf("sonic=corrupt:after-gc:%s\telems=%d", s, elems)
					}
				}
			}
			runtime.GC()
		}
		return fmt.Sprintf("sonic=ok\tdecodes=%d\telems=%d\tbytes=%d", decodes, elems, len(doc))
	})

	registerOp("vmrecurse", func(a []string) string {
		seed, _ := strconv.ParseInt(a[0], 10, 64)
		n, _ := strconv.Atoi(a[1])
		depth := 2 + n%3
		r := rand.New(rand.NewSource(seed))
		hot := 1 + r.Intn(depth-1) // a nested level: reached through the recursive call
		textual := seed&1 == 1
		var val interface{}
		if textual {
			val = vrValueT(r, depth, hot)
		} else {
			val = vrValue(r, depth, hot)
		}
		atomic.StoreInt32(&vrActive, 0)
		ref, rerr := json.Marshal(val)
		if rerr != nil {
			return "sonic=unsupported"
		}
		// warm up: compile without stack games
		if out, err := gcSorted.Marshal(val); err != nil || string(out) != string(ref) {
			return "sonic=ok\tnote=quiet-output-differs-from-encoding-json\tburns=0"
		}
		atomic.StoreInt32(&vrActive, 1)
		atomic.StoreInt32(&vrBurns, 0)
		defer atomic.StoreInt32(&vrActive, 0)
		for attempt := 0; attempt < 12; attempt++ {
			var out []byte
			var err error
			done := make(chan struct{})
			// a fresh goroutine starts on a small stack, so the callback has to grow (move) it
			go func() {
				defer close(done)
				out, err = gcSorted.Marshal(val)
				runtime.KeepAlive(val)
			}()
			<-done
			if err != nil {
				return fmt.Sprintf("sonic=corrupt:error-under-stack-move\tattempt=%d", attempt)
			}
			if string(out) != string(ref) {
				g := string(out)
				if len(g) > 160 {
					g = g[:160]
				}
				return fmt.Sprintf("sonic=corrupt:output-differs-after-stack-move\tattempt=%d\tgot=%s\tref=%s", attempt, hexArg([]byte(g)), hexArg(ref[:minInt(len(ref), 160)]))
			}
		}
		return fmt.Sprintf("sonic=ok\tburns=%d\tdepth=%d\tbytes=%d", atomic.LoadInt32(&vrBurns), depth, len(ref))
	})
}

func minInt(a, b int) int {
	if a < b {
		return a
	}
	return b
}
