package main

// Generators of the `ir` work package (the encoder's intermediate representation; C12 / C03 deep part).
//
//   ir.edge    hand-written edge cases of both voices (run first; fixed list)
//   ir.types   irdis lines: random unnamed types (scalars, strings, pointers, slices, arrays, maps, structs with
//              every tag option) x pv x MaxInlineDepth 1..5 x EncOnlyOmitNull
//   ir.cutoff  irdis lines at the compiler's cut-offs: structs of MAX_FIELDS-1 / MAX_FIELDS / MAX_FIELDS+1 fields at
//              static depth 0 and > 0, struct nesting around MaxInlineDepth through fields, pointers, slices,
//              arrays and maps (OP_recurse appears), programs longer than MAX_ILBUF (thorough tier)
//   ir.mar     mar lines on the same type shapes with values (the behavioural voice: JIT worker, VM worker and
//              the model's `exec (compile T) v`); SortMapKeys forced on when a map has more than one entry
//   ir.deep    mar lines with values nested beyond MaxInlineDepth and through interface{} (OP_recurse / OP_eface
//              re-enter the program of another type)
//
// Every random choice comes from g.R.

import (
	"strconv"
)

const irMaxFields = 50 // vars.MAX_FIELDS (checked against Generated/Consts by the driver's answer)

// the Lean universe has one spelling for uintptr/uint/uint64 but the compiler tests `omitempty` differently for
// uintptr (OP_is_nil): keep uintptr out of the disassembly comparison
func irNoUptr(n *sx) *sx {
	if !n.isL {
		if n.atom == "uptr" {
			return atomT("u64")
		}
		return n
	}
	for i, c := range n.list {
		n.list[i] = irNoUptr(c)
	}
	return n
}

var irTypeOpts = TypeOpts{NoRaw: true}

// of the named library types the recursive structs Rec, Tree and the callback types MV MP TV TP LJ LJP LT are in the model
func irLibOnly(g *Gen, n *sx) *sx {
	if n.isL && n.head() == "lib" {
		switch n.list[1].atom {
		case "Rec", "Tree", "MV", "MP", "TV", "TP", "LJ", "LJP", "LT":
		default:
			return listT("lib", atomT([]string{"Rec", "Tree", "MV", "LJ", "LT", "MP"}[g.R.Intn(6)]))
		}
		return n
	}
	if n.isL {
		for i, c := range n.list {
			n.list[i] = irLibOnly(g, c)
		}
	}
	return n
}

func irGenType(g *Gen, depth int) *sx {
	var tn *sx
	switch g.R.Intn(6) {
	case 0:
		tn = genTagStruct(g, depth, irTypeOpts)
	case 1:
		tn = genStructT(g, depth, irTypeOpts)
	case 2:
		tn = listT([]string{"ptr", "sl"}[g.R.Intn(2)], genTagStruct(g, depth-1, irTypeOpts))
	default:
		tn = genType(g, depth, irTypeOpts)
	}
	return irLibOnly(g, irNoUptr(tn))
}

// a struct with n scalar fields F0..F(n-1); the field at `at` (if >= 0) has type `inner`
func irWide(g *Gen, n int, at int, inner *sx) *sx {
	st := listT("st")
	for i := 0; i < n; i++ {
		var ft *sx
		if i == at {
			ft = inner
		} else {
			ft = atomT([]string{"i64", "bool", "str", "u8", "f64", "i16"}[g.R.Intn(6)])
		}
		tag := "-"
		if g.R.Intn(4) == 0 {
			tag = tagHex([]string{"x" + strconv.Itoa(i) + ",omitempty", ",omitempty", "y" + strconv.Itoa(i)}[g.R.Intn(3)])
		}
		st.list = append(st.list, listT("f", atomT("F"+strconv.Itoa(i)), atomT(tag), ft))
	}
	return st
}

// `levels` structs nested through a random constructor at each level
func irNest(g *Gen, levels int, leaf *sx) *sx {
	t := leaf
	for i := 0; i < levels; i++ {
		inner := t
		switch g.R.Intn(6) {
		case 0:
			inner = listT("ptr", t)
		case 1:
			inner = listT("sl", t)
		case 2:
			inner = listT("arr", atomT(strconv.Itoa(1+g.R.Intn(2))), t)
		case 3:
			inner = listT("map", atomT("str"), t)
		}
		st := listT("st", listT("f", atomT("A"), atomT([]string{"-", tagHex("a,omitempty"), tagHex("a")}[g.R.Intn(3)]), atomT("i64")))
		st.list = append(st.list, listT("f", atomT("N"), atomT([]string{"-", tagHex("n,omitempty"), tagHex("n")}[g.R.Intn(3)]), inner))
		if g.R.Intn(2) == 0 {
			st.list = append(st.list, listT("f", atomT("Z"), atomT("-"), atomT("str")))
		}
		t = st
	}
	return t
}

func irEmitDis(g *Gen, tn *sx) {
	g.Emit("irdis", tn.String(), strconv.Itoa(g.R.Intn(2)), strconv.Itoa(1+g.R.Intn(5)), strconv.Itoa(g.R.Intn(5)/4))
}

func irEmitMar(g *Gen, tn, v *sx) {
	force := 0
	T, V := tn.String(), v.String()
	if hasMultiMap(v) || mentionsTree(T) || mentionsTree(V) {
		force = 1 // SortMapKeys (a Tree value travels as JSON text and may hold a map)
	}
	g.Emit("mar", strconv.FormatUint(stdBits(), 10), T, V)
	g.Emit("mar", strconv.FormatUint(encMask(g.R.Intn(512)|force), 10), T, V)
}

// hand-written edge cases: every construct of the compiler once in isolation, the cut-offs exactly, the two
// known deviations of the machine from the specification (the model must follow the machine there)
var irEdgeTypes = []string{
	"bool", "i8", "i16", "i32", "i64", "int", "u8", "u16", "u32", "u64", "uint", "f32", "f64", "str", "num", "bytes", "any",
	"(sl u8)", "(sl i64)", "(sl (sl str))", "(arr 0 i64)", "(arr 1 i64)", "(arr 3 (arr 2 i8))", "(arr 2 (st))", "(ptr i64)", "(ptr (ptr str))",
	"(map str i64)", "(map i32 str)", "(map u8 (map str bool))", "(map str (sl (ptr f64)))", "(st)", "(st (f A - i64))",
	"(st (f A 612c6f6d6974656d707479 (arr 0 i64)) (f B 622c6f6d6974656d707479 (arr 1 i64)) (f C - (st)))",
	"(st (f A 2c737472696e67 i64) (f B 2c737472696e67 (ptr f32)) (f C 2c737472696e67 str) (f D 2c737472696e67 (ptr str)) (f E 2c737472696e67 num) (f F 2c737472696e67 (sl i8)) (f G 2c737472696e67 bool))",
	"(st (f A 2c6f6d6974656d707479 bool) (f B 2c6f6d6974656d707479 i16) (f C 2c6f6d6974656d707479 u32) (f D 2c6f6d6974656d707479 f32) (f E 2c6f6d6974656d707479 f64) (f F 2c6f6d6974656d707479 str) (f G 2c6f6d6974656d707479 (sl i8)) (f H 2c6f6d6974656d707479 (map str i8)) (f I 2c6f6d6974656d707479 (ptr i8)) (f J 2c6f6d6974656d707479 any) (f K 2c6f6d6974656d707479 bytes) (f L 2c6f6d6974656d707479 num))",
	"(st (f A 2c6f6d69747a65726f i64) (f B 2c6f6d69747a65726f (st (f X - i8))) (f C 2c6f6d69747a65726f2c6f6d6974656d707479 (ptr i8)) (f D 2c6f6d69747a65726f (arr 2 i8)))",
	"(st (f A 78 i8) (f B 78 i16) (f C 79 i8) (f Y - i8) (f D 2d i8) (f E 2d2c i8))",
	"(st (f A - u8) (f B - i64) (f C - bool) (f D - (st)) (f E - i16) (f F - (arr 0 i64)))",
	"(st (f A - (st (f B - (st (f C - (st (f D - (st (f E - i64))))))))))",
	"(ptr (st (f A - (ptr (st (f B - (sl (st (f C - (map str (st (f D - i64)))))))))))) ",
	"(lib Rec)", "(lib Tree)", "(ptr (lib Rec))", "(sl (lib Tree))", "(arr 2 (lib Rec))", "(map str (lib Tree))",
	"(st (f A - (lib Rec)) (f B - (lib Tree)) (f C - (ptr (lib Rec))))", "(st (f A - (st (f B - (st (f C - (lib Tree)))))))",
	"(map i8 (map u64 (map int str)))", "(map bool i8)", "(map f64 i8)",
	"(lib MV)", "(lib TV)", "(lib LJ)", "(lib LT)", "(ptr (lib MV))", "(ptr (lib MP))", "(ptr (lib TP))", "(ptr (lib LJP))", "(ptr (ptr (lib LT)))",
	"(sl (lib MV))", "(sl (lib MP))", "(arr 2 (lib TV))", "(map str (lib LJ))", "(map str (ptr (lib MP)))",
	"(st (f A - (lib MV)) (f B 622c6f6d6974656d707479 (ptr (lib MP))) (f C - (sl (lib LJ))) (f D 2c737472696e67 (ptr (lib TP))))",
	"(ptr (st (f A - (lib LT)) (f B - (st (f C - (st (f D - (st (f E - (lib MV))))))))))",
}

var irEdgeVals = [][2]string{
	{"(st (f A 612c6f6d6974656d707479 f64) (f B 622c6f6d6974656d707479 f32))", "(st (f64 8000000000000000) (f32 80000000))"},
	{"(st (f A 612c6f6d6974656d707479 f64) (f B 622c6f6d6974656d707479 f32))", "(st (f64 0000000000000000) (f32 00000000))"},
	{"(st (f S 2c737472696e67 str))", "(st (s 3c))"},
	{"(st (f S 2c737472696e67 (ptr str)))", "(st (ptr (s e280a8225c)))"},
	{"(st (f A 2c737472696e67 (ptr i64)) (f B 2c737472696e67 f64) (f C 2c737472696e67 num))", "(st nil (f64 7ff8000000000001) (num 3178))"},
	{"(map str (sl f64))", "(map ((s 62) (sl (f64 7ff0000000000000))) ((s 61) (sl)) ((s 6161) nil))"},
	{"(map str i64)", "(map ((s 62) (i 1)) ((s 61) (i 2)) ((s -) (i 3)) ((s 6162) (i 4)) ((s 41) (i 5)) ((s c3a9) (i 6)) ((s 3c) (i 7)))"},
	{"(arr 3 (arr 2 (st (f A 2c6f6d6974656d707479 i8) (f B - str))))", "(arr (arr (st (i 0) (s 78)) (st (i 1) (s -))) (arr (st (i 0) (s -)) (st (i -1) (s 79))) (arr (st (i 2) (s 7a)) (st (i 0) (s 22))))"},
	{"(sl (ptr (sl (ptr i64))))", "(sl nil (ptr nil) (ptr (sl)) (ptr (sl nil (ptr (i -9223372036854775808)))))"},
	{"(st (f A - (st (f B - (st (f C - (st (f D - (st (f E - i64) (f F 2c6f6d6974656d707479 (sl i8)))))))))))", "(st (st (st (st (st (i 5) (sl))))))"},
	{"(sl any)", "(sl nil (any i64 (i 1)) (any (st (f A - any)) (st (any (sl str) (sl (s 78))))) (any (map str any) (map ((s 6b) nil))))"},
	{"(st (f N - num) (f M 2c6f6d6974656d707479 num))", "(st (num -) (num -))"},
	{"(st (f N - num))", "(st (num 2d))"},
	{"(map i16 (map u8 bool))", "(map ((i 10) (map ((u 200) t) ((u 3) f))) ((i -2) nil) ((i -10) (map)))"},
	{"(map bool i8)", "(map (t (i 1)))"},
	{"(ptr (lib Rec))", "(ptr (lib 7b2276223a312c226e657874223a7b2276223a322c226e657874223a7b2276223a337d7d7d))"},
	{"(sl (lib Tree))", "(sl (lib 7b226e223a2261222c226b696473223a5b7b226e223a2262222c226b696473223a6e756c6c7d2c7b226e223a2263222c226b696473223a5b5d2c226d223a7b2278223a7b226e223a2264222c226b696473223a6e756c6c7d2c2279223a6e756c6c7d7d5d7d))"},
	{"(st (f A 612c6f6d6974656d707479 (sl any)) (f B 622c6f6d6974656d707479 (map str any)))", "(st (sl (any (lib Rec) (lib 7b2276223a357d)) (any (ptr i8) nil)) (map ((s 6b) (any (arr 1 any) (arr nil)))))"},
}

func init() {
	registerGen("ir.edge", func(g *Gen) {
		for _, t := range irEdgeTypes {
			tn := parseSx(t)
			for _, pv := range []string{"0", "1"} {
				for _, d := range []string{"1", "3"} {
					g.Emit("irdis", tn.String(), pv, d, "0")
				}
			}
			g.Emit("irdis", tn.String(), "0", "2", "1")
		}
		for _, tv := range irEdgeVals {
			T, V := parseSx(tv[0]).String(), parseSx(tv[1]).String()
			g.Emit("mar", strconv.FormatUint(stdBits(), 10), T, V)
			g.Emit("mar", strconv.FormatUint(encMask(1), 10), T, V)
			g.Emit("mar", strconv.FormatUint(encMask(1|2|16|32|256), 10), T, V)
		}
		// structs at the MAX_FIELDS boundary, nested and not
		for _, n := range []int{irMaxFields - 1, irMaxFields, irMaxFields + 1} {
			w := irWide(g, n, -1, nil)
			g.Emit("irdis", w.String(), "0", "3", "0")
			g.Emit("irdis", listT("sl", w).String(), "1", "3", "0")
			tn := listT("ptr", w)
			irEmitMar(g, tn, evalue(g, tn, 3, valOpts{}))
		}
	})
	registerGen("ir.types", func(g *Gen) {
		for i := 0; i < g.N; i++ {
			irEmitDis(g, irGenType(g, 2+g.R.Intn(3)))
		}
	})
	registerGen("ir.cutoff", func(g *Gen) {
		for i := 0; i < g.N; i++ {
			switch i % 4 {
			case 0: // wide struct at depth 0 and inside something
				n := irMaxFields - 1 + g.R.Intn(3)
				w := irWide(g, n, -1, nil)
				switch g.R.Intn(4) {
				case 0:
					irEmitDis(g, w)
				case 1:
					irEmitDis(g, listT("ptr", w))
				case 2:
					irEmitDis(g, listT("st", listT("f", atomT("W"), atomT("-"), w), listT("f", atomT("X"), atomT("-"), atomT("i8"))))
				default:
					irEmitDis(g, listT("sl", irWide(g, n, g.R.Intn(n), irWide(g, irMaxFields-1+g.R.Intn(3), -1, nil))))
				}
			case 1, 2: // nesting around MaxInlineDepth
				irEmitDis(g, irNest(g, 1+g.R.Intn(6), irNoUptr(genScalarT(g, irTypeOpts))))
			default:
				irEmitDis(g, irNest(g, 2+g.R.Intn(3), irGenType(g, 2)))
			}
		}
		if g.Tier == "thorough" {
			// programs longer than MAX_ILBUF (100000 instructions): arrays multiply the element's code
			for k := 0; k < 2; k++ {
				leaf := irNest(g, 2, atomT("i64"))
				t := leaf
				for d := 0; d < 8; d++ {
					t = listT("arr", atomT("4"), t)
				}
				g.Emit("irdis", listT("st", listT("f", atomT("A"), atomT("-"), t), listT("f", atomT("B"), atomT("-"), leaf)).String(), "0", strconv.Itoa(3+k), "0")
			}
		}
	})
	registerGen("ir.mar", func(g *Gen) {
		for i := 0; i < g.N; i++ {
			tn := irGenType(g, 2+g.R.Intn(2))
			irEmitMar(g, tn, evalue(g, tn, 3, valOpts{hardStr: i%3 == 0, hardNum: i%4 == 0, special: i%5 == 0, noLibPtr: true}))
		}
	})
	registerGen("ir.deep", func(g *Gen) {
		for i := 0; i < g.N; i++ {
			var tn *sx
			switch i % 3 {
			case 0:
				tn = irNest(g, 3+g.R.Intn(4), irNoUptr(genScalarT(g, irTypeOpts)))
			case 1:
				tn = listT("sl", irWide(g, irMaxFields-1+g.R.Intn(3), g.R.Intn(irMaxFields-1), irNest(g, 1+g.R.Intn(3), atomT("str"))))
			default:
				tn = irNest(g, 2+g.R.Intn(4), atomT("any"))
			}
			irEmitMar(g, tn, evalue(g, tn, 9, valOpts{noLibPtr: true}))
		}
	})
}
