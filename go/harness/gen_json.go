package main

// Generators of property C02.  Case line:  valid <TAB> all <TAB> <doc hex> <TAB> t:<tags>
//
//	c02.valid        grammar-based well-formed documents; every base document is swept over 64 left paddings
//	                 (so that each structural byte, quote, backslash and number end visits every offset
//	                 modulo 16/32/64) and strings/numbers are swept over their own length
//	c02.malformed    single-edit malformations of well-formed documents: delete / insert / replace one byte,
//	                 drop or double one token, truncate at every prefix (exhaustive for documents of at most
//	                 96 bytes in the thorough tier)
//	c02.unterminated strings without their closing quote, every body length 0..200, alone and inside
//	                 containers, with and without escapes and paddings
//	c02.deep         nesting at 4095/4096/4097 frames in every container shape, and 10^5 deep
import (
	"bytes"
	"strconv"
	"strings"
)

type c02Gen struct {
	g *Gen
}

var c02Fillers = []string{"x", "é", "中", "\\n", "\\\"", "\\\\", "\\u00e9", "\\ud83d\\ude00", " ", "/", "\x7f", "\xff", "\xc3"}

// string body of exactly n bytes (n >= 0) made of strict-valid pieces; mode selects what dominates
func (c *c02Gen) body(n int, mode int) []byte {
	b := make([]byte, 0, n)
	for len(b) < n {
		var p string
		switch mode {
		case 0:
			p = "x"
		case 1: // escapes everywhere
			p = []string{"\\n", "\\\\", "\\\"", "\\u0041", "\\/", "\\t"}[c.g.R.Intn(6)]
		default:
			if c.g.R.Intn(4) == 0 {
				p = c02Fillers[c.g.R.Intn(len(c02Fillers))]
			} else {
				p = string(rune('a' + c.g.R.Intn(26)))
			}
		}
		if len(b)+len(p) > n {
			p = "y"
		}
		b = append(b, p...)
	}
	return b
}

func (c *c02Gen) number() string {
	r := c.g.R
	var sb strings.Builder
	if r.Intn(3) == 0 {
		sb.WriteByte('-')
	}
	if r.Intn(4) == 0 {
		sb.WriteByte('0')
	} else {
		sb.WriteByte(byte('1' + r.Intn(9)))
		for k := r.Intn(1 + r.Intn(24)); k > 0; k-- {
			sb.WriteByte(byte('0' + r.Intn(10)))
		}
	}
	if r.Intn(3) == 0 {
		sb.WriteByte('.')
		for k := 1 + r.Intn(1+r.Intn(20)); k > 0; k-- {
			sb.WriteByte(byte('0' + r.Intn(10)))
		}
	}
	if r.Intn(3) == 0 {
		sb.WriteByte("eE"[r.Intn(2)])
		if r.Intn(2) == 0 {
			sb.WriteByte("+-"[r.Intn(2)])
		}
		for k := 1 + r.Intn(3); k > 0; k-- {
			sb.WriteByte(byte('0' + r.Intn(10)))
		}
	}
	return sb.String()
}

func (c *c02Gen) ws() string {
	r := c.g.R
	if r.Intn(3) != 0 {
		return ""
	}
	n := 1 + r.Intn(3)
	if r.Intn(8) == 0 {
		n = 4 + r.Intn(40) // more than the four bytes advance_ns tests by hand: reaches lspace
	}
	var sb strings.Builder
	for i := 0; i < n; i++ {
		sb.WriteByte(" \t\n\r"[r.Intn(4)])
	}
	return sb.String()
}

var c02Keys = []string{"a", "b", "c", "d", "e", "f", "g", "h", "r", "x", "key", "", "\\u006b", "k\\\"q", "a b", "é"}

// a well-formed value; depth bounds the nesting
func (c *c02Gen) value(depth int) string {
	r := c.g.R
	k := r.Intn(10)
	if depth <= 0 && k >= 6 {
		k = r.Intn(6)
	}
	switch k {
	case 0:
		return []string{"null", "true", "false"}[r.Intn(3)]
	case 1, 2:
		return c.number()
	case 3, 4, 5:
		n := r.Intn(12)
		if r.Intn(6) == 0 {
			n = r.Intn(140)
		}
		return "\"" + string(c.body(n, r.Intn(3))) + "\""
	case 6, 7:
		n := r.Intn(5)
		var sb strings.Builder
		sb.WriteByte('[')
		sb.WriteString(c.ws())
		for i := 0; i < n; i++ {
			if i > 0 {
				sb.WriteByte(',')
			}
			sb.WriteString(c.ws())
			sb.WriteString(c.value(depth - 1))
			sb.WriteString(c.ws())
		}
		sb.WriteByte(']')
		return sb.String()
	default:
		n := r.Intn(5)
		var sb strings.Builder
		sb.WriteByte('{')
		sb.WriteString(c.ws())
		for i := 0; i < n; i++ {
			if i > 0 {
				sb.WriteByte(',')
			}
			sb.WriteString(c.ws())
			sb.WriteString("\"" + c02Keys[r.Intn(len(c02Keys))] + "\"")
			sb.WriteString(c.ws())
			sb.WriteByte(':')
			sb.WriteString(c.ws())
			sb.WriteString(c.value(depth - 1))
			sb.WriteString(c.ws())
		}
		sb.WriteByte('}')
		return sb.String()
	}
}

func (c *c02Gen) doc() string {
	return c.ws() + c.value(1+c.g.R.Intn(4)) + c.ws()
}

func (c *c02Gen) emit(doc []byte, tags string) {
	c.g.Emit("valid", "all", hexArg(doc), "t:"+tags)
}

var c02Fixed = []string{
	`null`, `true`, `false`, `0`, `-0`, `1`, `-1`, `10`, `1.5`, `-1.5e+10`, `1E5`, `0.0`, `0e0`, `1e-2`, `123456789012345678901234567890`,
	`""`, `"a"`, `"\""`, `"\\"`, `"\u0000"`, `"\ud800"`, `"\/"`, `"é"`, "\"\xff\"", `[]`, `{}`, `[[]]`, `[{}]`, `{"a":{}}`, `{"a":[]}`,
	`[1]`, `[1,2]`, `[null,true,false]`, `{"a":1}`, `{"a":1,"b":2}`, `{"":""}`, `{"a":{"b":{"c":[1,{"d":"e"}]}}}`,
	` 1 `, "\t\n\r 1", `[ ]`, `{ }`, `[ 1 , 2 ]`, `{ "a" : 1 , "b" : [ ] }`, `{"a":"x","b":"y","c":"z","d":[1,2,3],"e":{"f":null}}`,
	`{"r":1}`, `{"r":[1,2,{"r":3}]}`, `[0,1]`, `"abcdefghijklmnopqrstuvwxyz012345"`, `[1.0e+5,-0.5E-3,0]`,
}

// bytes worth inserting / substituting when malforming
var c02Junk = []byte{'[', ']', '{', '}', ',', ':', '"', '\\', ' ', '0', '1', '-', '.', 'e', '+', 'n', 't', 'f', 'x', 0, '\n', 0x1f, 0x80, '/'}

func c02Pad(n int, doc string) []byte {
	return append(bytes.Repeat([]byte{' '}, n), doc...)
}

func init() {
	registerGen("c02.valid", func(g *Gen) {
		c := &c02Gen{g}
		for _, d := range c02Fixed {
			c.emit([]byte(d), "fixed")
		}
		// length sweep 1: every fixed document and a set of random ones at every left padding 0..63
		sweepDocs := append([]string{}, c02Fixed...)
		nr := 6
		if g.Tier == "thorough" {
			nr = 120
		}
		for i := 0; i < nr; i++ {
			sweepDocs = append(sweepDocs, c.value(3))
		}
		step := 1
		if g.Tier != "thorough" {
			step = 5 // quick: 13 paddings covering all residues mod 16 over two documents; thorough: all 64
		}
		for di, d := range sweepDocs {
			for p := di % step; p < 64; p += step {
				c.emit(c02Pad(p, d), "pad")
			}
		}
		// length sweep 2: string bodies of every length 0..200 (plain, escapes, mixed), alone, as element, as
		// key and as member value, so that the closing quote and every backslash visit every offset
		maxL := 200
		for n := 0; n <= maxL; n++ {
			for mode := 0; mode < 3; mode++ {
				if g.Tier != "thorough" && mode != n%3 {
					continue
				}
				b := string(c.body(n, mode))
				c.emit([]byte("\""+b+"\""), "strlen")
				c.emit([]byte("[\""+b+"\",1]"), "strlen")
				c.emit([]byte("{\""+b+"\":\""+b+"\"}"), "strlen")
			}
			// backslash as the last byte of a 32/64 block: body = filler + `\"` + more
			b := strings.Repeat("x", n) + "\\\"" + strings.Repeat("y", (n*7)%40)
			c.emit([]byte("\""+b+"\""), "strlen,esc_at")
			c.emit([]byte("\""+strings.Repeat("x", n)+"\\\\\""), "strlen,esc_at")
		}
		// length sweep 3: numbers whose last digit lands on every offset (do_skip_number has 32/16-byte rounds)
		for n := 1; n <= 80; n++ {
			d := strings.Repeat("7", n)
			c.emit([]byte(d), "numlen")
			c.emit([]byte("["+d+"]"), "numlen")
			c.emit([]byte("-"+d+"."+d+"e-"+d), "numlen")
			c.emit([]byte("[0."+d+",1e"+d+"]"), "numlen")
			c.emit([]byte(strings.Repeat(" ", n)+"1"), "wslen")
			c.emit([]byte("["+strings.Repeat("\n", n)+"]"), "wslen")
			c.emit([]byte("{\"a\""+strings.Repeat("\t", n)+":"+strings.Repeat("\r", n)+"1}"+strings.Repeat(" ", n)), "wslen")
		}
		// random well-formed documents
		for i := 0; i < g.N; i++ {
			c.emit([]byte(c.doc()), "rand")
		}
	})

	registerGen("c02.malformed", func(g *Gen) {
		c := &c02Gen{g}
		seen := map[string]bool{}
		emit := func(b []byte, tag string) {
			if seen[string(b)] {
				return
			}
			seen[string(b)] = true
			c.emit(b, tag)
		}
		bases := append([]string{}, c02Fixed...)
		nb := 12
		if g.Tier == "thorough" {
			nb = 90
		}
		for i := 0; i < nb; i++ {
			d := c.doc()
			for len(d) > 96 {
				d = c.doc()
			}
			bases = append(bases, d)
		}
		exhaustive := g.Tier == "thorough"
		for bi, d := range bases {
			b := []byte(d)
			// truncation at every prefix (always exhaustive)
			for i := 0; i < len(b); i++ {
				emit(b[:i], "trunc")
			}
			// every single deletion
			for i := 0; i < len(b); i++ {
				emit(append(append([]byte{}, b[:i]...), b[i+1:]...), "del")
			}
			// insertions and replacements
			for i := 0; i <= len(b); i++ {
				for ji, j := range c02Junk {
					if !exhaustive && (i+ji+bi)%6 != 0 {
						continue
					}
					ins := append(append(append([]byte{}, b[:i]...), j), b[i:]...)
					emit(ins, "ins")
					if i < len(b) {
						rep := append([]byte{}, b...)
						rep[i] = j
						emit(rep, "rep")
					}
				}
			}
			// trailing junk after a complete document, with and without space
			for _, j := range c02Junk {
				emit(append(append([]byte{}, b...), j), "trail")
				emit(append(append([]byte{}, b...), ' ', j), "trail")
			}
			// leading zeros, bare signs, broken literals (token level)
		}
		for _, d := range []string{"01", "-01", "00", "1.", ".1", "1.e1", "1e", "1e+", "1e+-1", "--1", "+1", "1..2", "1.2.3", "1e2e3", "1e2.3",
			"-", "-a", "0x10", "1a", "nul", "nulll", "nul1", "tru", "truE", "fals", "falsE", "false1", "NULL", "n", "t", "f", "nu\x00l",
			"[1,]", "[,1]", "[,]", "[1 2]", "[1:2]", "{\"a\"}", "{\"a\":}", "{\"a\":1,}", "{,}", "{\"a\" 1}", "{\"a\":1 \"b\":2}", "{a:1}", "{1:1}",
			"{\"a\":1,,\"b\":2}", "[1,,2]", "[", "]", "{", "}", "[}", "{]", "[[]", "[]]", "{}}", "{{}", "\"", "\"\\", "\"\\\"", "'a'", "", " ", "\x00", "1\x00", "[1\x002]",
			"[\x00]", "{\"a\":1}\x00", "\xef\xbb\xbf1", "1 1", "[] []", "{}{}", "\"a\"\"b\"", "1,2", "[1],", "//c\n1", "/*c*/1", "[1]//", "nan", "NaN", "Infinity", "-Infinity",
			"{\"a\":01}", "[-]", "[1e]", "[\"a\" \"b\"]", "{\"a\":\"b\" \"c\":\"d\"}", "{\"a\"::1}", "{\"a\":1:2}", "[1;2]", "\t[\n1\r,\t2\n]\r\x0b", "\x0c1", "1\xa0"} {
			for _, p := range []int{0, 13, 29, 31, 61} {
				emit(c02Pad(p, d), "token")
			}
		}
		// an input that stops inside a literal while the caller's buffer goes on with the missing letters
		for _, l := range []string{"null", "true", "false"} {
			for k := 1; k < len(l); k++ {
				for _, pre := range []string{"", " ", "[", "\n\n"} {
					for _, post := range []string{"", "]", " ", "x"} {
						g.Emit("valid", "all", hexArg([]byte(pre+l[:k])), "t:short_literal,tail", "tail="+hexArg([]byte(l[k:]+post)))
					}
				}
			}
			// complete literals with something behind them must not be affected
			g.Emit("valid", "all", hexArg([]byte(l)), "t:literal,tail", "tail="+hexArg([]byte("x")))
		}
		for _, d := range []string{"1", "\"a", "[1", "{\"a\":1", "12", "\"abc\""} {
			for _, t := range []string{"2", "\"", "]", "}", "e5", ".5"} {
				g.Emit("valid", "all", hexArg([]byte(d)), "t:tail", "tail="+hexArg([]byte(t)))
			}
		}
		// random multi-edit noise on random documents
		for i := 0; i < g.N; i++ {
			b := []byte(c.doc())
			for k := 1 + g.R.Intn(2); k > 0 && len(b) > 0; k-- {
				p := g.R.Intn(len(b))
				switch g.R.Intn(3) {
				case 0:
					b = append(b[:p], b[p+1:]...)
				case 1:
					b[p] = c02Junk[g.R.Intn(len(c02Junk))]
				default:
					b = append(b[:p], append([]byte{c02Junk[g.R.Intn(len(c02Junk))]}, b[p:]...)...)
				}
			}
			emit(b, "noise")
		}
	})

	registerGen("c02.unterminated", func(g *Gen) {
		c := &c02Gen{g}
		for n := 0; n <= 200; n++ {
			x := strings.Repeat("x", n)
			c.emit([]byte("\""+x), "unterminated")
			c.emit([]byte(" \""+x), "unterminated")
			c.emit([]byte("[\""+x), "unterminated")
			c.emit([]byte("{\""+x), "unterminated")
			c.emit([]byte("{\"k\":\""+x), "unterminated")
			c.emit([]byte("[1,\""+x), "unterminated")
			if n >= 2 {
				// an escape inside, an escaped quote at the end, a dangling backslash at the end
				c.emit([]byte("\""+x[:n-2]+"\\n"), "unterminated,esc")
				c.emit([]byte("\""+x[:n-2]+"\\\""), "unterminated,esc")
				c.emit([]byte("\""+x[:n-1]+"\\"), "unterminated,esc")
				if n >= 4 {
					c.emit([]byte("\""+x[:n/2]+"\\\\"+x[n/2+2:]), "unterminated,esc")
				}
			}
			if n%8 == 0 || g.Tier == "thorough" {
				b := c.body(n, 2)
				c.emit(append([]byte("\""), b...), "unterminated,mixed")
				for _, p := range []int{1, 15, 16, 31, 32, 33} {
					c.emit(c02Pad(p, "\""+x), "unterminated,pad")
				}
			}
		}
		// bigger multiples of 32/64 and their neighbours
		for _, n := range []int{255, 256, 257, 511, 512, 1023, 1024, 1025, 4096, 65536} {
			c.emit([]byte("\""+strings.Repeat("x", n)), "unterminated")
		}
		for i := 0; i < g.N; i++ {
			n := g.R.Intn(300)
			b := c.body(n, g.R.Intn(3))
			pre := []string{"", " ", "[", "{\"a\":", "[[", "{\"a\":[1,", "\n\n"}[g.R.Intn(7)]
			c.emit(append([]byte(pre+"\""), b...), "unterminated,rand")
		}
	})

	// c02.junk: every byte value at every token boundary of small well-formed documents, after 0..3 blanks
	// (the compiled decoders test the first bytes of a blank run by hand before the native lspace takes over,
	// like advance_ns does) - judged through typed destinations (`valid typed`) and through all the others
	registerGen("c02.junk", func(g *Gen) {
		docs := []string{`{"a":1,"b":"x"}`, `[1,2]`, `{"c":[1],"d":{"e":true},"h":{"k":2}}`, `[[1],[2]]`, `7`}
		if g.Tier == "thorough" {
			docs = append(docs, `{"k":{"e":false,"x":[3]}}`, `[{"e":true},{"x":[]}]`, `"s"`, `{"j":{"s":"t"},"f":null,"i":[1,2],"l":true,"u":255}`)
		}
		blanks := " \t\n\r"
		isStruct := func(c byte) bool { return strings.IndexByte(",:[]{}", c) >= 0 }
		n := 0
		for di, d := range docs {
			b := []byte(d)
			for pos := 0; pos <= len(b); pos++ {
				if !(pos == 0 || pos == len(b) || isStruct(b[pos-1]) || isStruct(b[pos])) {
					continue
				}
				for k := 0; k <= 3; k++ {
					ws := make([]byte, k)
					for i := range ws {
						ws[i] = blanks[(di+pos+i+k)%4]
						if (pos+di)%3 == 0 {
							ws[i] = ' '
						}
					}
					for c := 0; c < 256; c++ {
						// quick tier: all 256 bytes where 1 or 2 blanks precede (the hand-unrolled slots), a spread elsewhere
						if g.Tier != "thorough" && (k == 0 || k == 3) && (c+pos+di)%4 != 0 {
							continue
						}
						x := make([]byte, 0, len(b)+k+1)
						x = append(x, b[:pos]...)
						x = append(x, ws...)
						x = append(x, byte(c))
						x = append(x, b[pos:]...)
						g.Emit("valid", "typed", hexArg(x), "t:junk,k"+strconv.Itoa(k))
						n++
						// the same text through every other consuming API (one document in the quick tier)
						if (di < 1 || g.Tier == "thorough") && (k == 1 || k == 2) {
							g.Emit("valid", "all", hexArg(x), "t:junk,k"+strconv.Itoa(k))
						}
						// junk byte before the blanks as well (blank run after the junk)
						if g.Tier == "thorough" && k > 0 {
							y := make([]byte, 0, len(b)+k+1)
							y = append(y, b[:pos]...)
							y = append(y, byte(c))
							y = append(y, ws...)
							y = append(y, b[pos:]...)
							g.Emit("valid", "typed", hexArg(y), "t:junk,after,k"+strconv.Itoa(k))
						}
					}
				}
			}
		}
	})

	// c02.wsseq: acceptance must not depend on what the same process decoded before.  Every case is a pair
	// (prev, doc) run back to back into the same destination type: documents with runs of >= 2 blanks at varied
	// offsets inside and across 64-byte windows - well-formed ones and ones with junk inside the run - each
	// after a well-formed `prev` of the same shape whose blank run is longer, shorter, or filled with token bytes.
	registerGen("c02.wsseq", func(g *Gen) {
		type tpl struct{ pre, post string }
		tpls := []tpl{{"[1,", "2]"}, {"{\"a\":", "1}"}, {"[", "1,2]"}, {"{", "\"a\":1}"}, {"[1", ",2]"}, {"[1,2", "]"},
			{"{\"a\":1", ",\"b\":[2]}"}, {"{\"a\":[1,", "2],\"b\":\"x\"}"}}
		blank := func(n, salt int) string {
			b := make([]byte, n)
			for i := range b {
				b[i] = " \n\t\r"[((i+salt)*7+salt)%4]
				if salt%3 == 0 {
					b[i] = ' '
				}
			}
			return string(b)
		}
		pads := []int{0, 1, 7, 29, 52, 60, 63, 64, 90}
		lens := []int{2, 3, 5, 8, 9, 17, 40}
		if g.Tier == "thorough" {
			pads = append(pads, 2, 13, 31, 32, 47, 58, 61, 62, 65, 127, 128, 200)
			lens = append(lens, 4, 6, 7, 12, 31, 63, 64, 70)
		}
		junk := []byte{'!', 'x', '3', '"', ',', ']', 0x80, 0}
		n := 0
		for ti, t := range tpls {
			for _, pad := range pads {
				lead := strings.Repeat(" ", pad)
				if pad == 1 {
					lead = "\n"
				}
				for li, L := range lens {
					run := blank(L, ti+li+pad)
					doc := lead + t.pre + run + t.post
					// what came before: the same shape with a longer run, a shorter run, and with token bytes where
					// this document has blanks (a number / string of the same length)
					fill := strings.Repeat("7", L)
					if strings.HasSuffix(t.pre, ":") || strings.HasSuffix(t.pre, ",") || strings.HasSuffix(t.pre, "[") {
						fill = "  " + strings.Repeat("7", L-2+1)
					}
					prevs := []string{
						lead + t.pre + blank(L+6, ti) + t.post,
						lead + t.pre + blank(2, ti+1) + t.post,
						lead + t.pre + " " + t.post,
						lead + strings.Replace(t.pre+"@"+t.post, "@", "  ", 1),
					}
					if strings.HasSuffix(t.pre, ",") || strings.HasSuffix(t.pre, ":") {
						prevs = append(prevs, lead+t.pre+fill+t.post) // `[1,  777772]`: tokens where doc has blanks
					}
					variants := []string{doc}
					for ji := 0; ji < 3; ji++ {
						j := junk[(n+ji*3+ti)%len(junk)]
						b := []byte(doc)
						// junk inside the run: never on its first byte (that one every scanner tests by hand)
						off := pad + len(t.pre) + 1 + ((ji*5 + li) % (L - 1))
						if ji == 2 {
							// from some point to the end of the run
							for k := off; k < pad+len(t.pre)+L; k++ {
								b[k] = j
							}
						} else {
							b[off] = j
						}
						variants = append(variants, string(b))
					}
					for vi, v := range variants {
						for pi, pv := range prevs {
							if g.Tier != "thorough" && vi > 0 && (pi+vi+li)%2 == 1 {
								continue
							}
							g.Emit("valid", "typed", hexArg([]byte(v)), "t:wsseq", "prev="+hexArg([]byte(pv)))
							n++
						}
					}
				}
			}
		}
	})

	registerGen("c02.deep", func(g *Gen) {
		c := &c02Gen{g}
		rep := strings.Repeat
		shapes := func(d int) {
			ds := strconv.Itoa(d)
			c.emit([]byte(rep("[", d)+rep("]", d)), "deep,arr,"+ds)
			c.emit([]byte(rep("[", d)+"1"+rep("]", d)), "deep,arr1,"+ds)
			c.emit([]byte(rep("[", d)+"1,2"+rep("]", d)), "deep,arr2,"+ds)
			c.emit([]byte(rep("[", d)+"[],[]"+rep("]", d)), "deep,arr2e,"+ds)
			c.emit([]byte(rep("[1,", d)+"1"+rep("]", d)), "deep,arrc,"+ds)
			c.emit([]byte(rep("{\"a\":", d)+"1"+rep("}", d)), "deep,obj1,"+ds)
			c.emit([]byte(rep("{\"a\":", d)+"{}"+rep("}", d)), "deep,obje,"+ds)
			c.emit([]byte(rep("{\"a\":", d)+"[]"+rep("}", d)), "deep,obja,"+ds)
			c.emit([]byte(rep("{\"a\":1,\"b\":", d)+"1"+rep("}", d)), "deep,objc,"+ds)
			c.emit([]byte(rep("[{\"a\":", d/2)+"1"+rep("}]", d/2)), "deep,mix,"+ds)
			c.emit([]byte(rep("{\"a\":[", d/2)+"{}"+rep("]}", d/2)), "deep,mix2,"+ds)
			// unbalanced at the same depths
			c.emit([]byte(rep("[", d)), "deep,open,"+ds)
			c.emit([]byte(rep("[", d)+rep("]", d-1)), "deep,unbal,"+ds)
			c.emit([]byte(rep("[", d)+rep("]", d+1)), "deep,unbal,"+ds)
			c.emit([]byte(rep("{\"a\":", d)), "deep,open,"+ds)
		}
		depths := []int{1, 2, 3, 100, 4094, 4095, 4096, 4097, 4098, 10000, 10001}
		if g.Tier == "thorough" {
			depths = append(depths, 1000, 2047, 2048, 2049, 4093, 4099, 8192, 9999)
		}
		for _, d := range depths {
			shapes(d)
		}
		// far beyond every limit (DESIGN §8 #23: recursive parsers die at 10^6; these APIs must answer)
		if g.Tier == "thorough" {
			shapes(100000)
		} else {
			d := 100000
			c.emit([]byte(rep("[", d)+rep("]", d)), "deep,arr,100000")
			c.emit([]byte(rep("{\"a\":", d)+"1"+rep("}", d)), "deep,obj1,100000")
			c.emit([]byte(rep("[{\"a\":", d/2)+"1"+rep("}]", d/2)), "deep,mix,100000")
			c.emit([]byte(rep("[", d)), "deep,open,100000")
		}
	})
}
