package main

// Generators for C17 (stream decoder chunkings / reader faults, stream encoder writer faults).

import (
	"sort"
	"strconv"
	"strings"
)

var ioSeps = []string{" ", "\n", "", "\t\r\n  ", "  ", "\r\n"}

func ioNumber(g *Gen) string {
	switch g.R.Intn(8) {
	case 0:
		return strconv.Itoa(g.R.Intn(10))
	case 1:
		return strconv.Itoa(g.R.Intn(100000))
	case 2:
		return "-" + strconv.Itoa(g.R.Intn(1000))
	case 3:
		return strconv.Itoa(g.R.Intn(100)) + "." + strconv.Itoa(g.R.Intn(1000))
	case 4:
		return strconv.Itoa(1+g.R.Intn(9)) + []string{"e", "E", "e+", "e-", "E+"}[g.R.Intn(5)] + strconv.Itoa(g.R.Intn(30))
	case 5:
		return "-0." + strconv.Itoa(g.R.Intn(100)) + "e-" + strconv.Itoa(g.R.Intn(9))
	case 6:
		// long digit strings (cross the 16/32-byte rounds of the number skipper)
		n := 14 + g.R.Intn(40)
		b := make([]byte, n)
		for i := range b {
			b[i] = byte('0' + g.R.Intn(10))
		}
		b[0] = byte('1' + g.R.Intn(9))
		return string(b)
	default:
		return "0"
	}
}

// strings whose canonical re-marshalling is the literal itself (escapes limited to \" \\ \n \r \t)
func ioString(g *Gen, key bool) string {
	n := g.R.Intn(12)
	if g.R.Intn(12) == 0 {
		n = 25 + g.R.Intn(80) // cross the 32/64-byte blocks of the string / container skippers
	}
	var sb strings.Builder
	sb.WriteByte('"')
	for i := 0; i < n; i++ {
		switch k := g.R.Intn(14); {
		case key || k < 6:
			sb.WriteByte("abcxyzKQ_019"[g.R.Intn(12)])
		case k == 6:
			sb.WriteString([]string{`\"`, `\\`, `\n`, `\t`, `\r`, `\\\"`, `\\\\`}[g.R.Intn(7)])
		case k == 7:
			sb.WriteString([]string{"é", "中", "😀"}[g.R.Intn(3)])
			if g.R.Intn(6) == 0 {
				// ill-formed UTF-8 (the stream decoders validate strings: replaced by U+FFFD)
				sb.WriteString([]string{"\xff", "\xc0\x80", "\xed\xa0\x80", "\xe2\x82", "\x80", "\xf0\x9f\x98"}[g.R.Intn(6)])
			}
		default:
			// characters that matter to the framing code when they sit inside a string
			sb.WriteByte("[]{},: 1-"[g.R.Intn(9)])
		}
	}
	sb.WriteByte('"')
	return sb.String()
}

func ioWs(g *Gen) string {
	if g.R.Intn(4) == 0 {
		return []string{" ", "\n", "\t", "  ", "\r\n"}[g.R.Intn(5)]
	}
	return ""
}

func ioValue(g *Gen, depth int) string {
	k := g.R.Intn(10)
	if depth <= 0 && k >= 6 {
		k = g.R.Intn(6)
	}
	switch k {
	case 0:
		return []string{"null", "true", "false"}[g.R.Intn(3)]
	case 1, 2, 3:
		return ioNumber(g)
	case 4, 5:
		return ioString(g, false)
	case 6, 7:
		n := g.R.Intn(4)
		var sb strings.Builder
		sb.WriteString("[" + ioWs(g))
		for i := 0; i < n; i++ {
			if i > 0 {
				sb.WriteString("," + ioWs(g))
			}
			sb.WriteString(ioValue(g, depth-1) + ioWs(g))
		}
		sb.WriteString("]")
		return sb.String()
	default:
		n := g.R.Intn(4)
		var sb strings.Builder
		sb.WriteString("{" + ioWs(g))
		for i := 0; i < n; i++ {
			if i > 0 {
				sb.WriteString("," + ioWs(g))
			}
			key := ioString(g, true)
			if g.R.Intn(8) == 0 {
				key = `"k"` // duplicate keys now and then
			}
			sb.WriteString(key + ioWs(g) + ":" + ioWs(g) + ioValue(g, depth-1) + ioWs(g))
		}
		sb.WriteString("}")
		return sb.String()
	}
}

func selfDelimiting(v string) bool { return v[0] == '[' || v[0] == '{' || v[0] == '"' }

// a stream of values with separators; kind: 0 well-formed, 1 truncated, 2 junk tail, 3 junk separator
func ioStream(g *Gen, kind int) string {
	var sb strings.Builder
	sb.WriteString(ioWs(g))
	nv := g.R.Intn(6)
	prevSelf := true
	for i := 0; i < nv; i++ {
		v := ioValue(g, 2)
		if i > 0 {
			sep := ioSeps[g.R.Intn(len(ioSeps))]
			if sep == "" && !(prevSelf && selfDelimiting(v)) && g.R.Intn(4) != 0 {
				sep = " "
			}
			if kind == 3 && g.R.Intn(3) == 0 {
				sep = []string{",", ", ", " ,", ":", ";"}[g.R.Intn(5)]
			}
			sb.WriteString(sep)
		}
		sb.WriteString(v)
		prevSelf = selfDelimiting(v)
	}
	sb.WriteString([]string{"", "", " ", "\n", "  \n"}[g.R.Intn(5)])
	s := sb.String()
	switch kind {
	case 1:
		if len(s) > 0 {
			s = s[:g.R.Intn(len(s))]
		}
	case 2:
		s += []string{"x", "]", "}", "tru", "\"abc", "{", "[", "1.", "-", ",", "nul", "\x00", "[1,2", "{\"a\":", "1 x", "]]", "fals", "1e", "tx", "nulx 1"}[g.R.Intn(20)]
		if g.R.Intn(3) == 0 {
			s += " " + ioValue(g, 1)
		}
	}
	return s
}

func cutAt(s string, cuts []int) []string {
	sort.Ints(cuts)
	var out []string
	prev := 0
	for _, c := range cuts {
		if c < prev {
			c = prev
		}
		if c > len(s) {
			c = len(s)
		}
		out = append(out, hexArg([]byte(s[prev:c])))
		prev = c
	}
	out = append(out, hexArg([]byte(s[prev:])))
	return out
}

func emitStream(g *Gen, opts, final string, chunks []string, together bool) {
	f := []string{"stream", opts, final}
	f = append(f, chunks...)
	if together && len(chunks) > 0 {
		f[len(f)-1] += "!"
	}
	g.Emit(f...)
}

func ioOpts(g *Gen) string { return []string{"c", "c", "d", "s"}[g.R.Intn(4)] }

func ioFinal(g *Gen) string {
	if g.R.Intn(4) == 0 {
		return "err"
	}
	return "eof"
}

// chunkings of one stream
func emitChunkings(g *Gen, s string, exhaustive bool) {
	opts := ioOpts(g)
	// whole
	emitStream(g, opts, ioFinal(g), []string{hexArg([]byte(s))}, g.R.Intn(2) == 0)
	if len(s) == 0 {
		emitStream(g, opts, ioFinal(g), []string{"-", "-"}, g.R.Intn(2) == 0)
		return
	}
	// every single cut (2 reads)
	if exhaustive && len(s) <= 64 {
		for c := 0; c <= len(s); c++ {
			emitStream(g, opts, "eof", cutAt(s, []int{c}), c%2 == 0)
		}
	} else {
		for k := 0; k < 3; k++ {
			emitStream(g, opts, ioFinal(g), cutAt(s, []int{g.R.Intn(len(s) + 1)}), g.R.Intn(2) == 0)
		}
	}
	// random k cuts, with empty reads
	for k := 0; k < 2; k++ {
		n := 2 + g.R.Intn(6)
		cuts := make([]int, n)
		for i := range cuts {
			cuts[i] = g.R.Intn(len(s) + 1)
		}
		ch := cutAt(s, cuts)
		if g.R.Intn(2) == 0 {
			i := g.R.Intn(len(ch) + 1)
			ch = append(ch[:i], append([]string{"-"}, ch[i:]...)...)
		}
		emitStream(g, opts, ioFinal(g), ch, g.R.Intn(2) == 0)
	}
	// one byte per read
	if len(s) <= 200 {
		ch := make([]string, len(s))
		for i := range ch {
			ch[i] = hexArg([]byte(s[i : i+1]))
		}
		emitStream(g, opts, ioFinal(g), ch, g.R.Intn(2) == 0)
	}
	// reader error at a position (every position for short streams when exhaustive)
	if exhaustive && len(s) <= 40 {
		for c := 0; c <= len(s); c++ {
			emitStream(g, opts, "err", cutAt(s[:c], []int{g.R.Intn(c + 1)}), c%2 == 1)
		}
	} else {
		c := g.R.Intn(len(s) + 1)
		emitStream(g, opts, "err", cutAt(s[:c], []int{g.R.Intn(c + 1)}), g.R.Intn(2) == 0)
	}
}

// values larger than the initial 4 KiB buffer; scalars placed across the buffer boundary
func ioBigStream(g *Gen) string {
	var sb strings.Builder
	switch g.R.Intn(4) {
	case 0: // long string
		sb.WriteString(`"` + strings.Repeat("ab,]\\\"", 500+g.R.Intn(2000)) + `"`)
	case 1: // long array of numbers
		sb.WriteString("[")
		n := 800 + g.R.Intn(3000)
		for i := 0; i < n; i++ {
			if i > 0 {
				sb.WriteString(",")
			}
			sb.WriteString(strconv.Itoa(g.R.Intn(100000)))
		}
		sb.WriteString("]")
	case 2: // many small values: some number will sit on the 4096 boundary
		for sb.Len() < 4000+g.R.Intn(9000) {
			sb.WriteString(ioNumber(g) + " ")
		}
	default: // padding then a value at the boundary
		pad := 4096 - 3 - g.R.Intn(8)
		sb.WriteString(`"` + strings.Repeat("p", pad-2) + `"`)
		sb.WriteString(" " + ioNumber(g) + ioNumber(g) + " ")
		sb.WriteString(ioValue(g, 2))
	}
	sb.WriteString(" " + ioValue(g, 1))
	return sb.String()
}

func init() {
	registerGen("c17.stream", func(g *Gen) {
		// N counts streams; each stream yields several chunkings
		for i := 0; i < g.N; i++ {
			kind := 0
			switch r := g.R.Intn(10); {
			case r < 2:
				kind = 1
			case r < 4:
				kind = 2
			case r < 5:
				kind = 3
			}
			emitChunkings(g, ioStream(g, kind), i%4 == 0)
		}
	})
	registerGen("c17.big", func(g *Gen) {
		for i := 0; i < g.N; i++ {
			s := ioBigStream(g)
			if g.R.Intn(5) == 0 {
				s = s[:g.R.Intn(len(s))]
			}
			opts := ioOpts(g)
			emitStream(g, opts, ioFinal(g), []string{hexArg([]byte(s))}, g.R.Intn(2) == 0)
			n := 1 + g.R.Intn(5)
			cuts := make([]int, n)
			for k := range cuts {
				cuts[k] = g.R.Intn(len(s) + 1)
			}
			emitStream(g, opts, ioFinal(g), cutAt(s, cuts), g.R.Intn(2) == 0)
		}
	})
	// malformed streams: byte mutations of well-formed ones (separate stream)
	registerGen("c17.mutated", func(g *Gen) {
		alpha := "[]{}\",: 0123456789-+.eEtrufalsn\n\\\\\""
		for i := 0; i < g.N; i++ {
			b := []byte(ioStream(g, 0))
			if len(b) == 0 {
				continue
			}
			for k := 1 + g.R.Intn(3); k > 0; k-- {
				p := g.R.Intn(len(b))
				switch g.R.Intn(3) {
				case 0:
					b[p] = alpha[g.R.Intn(len(alpha))]
				case 1:
					b = append(b[:p], b[p+1:]...)
				default:
					b = append(b[:p], append([]byte{alpha[g.R.Intn(len(alpha))]}, b[p:]...)...)
				}
				if len(b) == 0 {
					break
				}
			}
			s := string(b)
			opts := ioOpts(g)
			emitStream(g, opts, ioFinal(g), []string{hexArg(b)}, g.R.Intn(2) == 0)
			if len(s) > 0 {
				n := 1 + g.R.Intn(4)
				cuts := make([]int, n)
				for k := range cuts {
					cuts[k] = g.R.Intn(len(s) + 1)
				}
				emitStream(g, opts, ioFinal(g), cutAt(s, cuts), g.R.Intn(2) == 0)
			}
		}
	})
	registerGen("c17.sink", func(g *Gen) {
		for i := 0; i < g.N; i++ {
			nv := 1 + g.R.Intn(3)
			vals := make([]string, nv)
			for k := range vals {
				v := ioValue(g, 2)
				if g.R.Intn(40) == 0 {
					v = `"` + strings.Repeat("w", 3000+g.R.Intn(6000)) + `"`
				}
				vals[k] = hexArg([]byte(v))
			}
			opts := []string{"-", "-", "n", "i", "in"}[g.R.Intn(5)]
			emit := func(script string) {
				g.Emit(append([]string{"sink", opts, script}, vals...)...)
			}
			emit("-")
			// the writer fails at every write index (each Encode makes at most two writes)
			for k := 0; k < 2*nv; k++ {
				steps := make([]string, k+1)
				for j := range steps {
					steps[j] = "ok"
				}
				steps[k] = "f" + strconv.Itoa([]int{0, 0, 1, 3, 100000}[g.R.Intn(5)])
				emit(strings.Join(steps, ","))
			}
			// short writes mixed in
			n := 1 + g.R.Intn(5)
			steps := make([]string, n)
			for j := range steps {
				switch g.R.Intn(4) {
				case 0:
					steps[j] = "p" + strconv.Itoa(g.R.Intn(6))
				case 1:
					steps[j] = "f" + strconv.Itoa(g.R.Intn(4))
				default:
					steps[j] = "ok"
				}
			}
			emit(strings.Join(steps, ","))
		}
	})
	// option combinations x values with ill-formed UTF-8, HTML characters, U+2028/9: the bytes delivered
	// must be the same configuration's Marshal (+ newline)
	registerGen("c17.sinkopts", func(g *Gen) {
		pieces := []string{"a", "xyz", "<", ">", "&", "<script>", "\u2028", "\u2029", "\xff", "\xc0\x80", "\xed\xa0\x80",
			"\xe2\x82", "\xf0\x9f\x98", "\x80", "é", "中", "😀", "\"", "\\", "\n", "\x01", " ", "/"}
		rawStr := func() string {
			var sb strings.Builder
			for k := g.R.Intn(6); k > 0; k-- {
				sb.WriteString(pieces[g.R.Intn(len(pieces))])
			}
			if g.R.Intn(10) == 0 {
				sb.WriteString(strings.Repeat("w", 20+g.R.Intn(60)) + pieces[g.R.Intn(len(pieces))])
			}
			return sb.String()
		}
		hx := func(s string) string {
			if s == "" {
				return ""
			}
			return hexArg([]byte(s))
		}
		for i := 0; i < g.N; i++ {
			// every combination of h, v, u, n, and constructor / indent variants, in turn
			o := ""
			for b, l := range []string{"h", "v", "u", "n", "C", "i"} {
				if (i>>uint(b))&1 == 1 {
					o += l
				}
			}
			if o == "" {
				o = "-"
			}
			nv := 1 + g.R.Intn(3)
			vals := make([]string, nv)
			for k := range vals {
				switch g.R.Intn(5) {
				case 0, 1:
					vals[k] = "S" + hx(rawStr())
				case 2:
					n := 1 + g.R.Intn(3)
					xs := make([]string, n)
					for j := range xs {
						xs[j] = hx(rawStr())
					}
					vals[k] = "L" + strings.Join(xs, ".")
				case 3:
					vals[k] = "M" + hx(rawStr()) + "=" + hx(rawStr())
				default:
					if strings.Contains(o, "u") {
						vals[k] = hexArg([]byte(ioString(g, false)))
					} else {
						vals[k] = hexArg([]byte(ioValue(g, 2)))
					}
				}
			}
			script := "-"
			if g.R.Intn(6) == 0 {
				script = []string{"f0", "ok,f2", "p1,ok", "f100000"}[g.R.Intn(4)]
			}
			g.Emit(append([]string{"sink", o, script}, vals...)...)
		}
	})
}
