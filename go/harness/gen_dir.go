package main

// Generators of the `dir` work package (the JIT decoder's intermediate representation; C01 / C11 deep part).
//
//   dir.edge    hand-written: every construct of jitdec/compiler.go once in isolation (scalars, json.Number, []byte,
//               RawMessage, interface{} and interfaces with methods, every unmarshaler shape of checkMarshaler by
//               addressability, every map key kind, `,string` on every kind and on pointers, embedded fields), the
//               cut-offs exactly (_MAX_FIELDS-1/0/+1 at depth 0 and > 0, MaxInlineDepth), "type nesting too deep"
//   dir.types   dirdis lines: random types of the whole grammar (library types included) x MaxInlineDepth 0..5
//   dir.cutoff  structs of 49/50/51 fields at static depth 0 and > 0, struct nesting around MaxInlineDepth through
//               fields, pointers, slices, arrays and maps (so `_OP_recurse` appears), pointer chains, programs
//               longer than _MAX_ILBUF (thorough tier)
//   dir.run     dirun lines: value-directed documents (a random value marshalled by encoding/json, then mutated: kinds, nulls,
//               duplicate keys, unknown fields, out-of-range numbers, escapes, whitespace; a share damaged) for types of the
//               sub-universe of the theorem, plus maps, floats and `,string` fields (outside the theorem, inside the machine)
//   dir.sub     types of the sub-universe of Props/C01Dir `exec_compile_eq_stream_partial` only (bool, integers, strings,
//               pointers, slices, arrays, structs with tags, map[string]T)
//
// Every random choice comes from g.R.

import (
	"encoding/hex"
	"regexp"
	"strconv"
	"strings"
)

var dirIntKeyRe = regexp.MustCompile(`"(-?\d+)":`)

func dirFloatKeys(g *Gen, doc []byte) []byte {
	return dirIntKeyRe.ReplaceAllFunc(doc, func(m []byte) []byte {
		k := string(m[1 : len(m)-2])
		switch g.R.Intn(6) {
		case 0:
			k += ".5"
		case 1:
			k += "e1"
		case 2:
			k += ".0"
		case 3:
			k += "e40"
		}
		return []byte(`"` + k + `":`)
	})
}

// the JSON name a hex-spelled tag gives (the part before the first comma)
func dirTagName(h string) string {
	b, _ := hex.DecodeString(h)
	return strings.SplitN(string(b), ",", 2)[0]
}

const dirMaxFields = 50 // jitdec._MAX_FIELDS

var dirLibAtoms = []string{"MV", "MP", "TV", "TP", "Rec", "Tree", "EmbOuter", "DirSJ", "DirST", "DirVJ", "DirVT", "DirIU", "DirIT", "DirIM", "DirRef", "DirRefT"}

var dirKeyTypes = []string{"str", "str", "str", "num", "i8", "i16", "i32", "i64", "int", "u8", "u16", "u32", "u64", "uint", "uptr", "f32", "f64",
	"bool", "any", "(lib TV)", "(ptr (lib TV))", "(lib DirST)", "(lib DirVT)", "(ptr (lib DirVT))", "(lib DirIT)", "(lib DirIM)", "(arr 2 i8)",
	"(st (f A - i8))", "(lib MV)", "(lib DirSJ)", "(ptr i8)", "(lib TP)"}

// names the resolver takes (unicode letters / digits / the punctuation of isValidTag) and some it refuses
var dirTagNames = []string{"", "a", "b", "A", "name", "Name", "id", "é", "k k", "<x>", "a&b", "1", "ÿ", "a\"b", "a\\b", "_", "@id", "äö", "x"}
var dirTagOpts = []string{"", "", ",omitempty", ",string", ",string", ",omitempty,string", ",string,omitzero", ",unknown", ", string", ",String"}

func dirScalar(g *Gen) *sx {
	return atomT(scalarAtoms[g.R.Intn(len(scalarAtoms))])
}

func dirLib(g *Gen) *sx {
	return listT("lib", atomT(dirLibAtoms[g.R.Intn(len(dirLibAtoms))]))
}

func dirTag(g *Gen, ft *sx) string {
	switch g.R.Intn(8) {
	case 0:
		return ""
	case 1:
		if g.R.Intn(3) == 0 {
			return "-"
		}
		return "-,"
	}
	return dirTagNames[g.R.Intn(len(dirTagNames))] + dirTagOpts[g.R.Intn(len(dirTagOpts))]
}

func dirStruct(g *Gen, depth int, lib bool) *sx {
	n := g.R.Intn(7)
	used := map[string]bool{}
	st := listT("st")
	for i := 0; i < n; i++ {
		name := fieldNames[g.R.Intn(len(fieldNames))]
		if used[name] {
			continue
		}
		used[name] = true
		var ft *sx
		switch g.R.Intn(6) {
		case 0, 1:
			ft = dirType(g, depth-1, lib)
		case 2:
			ft = listT("ptr", dirScalar(g))
		default:
			ft = dirScalar(g)
		}
		st.list = append(st.list, listT("f", atomT(name), atomT(tagHex(dirTag(g, ft))), ft))
	}
	return st
}

func dirType(g *Gen, depth int, lib bool) *sx {
	if depth <= 0 {
		if lib && g.R.Intn(4) == 0 {
			return dirLib(g)
		}
		return dirScalar(g)
	}
	switch g.R.Intn(13) {
	case 0, 1:
		return dirScalar(g)
	case 2:
		if lib {
			return dirLib(g)
		}
		return dirScalar(g)
	case 3, 4:
		return listT("sl", dirType(g, depth-1, lib))
	case 5:
		return listT("arr", atomT(strconv.Itoa(g.R.Intn(4))), dirType(g, depth-1, lib))
	case 6, 7:
		return listT("ptr", dirType(g, depth-1, lib))
	case 8, 9:
		k := "str"
		if g.R.Intn(2) == 0 {
			k = dirKeyTypes[g.R.Intn(len(dirKeyTypes))]
			if !lib && strings.Contains(k, "lib") {
				k = "i32"
			}
		}
		return listT("map", parseSx(k), dirType(g, depth-1, lib))
	default:
		return dirStruct(g, depth, lib)
	}
}

// a struct with n scalar fields F0..F(n-1); the field at `at` (if >= 0) has type `inner`
func dirWide(g *Gen, n int, at int, inner *sx) *sx {
	st := listT("st")
	for i := 0; i < n; i++ {
		var ft *sx
		if i == at {
			ft = inner
		} else {
			ft = atomT([]string{"i64", "bool", "str", "u8", "f64", "i16"}[g.R.Intn(6)])
		}
		tag := ""
		switch g.R.Intn(6) {
		case 0:
			tag = "x" + strconv.Itoa(i) + ",string"
		case 1:
			tag = "y" + strconv.Itoa(i)
		case 2:
			if g.R.Intn(4) == 0 {
				tag = "-"
			}
		}
		st.list = append(st.list, listT("f", atomT("F"+strconv.Itoa(i)), atomT(tagHex(tag)), ft))
	}
	return st
}

// `levels` structs nested through a random constructor at each level
func dirNest(g *Gen, levels int, leaf *sx) *sx {
	t := leaf
	for i := 0; i < levels; i++ {
		inner := t
		switch g.R.Intn(7) {
		case 0:
			inner = listT("ptr", t)
		case 1:
			inner = listT("sl", t)
		case 2:
			inner = listT("arr", atomT(strconv.Itoa(1+g.R.Intn(2))), t)
		case 3:
			inner = listT("map", atomT([]string{"str", "i16", "u64"}[g.R.Intn(3)]), t)
		case 4:
			inner = listT("ptr", listT("ptr", t))
		}
		st := listT("st", listT("f", atomT("A"), atomT([]string{"-", tagHex("a,string"), tagHex("a")}[g.R.Intn(3)]), atomT("i64")))
		st.list = append(st.list, listT("f", atomT("N"), atomT([]string{"-", tagHex("n,omitempty"), tagHex("n")}[g.R.Intn(3)]), inner))
		if g.R.Intn(2) == 0 {
			st.list = append(st.list, listT("f", atomT("Z"), atomT("-"), atomT("str")))
		}
		t = st
	}
	return t
}

func dirPtrChain(g *Gen, n int, leaf *sx) *sx {
	t := leaf
	for i := 0; i < n; i++ {
		t = listT("ptr", t)
	}
	return t
}

// the sub-universe of the compiler-correctness theorem
var dirSubScalars = []string{"any", "f32", "f64", "bool", "i8", "i16", "i32", "i64", "int", "u8", "u16", "u32", "u64", "uint", "uptr", "str"}

func dirSubType(g *Gen, depth int) *sx {
	sc := func() *sx { return atomT(dirSubScalars[g.R.Intn(len(dirSubScalars))]) }
	if depth <= 0 {
		return sc()
	}
	switch g.R.Intn(10) {
	case 0, 1:
		return sc()
	case 2:
		e := dirSubType(g, depth-1)
		if !e.isL && e.atom == "u8" {
			e = atomT("u16")
		}
		return listT("sl", e)
	case 3:
		return listT("arr", atomT(strconv.Itoa(g.R.Intn(4))), dirSubType(g, depth-1))
	case 4, 5:
		return listT("ptr", dirSubType(g, depth-1))
	case 6:
		return listT("map", atomT("str"), dirSubType(g, depth-1))
	default:
		n := g.R.Intn(6)
		used := map[string]bool{}
		st := listT("st")
		for i := 0; i < n; i++ {
			name := fieldNames[g.R.Intn(len(fieldNames))]
			if used[name] {
				continue
			}
			used[name] = true
			tag := ""
			if g.R.Intn(2) == 0 {
				tag = []string{"a", "b", "name", "Name", "id", "-", "-,", "x,omitempty", "k k", "é"}[g.R.Intn(10)]
			}
			st.list = append(st.list, listT("f", atomT(name), atomT(tagHex(tag)), dirSubType(g, depth-1)))
		}
		return st
	}
}

// the machine model beyond the theorem: maps with string, integer, float and TextUnmarshaler keys, json.Number, `,string`
func dirRunType(g *Gen, depth int) *sx {
	switch g.R.Intn(10) {
	case 0:
		var k *sx = atomT("str")
		switch g.R.Intn(6) {
		case 0, 1:
			k = atomT([]string{"i8", "i16", "i32", "i64", "int", "u8", "u16", "u32", "u64", "uint"}[g.R.Intn(10)])
		case 2:
			k = atomT([]string{"f32", "f64"}[g.R.Intn(2)])
		case 3:
			k = parseSx([]string{"(lib TV)", "(lib TV)", "(ptr (lib TV))", "(lib DirVT)"}[g.R.Intn(4)])
		}
		return listT("map", k, dirSubType(g, depth-1))
	case 1:
		st := listT("st")
		for i, a := range []string{"i8", "u16", "bool", "str", "f64", "num", "i64"} {
			if g.R.Intn(2) == 0 {
				continue
			}
			var ft *sx = atomT(a)
			if g.R.Intn(3) == 0 {
				ft = listT("ptr", ft)
			}
			st.list = append(st.list, listT("f", atomT("F"+strconv.Itoa(i)), atomT(tagHex([]string{"", "x" + strconv.Itoa(i) + ",string", ",string"}[g.R.Intn(3)])), ft))
		}
		return st
	case 2:
		return listT("st", listT("f", atomT("A"), atomT("-"), atomT([]string{"f32", "f64", "num"}[g.R.Intn(3)])),
			listT("f", atomT("B"), atomT("-"), listT("map", atomT("str"), listT("sl", atomT("i16")))), listT("f", atomT("C"), atomT("-"), dirSubType(g, depth-1)))
	case 3:
		return dirNest(g, 2+g.R.Intn(4), atomT([]string{"i32", "str", "bool"}[g.R.Intn(3)]))
	default:
		return dirSubType(g, depth)
	}
}

var dirCurType *sx
var dirCurLeft int

func dirCase(g *Gen) (cfg uint64, tn *sx, root *jn, tags []string) {
	cfg, cname := pickConfig(g)
	tags = append(tags, "cfg:"+cname)
	if dirCurLeft <= 0 || dirCurType == nil {
		dirCurType = dirRunType(g, 2+g.R.Intn(3))
		dirCurLeft = 1 + g.R.Intn(4)
	}
	dirCurLeft--
	tn = dirCurType
	src := tn
	floatKey := tn.isL && tn.list[0].atom == "map" && !tn.list[1].isL && (tn.list[1].atom == "f32" || tn.list[1].atom == "f64")
	if floatKey {
		// encoding/json cannot marshal a float-keyed map: the document comes from the int16-keyed twin, some keys get a fraction / exponent
		src = listT("map", atomT("i16"), tn.list[2])
	}
	raw := marshalRandom(g, src)
	if floatKey {
		raw = dirFloatKeys(g, raw)
	}
	p := &jparser{b: raw}
	root = p.val()
	root = mutateDoc(g, root, hasValidate(cfg), &tags)
	return
}

func dirEmit(g *Gen, tn *sx) {
	d := g.R.Intn(7)
	if d > 5 {
		d = 0
	}
	g.Emit("dirdis", tn.String(), strconv.Itoa(d))
}

var dirEdgeTypes = []string{
	"bool", "i8", "i16", "i32", "i64", "int", "u8", "u16", "u32", "u64", "uint", "uptr", "f32", "f64", "str", "num", "bytes", "raw", "any",
	"(sl u8)", "(sl i64)", "(sl (sl str))", "(sl bytes)", "(arr 0 i64)", "(arr 1 i64)", "(arr 3 (arr 2 i8))", "(arr 2 (st))", "(arr 2 str)", "(arr 0 (ptr i8))",
	"(arr 2 (arr 0 (ptr i8)))", "(arr 2 (st (f A - (arr 0 str)) (f B - i8)))", "(ptr i64)", "(ptr (ptr str))", "(ptr (ptr (ptr (sl (ptr i8)))))",
	"(map str i64)", "(map i32 str)", "(map u8 (map str bool))", "(map str (sl (ptr f64)))", "(map num i8)", "(map f32 i8)", "(map f64 (ptr i8))",
	"(map bool i8)", "(map any i8)", "(map (arr 2 i8) i8)", "(map (st (f A - i8)) i8)", "(map (ptr i8) i8)", "(map uptr (map int (map uint str)))",
	"(map (lib TV) i8)", "(map (ptr (lib TV)) i8)", "(map (lib DirST) str)", "(map (lib DirVT) i8)", "(map (ptr (lib DirVT)) i8)", "(map (lib DirIT) i8)",
	"(map (lib DirIM) i8)", "(map (lib MV) i8)", "(map (lib DirSJ) i8)", "(map (lib TP) i8)",
	"(st)", "(st (f A - i64))", "(st (f A 2d i64))", "(st (f A 2d2c i64))", "(st (f A 78 i8) (f B 78 i16) (f C 79 i8) (f Y - i8) (f D 2d i8) (f E 2d2c i8))",
	"(st (f A 78 i8) (f B - i8) (f X - i16))", "(st (f A - u8) (f B - i64) (f C - bool) (f D - (st)) (f E - i16) (f F - (arr 0 i64)))",
	"(st (f A 2c737472696e67 i64) (f B 2c737472696e67 (ptr f32)) (f C 2c737472696e67 str) (f D 2c737472696e67 (ptr str)) (f E 2c737472696e67 num) (f F 2c737472696e67 (sl i8)) (f G 2c737472696e67 bool) (f H 2c737472696e67 (ptr num)) (f I 2c737472696e67 (ptr (ptr i8))) (f J 2c737472696e67 any) (f K 2c737472696e67 (ptr bool)) (f L 2c737472696e67 uptr) (f M 2c737472696e67 f64) (f N 2c737472696e67 (st)) (f O 2c737472696e67 raw) (f P 2c737472696e67 bytes))",
	"(st (f A 2c737472696e67 (lib DirSJ)) (f B 2c737472696e67 (lib DirST)) (f C 2c737472696e67 (ptr (lib DirST))) (f D 2c737472696e67 (ptr (lib DirSJ))) (f E 2c737472696e67 (lib MV)) (f F 2c737472696e67 (lib DirIU)))",
	"(st (f A - (st (f B - (st (f C - (st (f D - (st (f E - i64))))))))))",
	"(ptr (st (f A - (ptr (st (f B - (sl (st (f C - (map str (st (f D - i64))))))))))))",
	"(lib MV)", "(lib MP)", "(lib TV)", "(lib TP)", "(lib Rec)", "(lib Tree)", "(lib EmbOuter)", "(lib DirSJ)", "(lib DirST)", "(lib DirVJ)", "(lib DirVT)",
	"(lib DirIU)", "(lib DirIT)", "(lib DirIM)", "(ptr (lib MV))", "(ptr (ptr (lib MV)))", "(ptr (ptr (ptr (lib TV))))", "(ptr (lib TV))", "(ptr raw)", "(ptr (ptr raw))",
	"(ptr (lib DirVJ))", "(ptr (lib DirVT))", "(ptr (lib DirIU))", "(ptr (lib DirIT))", "(ptr (lib DirIM))", "(ptr (lib DirSJ))", "(ptr (ptr (lib DirST)))",
	"(ptr (lib Rec))", "(sl (lib Tree))", "(arr 2 (lib Rec))", "(map str (lib Tree))", "(map str (ptr (lib Tree)))", "(sl (ptr (lib Rec)))", "(ptr (ptr (lib Rec)))",
	"(st (f A - (lib Rec)) (f B - (lib Tree)) (f C - (ptr (lib Rec))))", "(st (f A - (st (f B - (st (f C - (lib Tree)))))))",
	"(st (f A - (ptr (lib Tree))) (f B - (lib Tree)) (f C - (sl (lib Tree))))", "(sl (lib EmbOuter))", "(ptr (lib EmbOuter))",
	"(st (f A - (lib MV)) (f B - (ptr (lib MV))) (f C - (lib TV)) (f D - raw) (f E - (ptr raw)) (f F - num) (f G - (ptr num)))",
	// a named pointer type (finding C09-jitdec-namedptr-inline-depth: in place up to MaxInlineDepth, `recurse MV` = the method beyond)
	"(lib DirRef)", "(ptr (lib DirRef))", "(ptr (ptr (lib DirRef)))", "(sl (lib DirRef))", "(map str (lib DirRef))", "(arr 2 (lib DirRef))",
	"(st (f A - (lib DirRef)) (f B - (lib MV)) (f C - (lib DirRef)))", "(st (f A - (st (f B - (st (f C - (lib DirRef)))))))",
	"(st (f A - (st (f B - (st (f Items - (sl (lib DirRef))))))))", "(st (f A 2c737472696e67 (lib DirRef)))", "(map (lib DirRef) i8)",
	"(lib DirRefT)", "(ptr (lib DirRefT))", "(sl (lib DirRefT))", "(st (f A - (lib DirRefT)) (f B - (lib TV)) (f C 2c737472696e67 (lib DirRefT)))",
	"(arr 1 (arr 1 (arr 1 (lib DirRefT))))", "(map (lib DirRefT) i8)", "(map str (lib DirRefT))",
}

func init() {
	registerGen("dir.edge", func(g *Gen) {
		for _, t := range dirEdgeTypes {
			tn := parseSx(t)
			for _, d := range []string{"0", "1", "2", "5", "8"} {
				g.Emit("dirdis", tn.String(), d)
			}
		}
		// structs at the _MAX_FIELDS boundary, nested and not
		for _, n := range []int{dirMaxFields - 1, dirMaxFields, dirMaxFields + 1} {
			w := dirWide(g, n, -1, nil)
			g.Emit("dirdis", w.String(), "0")
			g.Emit("dirdis", listT("sl", w).String(), "0")
			g.Emit("dirdis", listT("ptr", w).String(), "0")
			g.Emit("dirdis", listT("st", listT("f", atomT("W"), atomT("-"), w), listT("f", atomT("X"), atomT("-"), atomT("i8"))).String(), "0")
		}
		// "type nesting too deep": _Program.tag(sp) with sp = _MaxStack (arrays of one element nest without doubling the code)
		// (reflect.ArrayOf needs ~20 s to build such a type: thorough tier only)
		if g.Tier == "thorough" {
			deep := atomT("i8")
			for i := 0; i < 4097; i++ {
				deep = listT("arr", atomT("1"), deep)
			}
			g.Emit("dirdis", deep.String(), "0")
			// (the 4096-level type, the deepest the compiler takes, was compared once by hand: 73731 instructions, equal text;
			// the model needs four minutes for it - mostly printing 4096 nested type operands - so it is not part of the stream)
		}
	})
	registerGen("dir.types", func(g *Gen) {
		for i := 0; i < g.N; i++ {
			switch i % 5 {
			case 0:
				dirEmit(g, dirStruct(g, 2+g.R.Intn(2), true))
			case 1:
				dirEmit(g, dirType(g, 2+g.R.Intn(3), false))
			default:
				dirEmit(g, dirType(g, 2+g.R.Intn(3), true))
			}
		}
	})
	registerGen("dir.cutoff", func(g *Gen) {
		for i := 0; i < g.N; i++ {
			switch i % 5 {
			case 0: // wide struct at depth 0 and inside something
				n := dirMaxFields - 1 + g.R.Intn(3)
				w := dirWide(g, n, -1, nil)
				switch g.R.Intn(5) {
				case 0:
					dirEmit(g, w)
				case 1:
					dirEmit(g, listT("ptr", w))
				case 2:
					dirEmit(g, listT("st", listT("f", atomT("W"), atomT("-"), w), listT("f", atomT("X"), atomT("-"), atomT("i8"))))
				case 3:
					dirEmit(g, listT("map", atomT("str"), w))
				default:
					dirEmit(g, listT("sl", dirWide(g, n, g.R.Intn(n), dirWide(g, dirMaxFields-1+g.R.Intn(3), -1, nil))))
				}
			case 1, 2: // nesting around MaxInlineDepth
				dirEmit(g, dirNest(g, 1+g.R.Intn(6), dirScalar(g)))
			case 3:
				dirEmit(g, dirNest(g, 2+g.R.Intn(3), dirType(g, 2, true)))
			default: // pointer chains, to scalars, containers, unmarshalers and recursive types
				leaf := dirType(g, g.R.Intn(3), true)
				dirEmit(g, dirPtrChain(g, 1+g.R.Intn(4), leaf))
			}
		}
		if g.Tier == "thorough" {
			// programs longer than _MAX_ILBUF (100000 instructions): arrays multiply the element's code
			for k := 0; k < 2; k++ {
				leaf := dirNest(g, 2, atomT("i64"))
				t := leaf
				for d := 0; d < 8; d++ {
					t = listT("arr", atomT("4"), t)
				}
				g.Emit("dirdis", listT("st", listT("f", atomT("A"), atomT("-"), t), listT("f", atomT("B"), atomT("-"), leaf)).String(), strconv.Itoa(3+k))
			}
		}
	})
	registerGen("dir.run", func(g *Gen) {
		for i := 0; i < g.N; i++ {
			cfg, tn, root, tags := dirCase(g)
			doc := render(g, root, &tags)
			if i%4 == 3 {
				doc = damage(g, doc, &tags)
				tags = append(tags, "damaged")
			}
			g.Emit("dirun", strconv.FormatUint(cfg, 10), tn.String(), hexArg(doc), tagStr(tags))
		}
	})
	// defined pointer types (`type DirRef *MV`, `type DirRefT *TV`) as destinations of typed Unmarshal: as a struct FIELD (the
	// resolver rebuilds the type with reflect.PtrTo, the element's pointer methods are called: finding
	// C01-field-defined-pointer-type-calls-elem-unmarshaler), as an element below the JIT's inline bound (`_OP_recurse` -> the
	// method: C09-jitdec-namedptr-inline-depth seen through Unmarshal), and above it (agrees with encoding/json: controls)
	registerGen("bind.defptr", func(g *Gen) {
		field := []string{
			"(st (f A - (lib DirRef)))", "(st (f X - int) (f A 72 (lib DirRef)) (f S - str))", "(sl (st (f A - (lib DirRef))))",
			"(map str (st (f A - (lib DirRef))))", "(ptr (st (f A - (lib DirRef))))", "(st (f O - (st (f A - (lib DirRef)))))",
			"(st (f A - (lib DirRefT)))", "(arr 2 (st (f A - (lib DirRefT)) (f B - (lib DirRef))))",
		}
		elem := []string{
			"(lib DirRef)", "(sl (lib DirRef))", "(arr 2 (lib DirRef))", "(ptr (lib DirRef))", "(map str (lib DirRef))", "(sl (sl (lib DirRef)))",
			"(sl (sl (sl (lib DirRef))))", "(arr 1 (arr 1 (arr 1 (lib DirRef))))", "(map str (sl (sl (lib DirRef))))",
			"(st (f A - (st (f B - (st (f Items - (sl (lib DirRef))))))))", "(sl (sl (sl (sl (lib DirRefT)))))", "(sl (lib DirRefT))",
		}
		num := func() string { return strconv.Itoa(g.R.Intn(2000) - 1000) }
		// a value for the element struct MV / TV, in the spellings that tell the method from the field-by-field decoding apart
		leaf := func(text bool) string {
			switch g.R.Intn(9) {
			case 0:
				return `{"V":` + num() + `}`
			case 1:
				return `{"mv":` + num() + `}`
			case 2:
				return `{"V":` + num() + `,"mv":` + num() + `}`
			case 3:
				return `{"mv":` + num() + `, "v" : ` + num() + `}`
			case 4:
				return "null"
			case 5:
				return "{}"
			case 6:
				return `"tv` + num() + `"`
			case 7:
				return num()
			}
			if text {
				return `"tv` + num() + `"`
			}
			return `{"V":` + num() + `}`
		}
		var doc func(t *sx) string
		doc = func(t *sx) string {
			if !t.isL {
				switch t.atom {
				case "int":
					return num()
				case "str":
					return `"s` + num() + `"`
				}
				return "null"
			}
			switch t.list[0].atom {
			case "lib":
				return leaf(t.list[1].atom == "DirRefT")
			case "ptr":
				return doc(t.list[1])
			case "sl":
				parts := []string{}
				for k := g.R.Intn(3); k >= 0; k-- {
					parts = append(parts, doc(t.list[1]))
				}
				return "[" + strings.Join(parts, ",") + "]"
			case "arr":
				n, _ := strconv.Atoi(t.list[1].atom)
				parts := []string{}
				for k := 0; k < n; k++ {
					parts = append(parts, doc(t.list[2]))
				}
				return "[" + strings.Join(parts, ", ") + "]"
			case "map":
				parts := []string{}
				for k := g.R.Intn(3); k >= 0; k-- {
					parts = append(parts, `"k`+strconv.Itoa(k)+`":`+doc(t.list[2]))
				}
				return "{" + strings.Join(parts, ",") + "}"
			case "st":
				parts := []string{}
				for _, f := range t.list[1:] {
					name := f.list[1].atom
					if f.list[2].atom != "-" {
						name = dirTagName(f.list[2].atom)
					}
					if g.R.Intn(6) == 0 {
						continue
					}
					parts = append(parts, `"`+name+`": `+doc(f.list[3]))
				}
				return "{" + strings.Join(parts, ",") + "}"
			}
			return "null"
		}
		for i := 0; i < g.N; i++ {
			cfg, cname := pickConfig(g)
			tags := []string{"cfg:" + cname, "defptr"}
			var t string
			if i%2 == 0 {
				t = field[g.R.Intn(len(field))]
				tags = append(tags, "defptr_field")
			} else {
				t = elem[g.R.Intn(len(elem))]
				tags = append(tags, "defptr_elem")
			}
			tn := parseSx(t)
			g.Emit("bind", strconv.FormatUint(cfg, 10), tn.String(), hexArg([]byte(doc(tn))), tagStr(tags))
		}
	})
	registerGen("dir.sub", func(g *Gen) {
		for i := 0; i < g.N; i++ {
			dirEmit(g, dirSubType(g, 2+g.R.Intn(3)))
		}
	})
}
