package main

// Grammar-weighted generators of Go types (as type expressions) and of values of those types
// (as value expressions), shared by the C01/C03/C04/C11/C12 work packages.

import (
	"encoding/hex"
	"fmt"
	"math"
	"strconv"
	"strings"
)

func atomT(s string) *sx { return &sx{atom: s} }
func listT(h string, c ...*sx) *sx {
	return &sx{isL: true, list: append([]*sx{atomT(h)}, c...)}
}

var scalarAtoms = []string{"bool", "i8", "i16", "i32", "i64", "int", "u8", "u16", "u32", "u64", "uint", "uptr", "f32", "f64", "str", "num", "bytes", "raw", "any"}
var keyAtoms = []string{"str", "str", "str", "i8", "i16", "i32", "i64", "int", "u8", "u16", "u32", "u64", "uint", "uptr"}
var fieldNames = []string{"A", "B", "C", "Ab", "AB", "Name", "NAME", "Id", "ID", "X1", "Value", "K", "Kk", "S"}
var tagPool = []string{"", "a", "b", "name", "Name", "id", "a,omitempty", ",omitempty", "-", "-,", "n,string", ",string", "x,omitempty,string", "é", "k k", "a,omitzero", "1"}

// TypeOpts narrows the universe (a work package may exclude what its model does not cover yet).
type TypeOpts struct {
	NoFloat, NoLib, NoAny, NoRaw, NoStringOpt, NoNum bool
	MaxDepth                                         int
}

func (o TypeOpts) okAtom(a string) bool {
	switch a {
	case "f32", "f64":
		return !o.NoFloat
	case "any":
		return !o.NoAny
	case "raw":
		return !o.NoRaw
	case "num":
		return !o.NoNum
	}
	return true
}

func genScalarT(g *Gen, o TypeOpts) *sx {
	for {
		a := scalarAtoms[g.R.Intn(len(scalarAtoms))]
		if o.okAtom(a) {
			return atomT(a)
		}
	}
}

func genType(g *Gen, depth int, o TypeOpts) *sx {
	if depth <= 0 {
		return genScalarT(g, o)
	}
	switch g.R.Intn(12) {
	case 0, 1, 2:
		return genScalarT(g, o)
	case 3:
		return listT("sl", genType(g, depth-1, o))
	case 4:
		return listT("arr", atomT(strconv.Itoa(g.R.Intn(4))), genType(g, depth-1, o))
	case 5:
		return listT("ptr", genType(g, depth-1, o))
	case 6:
		return listT("map", atomT(keyAtoms[g.R.Intn(len(keyAtoms))]), genType(g, depth-1, o))
	case 7:
		if !o.NoLib {
			return listT("lib", atomT(libNames[g.R.Intn(len(libNames))]))
		}
		return genScalarT(g, o)
	default:
		return genStructT(g, depth, o)
	}
}

func genStructT(g *Gen, depth int, o TypeOpts) *sx {
	n := g.R.Intn(6)
	used := map[string]bool{}
	st := listT("st")
	for i := 0; i < n; i++ {
		name := fieldNames[g.R.Intn(len(fieldNames))]
		if used[name] {
			continue
		}
		used[name] = true
		tag := "-"
		if g.R.Intn(2) == 0 {
			t := tagPool[g.R.Intn(len(tagPool))]
			if o.NoStringOpt && strings.Contains(t, "string") {
				t = "a"
			}
			if t == "" {
				tag = "-"
			} else {
				tag = hex.EncodeToString([]byte(t))
			}
		}
		st.list = append(st.list, listT("f", atomT(name), atomT(tag), genType(g, depth-1, o)))
	}
	return st
}

// ---------------------------------------------------------------- values

func hexS(s string) string {
	if s == "" {
		return "-"
	}
	return hex.EncodeToString([]byte(s))
}

var strPool = []string{"", "a", "hello", "A B", "\"q\"", "back\\slash", "<tag>&", "é中😀", " x", "line\nbreak\ttab", "\x00\x1f", "nul\x00", "0", "-1", "true", "null", "12.5", "tv7"}
var numPool = []string{"0", "-0", "1", "-1", "12", "1.5", "1e3", "-2.5E-3", "9223372036854775807", "9223372036854775808", "18446744073709551615", "1e400", "0.1", "123456789012345678901234567890"}
var intEdges = []int64{0, 1, -1, 127, 128, -128, -129, 255, 256, 32767, 32768, -32768, 65535, 65536, 2147483647, 2147483648, -2147483648, 4294967295, 4294967296, math.MaxInt64, math.MinInt64}
var f64Pool = []float64{0, math.Copysign(0, -1), 1, -1, 0.1, 1.5, 1e21, 1e20, 1e-6, 1e-7, 123456789, 1e300, 5e-324, math.MaxFloat64, 3.0000000000000004, 100, 1e6}

func clampInt(a string, x int64) int64 {
	bits := map[string]uint{"i8": 8, "i16": 16, "i32": 32, "i64": 64, "int": 64}[a]
	if bits == 64 {
		return x
	}
	return int64(int64(x<<(64-bits)) >> (64 - bits))
}

func clampUint(a string, x uint64) uint64 {
	bits := map[string]uint{"u8": 8, "u16": 16, "u32": 32, "u64": 64, "uint": 64, "uptr": 64}[a]
	if bits == 64 {
		return x
	}
	return x & (1<<bits - 1)
}

// genValue produces a value expression of the given type. special: allow NaN/Inf, invalid json.Number,
// invalid RawMessage (error paths); depth bounds containers.
func genValue(g *Gen, tn *sx, depth int, special bool) *sx {
	nilV := atomT("nil")
	if !tn.isL {
		switch tn.atom {
		case "bool":
			if g.R.Intn(2) == 0 {
				return atomT("t")
			}
			return atomT("f")
		case "i8", "i16", "i32", "i64", "int":
			x := intEdges[g.R.Intn(len(intEdges))]
			if g.R.Intn(3) == 0 {
				x = g.R.Int63() - g.R.Int63()
			}
			return listT("i", atomT(strconv.FormatInt(clampInt(tn.atom, x), 10)))
		case "u8", "u16", "u32", "u64", "uint", "uptr":
			x := uint64(intEdges[g.R.Intn(len(intEdges))])
			if g.R.Intn(3) == 0 {
				x = g.R.Uint64()
			}
			return listT("u", atomT(strconv.FormatUint(clampUint(tn.atom, x), 10)))
		case "f64":
			f := f64Pool[g.R.Intn(len(f64Pool))]
			switch g.R.Intn(4) {
			case 0:
				f = math.Float64frombits(g.R.Uint64())
			case 1:
				f = g.R.NormFloat64() * math.Pow(10, float64(g.R.Intn(40)-20))
			}
			if !special && (math.IsNaN(f) || math.IsInf(f, 0)) {
				f = 1.25
			}
			return listT("f64", atomT(fmt.Sprintf("%016x", math.Float64bits(f))))
		case "f32":
			f := float32(f64Pool[g.R.Intn(len(f64Pool))])
			if g.R.Intn(3) == 0 {
				f = math.Float32frombits(g.R.Uint32())
			}
			if !special && (math.IsNaN(float64(f)) || math.IsInf(float64(f), 0)) {
				f = 1.25
			}
			return listT("f32", atomT(fmt.Sprintf("%08x", math.Float32bits(f))))
		case "str":
			return listT("s", atomT(hexS(strPool[g.R.Intn(len(strPool))])))
		case "num":
			s := numPool[g.R.Intn(len(numPool))]
			if special && g.R.Intn(6) == 0 {
				s = []string{"", "abc", "1.", "01", "--1", "1e", "0x10", " 1"}[g.R.Intn(8)]
			}
			return listT("num", atomT(hexS(s)))
		case "bytes":
			if g.R.Intn(5) == 0 {
				return nilV
			}
			b := make([]byte, g.R.Intn(6))
			g.R.Read(b)
			return listT("b", atomT(hexS(string(b))))
		case "raw":
			if g.R.Intn(6) == 0 {
				return nilV
			}
			s := []string{"null", "1", "\"x\"", "[1, 2]", "{\"a\":1}", " true ", "[]"}[g.R.Intn(7)]
			if special && g.R.Intn(5) == 0 {
				s = []string{"", "{", "tru", "1 2", "\"", "[1,]"}[g.R.Intn(6)]
			}
			return listT("raw", atomT(hexS(s)))
		case "any":
			if g.R.Intn(5) == 0 || depth <= 0 {
				if g.R.Intn(2) == 0 {
					return nilV
				}
			}
			// dynamic type: a fresh small type
			it := genType(g, min(depth-1, 1), TypeOpts{NoLib: g.R.Intn(3) != 0})
			if it.atom == "any" {
				it = atomT("str")
			}
			return listT("any", it, genValue(g, it, depth-1, special))
		}
		panic("genValue atom " + tn.atom)
	}
	switch tn.head() {
	case "sl":
		if g.R.Intn(5) == 0 {
			return nilV
		}
		n := g.R.Intn(4)
		if depth <= 0 {
			n = 0
		}
		v := listT("sl")
		for i := 0; i < n; i++ {
			v.list = append(v.list, genValue(g, tn.list[1], depth-1, special))
		}
		return v
	case "arr":
		k, _ := strconv.Atoi(tn.list[1].atom)
		v := listT("arr")
		for i := 0; i < k; i++ {
			v.list = append(v.list, genValue(g, tn.list[2], depth-1, special))
		}
		return v
	case "ptr":
		if g.R.Intn(4) == 0 || depth <= -2 {
			return nilV
		}
		return listT("ptr", genValue(g, tn.list[1], depth-1, special))
	case "map":
		if g.R.Intn(5) == 0 {
			return nilV
		}
		n := g.R.Intn(5)
		if depth <= 0 {
			n = 0
		}
		v := listT("map")
		seen := map[string]bool{}
		for i := 0; i < n; i++ {
			k := genValue(g, tn.list[1], 0, false)
			if seen[k.String()] {
				continue
			}
			seen[k.String()] = true
			v.list = append(v.list, &sx{isL: true, list: []*sx{k, genValue(g, tn.list[2], depth-1, special)}})
		}
		return v
	case "st":
		v := listT("st")
		for _, f := range tn.list[1:] {
			v.list = append(v.list, genValue(g, f.list[3], depth-1, special))
		}
		return v
	case "lib":
		return listT("lib", atomT(hexS(genLibJSON(g, tn.list[1].atom, 3))))
	}
	panic("genValue " + tn.head())
}

// JSON text that encoding/json decodes into the library type (how library values travel)
func genLibJSON(g *Gen, name string, depth int) string {
	n := strconv.Itoa(g.R.Intn(200) - 100)
	switch name {
	case "MV":
		return `{"mv":` + n + `}`
	case "MP", "TP":
		return `{"V":` + n + `}`
	case "TV":
		return `"tv` + strconv.Itoa(g.R.Intn(50)) + `"`
	case "Rec":
		if depth <= 0 || g.R.Intn(3) == 0 {
			return `{"v":` + n + `}`
		}
		return `{"v":` + n + `,"next":` + genLibJSON(g, "Rec", depth-1) + `}`
	case "Tree":
		if depth <= 0 {
			return `{"n":"leaf","kids":null}`
		}
		k := g.R.Intn(3)
		var kids []string
		for i := 0; i < k; i++ {
			kids = append(kids, genLibJSON(g, "Tree", depth-1))
		}
		m := ""
		if g.R.Intn(2) == 0 {
			m = `,"m":{"x":` + genLibJSON(g, "Tree", depth-1) + `,"y":null}`
		}
		return `{"n":"t` + n + `","kids":[` + strings.Join(kids, ",") + `]` + m + `}`
	case "EmbOuter":
		if g.R.Intn(2) == 0 {
			return `{"A":` + n + `,"b":"x","bb":3,"D":4}`
		}
		return `{"b":"y","C":` + n + `,"bb":1,"D":2}`
	}
	return "null"
}

func min(a, b int) int {
	if a < b {
		return a
	}
	return b
}
