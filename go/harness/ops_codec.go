package main

// Typed codec operations shared by C01/C03/C04/C11/C12/C18:
//
//	unm <cfgbits> <T> <doc hex>      Unmarshal into a fresh zero value of T
//	mar <cfgbits> <T> <V>            Marshal a value of T
//
// cfgbits: decimal bit mask over the fields of sonic.Config in declaration order
// (bit 0 = EscapeHTML, 1 = SortMapKeys, ... see cfgFieldNames).  Results carry sonic's answer
// and encoding/json's answer on the same case (ref*), both canonicalised.

import (
	"bytes"
	"encoding/json"
	"errors"
	"reflect"
	"strconv"
	"strings"
	"sync"

	"github.com/bytedance/sonic"
	"github.com/bytedance/sonic/decoder"
)

var cfgFieldNames = func() []string {
	t := reflect.TypeOf(sonic.Config{})
	var n []string
	for i := 0; i < t.NumField(); i++ {
		n = append(n, t.Field(i).Name)
	}
	return n
}()

var frozen sync.Map

func cfgOf(bits uint64) sonic.Config {
	var c sonic.Config
	v := reflect.ValueOf(&c).Elem()
	for i := 0; i < v.NumField(); i++ {
		if bits&(1<<uint(i)) != 0 {
			v.Field(i).SetBool(true)
		}
	}
	return c
}

func apiOf(bits uint64) sonic.API {
	if a, ok := frozen.Load(bits); ok {
		return a.(sonic.API)
	}
	a := cfgOf(bits).Froze()
	frozen.Store(bits, a)
	return a
}

func cfgBit(name string) uint64 {
	for i, n := range cfgFieldNames {
		if n == name {
			return 1 << uint(i)
		}
	}
	panic("no config field " + name)
}

// decErrKind maps a decoding error to the small enum of the protocol
func decErrKind(err error) string {
	if err == nil {
		return "ok"
	}
	var se decoder.SyntaxError
	var me *decoder.MismatchTypeError
	var ute *json.UnmarshalTypeError
	var jse *json.SyntaxError
	switch {
	case errors.As(err, &se), errors.As(err, &jse):
		return "syntax"
	case errors.As(err, &me), errors.As(err, &ute):
		return "mismatch"
	}
	s := err.Error()
	switch {
	case strings.Contains(s, "unknown field"):
		return "unknown_field"
	case strings.Contains(s, "unexpected end of JSON input"), strings.Contains(s, "unexpected EOF"):
		return "syntax"
	case strings.Contains(s, "invalid character"), strings.Contains(s, "Syntax error"):
		return "syntax"
	case strings.Contains(s, "cannot unmarshal"), strings.Contains(s, "Mismatch type"):
		return "mismatch"
	}
	return "other"
}

func encErrKind(err error) string {
	if err == nil {
		return "ok"
	}
	var ute *json.UnsupportedTypeError
	var uve *json.UnsupportedValueError
	var me *json.MarshalerError
	switch {
	case errors.As(err, &ute):
		return "unsupported_type"
	case errors.As(err, &uve):
		return "unsupported_value"
	case errors.As(err, &me):
		return "marshaler"
	}
	return "other"
}

func init() {
	registerOp("unm", func(a []string) string {
		bits, _ := strconv.ParseUint(a[0], 10, 64)
		tn, t := parseType(a[1])
		doc := unhexArg(a[2])
		// sonic
		sp := reflect.New(t)
		serr := apiOf(bits).Unmarshal(append([]byte(nil), doc...), sp.Interface())
		// reference: encoding/json with the switches it shares
		rp := reflect.New(t)
		dec := json.NewDecoder(bytes.NewReader(doc))
		if bits&cfgBit("UseNumber") != 0 {
			dec.UseNumber()
		}
		if bits&cfgBit("DisallowUnknownFields") != 0 {
			dec.DisallowUnknownFields()
		}
		rerr := dec.Decode(rp.Interface())
		if rerr == nil {
			// json.Unmarshal semantics: nothing but space may follow
			rest, _ := readAll(dec.Buffered())
			if len(bytes.TrimLeft(rest, " \t\r\n")) != 0 || dec.More() {
				rerr = errors.New("invalid character after top-level value")
			}
		}
		out := "sonic=" + decErrKind(serr) + "\tval=" + dumpValue(tn, sp.Elem())
		out += "\tref=" + decErrKind(rerr) + "\trval=" + dumpValue(tn, rp.Elem())
		return out
	})
	registerOp("mar", func(a []string) string {
		bits, _ := strconv.ParseUint(a[0], 10, 64)
		tn, t := parseType(a[1])
		v := buildValue(tn, t, parseSx(a[2]))
		sb, serr := apiOf(bits).Marshal(v.Interface())
		var rb bytes.Buffer
		enc := json.NewEncoder(&rb)
		enc.SetEscapeHTML(bits&cfgBit("EscapeHTML") != 0)
		rerr := enc.Encode(v.Interface())
		ro := bytes.TrimSuffix(rb.Bytes(), []byte("\n"))
		out := "sonic=" + encErrKind(serr)
		if serr == nil {
			out += "\tout=" + hexArg(sb)
		}
		out += "\tref=" + encErrKind(rerr)
		if rerr == nil {
			out += "\trout=" + hexArg(ro)
		}
		return out
	})
}

func readAll(r interface{ Read([]byte) (int, error) }) ([]byte, error) {
	var buf bytes.Buffer
	_, err := buf.ReadFrom(r)
	return buf.Bytes(), err
}
