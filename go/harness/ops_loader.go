package main

// Operations of property C10 that need nothing but public API:
//
//	pcdata  <table> <probes>      real loader.Pcdata.MarshalBinary, read back with the REAL runtime.step
//	pcline  <table> <probes>      table registered as a function's pc-line table through loader.Load;
//	                              read back by the real runtime (FuncForPC/FileLine -> funcline1 -> pcvalue)
//	loadone <textSize> <probes>   loader.Loader{NoPreempt:true}.LoadOne as sonic's JIT does; the real
//	                              runtime's pcdatavalue2 for PCDATA_UnsafePoint / PCDATA_StackMapIndex
//	gcstress <kind> <seed> <n>    see ops_loader_gc.go
//
// runtime.step, runtime.findfunc and runtime.pcdatavalue2 are "push" linknames of the Go runtime
// (symtab.go: //go:linkname step, findfunc, pcdatavalue2), so the reference voice here is the
// runtime's own code, not a copy of it.

import (
	"fmt"
	"runtime"
	"strconv"
	"strings"
	"sync/atomic"
	"unsafe"

	"github.com/bytedance/sonic/loader"
)

//go:linkname rtStep runtime.step
func rtStep(p []byte, pc *uintptr, val *int32, first bool) (newp []byte, ok bool)

type rtFuncInfo struct {
	fn    unsafe.Pointer
	datap unsafe.Pointer
}

//go:linkname rtFindfunc runtime.findfunc
func rtFindfunc(pc uintptr) rtFuncInfo

//go:linkname rtPcdatavalue2 runtime.pcdatavalue2
func rtPcdatavalue2(f rtFuncInfo, table uint32, targetpc uintptr) (int32, uintptr)

func parseTable(s string) loader.Pcdata {
	t := loader.Pcdata{}
	if s == "-" {
		return t
	}
	for _, e := range strings.Split(s, ",") {
		kv := strings.Split(e, ":")
		if len(kv) != 2 {
			panic("bad table")
		}
		pc, err1 := strconv.ParseUint(kv[0], 10, 32)
		v, err2 := strconv.ParseInt(kv[1], 10, 32)
		if err1 != nil || err2 != nil {
			panic("bad table entry")
		}
		t = append(t, loader.Pcvalue{PC: uint32(pc), Val: int32(v)})
	}
	return t
}

func parseProbes(s string) []uint64 {
	if s == "-" {
		return nil
	}
	var out []uint64
	for _, e := range strings.Split(s, ",") {
		v, err := strconv.ParseUint(e, 10, 64)
		if err != nil {
			panic("bad probe")
		}
		out = append(out, v)
	}
	return out
}

func csvOr(l []string) string {
	if len(l) == 0 {
		return "-"
	}
	return strings.Join(l, ",")
}

func marshalReal(t loader.Pcdata) (b []byte, panicked bool) {
	defer func() {
		if r := recover(); r != nil {
			panicked = true
		}
	}()
	b, err := t.MarshalBinary()
	if err != nil {
		panic(err)
	}
	return b, false
}

const rtPad = 32

// rtPcvalue: the loop of runtime.pcvalue (symtab.go, without the cache) around the real
// runtime.step, entry pc = 0.  The table is followed by rtPad zero bytes so that a reader that
// runs off the table is seen (result "o") instead of faulting inside the runtime.
func rtPcvalue(table []byte, target uint64) string {
	buf := make([]byte, len(table)+rtPad)
	copy(buf, table)
	p := buf
	var pc uintptr
	val := int32(-1)
	for {
		if len(p) <= rtPad {
			return "o" // the next read would be past the table: ran off it
		}
		var ok bool
		p, ok = rtStep(p, &pc, &val, pc == 0)
		if !ok {
			return "n"
		}
		if len(p) < rtPad {
			return "o"
		}
		if uintptr(target) < pc {
			return strconv.Itoa(int(val))
		}
	}
}

var loadSeq uint64

func retText(n int) []byte {
	text := make([]byte, n)
	for i := range text {
		text[i] = 0xCC // INT3; never executed
	}
	text[n-1] = 0xC3
	return text
}

func init() {
	registerOp("pcdata", func(a []string) string {
		t := parseTable(a[0])
		probes := parseProbes(a[1])
		b, panicked := marshalReal(t)
		if panicked {
			return "sonic=PANIC\trtdec=-"
		}
		dec := make([]string, len(probes))
		for i, p := range probes {
			dec[i] = rtPcvalue(b, p)
		}
		return "sonic=" + hexArg(b) + "\trtdec=" + csvOr(dec)
	})

	registerOp("pcline", func(a []string) string {
		t := parseTable(a[0])
		probes := parseProbes(a[1])
		b, panicked := marshalReal(t)
		if panicked {
			return "sonic=PANIC"
		}
		if len(b) == 1 && b[0] == 0 {
			// the reader would run into the neighbouring tables of pctab: do not hand it to the runtime
			return "sonic=degenerate"
		}
		var max uint32
		for _, e := range t {
			if e.PC > max {
				max = e.PC
			}
		}
		size := int(max) + 3
		if size > 1<<20 {
			return "sonic=unsupported"
		}
		text := retText(size)
		name := "verif_pcline_" + strconv.FormatUint(atomic.AddUint64(&loadSeq, 1), 10)
		fn := loader.Func{
			Name:     name,
			TextSize: uint32(size),
			Pcsp:     &loader.Pcdata{{PC: uint32(size), Val: 0}},
			Pcfile:   &loader.Pcdata{{PC: uint32(size), Val: 0}},
			Pcline:   &t,
			PcUnsafePoint: &loader.Pcdata{
				{PC: uint32(size), Val: loader.PCDATA_UnsafePointUnsafe},
			},
			PcStackMapIndex: &loader.Pcdata{{PC: uint32(size), Val: 0}},
		}
		out := loader.Load(text, []loader.Func{fn}, "verif."+name, []string{"verif_pcline.go"})
		entry := **(**uintptr)(unsafe.Pointer(&out[0]))
		res := make([]string, len(probes))
		for i, p := range probes {
			if p >= uint64(size) {
				res[i] = "x"
				continue
			}
			pc := entry + uintptr(p)
			f := runtime.FuncForPC(pc)
			if f == nil || f.Name() != name {
				res[i] = "nofunc"
				continue
			}
			_, line := f.FileLine(pc)
			res[i] = strconv.Itoa(line)
		}
		return "sonic=" + csvOr(res)
	})

	registerOp("loadone", func(a []string) string {
		size, err := strconv.Atoi(a[0])
		if err != nil || size < 1 || size > 1<<20 {
			return "sonic=unsupported"
		}
		probes := parseProbes(a[1])
		name := "verif_loadone_" + strconv.FormatUint(atomic.AddUint64(&loadSeq, 1), 10)
		ld := loader.Loader{Name: "verif.jit.", File: "verif_loadone.go", Options: loader.Options{NoPreempt: true}}
		fn := ld.LoadOne(retText(size), name, 0, 8, []bool{true}, []bool{}, loader.Pcdata{{PC: uint32(size), Val: 0}})
		entry := **(**uintptr)(unsafe.Pointer(&fn))
		res := make([]string, len(probes))
		for i, p := range probes {
			if p >= uint64(size) {
				res[i] = "x"
				continue
			}
			pc := entry + uintptr(p)
			fi := rtFindfunc(pc)
			if fi.fn == nil {
				res[i] = "nofunc"
				continue
			}
			up, _ := rtPcdatavalue2(fi, 0, pc)  // abi.PCDATA_UnsafePoint
			smi, _ := rtPcdatavalue2(fi, 1, pc) // abi.PCDATA_StackMapIndex
			res[i] = fmt.Sprintf("%d:%d", up, smi)
		}
		return "sonic=" + csvOr(res)
	})
}
