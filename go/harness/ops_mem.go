package main

// Work package `mem` (C05 placement independence / no over-read, C13 SIMD level).
//
//   place <api> <doc hex> <offset> <tail hex>
//       calls the public entry point `api` on the same bytes
//         (i)   on the Go heap                                            -> sonic=
//         (ii)  inside an mmap'ed arena so that the input ends `offset`
//               bytes before a PROT_NONE page (offset 0 = ends exactly at
//               the edge); the gap is filled with the tail bytes         -> guard=
//         (iii) in the middle of mapped memory, directly followed by the
//               tail bytes (a plausible continuation)                    -> tail=
//         (iv)  starting `offset` bytes behind a PROT_NONE page (reads in
//               front of the input fault), followed by the tail bytes     -> pre=
//       a native over-read in (ii) is a fault: that placement answers
//       `PANIC.runtime_error:_invalid_memory_address…` (SetPanicOnFault); with VERIF_MEM_HARDFAULT=1
//       it is `fatal error: fault`, the worker dies and the runner records sonic=CRASH.
//   plain <api> <arg hex>
//       heap only (C13: the same line is run under SONIC_MODE=auto and noavx2).
//
// Every answer carries mode=avx2|sse (what internal/cpu decides from CPUID and
// SONIC_MODE, recomputed here from the same two inputs).

import (
	"encoding/hex"
	"encoding/json"
	"fmt"
	"math"
	"os"
	"reflect"
	"runtime/debug"
	"strconv"
	"strings"
	"syscall"
	"unsafe"

	"github.com/bytedance/sonic"
	"github.com/bytedance/sonic/ast"
	"github.com/bytedance/sonic/decoder"
	"github.com/bytedance/sonic/encoder"
	"github.com/bytedance/sonic/unquote"
	"github.com/bytedance/sonic/utf8"
	"github.com/klauspost/cpuid/v2"
)

const (
	memPage   = 4096
	memPages  = 24 // data pages in front of the guard page
	memMaxDoc = (memPages - 4) * memPage
)

var (
	memFront     []byte // one PROT_NONE page followed by memPages*memPage bytes RW (this slice = the RW part)
	memArena     []byte // memPages*memPage bytes RW followed by one PROT_NONE page
	memMode      string
	memHardFault = os.Getenv("VERIF_MEM_HARDFAULT") != ""
)

func memInit() {
	if memArena != nil {
		return
	}
	total := (memPages + 1) * memPage
	b, err := syscall.Mmap(-1, 0, total, syscall.PROT_READ|syscall.PROT_WRITE, syscall.MAP_ANON|syscall.MAP_PRIVATE)
	if err != nil {
		panic("mmap: " + err.Error())
	}
	if err := syscall.Mprotect(b[memPages*memPage:], syscall.PROT_NONE); err != nil {
		panic("mprotect: " + err.Error())
	}
	memArena = b[:memPages*memPage]
	f, err := syscall.Mmap(-1, 0, total, syscall.PROT_READ|syscall.PROT_WRITE, syscall.MAP_ANON|syscall.MAP_PRIVATE)
	if err != nil {
		panic("mmap: " + err.Error())
	}
	if err := syscall.Mprotect(f[:memPage], syscall.PROT_NONE); err != nil {
		panic("mprotect: " + err.Error())
	}
	memFront = f[memPage:]
}

// memPlaceFront: the input starts `off` bytes behind a PROT_NONE page (offset 0 = its first byte is the first
// mapped byte: a load in front of the input faults); the gap holds a hostile pattern, the continuation follows.
func memPlaceFront(doc []byte, off int, after []byte) (string, []byte) {
	for i := 0; i < off; i++ {
		memFront[i] = memPrefix[(off-i)%len(memPrefix)]
	}
	copy(memFront[off:], doc)
	end := off + len(doc)
	for i := end; i < end+256; i++ {
		if len(after) == 0 {
			memFront[i] = 0
		} else {
			memFront[i] = after[(i-end)%len(after)]
		}
	}
	if len(doc) == 0 {
		p := unsafe.Pointer(&memFront[off])
		return memMkString(p, 0), unsafe.Slice((*byte)(p), 0)
	}
	p := &memFront[off]
	return memMkString(unsafe.Pointer(p), len(doc)), unsafe.Slice(p, len(doc))[:len(doc):len(doc)]
}

func memSimdMode() string {
	if memMode != "" {
		return memMode
	}
	has := cpuid.CPU.Has(cpuid.AVX2)
	switch os.Getenv("SONIC_MODE") {
	case "noavx", "noavx2":
		has = false
	}
	if has {
		memMode = "avx2"
	} else {
		memMode = "sse"
	}
	return memMode
}

// hostile bytes in front of every placed input
var memPrefix = []byte("\\\"[{,: 0.5e1]}\"\\")

// memPlaceAt copies doc so that it starts at arena offset `start`, writes `after`
// cyclically into [start+len(doc), limit) and a hostile pattern into the 64 bytes
// in front.  Returns views (no copies) of exactly len(doc) bytes.
func memPlaceAt(doc []byte, start, limit int, after []byte) (string, []byte) {
	for i := 1; i <= 64 && start-i >= 0; i++ {
		memArena[start-i] = memPrefix[i%len(memPrefix)]
	}
	copy(memArena[start:], doc)
	end := start + len(doc)
	for i := end; i < limit; i++ {
		if len(after) == 0 {
			memArena[i] = 0
		} else if i-end < len(after) {
			memArena[i] = after[i-end]
		} else {
			// beyond the tail: keep on repeating it (still a plausible continuation)
			memArena[i] = after[(i-end)%len(after)]
		}
	}
	if len(doc) == 0 {
		// a zero-length view whose data pointer still lies at the chosen address
		p := unsafe.Pointer(&memArena[start-1])
		p = unsafe.Add(p, 1)
		return memMkString(p, 0), unsafe.Slice((*byte)(p), 0)
	}
	p := &memArena[start]
	return memMkString(unsafe.Pointer(p), len(doc)), unsafe.Slice(p, len(doc))[:len(doc):len(doc)]
}

// memHeapCopy puts doc into a fresh heap object that is 64 zero bytes longer than the input and returns views of
// exactly len(doc) bytes: an ordinary heap string, but what lies behind it is known (zeroes) instead of whatever
// the allocator left in the size-class slot - the heap answer of a case is then reproducible.
func memHeapCopy(doc []byte) (string, []byte) {
	buf := make([]byte, len(doc)+64)
	copy(buf, doc)
	if len(doc) == 0 {
		return "", buf[:0:0]
	}
	return memMkString(unsafe.Pointer(&buf[0]), len(doc)), buf[:len(doc):len(doc)]
}

// memMkString builds a string header pointing at p (go.mod says go1.18: no unsafe.String)
func memMkString(p unsafe.Pointer, n int) string {
	h := struct {
		p unsafe.Pointer
		n int
	}{p, n}
	return *(*string)(unsafe.Pointer(&h))
}

func memErrCanon(err error) string {
	if err == nil {
		return "ok"
	}
	switch e := err.(type) {
	case decoder.SyntaxError:
		return fmt.Sprintf("syntax.%d@%d", int(e.Code), e.Pos)
	case *decoder.SyntaxError:
		return fmt.Sprintf("syntax.%d@%d", int(e.Code), e.Pos)
	case *decoder.MismatchTypeError:
		return fmt.Sprintf("mismatch@%d", e.Pos)
	case decoder.MismatchTypeError:
		return fmt.Sprintf("mismatch@%d", e.Pos)
	case ast.SyntaxError:
		return fmt.Sprintf("astsyntax.%d@%d", int(e.Code), e.Pos)
	case *ast.SyntaxError:
		return fmt.Sprintf("astsyntax.%d@%d", int(e.Code), e.Pos)
	}
	if err == ast.ErrNotExist {
		return "notexist"
	}
	t := reflect.TypeOf(err).String()
	return "other." + strings.Map(func(r rune) rune {
		if r == '\t' || r == ' ' || r == '=' {
			return '_'
		}
		return r
	}, t)
}

// canonical dump of a decoded value: std encoding/json prints maps sorted and floats
// in shortest form (injective on bit patterns apart from NaN, which JSON cannot produce);
// float64 at top level additionally as bits so that -0 / +0 are told apart.
func memValCanon(v interface{}) string {
	b, err := json.Marshal(v)
	if err != nil {
		return "unprintable"
	}
	return hex.EncodeToString(b) + memSigns(v)
}

// memSigns lists the sign bits of zero floats inside v (json.Marshal prints -0 as "-0"
// already; this keeps the distinction explicit and independent of the printer)
func memSigns(v interface{}) string {
	n := 0
	var walk func(x interface{})
	walk = func(x interface{}) {
		switch t := x.(type) {
		case float64:
			if t == 0 && math.Signbit(t) {
				n++
			}
		case float32:
			if t == 0 && math.Signbit(float64(t)) {
				n++
			}
		case []interface{}:
			for _, e := range t {
				walk(e)
			}
		case map[string]interface{}:
			for _, e := range t {
				walk(e)
			}
		}
	}
	walk(v)
	if n == 0 {
		return ""
	}
	return ".negzero" + strconv.Itoa(n)
}

type memInner struct {
	X int8     `json:"x"`
	Y *float32 `json:"y"`
}

type memStruct struct {
	A int                    `json:"a"`
	B string                 `json:"b"`
	C []float64              `json:"c"`
	D map[string]interface{} `json:"d"`
	E *memInner              `json:"e"`
	F json.RawMessage        `json:"f"`
	G json.Number            `json:"g"`
	H bool                   `json:"h"`
	I uint64                 `json:"i,string"`
	J []byte                 `json:"j"`
}

func memUnmInto(cfg sonic.API, s string, into interface{}) string {
	err := cfg.UnmarshalFromString(s, into)
	return memErrCanon(err) + ":" + memValCanon(reflect.ValueOf(into).Elem().Interface())
}

func memNodeCanon(n ast.Node, err error) string {
	if err != nil {
		return memErrCanon(err)
	}
	raw, err := n.Raw()
	if err != nil {
		return "rawerr." + memErrCanon(err)
	}
	return "ok:" + hexArg([]byte(raw))
}

type memEncVal struct {
	Name string                 `json:"name"`
	Data []byte                 `json:"data"`
	F    float64                `json:"f"`
	N    []interface{}          `json:"n"`
	M    map[string]interface{} `json:"m"`
	P    *[]byte                `json:"p"`
}

var memEncOpts = []encoder.Options{0, encoder.EscapeHTML, encoder.SortMapKeys, encoder.NoEncoderNewline,
	encoder.EscapeHTML | encoder.SortMapKeys | encoder.CompactMarshaler, encoder.ValidateString}

// memEncInto: encoder.EncodeInto(&buf, v, opts) into a CALLER-SUPPLIED buffer of a chosen capacity (the generated
// code keeps the live capacity in a register next to the arguments of the native subroutines, so a capacity that
// is not a multiple of 8 is an input of its own).  arg = cap (2 bytes, big endian) | option selector | payload.
// The same value is then encoded a second time into the same (now possibly regrown) buffer, and once through the
// pooled-buffer entry point; all three outputs are part of the answer.
func memEncInto(api string, arg []byte) string {
	if len(arg) < 3 {
		return "badarg"
	}
	capacity := int(arg[0])<<8 | int(arg[1])
	opts := memEncOpts[int(arg[2])%len(memEncOpts)]
	payload := append([]byte{}, arg[3:]...)
	var v interface{}
	if api == "encinto_bytes" {
		v = payload
	} else {
		half := payload[:len(payload)/2]
		v = &memEncVal{Name: string(payload), Data: payload, F: float64(len(payload)) / 7,
			N: []interface{}{half, string(half), 1.5, nil, []interface{}{payload}},
			M: map[string]interface{}{"b": payload}, P: &half} // one key: map order is random without SortMapKeys
	}
	buf := make([]byte, 0, capacity)
	err := encoder.EncodeInto(&buf, v, opts)
	first := append([]byte{}, buf...)
	n1 := len(buf)
	err2 := encoder.EncodeInto(&buf, v, opts)
	second := append([]byte{}, buf[n1:]...)
	third, err3 := encoder.Encode(v, opts)
	return memErrCanon(err) + ":" + hexArg(first) + ":" + memErrCanon(err2) + ":" + hexArg(second) + ":" + memErrCanon(err3) + ":" + hexArg(third)
}

// memCallAPI runs one public entry point on the given view of the input.
func memCallAPI(api string, s string, b []byte) string {
	switch api {
	case "valid":
		return b01(sonic.Valid(b))
	case "validstd":
		return b01(sonic.ConfigStd.Valid(b))
	case "skip":
		st, end := decoder.Skip(b)
		return itoa(st) + "," + itoa(end)
	case "get":
		return memNodeCanon(sonic.GetFromString(s))
	case "getf":
		return memNodeCanon(sonic.GetWithOptions(b, ast.SearchOptions{}))
	case "getk":
		return memNodeCanon(sonic.GetFromString(s, "a"))
	case "getfk":
		return memNodeCanon(sonic.GetWithOptions(b, ast.SearchOptions{}, "a"))
	case "geti":
		return memNodeCanon(sonic.GetFromString(s, 1))
	case "getfi":
		return memNodeCanon(sonic.GetWithOptions(b, ast.SearchOptions{}, 1))
	case "getki":
		return memNodeCanon(sonic.GetFromString(s, "a", 0))
	case "unm_any":
		var v interface{}
		return memUnmInto(sonic.ConfigDefault, s, &v)
	case "unm_anystd":
		var v interface{}
		return memUnmInto(sonic.ConfigStd, s, &v)
	case "unm_anynum":
		var v interface{}
		return memUnmInto(memCfgNum, s, &v)
	case "unm_int":
		var v int
		return memUnmInto(sonic.ConfigDefault, s, &v)
	case "unm_i8":
		var v int8
		return memUnmInto(sonic.ConfigDefault, s, &v)
	case "unm_u64":
		var v uint64
		return memUnmInto(sonic.ConfigDefault, s, &v)
	case "unm_f64":
		var v float64
		err := sonic.ConfigDefault.UnmarshalFromString(s, &v)
		return memErrCanon(err) + ":" + strconv.FormatUint(math.Float64bits(v), 16)
	case "unm_f32":
		var v float32
		err := sonic.ConfigDefault.UnmarshalFromString(s, &v)
		return memErrCanon(err) + ":" + strconv.FormatUint(uint64(math.Float32bits(v)), 16)
	case "unm_num":
		var v json.Number
		return memUnmInto(sonic.ConfigDefault, s, &v)
	case "unm_str":
		var v string
		return memUnmInto(sonic.ConfigDefault, s, &v)
	case "unm_strstd":
		var v string
		return memUnmInto(sonic.ConfigStd, s, &v)
	case "unm_raw":
		var v json.RawMessage
		err := sonic.ConfigDefault.UnmarshalFromString(s, &v)
		return memErrCanon(err) + ":" + hexArg(v)
	case "unm_sl":
		var v []interface{}
		return memUnmInto(sonic.ConfigDefault, s, &v)
	case "unm_ints":
		var v []int
		return memUnmInto(sonic.ConfigDefault, s, &v)
	case "unm_map":
		var v map[string]interface{}
		return memUnmInto(sonic.ConfigDefault, s, &v)
	// fixed-size Go arrays shorter than the JSON array: the JIT decoder's _OP_array_skip calls the native
	// skip_array stub (a slot of the dispatch table that nothing else reaches)
	case "unm_arr2":
		var v [2]int
		return memUnmInto(sonic.ConfigDefault, s, &v)
	case "unm_arr1s":
		var v [1]string
		return memUnmInto(sonic.ConfigDefault, s, &v)
	case "unm_arr0":
		var v [0]interface{}
		err := sonic.ConfigDefault.UnmarshalFromString(s, &v)
		return memErrCanon(err)
	case "unm_starr":
		var v struct {
			A [2]float64        `json:"a"`
			B int               `json:"b"`
			C [1][1]interface{} `json:"c"`
		}
		return memUnmInto(sonic.ConfigDefault, s, &v)
	case "unm_struct":
		var v memStruct
		return memUnmInto(sonic.ConfigDefault, s, &v)
	case "unm_structstd":
		var v memStruct
		return memUnmInto(sonic.ConfigStd, s, &v)
	case "unm_bytes":
		// []byte entry point (Unmarshal, not UnmarshalFromString)
		var v interface{}
		err := sonic.Unmarshal(b, &v)
		return memErrCanon(err) + ":" + memValCanon(v)
	case "quote":
		return hexArg([]byte(encoder.Quote(s)))
	case "unquote":
		r, e := unquote.String(s)
		return itoa(int(e)) + ":" + hexArg([]byte(r))
	case "html":
		return hexArg(encoder.HTMLEscape(nil, b))
	case "utf8v":
		return b01(utf8.Validate(b))
	case "utf8vs":
		return b01(utf8.ValidateString(s))
	case "utf8c":
		return hexArg(utf8.CorrectWith(nil, b, "�"))
	case "mar_str":
		o, err := sonic.ConfigDefault.Marshal(s)
		return memErrCanon(err) + ":" + hexArg(o)
	case "mar_strstd":
		o, err := sonic.ConfigStd.Marshal(s)
		return memErrCanon(err) + ":" + hexArg(o)
	case "mar_raw":
		o, err := sonic.ConfigStd.Marshal(json.RawMessage(b))
		return memErrCanon(err) + ":" + hexArg(o)
	case "mar_num":
		o, err := sonic.ConfigStd.Marshal(json.Number(s))
		return memErrCanon(err) + ":" + hexArg(o)
	case "node_load":
		n, err := sonic.GetFromString(s)
		if err != nil {
			return memErrCanon(err)
		}
		if err := n.LoadAll(); err != nil {
			return "load." + memErrCanon(err)
		}
		o, err := n.MarshalJSON()
		return memErrCanon(err) + ":" + hexArg(o)
	case "node_iface":
		n := ast.NewRaw(s)
		v, err := n.Interface()
		return memErrCanon(err) + ":" + memValCanon(v)
	case "ast_loads":
		p, v, err := ast.Loads(s)
		return memErrCanon(err) + ":" + itoa(p) + ":" + memValCanon(v)
	// Go-side scanners of the ast package (ast/decode.go skipBlank & co. walk the input with unsafe pointer loads)
	case "ast_parse":
		ps := ast.NewParser(s)
		n, e := ps.Parse()
		if e != 0 {
			return "perr." + itoa(int(e)) + "@" + itoa(ps.Pos())
		}
		o, err := n.MarshalJSON()
		return "pos" + itoa(ps.Pos()) + ":" + memErrCanon(err) + ":" + hexArg(o)
	case "ast_parseobj":
		ps := ast.NewParserObj(s)
		n, e := ps.Parse()
		if e != 0 {
			return "perr." + itoa(int(e)) + "@" + itoa(ps.Pos())
		}
		v, err := n.Interface()
		return "pos" + itoa(ps.Pos()) + ":" + memErrCanon(err) + ":" + memValCanon(v)
	case "node_loadall":
		n := ast.NewRaw(s)
		if err := n.LoadAll(); err != nil {
			return "load." + memErrCanon(err)
		}
		o, err := n.MarshalJSON()
		return memErrCanon(err) + ":" + hexArg(o)
	case "node_getk":
		n := ast.NewRaw(s)
		c := n.Get("a")
		r, err := c.Raw()
		l, _ := n.Len()
		return memErrCanon(err) + ":" + hexArg([]byte(r)) + ":" + itoa(l)
	case "node_idx":
		n := ast.NewRaw(s)
		c := n.Index(1)
		r, err := c.Raw()
		l, _ := n.Len()
		return memErrCanon(err) + ":" + hexArg([]byte(r)) + ":" + itoa(l)
	case "node_each":
		n := ast.NewRaw(s)
		cnt := 0
		err := n.ForEach(func(path ast.Sequence, node *ast.Node) bool { cnt++; return true })
		return memErrCanon(err) + ":" + itoa(cnt)
	case "encinto_bytes", "encinto_any":
		return memEncInto(api, b)
	case "ftoa64":
		if len(b) != 8 {
			return "badarg"
		}
		var u uint64
		for _, c := range b {
			u = u<<8 | uint64(c)
		}
		o, err := sonic.Marshal(math.Float64frombits(u))
		return memErrCanon(err) + ":" + hexArg(o)
	case "ftoa32":
		if len(b) != 4 {
			return "badarg"
		}
		var u uint32
		for _, c := range b {
			u = u<<8 | uint32(c)
		}
		o, err := sonic.Marshal(math.Float32frombits(u))
		return memErrCanon(err) + ":" + hexArg(o)
	case "itoa":
		if len(b) != 8 {
			return "badarg"
		}
		var u uint64
		for _, c := range b {
			u = u<<8 | uint64(c)
		}
		o, err := sonic.Marshal(int64(u))
		o2, err2 := sonic.Marshal(u)
		return memErrCanon(err) + ":" + hexArg(o) + ":" + memErrCanon(err2) + ":" + hexArg(o2)
	}
	return "unsupported"
}

var memCfgNum = sonic.Config{UseNumber: true}.Froze()

// apis whose argument is not a byte string placed in memory
func memScalarAPI(api string) bool {
	return api == "ftoa64" || api == "ftoa32" || api == "itoa" || api == "encinto_bytes" || api == "encinto_any"
}

func memGuarded(api string, s string, b []byte) (res string) {
	// A load of an unmapped byte inside the native code is SIGSEGV at a non-nil address: by default the Go runtime
	// throws (`fatal error: fault`, the worker dies and the runner records sonic=CRASH).  SetPanicOnFault turns it
	// into a run-time panic that is recovered here, so the case still reports its other placements and the worker
	// lives on: the faulting placement answers `PANIC.runtime_error:_invalid_memory_address…`.
	// VERIF_MEM_HARDFAULT=1 restores the fatal behaviour.
	if !memHardFault {
		defer debug.SetPanicOnFault(debug.SetPanicOnFault(true))
	}
	defer func() {
		if r := recover(); r != nil {
			msg := fmt.Sprint(r)
			if len(msg) > 60 {
				msg = msg[:60]
			}
			res = "PANIC." + strings.Map(func(r rune) rune {
				if r == '\t' || r == '\n' || r == '\r' || r == ' ' || r == '=' {
					return '_'
				}
				return r
			}, msg)
		}
	}()
	return memCallAPI(api, s, b)
}

func init() {
	registerOp("place", func(a []string) string {
		if len(a) < 4 {
			return "sonic=badcase"
		}
		api := a[0]
		doc := unhexArg(a[1])
		off, _ := strconv.Atoi(a[2])
		tail := unhexArg(a[3])
		if len(doc) > memMaxDoc || off < 0 || off > 2048 || memScalarAPI(api) {
			return "sonic=unsupported"
		}
		memInit()
		// (i) heap: a fresh Go-heap object, so that nothing aliases the arena
		hs, hb := memHeapCopy(doc)
		heap := memGuarded(api, hs, hb)
		if heap == "unsupported" {
			return "sonic=unsupported"
		}
		// (iii) followed by the continuation, in the middle of mapped memory; the start
		// keeps the alignment (mod 64) that placement (ii) will have
		edge := len(memArena)
		gstart := edge - off - len(doc)
		tstart := 2*memPage + (gstart & 63)
		ts, tb := memPlaceAt(doc, tstart, tstart+len(doc)+256, tail)
		tl := memGuarded(api, ts, tb)
		// (ii) ending `off` bytes before the PROT_NONE page
		gs, gb := memPlaceAt(doc, gstart, edge, tail)
		g := memGuarded(api, gs, gb)
		// (iv) starting `off` bytes behind a PROT_NONE page (a read in front of the input faults)
		fs, fb := memPlaceFront(doc, off, tail)
		pre := memGuarded(api, fs, fb)
		return "sonic=" + heap + "\tguard=" + g + "\ttail=" + tl + "\tpre=" + pre + "\tmode=" + memSimdMode()
	})
	registerOp("plain", func(a []string) string {
		if len(a) < 2 {
			return "sonic=badcase"
		}
		doc := unhexArg(a[1])
		hs, hb := memHeapCopy(doc)
		return "sonic=" + memGuarded(a[0], hs, hb) + "\tmode=" + memSimdMode()
	})
}
